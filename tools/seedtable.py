#!/usr/bin/env python3
"""Regenerates the table of DESIGN.md §8.4 from seeded/*/meta.json (verdicts written by
tools/seedmatrix.py).  Replaces the lines from the table header up to (not including) the
line starting with "Totals at the time of writing".
usage: seedtable.py [--print]"""
import glob, json, os, re, sys

def first_sentence(s):
    s = ' '.join((s or '').split())
    m = re.search(r'^(.*?[.:;])(\s|$)', s)
    t = m.group(1) if m else s
    return t[:170].replace('|', '/')

def main():
    rows, caught, n = [], 0, 0
    for d in sorted(glob.glob('/verif/seeded/*/')):
        mp = d + 'meta.json'
        if not os.path.exists(mp):
            continue
        m = json.load(open(mp))
        sid, prop = m['id'], m['property']
        n += 1
        rules = set()
        for p, v in m.get('checks', {}).items():
            if v['exit'] == 1:
                for r in v['reports']:
                    for x in re.findall(r'(C\d\d/R\d+)', r):
                        if x.startswith(p):
                            rules.add(x)
        own = m.get('checks', {}).get(prop, {}).get('exit')
        cb = m.get('caught_by', [])
        note = m.get('note_design', '')
        if cb:
            caught += 1
            if prop not in cb:
                note = note or ('own check ' + ('inconclusive' if own == 2 else 'silent') + '; caught through ' + ', '.join(cb))
        else:
            note = note or ('not caught; own check ' + ('inconclusive (exit 2)' if own == 2 else 'silent'))
        rows.append(f"| {sid} | {first_sentence(m.get('breaks'))} | {', '.join(sorted(rules)) or '—'} | {note} |")
    table = ['| seed | change (first sentence of the author\'s description) | reported by | note |', '|---|---|---|---|'] + rows
    if '--print' in sys.argv:
        print('\n'.join(table)); print(n, 'seeds,', caught, 'caught'); return
    src = open('/verif/DESIGN.md').read().split('\n')
    a = next(i for i, l in enumerate(src) if l.startswith('| seed | change'))
    b = next(i for i, l in enumerate(src) if l.startswith('Totals at the time of writing'))
    src[a:b] = table + ['']
    open('/verif/DESIGN.md', 'w').write('\n'.join(src))
    print(n, 'seeds,', caught, 'caught by at least one check')

main()
