#!/usr/bin/env python3
"""Runs every claimed check against every seeded change (in a scratch worktree of /repo,
never in /repo itself) and rewrites /verif/seeded/MATRIX.md and each meta.json's verdicts.
usage: seedmatrix.py [seed-id ...]"""
import json, os, re, shutil, subprocess, sys, tempfile, glob

WT = os.environ.get('SEEDMATRIX_WT', '/tmp/seedmatrix-wt')

def main():
    want = set(sys.argv[1:])
    claims = json.load(open('/verif/tools/claims.json'))
    props = sorted(p for p in claims if claims[p].get('claimed'))
    subprocess.run(['git', '-C', '/repo', 'worktree', 'remove', '--force', WT], capture_output=True)
    subprocess.run(['git', '-C', '/repo', 'worktree', 'add', '-q', WT, 'HEAD'], check=True)
    rows = []
    try:
        for d in sorted(glob.glob('/verif/seeded/*/')):
            sid = os.path.basename(d.rstrip('/'))
            mp = d + 'meta.json'
            if not os.path.exists(mp):
                continue
            meta = json.load(open(mp))
            if want and sid not in want:
                rows.append((sid, meta)); continue
            subprocess.run(['git', '-C', WT, 'checkout', '-q', '--', '.'], check=True)
            if subprocess.run(['git', '-C', WT, 'apply', d + 'patch.diff']).returncode != 0:
                print('patch does not apply any more:', sid); meta['stale'] = True
                json.dump(meta, open(mp, 'w'), indent=1); rows.append((sid, meta)); continue
            verdicts = {}
            for pid in props:
                t = tempfile.mkdtemp(prefix='seedv')
                os.makedirs(t + '/evidence'); shutil.copy('/verif/known-findings.json', t)
                r = subprocess.run(['/verif/bin/siotcheck', '-prop', pid], env=dict(os.environ, SIOT_REPO=WT, SIOT_VERIF=t), capture_output=True, text=True)
                lines = [l for l in r.stdout.splitlines() if re.search(r'C\d\d/R\d', l) and not l.startswith('rule ')] + [l for l in r.stdout.splitlines() if 'CHECKER-ERROR' in l]
                verdicts[pid] = {'exit': r.returncode, 'reports': [l[:300] for l in lines[:4]]}
                shutil.rmtree(t)
            meta['checks'] = verdicts
            meta['caught_by'] = [p for p, v in verdicts.items() if v['exit'] == 1]
            meta['inconclusive'] = [p for p, v in verdicts.items() if v['exit'] == 2]
            json.dump(meta, open(mp, 'w'), indent=1)
            own = verdicts.get(meta['property'], {}).get('exit')
            print(sid, 'own', meta['property'], '->', own, '| caught by', meta['caught_by'], '| exit2', meta['inconclusive'])
            rows.append((sid, meta))
    finally:
        subprocess.run(['git', '-C', '/repo', 'worktree', 'remove', '--force', WT], capture_output=True)
    with open('/verif/seeded/MATRIX.md', 'w') as f:
        f.write('# Seeded breaking changes vs. checks\n\nEach change was written by an independent sub-agent that saw only the property text, compiles, passes the existing suite and fails its own demonstration (confirmed by tools/confirm_seed.py). Verdicts by tools/seedmatrix.py (checks run against a scratch worktree with the patch applied).\n\n')
        f.write('| seed | property | what it breaks (short) | caught by (exit 1) | own property | rule(s) reporting |\n|---|---|---|---|---|---|\n')
        for sid, meta in rows:
            own = meta.get('checks', {}).get(meta['property'], {})
            rules = sorted(set(re.findall(r'C\d\d/R\d+', ' '.join(own.get('reports', [])))))
            short = (meta.get('breaks') or '')[:140].replace('|', '/').replace('\n', ' ')
            f.write(f"| {sid} | {meta['property']} | {short}… | {', '.join(meta.get('caught_by', [])) or '—'} | {'caught' if own.get('exit') == 1 else ('inconclusive (exit 2)' if own.get('exit') == 2 else 'MISSED')} | {', '.join(rules)} |\n")

main()
