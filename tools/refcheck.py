#!/usr/bin/env python3
"""Files a behaviour-preserving refactoring written by an independent sub-agent and runs
every claimed check against it (in a scratch worktree of /repo, never /repo itself).

usage: refcheck.py <deliverable dir with patch.diff+meta.json> <benign id e.g. C01-r1> <property>

A check that exits 1 on a behaviour-preserving change is a FALSE ALARM (to be corrected in the
machinery); exit 2 is an inconclusive run (anchors lost / undecided) and is recorded."""
import json, os, re, shutil, subprocess, sys, tempfile

ENV = dict(os.environ, GOFLAGS='-mod=mod', GOPROXY='off', GOSUMDB='off', GOTOOLCHAIN='local')
WT = '/tmp/refcheck-wt'

def main():
    src, bid, prop = sys.argv[1:4]
    patch = os.path.join(src, 'patch.diff')
    meta = json.load(open(os.path.join(src, 'meta.json')))
    subprocess.run(['git', '-C', '/repo', 'worktree', 'remove', '--force', WT], capture_output=True)
    subprocess.run(['git', '-C', '/repo', 'worktree', 'add', '-q', WT, 'HEAD'], check=True)
    try:
        if subprocess.run(['git', '-C', WT, 'apply', patch]).returncode != 0:
            print(bid, 'patch does not apply'); return 2
        files = [l[6:].strip() for l in open(patch) if l.startswith('+++ b/')]
        pkgs = sorted({'./' + os.path.dirname(f) for f in files})
        r = subprocess.run(['unshare', '-rn', 'sh', '-c', 'ip link set lo up 2>/dev/null; go build ./... && go test -vet=off -count=1 -p 1 ' + ' '.join(pkgs)],
                           cwd=WT, env=ENV, capture_output=True, text=True, timeout=1500)
        built = r.returncode == 0
        claims = json.load(open('/verif/tools/claims.json'))
        verdicts = {}
        for pid in sorted(claims):
            if not claims[pid].get('claimed'):
                continue
            t = tempfile.mkdtemp(prefix='refv')
            os.makedirs(t + '/evidence'); shutil.copy('/verif/known-findings.json', t)
            rr = subprocess.run(['/verif/bin/siotcheck', '-prop', pid], env=dict(os.environ, SIOT_REPO=WT, SIOT_VERIF=t), capture_output=True, text=True)
            lines = [l for l in rr.stdout.splitlines() if re.search(r'C\d\d/R\d', l) and not l.startswith('rule ')] + [l for l in rr.stdout.splitlines() if 'CHECKER-ERROR' in l]
            verdicts[pid] = {'exit': rr.returncode, 'reports': [l[:400] for l in lines[:5]]}
            shutil.rmtree(t)
        alarms = [p for p, v in verdicts.items() if v['exit'] == 1]
        incon = [p for p, v in verdicts.items() if v['exit'] == 2]
        dst = '/verif/benign/' + bid
        os.makedirs(dst, exist_ok=True)
        shutil.copy(patch, dst + '/patch.diff')
        json.dump({'id': bid, 'property': prop, 'what': meta.get('what'), 'why_equivalent': meta.get('why_equivalent'), 'files': files,
                   'author_ran': meta.get('ran'), 'build_and_tests_pass': built, 'tested_packages': pkgs,
                   'alarms': alarms, 'inconclusive': incon, 'checks': {p: v for p, v in verdicts.items() if v['exit'] != 0}},
                  open(dst + '/meta.json', 'w'), indent=1)
        print(bid, 'build+tests', 'ok' if built else 'FAIL(!)', '| ALARMS', alarms, '| inconclusive', incon)
        for p in alarms + incon:
            for l in verdicts[p]['reports'][:2]:
                print('     ', p, l[:260])
        return 0
    finally:
        subprocess.run(['git', '-C', '/repo', 'worktree', 'remove', '--force', WT], capture_output=True)

sys.exit(main())
