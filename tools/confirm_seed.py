#!/usr/bin/env python3
"""Confirms a seeded breaking change and files it under /verif/seeded/<id>/.

usage: confirm_seed.py <deliverable dir> <scratch worktree> <seed id e.g. C01-a> <property id>

Steps (all in the scratch worktree, never in /repo):
  1. clean tree + demonstration test  -> must PASS
  2. patch applied + demonstration    -> must FAIL
  3. patch applied, demo removed: go build ./... and the existing tests of the touched
     packages and their main dependants -> must PASS
  4. every claimed check of /verif is run against the patched worktree (SIOT_REPO) and the
     verdicts recorded (which checks catch the change).
Network namespaces (unshare -rn) isolate the fixed test ports from other jobs.
"""
import json, os, re, shutil, subprocess, sys, glob, tempfile

ENV = dict(os.environ, GOFLAGS='-mod=mod', GOPROXY='off', GOSUMDB='off', GOTOOLCHAIN='local')

def sh(cmd, cwd, timeout=1500):
    r = subprocess.run(['unshare', '-rn', 'sh', '-c', 'ip link set lo up 2>/dev/null; ' + cmd], cwd=cwd, env=ENV,
                       capture_output=True, text=True, timeout=timeout)
    return r.returncode, (r.stdout + r.stderr)

def main():
    src, wt, sid, prop = sys.argv[1:5]
    meta = json.load(open(os.path.join(src, 'meta.json')))
    patch = os.path.join(src, 'patch.diff')
    demos = [f for f in os.listdir(src) if f.endswith('_test.go')]
    subprocess.run(['git', '-C', wt, 'checkout', '-q', '--', '.'], check=True)
    subprocess.run(['git', '-C', wt, 'clean', '-fdq'], check=True)
    files = [l[6:].strip() for l in open(patch) if l.startswith('+++ b/')]
    pkgs = sorted({'./' + os.path.dirname(f) for f in files})
    # where do the demo files go: package clause + directory guess from demo_cmd / touched pkgs
    placed = []
    for d in demos:
        pk = re.search(r'^package (\w+)', open(os.path.join(src, d)).read(), re.M).group(1)
        pk = pk.replace('_test', '')
        target = None
        for cand in [pk] + [p[2:] for p in pkgs]:
            if os.path.isdir(os.path.join(wt, cand)) and os.path.basename(cand) == pk:
                target = cand
        if target is None:
            print('cannot place demo', d); sys.exit(2)
        shutil.copy(os.path.join(src, d), os.path.join(wt, target, d))
        placed.append(os.path.join(target, d))
    demo_pkgs = sorted({'./' + os.path.dirname(p) for p in placed})
    run = re.search(r"""-run\s+['"]?([^\s'"]+)['"]?""", meta.get('demo_cmd', ''))
    runflag = f"-run '{run.group(1)}'" if run else ''
    demo_cmd = f"go test -vet=off -count=1 -p 1 {runflag} {' '.join(demo_pkgs)}"
    log = {}
    rc, out = sh(demo_cmd, wt); log['clean_demo'] = (rc, out[-1500:])
    print('1 clean+demo  ', 'PASS' if rc == 0 else 'FAIL(!)')
    ok = rc == 0
    if subprocess.run(['git', '-C', wt, 'apply', patch]).returncode != 0:
        print('patch does not apply'); sys.exit(2)
    rc, out = sh(demo_cmd, wt); log['patched_demo'] = (rc, out[-2500:])
    print('2 patched+demo', 'FAIL (as required)' if rc != 0 else 'PASS(!)')
    ok = ok and rc != 0
    for p in placed:
        os.remove(os.path.join(wt, p))
    suite = sorted(set(pkgs + ['./store', './data', './client']))
    rc, out = sh('go build ./... && go test -vet=off -count=1 -p 1 ' + ' '.join(suite), wt); log['patched_suite'] = (rc, out[-1500:])
    if rc != 0:  # one retry: the client tests are timing sensitive under load
        rc, out = sh('go test -vet=off -count=1 -p 1 ' + ' '.join(suite), wt); log['patched_suite_retry'] = (rc, out[-1500:])
    print('3 patched suite', 'PASS' if rc == 0 else 'FAIL(!)', suite)
    ok = ok and rc == 0
    # 4 run the claimed checks against the patched worktree
    claims = json.load(open('/verif/tools/claims.json'))
    verdicts = {}
    for pid in sorted(claims):
        if not claims[pid].get('claimed'):
            continue
        d = tempfile.mkdtemp(prefix='seedv')
        os.makedirs(d + '/evidence'); shutil.copy('/verif/known-findings.json', d)
        r = subprocess.run(['/verif/bin/siotcheck', '-prop', pid], env=dict(os.environ, SIOT_REPO=wt, SIOT_VERIF=d), capture_output=True, text=True)
        lines = [l for l in r.stdout.splitlines() if re.search(r'C\d\d/R\d', l) and not l.startswith('rule ')] + [l for l in r.stdout.splitlines() if 'CHECKER-ERROR' in l]
        verdicts[pid] = {'exit': r.returncode, 'reports': [l[:300] for l in lines[:6]]}
        shutil.rmtree(d)
    caught = [p for p, v in verdicts.items() if v['exit'] == 1]
    print('4 checks: caught by', caught, '| own property', prop, '->', verdicts.get(prop, {}).get('exit'))
    subprocess.run(['git', '-C', wt, 'checkout', '-q', '--', '.'], check=True)
    subprocess.run(['git', '-C', wt, 'clean', '-fdq'], check=True)
    for f in glob.glob(wt + '/store/test.sqlite*'):
        os.remove(f)
    if not ok:
        print('NOT CONFIRMED'); json.dump(log, open('/tmp/confirm_' + sid + '.log', 'w'), indent=1); sys.exit(1)
    dst = '/verif/seeded/' + sid
    os.makedirs(dst, exist_ok=True)
    shutil.copy(patch, dst + '/patch.diff')
    for d in demos:
        shutil.copy(os.path.join(src, d), dst + '/' + d + '.txt')  # .txt: keep go tooling away
    json.dump({'id': sid, 'property': prop, 'breaks': meta.get('breaks'), 'needs': meta.get('needs'), 'files': files,
               'demo': [d + '.txt (rename to ' + d + ' inside the package directory)' for d in demos], 'demo_cmd': demo_cmd,
               'author_ran': meta.get('ran'),
               'confirmed': {'clean_demo': 'pass', 'patched_demo': 'fail', 'patched_existing_suite': 'pass', 'suite': suite,
                             'how': 'tools/confirm_seed.py in a scratch worktree of /repo at ' + subprocess.check_output(['git', '-C', wt, 'rev-parse', '--short', 'HEAD'], text=True).strip()},
               'checks': verdicts, 'caught_by': caught}, open(dst + '/meta.json', 'w'), indent=1)
    print('filed', dst)

main()
