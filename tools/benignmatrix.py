#!/usr/bin/env python3
"""Runs every claimed check against every filed behaviour-preserving refactoring
(/verif/benign/<id>/patch.diff, in a scratch worktree of /repo, never /repo itself) and rewrites
/verif/benign/MATRIX.md and each meta.json's verdicts.  A check that exits 1 on one of these is a
false alarm (to be corrected in the machinery); exit 2 is an inconclusive run.
usage: benignmatrix.py [-j N] [benign-id ...]"""
import json, os, re, shutil, subprocess, sys, tempfile, glob
from concurrent.futures import ThreadPoolExecutor

BIN = os.environ.get('SIOTCHECK', '/verif/bin/siotcheck')

def run_one(args):
    bid, d, props, idx = args
    wt = f'/tmp/benignmatrix-wt-{idx}'
    subprocess.run(['git', '-C', '/repo', 'worktree', 'remove', '--force', wt], capture_output=True)
    subprocess.run(['git', '-C', '/repo', 'worktree', 'add', '-q', '--detach', wt, 'HEAD'], check=True)
    try:
        if subprocess.run(['git', '-C', wt, 'apply', d + 'patch.diff'], capture_output=True).returncode != 0:
            return bid, None
        verdicts = {}
        for pid in props:
            t = tempfile.mkdtemp(prefix='benv')
            os.makedirs(t + '/evidence'); shutil.copy('/verif/known-findings.json', t)
            r = subprocess.run([BIN, '-prop', pid], env=dict(os.environ, SIOT_REPO=wt, SIOT_VERIF=t), capture_output=True, text=True)
            lines = [l for l in r.stdout.splitlines() if re.search(r'C\d\d/R\d', l) and not l.startswith('rule ')] + [l for l in r.stdout.splitlines() if 'CHECKER-ERROR' in l]
            verdicts[pid] = {'exit': r.returncode, 'reports': [l[:300] for l in lines[:3]]}
            shutil.rmtree(t)
        return bid, verdicts
    finally:
        subprocess.run(['git', '-C', '/repo', 'worktree', 'remove', '--force', wt], capture_output=True)

def main():
    args = sys.argv[1:]
    jobs = 4
    if args and args[0] == '-j':
        jobs = int(args[1]); args = args[2:]
    want = set(args)
    claims = json.load(open('/verif/tools/claims.json'))
    props = sorted(p for p in claims if claims[p].get('claimed'))
    todo = []
    metas = {}
    for d in sorted(glob.glob('/verif/benign/*/')):
        bid = os.path.basename(d.rstrip('/'))
        mp = d + 'meta.json'
        if not os.path.exists(mp) or not os.path.exists(d + 'patch.diff'):
            continue
        metas[bid] = json.load(open(mp))
        if not want or bid in want:
            todo.append((bid, d, props, len(todo) % jobs))
    # one worktree per worker slot: run slot-wise sequentially inside each thread
    slots = {}
    for t in todo:
        slots.setdefault(t[3], []).append(t)
    def run_slot(items):
        return [run_one(it) for it in items]
    with ThreadPoolExecutor(max_workers=jobs) as ex:
        for res in ex.map(run_slot, slots.values()):
            for bid, verdicts in res:
                meta = metas[bid]
                if verdicts is None:
                    meta['stale'] = True
                    print(bid, 'patch does not apply any more')
                else:
                    meta['alarms'] = [p for p, v in verdicts.items() if v['exit'] == 1]
                    meta['inconclusive'] = [p for p, v in verdicts.items() if v['exit'] == 2]
                    meta['checks'] = {p: v for p, v in verdicts.items() if v['exit'] != 0}
                    meta['silent'] = [p for p, v in verdicts.items() if v['exit'] == 0]
                    print(bid, 'ALARMS', meta['alarms'], '| inconclusive', meta['inconclusive'], flush=True)
                json.dump(meta, open(f'/verif/benign/{bid}/meta.json', 'w'), indent=1)
    with open('/verif/benign/MATRIX.md', 'w') as f:
        f.write('# Behaviour-preserving refactorings vs. checks\n\nEach refactoring was written by an independent sub-agent that saw only the property text (ids Cnn-rk), or by hand to vary one construct (ids Lnn-*); each builds and passes the tests of the touched packages. Verdicts by tools/benignmatrix.py: a check that exits 1 here is a false alarm; exit 2 means the check lost its anchors or could not decide (reported as CHECKER-ERROR, never as VIOLATION).\n\n')
        f.write('| refactoring | written for | what changed (short) | false alarms (exit 1) | inconclusive (exit 2) | silent |\n|---|---|---|---|---|---|\n')
        na = ni = 0
        for bid in sorted(metas):
            meta = metas[bid]
            short = (meta.get('what') or '')[:150].replace('|', '/').replace('\n', ' ')
            na += len(meta.get('alarms', [])); ni += len(meta.get('inconclusive', []))
            f.write(f"| {bid} | {meta.get('property','')} | {short}… | {', '.join(meta.get('alarms', [])) or '—'} | {', '.join(meta.get('inconclusive', [])) or '—'} | {len(meta.get('silent', []))}/20 |\n")
        f.write(f'\n{len(metas)} refactorings x 20 checks: {na} false alarms, {ni} inconclusive runs.\n')
    print('false alarms:', sum(len(m.get('alarms', [])) for m in metas.values()), 'inconclusive:', sum(len(m.get('inconclusive', [])) for m in metas.values()))

main()
