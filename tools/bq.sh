#!/bin/sh
# usage: bq.sh <benign-or-seeded dir> <props...> : apply the patch in the scratch worktree /tmp/bq-wt and run props with the lead binary
d=$1; shift
BIN=${SIOTCHECK:-/verif/bin/siotcheck-lead}
git -C /tmp/bq-wt checkout -q -- . && git -C /tmp/bq-wt clean -fdq
git -C /tmp/bq-wt apply /verif/$d/patch.diff || exit 3
for p in "$@"; do
  T=$(mktemp -d); mkdir $T/evidence; cp /verif/known-findings.json $T
  SIOT_REPO=/tmp/bq-wt SIOT_VERIF=$T $BIN -prop $p > $T/out 2>&1; e=$?
  echo "$d $p exit=$e"
  grep -E "C[0-9][0-9]/R[0-9]|CHECKER-ERROR" $T/out | grep -v "^rule " | cut -c1-330 | head -${BQ_LINES:-4}
  rm -rf $T
done
git -C /tmp/bq-wt checkout -q -- . && git -C /tmp/bq-wt clean -fdq
