#!/usr/bin/env python3
"""Regenerates /verif/MANIFEST.json from tools/claims.json (claimed checks) and properties.jsonl."""
import json
V='/verif'
props=[json.loads(l) for l in open(V+'/properties.jsonl')]
claims=json.load(open(V+'/tools/claims.json'))
checks=[]; na=[]
for p in props:
    pid=p['id']; c=claims.get(pid)
    if c and c.get('claimed'):
        checks.append({
         "property_id":pid,
         "quick_cmd":f"/verif/bin/siotcheck -prop {pid} -tier quick",
         "thorough_cmd":f"/verif/bin/siotcheck -prop {pid} -tier thorough",
         "evidence_file":f"/verif/evidence/{pid}.json",
         "replay_cmd_template":"/verif/bin/siotcheck -explain {path}",
         "engine":"siotcheck",
         "level_claimed":{"category":"other","text":c['text'],"design_ref":f"DESIGN.md §3/{pid}"},
         "level_note":c['note'],
         "technique":c['technique']})
    else:
        na.append({"property_id":pid,"reason":(c or {}).get('reason',"check under construction (see DESIGN.md §3); not yet claimed")})
m={"version":1,
 "setup_cmd":"cd /verif/checker && GOFLAGS=-mod=mod GOPROXY=off GOSUMDB=off GOTOOLCHAIN=local GOWORK=off go build -o /verif/bin/siotcheck ./cmd/siotcheck",
 "hooks":{"guard":"verif","enable":"none needed: the checker reads the unmodified source; -tags verif is part of the thorough build matrix only","baseline_off_cmd":"cd /repo && go test -vet=off -count=1 -p 1 -timeout 25m ./...","source_commits":[],"add_only":True},
 "engines":[{"name":"siotcheck","path":"/verif/checker","serves_properties":[c['property_id'] for c in checks],"kind_free_text":"repository-specific static analyser (go/packages + go/types + go/cfg), rules per property in checker/props, kernels in checker/kit; see DESIGN.md §2"}],
 "checks":checks,
 "notes":"Static analysis only: every check parses and type-checks /repo's working tree on each run and decides structural necessary conditions (level 'other'); what is not decided is stated per check in level_note and DESIGN.md §3. Exit 2 + CHECKER-ERROR = anchors lost / undecided (never a pass).",
 "not_applicable":na}
json.dump(m,open(V+'/MANIFEST.json','w'),indent=1)
print(len(checks),'claimed;',len(na),'not applicable')
