// siotcheck decides the structural clauses of properties C01–C20 of
// bminer/simpleiot by static analysis of /repo's current working tree.
package main

import (
	"flag"
	"fmt"
	"os"

	"siotcheck/kit"
	_ "siotcheck/props"
)

func main() {
	prop := flag.String("prop", "", "property id (C01…C20)")
	tier := flag.String("tier", "", "quick|thorough (default $VERIF_TIER or quick)")
	dump := flag.String("dump", "", "debug: 'cfg:<pkg>:<func>' or 'sql:<pkg>' or 'funcs:<pkg>'")
	explain := flag.String("explain", "", "print a replay file in readable form")
	sweepAll := flag.String("sweepall", "", "development aid: package prefix (e.g. store.) whose analysed functions are mutated and run against all properties")
	benignSweep := flag.String("benignsweep", "", "development aid: like -sweepall with behaviour-preserving variants; a reported violation is a false alarm")
	sweepMax := flag.Int("sweepmax", 0, "cap on the number of variants of -sweepall")
	flag.Parse()
	if *dump != "" {
		os.Exit(kit.Dump(*dump))
	}
	if *sweepAll != "" {
		os.Exit(kit.SweepAll(*sweepAll, *sweepMax, false))
	}
	if *benignSweep != "" {
		os.Exit(kit.SweepAll(*benignSweep, *sweepMax, true))
	}
	if *explain != "" {
		os.Exit(kit.Explain(*explain))
	}
	if *tier == "" {
		*tier = os.Getenv("VERIF_TIER")
	}
	if *tier != "thorough" {
		*tier = "quick"
	}
	if *prop == "" {
		fmt.Println("usage: siotcheck -prop Cxx [-tier quick|thorough]; registered:", kit.IDs())
		os.Exit(2)
	}
	os.Exit(kit.Main(*prop, *tier))
}
