package kit

import (
	"fmt"
	"go/ast"
	"go/token"
	"go/types"
	"sort"
)

// FieldMap (K5a) is the relation {(field of the input struct, field of the
// output struct)} realised by a conversion function  In -> Out  whose
// successful result is a composite literal of Out (directly, through `&`, or
// through one local variable, optionally completed by `v.F = …`
// assignments).  For every output field the value expression is traced back
// to the input fields it derives from, through conversions, one-call
// wrappers, local variables, `range` loops and element stores.
type FieldMap struct {
	F        *Func
	In       types.Object // receiver or parameter holding the input struct
	InType   *types.Named
	OutType  *types.Named
	Lit      *ast.CompositeLit
	Entries  map[*types.Var]*FieldSrc // by output field
	Order    []*types.Var
	Problems []string // shapes the extractor does not decide
}

// FieldSrc is the fmProv of one output field.
type FieldSrc struct {
	Out    *types.Var
	Expr   ast.Expr
	Fields []*types.Var // input fields the value derives from
	Steps  []FieldStep  // transforms applied, innermost first (only meaningful when len(Fields)==1)
}

// FieldStep is one transform between the input field and the output value.
type FieldStep struct {
	Kind   string       // "conv" | "call" | "method" | "addr" | "deref" | "elem" | "store" | "sub" | "expr"
	Type   types.Type   // conv: target type
	From   types.Type   // conv: operand type
	Callee types.Object // call/method
	Call   *ast.CallExpr
	Arg    int        // call: position of the traced operand (-1 = receiver)
	Consts []FieldArg // call: the other arguments that are integer constants
	Result int        // call: which result of a multi-value call is used
	Note   string     // elem/store: shape remarks ("" = canonical)
}

// FieldArg is a constant argument of a wrapper call.
type FieldArg struct {
	Pos int
	Val int64
}

func (s FieldStep) String() string {
	switch s.Kind {
	case "conv":
		return "conv(" + types.TypeString(s.Type, func(p *types.Package) string { return p.Name() }) + ")"
	case "call", "method":
		return s.Kind + "(" + QualName(s.Callee) + ")"
	}
	if s.Note != "" {
		return s.Kind + "[" + s.Note + "]"
	}
	return s.Kind
}

func fmNamedStruct(t types.Type) *types.Named {
	if t == nil {
		return nil
	}
	if p, ok := t.Underlying().(*types.Pointer); ok {
		t = p.Elem()
	} else if p, ok := t.(*types.Pointer); ok {
		t = p.Elem()
	}
	n, ok := types.Unalias(t).(*types.Named)
	if !ok {
		return nil
	}
	if _, ok := n.Underlying().(*types.Struct); !ok {
		return nil
	}
	return n
}

// NamedStructOf returns the named struct type of t after one pointer
// indirection, or nil.
func NamedStructOf(t types.Type) *types.Named { return fmNamedStruct(t) }

// ExtractFieldMap builds the field map of f for input object in.
func ExtractFieldMap(f *Func, in types.Object) *FieldMap {
	info := f.Info()
	fm := &FieldMap{F: f, In: in, InType: fmNamedStruct(in.Type()), Entries: map[*types.Var]*FieldSrc{}}
	sig := f.Signature()
	if sig == nil || sig.Results().Len() == 0 {
		fm.Problems = append(fm.Problems, "function has no result")
		return fm
	}
	fm.OutType = fmNamedStruct(sig.Results().At(0).Type())
	if fm.OutType == nil || fm.InType == nil {
		fm.Problems = append(fm.Problems, "input or first result is not a named struct")
		return fm
	}
	hasErr := false
	if n := sig.Results().Len(); n > 1 {
		hasErr = types.Identical(sig.Results().At(n-1).Type(), types.Universe.Lookup("error").Type())
	}
	// success returns; a naked return of a function with named results
	// returns the named result variable
	var named types.Object
	if f.Type.Results != nil && len(f.Type.Results.List) > 0 && len(f.Type.Results.List[0].Names) > 0 {
		named = info.Defs[f.Type.Results.List[0].Names[0]]
	}
	var rets []*ast.ReturnStmt
	ast.Inspect(f.Body, func(x ast.Node) bool {
		switch y := x.(type) {
		case *ast.FuncLit:
			return false
		case *ast.ReturnStmt:
			if len(y.Results) == 0 && named != nil {
				rets = append(rets, y)
				return true
			}
			if len(y.Results) != sig.Results().Len() {
				fm.Problems = append(fm.Problems, "return with implicit or multi-value results at "+f.At(y))
				return true
			}
			if hasErr && !IsNilIdent(info, y.Results[len(y.Results)-1]) {
				return true
			}
			rets = append(rets, y)
		}
		return true
	})
	if len(rets) != 1 {
		fm.Problems = append(fm.Problems, fmt.Sprintf("%d successful return statements (exactly one is understood)", len(rets)))
		return fm
	}
	tr := &fmTracer{fm: fm, info: info, memo: map[types.Object]*fmProv{}, busy: map[types.Object]bool{}}
	var outVar types.Object
	var lit *ast.CompositeLit
	if len(rets[0].Results) == 0 {
		// the named result starts as the zero value and is completed field by field
		outVar = named
		if tr.countDefs(named) != 0 {
			fm.Problems = append(fm.Problems, "the named result is assigned as a whole")
			return fm
		}
		lit = &ast.CompositeLit{Lbrace: f.Type.Results.Pos(), Rbrace: f.Type.Results.Pos()}
	} else {
		res := ast.Unparen(rets[0].Results[0])
		lit = fmAsLit(res)
		if lit == nil {
			if id, ok := res.(*ast.Ident); ok {
				outVar = ObjOf(info, id)
				lit = tr.singleLitDef(outVar)
				if lit == nil && outVar != nil && outVar == named && tr.countDefs(named) == 0 {
					lit = &ast.CompositeLit{Lbrace: f.Type.Results.Pos(), Rbrace: f.Type.Results.Pos()}
				}
			}
		}
		if lit == nil {
			fm.Problems = append(fm.Problems, "the successful result is not a composite literal (or a variable initialised with one)")
			return fm
		}
		if lit.Type != nil || len(lit.Elts) > 0 {
			if n := fmNamedStruct(info.TypeOf(lit)); n == nil || n.Obj() != fm.OutType.Obj() {
				fm.Problems = append(fm.Problems, "literal type differs from the result type")
				return fm
			}
		}
	}
	fm.Lit = lit
	tr.out = outVar
	// sizing expressions (make, nil, empty literal) carry no data: a later
	// element-wise fill replaces them
	isSizing := func(e ast.Expr) bool {
		e = ast.Unparen(e)
		if IsNilIdent(info, e) {
			return true
		}
		switch x := e.(type) {
		case *ast.CompositeLit:
			return len(x.Elts) == 0
		case *ast.CallExpr:
			if b, ok := Callee(info, x).(*types.Builtin); ok && b.Name() == "make" {
				return true
			}
		}
		return false
	}
	addProv := func(fld *types.Var, e ast.Expr, p *fmProv) {
		src := &FieldSrc{Out: fld, Expr: e, Fields: p.fieldList(), Steps: p.steps}
		if old := fm.Entries[fld]; old != nil {
			switch {
			case len(src.Fields) == 0 && isSizing(e):
				return
			case len(old.Fields) == 0 && isSizing(old.Expr):
				*old = *src
				return
			case len(old.Fields) == 1 && len(src.Fields) == 1 && old.Fields[0] == src.Fields[0] && fmStepsKey(old.Steps) == fmStepsKey(src.Steps):
				return // the same fill written twice (e.g. in two branches)
			}
			fm.Problems = append(fm.Problems, "output field "+fld.Name()+" is set more than once")
			seen := map[*types.Var]bool{}
			for _, x := range old.Fields {
				seen[x] = true
			}
			for _, x := range src.Fields {
				if !seen[x] {
					old.Fields = append(old.Fields, x)
				}
			}
			return
		}
		fm.Entries[fld] = src
		fm.Order = append(fm.Order, fld)
	}
	add := func(fld *types.Var, e ast.Expr) { addProv(fld, e, tr.prov(e)) }
	for _, el := range lit.Elts {
		kv, ok := el.(*ast.KeyValueExpr)
		if !ok {
			fm.Problems = append(fm.Problems, "unkeyed composite literal")
			return fm
		}
		fld, _ := ObjOf(info, kv.Key).(*types.Var)
		if fld == nil {
			fm.Problems = append(fm.Problems, "unresolved literal key "+f.Str(kv.Key))
			continue
		}
		add(fld, kv.Value)
	}
	// the result variable must only be defined, completed field by field and returned
	if outVar != nil {
		ast.Inspect(f.Body, func(x ast.Node) bool {
			id, ok := x.(*ast.Ident)
			if !ok || ObjOf(info, id) != outVar {
				return true
			}
			par := f.Prog.Parent(f.File, id)
			switch y := par.(type) {
			case *ast.AssignStmt:
				for _, l := range y.Lhs {
					if l == ast.Expr(id) {
						return true
					}
				}
			case *ast.ValueSpec:
				return true
			case *ast.Field:
				return true // declaration of a named result
			case *ast.ReturnStmt:
				return true
			case *ast.SelectorExpr:
				if as, ok := f.Prog.Parent(f.File, y).(*ast.AssignStmt); ok {
					for _, l := range as.Lhs {
						if l == ast.Expr(y) {
							return true
						}
					}
				}
				// v.F[i] = … is an element fill
				if ix, ok := f.Prog.Parent(f.File, y).(*ast.IndexExpr); ok && ix.X == ast.Expr(y) {
					if as, ok := f.Prog.Parent(f.File, ix).(*ast.AssignStmt); ok {
						for _, l := range as.Lhs {
							if l == ast.Expr(ix) {
								return true
							}
						}
					}
					return true // reading an element back
				}
				// reading a field back is harmless
				if s2, ok := info.Selections[y]; ok && s2.Kind() == types.FieldVal {
					call, isCall := f.Prog.Parent(f.File, y).(*ast.CallExpr)
					if !isCall {
						return true
					}
					if b, ok := Callee(info, call).(*types.Builtin); ok && (b.Name() == "append" || b.Name() == "len" || b.Name() == "cap") {
						return true
					}
				}
			}
			fm.Problems = append(fm.Problems, "the result variable "+id.Name+" is used at "+f.At(id)+" in a way that may set fields out of sight")
			return true
		})
	}
	// completions: v.F = expr, v.F[i] = expr inside a range loop, v.F = append(v.F, expr)
	if outVar != nil {
		fieldOf := func(e ast.Expr) *types.Var {
			sel, ok := ast.Unparen(e).(*ast.SelectorExpr)
			if !ok || ObjOf(info, sel.X) != outVar {
				return nil
			}
			if _, isIdent := ast.Unparen(sel.X).(*ast.Ident); !isIdent {
				return nil
			}
			fld, _ := ObjOf(info, sel).(*types.Var)
			if fld == nil || !fld.IsField() {
				return nil
			}
			return fld
		}
		ast.Inspect(f.Body, func(x ast.Node) bool {
			as, ok := x.(*ast.AssignStmt)
			if !ok {
				return true
			}
			rhsProv := func(i int) (*fmProv, ast.Expr) {
				if len(as.Lhs) == len(as.Rhs) {
					return tr.prov(as.Rhs[i]), as.Rhs[i]
				}
				if len(as.Rhs) == 1 {
					if call, ok := ast.Unparen(as.Rhs[0]).(*ast.CallExpr); ok {
						return tr.callProv(call, i), as.Rhs[0]
					}
				}
				return nil, nil
			}
			for i, l := range as.Lhs {
				l = ast.Unparen(l)
				if fld := fieldOf(l); fld != nil {
					if p, e := rhsProv(i); p != nil {
						addProv(fld, e, p)
					} else {
						fm.Problems = append(fm.Problems, "output field "+fld.Name()+" is assigned from a multi-value expression")
					}
					continue
				}
				if ix, ok := l.(*ast.IndexExpr); ok {
					if fld := fieldOf(ix.X); fld != nil {
						p, e := rhsProv(i)
						if p == nil {
							fm.Problems = append(fm.Problems, "an element of output field "+fld.Name()+" is assigned from a multi-value expression")
							continue
						}
						addProv(fld, e, p.with(FieldStep{Kind: "store", Note: tr.storeShape(ix, as)}))
					}
				}
			}
			return true
		})
	}
	fm.Problems = append(fm.Problems, tr.problems...)
	return fm
}

// Signature returns the type signature of f (declared function or literal).
func (f *Func) Signature() *types.Signature {
	if f.Obj != nil {
		return f.Obj.Type().(*types.Signature)
	}
	if f.Lit != nil {
		if s, ok := f.Info().TypeOf(f.Lit).(*types.Signature); ok {
			return s
		}
	}
	return nil
}

func fmAsLit(e ast.Expr) *ast.CompositeLit {
	e = ast.Unparen(e)
	if u, ok := e.(*ast.UnaryExpr); ok && u.Op == token.AND {
		e = ast.Unparen(u.X)
	}
	l, _ := e.(*ast.CompositeLit)
	return l
}

type fmProv struct {
	fields map[*types.Var]bool
	steps  []FieldStep
	whole  bool // the value is the input struct itself (or a copy / pointer to it)
}

func (p *fmProv) fieldList() []*types.Var {
	var out []*types.Var
	for f := range p.fields {
		out = append(out, f)
	}
	sort.Slice(out, func(i, j int) bool { return out[i].Pos() < out[j].Pos() })
	return out
}

func (p *fmProv) with(step FieldStep) *fmProv {
	if len(p.fields) == 0 {
		return p
	}
	q := &fmProv{fields: p.fields, steps: append(append([]FieldStep{}, p.steps...), step)}
	return q
}

func fmMergeProv(ps ...*fmProv) *fmProv {
	out := &fmProv{fields: map[*types.Var]bool{}}
	n := 0
	for _, p := range ps {
		if p == nil || len(p.fields) == 0 {
			continue
		}
		n++
		for f := range p.fields {
			out.fields[f] = true
		}
		out.steps = p.steps
	}
	if n > 1 {
		out.steps = []FieldStep{{Kind: "expr", Note: "several sources"}}
	}
	if n == 0 {
		for _, p := range ps {
			if p != nil && p.whole {
				out.whole = true
			}
		}
	}
	return out
}

type fmTracer struct {
	fm       *FieldMap
	pseudo   *types.Var   // non-struct input: the parameter itself stands for its only "field"
	out      types.Object // the result variable (nil when the literal is returned directly)
	info     *types.Info
	memo     map[types.Object]*fmProv
	busy     map[types.Object]bool
	problems []string
}

func (tr *fmTracer) singleLitDef(v types.Object) *ast.CompositeLit {
	if v == nil {
		return nil
	}
	var lit *ast.CompositeLit
	n := 0
	ast.Inspect(tr.fm.F.Body, func(x ast.Node) bool {
		switch y := x.(type) {
		case *ast.AssignStmt:
			for i, l := range y.Lhs {
				if id, ok := ast.Unparen(l).(*ast.Ident); ok && ObjOf(tr.info, id) == v {
					n++
					if len(y.Rhs) == len(y.Lhs) {
						lit = fmAsLit(y.Rhs[i])
					}
				}
			}
		case *ast.ValueSpec:
			for i, nm := range y.Names {
				if tr.info.Defs[nm] == v && i < len(y.Values) {
					n++
					lit = fmAsLit(y.Values[i])
				}
			}
		}
		return true
	})
	if n != 1 {
		return nil
	}
	return lit
}

func fmEmptyProv() *fmProv { return &fmProv{fields: map[*types.Var]bool{}} }

// prov traces an expression back to input fields.
func (tr *fmTracer) prov(e ast.Expr) *fmProv {
	info := tr.info
	e = ast.Unparen(e)
	if tv, ok := info.Types[e]; ok && tv.Value != nil {
		return fmEmptyProv()
	}
	switch x := e.(type) {
	case *ast.SelectorExpr:
		if sel, ok := info.Selections[x]; ok && sel.Kind() == types.FieldVal {
			if id, isIdent := ast.Unparen(x.X).(*ast.Ident); isIdent && tr.out != nil && ObjOf(info, id) == tr.out {
				return fmEmptyProv() // reading the result back (v.F = append(v.F, …))
			}
			base := tr.prov(x.X)
			if base.whole && len(sel.Index()) == 1 {
				if fld, ok := sel.Obj().(*types.Var); ok {
					return &fmProv{fields: map[*types.Var]bool{fld: true}}
				}
			}
			return base.with(FieldStep{Kind: "sub", Note: x.Sel.Name})
		}
		return fmEmptyProv()
	case *ast.Ident:
		o := ObjOf(info, x)
		if o == nil {
			return fmEmptyProv()
		}
		if o == tr.fm.In {
			if tr.pseudo != nil {
				return &fmProv{fields: map[*types.Var]bool{tr.pseudo: true}}
			}
			return &fmProv{fields: map[*types.Var]bool{}, whole: true}
		}
		if v, ok := o.(*types.Var); ok && !v.IsField() && v.Pkg() != nil && v.Parent() != v.Pkg().Scope() {
			return tr.varProv(o)
		}
		return fmEmptyProv()
	case *ast.UnaryExpr:
		p := tr.prov(x.X)
		if x.Op == token.AND {
			if p.whole {
				return p
			}
			return p.with(FieldStep{Kind: "addr"})
		}
		return p.with(FieldStep{Kind: "expr", Note: x.Op.String()})
	case *ast.StarExpr:
		if p := tr.prov(x.X); p.whole {
			return p
		}
		return tr.prov(x.X).with(FieldStep{Kind: "deref"})
	case *ast.CallExpr:
		return tr.callProv(x, 0)
	case *ast.BinaryExpr:
		return fmMergeProv(tr.prov(x.X), tr.prov(x.Y)).with(FieldStep{Kind: "expr", Note: x.Op.String()})
	case *ast.IndexExpr:
		// xs[i] inside `for i := 0; i < len(xs); i++` / `for i := range xs` is the loop element
		if loop := tr.fm.F.EnclosingLoop(x); loop != nil && LoopElem(info, loop, x) {
			return tr.prov(loop.X).with(FieldStep{Kind: "elem", Note: loopBodyNote(loop)})
		}
		return fmMergeProv(tr.prov(x.X), tr.prov(x.Index)).with(FieldStep{Kind: "expr", Note: "index"})
	case *ast.SliceExpr:
		return tr.prov(x.X).with(FieldStep{Kind: "expr", Note: "slice"})
	case *ast.CompositeLit:
		var ps []*fmProv
		for _, el := range x.Elts {
			if kv, ok := el.(*ast.KeyValueExpr); ok {
				ps = append(ps, tr.prov(kv.Value))
			} else {
				ps = append(ps, tr.prov(el))
			}
		}
		return fmMergeProv(ps...).with(FieldStep{Kind: "expr", Note: "literal"})
	case *ast.TypeAssertExpr:
		return tr.prov(x.X).with(FieldStep{Kind: "expr", Note: "assert"})
	}
	return fmEmptyProv()
}

func (tr *fmTracer) callProv(call *ast.CallExpr, result int) *fmProv {
	info := tr.info
	// conversion
	if tv, ok := info.Types[call.Fun]; ok && tv.IsType() && len(call.Args) == 1 {
		return tr.prov(call.Args[0]).with(FieldStep{Kind: "conv", Type: tv.Type, From: info.TypeOf(call.Args[0])})
	}
	callee := Callee(info, call)
	if b, ok := callee.(*types.Builtin); ok {
		switch b.Name() {
		case "len", "cap", "make", "new":
			return fmEmptyProv() // sizing only
		case "append":
			var ps []*fmProv
			for _, a := range call.Args {
				ps = append(ps, tr.prov(a))
			}
			// dst = append(dst, elem) inside a range loop is an element store
			if len(call.Args) == 2 && !call.Ellipsis.IsValid() {
				return fmMergeProv(ps...).with(FieldStep{Kind: "store", Note: tr.appendShape(call)})
			}
			return fmMergeProv(ps...).with(FieldStep{Kind: "expr", Note: "append"})
		}
	}
	type operand struct {
		pos int
		p   *fmProv
	}
	var ops []operand
	var consts []FieldArg
	kind := "call"
	if sel, ok := ast.Unparen(call.Fun).(*ast.SelectorExpr); ok {
		if s, ok := info.Selections[sel]; ok && s.Kind() == types.MethodVal {
			kind = "method"
			p := tr.prov(sel.X)
			if p.whole {
				tr.problems = append(tr.problems, "a method of the whole input struct ("+QualName(callee)+") feeds the result at "+tr.fm.F.At(call))
			}
			if len(p.fields) > 0 {
				ops = append(ops, operand{-1, p})
			}
		}
	}
	for i, a := range call.Args {
		if c, ok := ConstInt(info, a); ok {
			consts = append(consts, FieldArg{i, c})
			continue
		}
		p := tr.prov(a)
		if p.whole {
			tr.problems = append(tr.problems, "the whole input struct is passed to "+QualName(callee)+" at "+tr.fm.F.At(call))
		}
		if len(p.fields) > 0 {
			ops = append(ops, operand{i, p})
		}
	}
	switch len(ops) {
	case 0:
		return fmEmptyProv()
	case 1:
		return ops[0].p.with(FieldStep{Kind: kind, Callee: callee, Call: call, Arg: ops[0].pos, Consts: consts, Result: result})
	}
	var ps []*fmProv
	for _, o := range ops {
		ps = append(ps, o.p)
	}
	return fmMergeProv(ps...).with(FieldStep{Kind: "expr", Note: "call with several traced operands"})
}

// varProv unions the fmProv of every assignment to a local variable
// (including element stores v[i] = e and range bindings).
func (tr *fmTracer) varProv(v types.Object) *fmProv {
	if p, ok := tr.memo[v]; ok {
		return p
	}
	if tr.busy[v] {
		return fmEmptyProv()
	}
	tr.busy[v] = true
	defer delete(tr.busy, v)
	info := tr.info
	f := tr.fm.F
	var ps []*fmProv
	ast.Inspect(f.Body, func(x ast.Node) bool {
		switch y := x.(type) {
		case *ast.FuncLit:
			return false
		case *ast.AssignStmt:
			for i, l := range y.Lhs {
				l = ast.Unparen(l)
				if id, ok := l.(*ast.Ident); ok && ObjOf(info, id) == v {
					switch {
					case len(y.Rhs) == len(y.Lhs):
						ps = append(ps, tr.prov(y.Rhs[i]))
					case len(y.Rhs) == 1:
						if c, ok := ast.Unparen(y.Rhs[0]).(*ast.CallExpr); ok {
							ps = append(ps, tr.callProv(c, i))
						}
					}
				}
				if ix, ok := l.(*ast.IndexExpr); ok && ObjOf(info, ix.X) == v && len(y.Rhs) == len(y.Lhs) {
					note := tr.storeShape(ix, y)
					ps = append(ps, tr.prov(y.Rhs[i]).with(FieldStep{Kind: "store", Note: note}))
				}
			}
		case *ast.ValueSpec:
			for i, nm := range y.Names {
				if info.Defs[nm] == v && i < len(y.Values) {
					ps = append(ps, tr.prov(y.Values[i]))
				}
			}
		case *ast.RangeStmt:
			if y.Value != nil && ObjOf(info, y.Value) == v {
				ps = append(ps, tr.prov(y.X).with(FieldStep{Kind: "elem", Note: loopBodyNote(y)}))
			}
			if y.Key != nil && ObjOf(info, y.Key) == v {
				// an index carries no data
			}
		}
		return true
	})
	p := fmMergeProv(ps...)
	tr.memo[v] = p
	return p
}

// appendShape checks `dst = append(dst, e)` directly inside a range loop.
func (tr *fmTracer) appendShape(call *ast.CallExpr) string {
	f := tr.fm.F
	as, ok := f.Prog.Parent(f.File, call).(*ast.AssignStmt)
	if !ok || len(as.Lhs) != 1 || ObjOf(tr.info, as.Lhs[0]) == nil || ObjOf(tr.info, as.Lhs[0]) != ObjOf(tr.info, call.Args[0]) {
		return "append result is not assigned back to its first argument"
	}
	rs := f.EnclosingLoop(call)
	if rs == nil {
		return "append outside a loop over a slice"
	}
	// the append must run on every iteration: directly in the loop body
	if blk, ok := f.Prog.Parent(f.File, as).(*ast.BlockStmt); !ok || blk != rs.Body {
		return "append is conditional"
	}
	return ""
}

// storeShape checks `dst[i] = …` inside `for i, p := range src`: the index
// must be the range key of the innermost enclosing range statement.
func (tr *fmTracer) storeShape(ix *ast.IndexExpr, at ast.Node) string {
	f := tr.fm.F
	rs := f.EnclosingLoop(at)
	if rs == nil {
		return "store outside a loop over a slice"
	}
	if rs.Key == nil || ObjOf(tr.info, rs.Key) == nil || ObjOf(tr.info, rs.Key) != ObjOf(tr.info, ix.Index) {
		return "store index is not the range key"
	}
	if blk, ok := f.Prog.Parent(f.File, at).(*ast.BlockStmt); !ok || blk != rs.Body {
		return "store is conditional"
	}
	return ""
}

// StructFields lists the fields of a named struct in declaration order.
func StructFields(n *types.Named) []*types.Var {
	st, ok := n.Underlying().(*types.Struct)
	if !ok {
		return nil
	}
	var out []*types.Var
	for i := 0; i < st.NumFields(); i++ {
		out = append(out, st.Field(i))
	}
	return out
}

func fmStepsKey(steps []FieldStep) string {
	k := ""
	for _, s := range steps {
		k += s.String() + "|" + s.Note + ";"
	}
	return k
}

// loopBodyNote: "" when the loop body runs to its end for every element.
func loopBodyNote(loop *ast.RangeStmt) string {
	note := ""
	ast.Inspect(loop.Body, func(z ast.Node) bool {
		switch b := z.(type) {
		case *ast.FuncLit:
			return false
		case *ast.BranchStmt:
			note = "loop body contains " + b.Tok.String()
		}
		return true
	})
	return note
}

// countDefs counts whole-variable assignments to v in the function.
func (tr *fmTracer) countDefs(v types.Object) int {
	n := 0
	ast.Inspect(tr.fm.F.Body, func(x ast.Node) bool {
		if as, ok := x.(*ast.AssignStmt); ok {
			for _, l := range as.Lhs {
				if id, ok := ast.Unparen(l).(*ast.Ident); ok && ObjOf(tr.info, id) == v {
					n++
				}
			}
		}
		return true
	})
	return n
}

// ExtractParamChain traces the first result of the single successful return
// of f back to its (non-struct) parameter in: the transform steps, innermost
// first, as ExtractFieldMap would record them for a field (a helper
// `func conv(xs []A) ([]B, error)` yields elem, call, store).  why != ""
// when the shape is not understood.
func ExtractParamChain(f *Func, in types.Object) (steps []FieldStep, why string) {
	info := f.Info()
	sig := f.Signature()
	pv, _ := in.(*types.Var)
	if sig == nil || pv == nil || sig.Results().Len() == 0 {
		return nil, "no result"
	}
	hasErr := false
	if n := sig.Results().Len(); n > 1 {
		hasErr = types.Identical(sig.Results().At(n-1).Type(), types.Universe.Lookup("error").Type())
	}
	var rets []*ast.ReturnStmt
	bad := ""
	ast.Inspect(f.Body, func(x ast.Node) bool {
		switch y := x.(type) {
		case *ast.FuncLit:
			return false
		case *ast.ReturnStmt:
			if len(y.Results) != sig.Results().Len() {
				bad = "return with implicit or multi-value results at " + f.At(y)
				return true
			}
			if hasErr && !IsNilIdent(info, y.Results[len(y.Results)-1]) {
				return true
			}
			rets = append(rets, y)
		}
		return true
	})
	if bad != "" {
		return nil, bad
	}
	if len(rets) != 1 {
		return nil, fmt.Sprintf("%d successful return statements (exactly one is understood)", len(rets))
	}
	fm := &FieldMap{F: f, In: in, Entries: map[*types.Var]*FieldSrc{}}
	tr := &fmTracer{fm: fm, pseudo: pv, info: info, memo: map[types.Object]*fmProv{}, busy: map[types.Object]bool{}}
	p := tr.prov(rets[0].Results[0])
	if len(tr.problems) > 0 {
		return nil, tr.problems[0]
	}
	fl := p.fieldList()
	if len(fl) != 1 || fl[0] != pv {
		return nil, "the result does not derive from the parameter alone"
	}
	return p.steps, ""
}
