package kit

import (
	"fmt"
	"go/ast"
	"go/token"
	"go/types"
	"sort"
	"strings"

	"golang.org/x/tools/go/cfg"
)

// Graph is the control-flow graph of one function body (K3).
type Graph struct {
	F   *Func
	G   *cfg.CFG
	dom map[*cfg.Block]map[*cfg.Block]bool
}

// noReturn lists functions that never return.
var noReturn = map[string]bool{
	"log.Fatal": true, "log.Fatalf": true, "log.Fatalln": true, "os.Exit": true,
	"log.Panic": true, "log.Panicf": true, "log.Panicln": true,
	"log.(*Logger).Fatal": true, "log.(*Logger).Fatalf": true, "log.(*Logger).Fatalln": true,
	"runtime.Goexit": true,
}

// Graph builds (and caches) the CFG of f.
func (p *Prog) Graph(f *Func) *Graph {
	if g, ok := p.graphs[f]; ok {
		return g
	}
	info := f.Info()
	g := &Graph{F: f}
	g.G = cfg.New(f.Body, func(call *ast.CallExpr) bool {
		obj := Callee(info, call)
		if b, ok := obj.(*types.Builtin); ok && b.Name() == "panic" {
			return false
		}
		return !noReturn[QualName(obj)]
	})
	p.graphs[f] = g
	return g
}

// BranchKind classifies a two-successor block.
type BranchKind int

const (
	BrNone   BranchKind = iota
	BrCond              // if / for condition: Cond is the boolean expression
	BrCase              // expression switch case: Cond is `tag == caseExpr` (synthesised) or the case expr of a tagless switch
	BrRange             // range loop: Succs[0] = next iteration, Succs[1] = done
	BrSelect            // select case taken / not taken
	BrType              // type switch case
	BrOpaque            // anything else
)

// Branch describes the decision at the end of a block.
type Branch struct {
	Kind   BranchKind
	Cond   ast.Expr        // BrCond; BrCase of tagless switch
	Tag    ast.Expr        // BrCase with tag
	Case   ast.Expr        // BrCase with tag: the case expression
	Range  *ast.RangeStmt  // BrRange
	Clause *ast.CaseClause // BrCase / BrType
	Comm   *ast.CommClause // BrSelect
}

// BranchOf classifies block b.
func (g *Graph) BranchOf(b *cfg.Block) Branch {
	if len(b.Succs) != 2 {
		return Branch{}
	}
	t := b.Succs[0]
	switch t.Kind {
	case cfg.KindIfThen, cfg.KindForBody:
		if len(b.Nodes) > 0 {
			if e, ok := b.Nodes[len(b.Nodes)-1].(ast.Expr); ok {
				return Branch{Kind: BrCond, Cond: e}
			}
		}
	case cfg.KindRangeBody:
		return Branch{Kind: BrRange, Range: t.Stmt.(*ast.RangeStmt)}
	case cfg.KindSelectCaseBody:
		return Branch{Kind: BrSelect, Comm: t.Stmt.(*ast.CommClause)}
	case cfg.KindSwitchCaseBody:
		cc, _ := t.Stmt.(*ast.CaseClause)
		par := g.F.Prog.Parent(g.F.File, cc)
		if par != nil {
			par = g.F.Prog.Parent(g.F.File, par) // BlockStmt -> Switch
		}
		switch sw := par.(type) {
		case *ast.SwitchStmt:
			if len(b.Nodes) == 0 {
				return Branch{Kind: BrOpaque}
			}
			e, ok := b.Nodes[len(b.Nodes)-1].(ast.Expr)
			if !ok {
				return Branch{Kind: BrOpaque}
			}
			if sw.Tag == nil {
				return Branch{Kind: BrCase, Cond: e, Clause: cc}
			}
			return Branch{Kind: BrCase, Tag: sw.Tag, Case: e, Clause: cc}
		case *ast.TypeSwitchStmt:
			return Branch{Kind: BrType, Clause: cc}
		}
	}
	// fallthrough bodies preallocated as SwitchCaseBody may confuse the
	// above; an `if` whose then-branch is empty still yields IfThen.
	if len(b.Nodes) > 0 {
		if e, ok := b.Nodes[len(b.Nodes)-1].(ast.Expr); ok {
			if tv, ok := g.F.Info().Types[e]; ok && tv.Type != nil {
				if bt, ok := tv.Type.Underlying().(*types.Basic); ok && bt.Info()&types.IsBoolean != 0 {
					return Branch{Kind: BrCond, Cond: e}
				}
			}
		}
	}
	return Branch{Kind: BrOpaque}
}

// ---------------------------------------------------------------------------
// States

// S is an immutable abstract state: a small string-keyed map.  Clients keep
// atom valuations ("a:<id>" -> "T"/"F"), typestate ("tx" -> "begun") and
// counters in it.
type S struct{ m map[string]string }

// NewS returns the empty state.
func NewS() S { return S{} }

// Get returns the value of k ("" when unset).
func (s S) Get(k string) string { return s.m[k] }

// Has reports whether k is set.
func (s S) Has(k string) bool { _, ok := s.m[k]; return ok }

// Set returns a copy with k=v.
func (s S) Set(k, v string) S {
	if cur, ok := s.m[k]; ok && cur == v {
		return s
	}
	m := make(map[string]string, len(s.m)+1)
	for a, b := range s.m {
		m[a] = b
	}
	m[k] = v
	return S{m}
}

// Del returns a copy without k.
func (s S) Del(k string) S {
	if _, ok := s.m[k]; !ok {
		return s
	}
	m := make(map[string]string, len(s.m))
	for a, b := range s.m {
		if a != k {
			m[a] = b
		}
	}
	return S{m}
}

// DelPrefix removes every key with the prefix.
func (s S) DelPrefix(pre string) S {
	m := make(map[string]string, len(s.m))
	for a, b := range s.m {
		if !strings.HasPrefix(a, pre) {
			m[a] = b
		}
	}
	return S{m}
}

// Keys returns the sorted keys.
func (s S) Keys() []string {
	ks := make([]string, 0, len(s.m))
	for k := range s.m {
		ks = append(ks, k)
	}
	sort.Strings(ks)
	return ks
}

// Key canonically serialises the state.
func (s S) Key() string {
	var b strings.Builder
	for _, k := range s.Keys() {
		b.WriteString(k)
		b.WriteByte('=')
		b.WriteString(s.m[k])
		b.WriteByte(';')
	}
	return b.String()
}

func (s S) String() string { return "{" + s.Key() + "}" }

// ---------------------------------------------------------------------------
// Flow engine: forward propagation of state sets over the CFG.

// Exit describes how a path left the function.
type Exit struct {
	Block  *cfg.Block
	Return *ast.ReturnStmt // nil for panic / no-return call
	State  S
	id     int
}

// Client supplies the transfer functions.
type Client struct {
	// Node is called for every non-branch node of a block in order.  It
	// returns the successor states (nil or empty kills the path).
	Node func(n ast.Node, s S) []S
	// Cond is called for a BrCond / tagless BrCase decision and returns the
	// states on the true and false edge.  If nil, or for other branch
	// kinds when Other is nil, both edges receive s unchanged.
	Cond func(cond ast.Expr, s S) (t, f []S)
	// Other handles BrCase with tag, BrRange, BrSelect, BrType, BrOpaque.
	Other func(br Branch, s S) (t, f []S)
	// MaxStates bounds the exploration (default 200000).
	MaxStates int
}

// Result of a flow run.
type Result struct {
	g     *Graph
	Exits []Exit
	// pred records, for each (block,state) reached, one predecessor.
	pred  map[string]string
	first map[string]*cfg.Block
	// Overflow is set when MaxStates was exceeded (result is then partial).
	Overflow bool
	Visited  int
}

func nodeKey(b *cfg.Block, s S) string { return fmt.Sprintf("%d|%s", b.Index, s.Key()) }

// Run propagates states from the entry block.
func (g *Graph) Run(init S, c Client) *Result {
	return g.RunFrom(g.G.Blocks[0], 0, init, c)
}

// RunFrom starts at node index idx of block b.
func (g *Graph) RunFrom(start *cfg.Block, idx int, init S, c Client) *Result {
	if c.MaxStates == 0 {
		c.MaxStates = 200000
	}
	res := &Result{g: g, pred: map[string]string{}, first: map[string]*cfg.Block{}}
	type item struct {
		b   *cfg.Block
		idx int
		s   S
	}
	seen := map[string]bool{}
	var work []item
	push := func(from string, b *cfg.Block, s S) {
		k := nodeKey(b, s)
		if seen[k] {
			return
		}
		seen[k] = true
		res.pred[k] = from
		res.first[k] = b
		work = append(work, item{b, 0, s})
	}
	k0 := nodeKey(start, init)
	seen[k0] = true
	res.first[k0] = start
	work = append(work, item{start, idx, init})
	for len(work) > 0 {
		it := work[len(work)-1]
		work = work[:len(work)-1]
		res.Visited++
		if res.Visited > c.MaxStates {
			res.Overflow = true
			return res
		}
		b := it.b
		from := nodeKey(b, it.s)
		br := g.BranchOf(b)
		n := len(b.Nodes)
		last := n
		if br.Kind == BrCond || br.Kind == BrCase {
			last = n - 1 // the decision expression is handled by Cond/Other
		}
		states := []S{it.s}
		var retStmt *ast.ReturnStmt
		for i := it.idx; i < last && len(states) > 0; i++ {
			node := b.Nodes[i]
			if r, ok := node.(*ast.ReturnStmt); ok {
				retStmt = r
			}
			if c.Node == nil {
				continue
			}
			var next []S
			dedup := map[string]bool{}
			for _, s := range states {
				for _, s2 := range c.Node(node, s) {
					if k := s2.Key(); !dedup[k] {
						dedup[k] = true
						next = append(next, s2)
					}
				}
			}
			states = next
		}
		for _, s := range states {
			switch len(b.Succs) {
			case 0:
				res.Exits = append(res.Exits, Exit{Block: b, Return: retStmt, State: s, id: len(res.Exits)})
				// remember how we got here for path reconstruction
				res.pred[fmt.Sprintf("exit%d", len(res.Exits)-1)] = from
			case 1:
				push(from, b.Succs[0], s)
			case 2:
				var ts, fs []S
				switch {
				case (br.Kind == BrCond || (br.Kind == BrCase && br.Tag == nil)) && c.Cond != nil:
					ts, fs = c.Cond(br.Cond, s)
				case br.Kind != BrCond && !(br.Kind == BrCase && br.Tag == nil) && c.Other != nil:
					ts, fs = c.Other(br, s)
				default:
					ts, fs = []S{s}, []S{s}
				}
				for _, x := range ts {
					push(from, b.Succs[0], x)
				}
				for _, x := range fs {
					push(from, b.Succs[1], x)
				}
			}
		}
	}
	return res
}

// PathTo reconstructs one block path (as "bN@file:line" strings) leading to
// the exit.
func (r *Result) PathTo(e Exit) []string {
	var rev []string
	k := r.pred[fmt.Sprintf("exit%d", e.id)]
	for k != "" && len(rev) < 200 {
		b := r.first[k]
		if b == nil {
			break
		}
		rev = append(rev, r.g.describeBlock(b))
		k = r.pred[k]
	}
	for i, j := 0, len(rev)-1; i < j; i, j = i+1, j-1 {
		rev[i], rev[j] = rev[j], rev[i]
	}
	return rev
}

func (g *Graph) describeBlock(b *cfg.Block) string {
	pos := token.NoPos
	if len(b.Nodes) > 0 {
		pos = b.Nodes[0].Pos()
	} else if b.Stmt != nil {
		pos = b.Stmt.Pos()
	}
	d := fmt.Sprintf("b%d(%s)@%s", b.Index, b.Kind, g.F.Prog.Pos(pos))
	if len(b.Nodes) > 0 {
		d += " `" + trunc(g.F.Str(b.Nodes[len(b.Nodes)-1]), 60) + "`"
	}
	return d
}

func trunc(s string, n int) string {
	if len(s) > n {
		return s[:n-3] + "..."
	}
	return s
}

// ---------------------------------------------------------------------------
// Dominators (simple iterative set algorithm; functions are small).

func (g *Graph) computeDom() {
	if g.dom != nil {
		return
	}
	blocks := g.G.Blocks
	preds := map[*cfg.Block][]*cfg.Block{}
	for _, b := range blocks {
		for _, s := range b.Succs {
			preds[s] = append(preds[s], b)
		}
	}
	all := map[*cfg.Block]bool{}
	for _, b := range blocks {
		if b.Live {
			all[b] = true
		}
	}
	dom := map[*cfg.Block]map[*cfg.Block]bool{}
	entry := blocks[0]
	for _, b := range blocks {
		if !b.Live {
			continue
		}
		if b == entry {
			dom[b] = map[*cfg.Block]bool{b: true}
		} else {
			m := map[*cfg.Block]bool{}
			for x := range all {
				m[x] = true
			}
			dom[b] = m
		}
	}
	changed := true
	for changed {
		changed = false
		for _, b := range blocks {
			if !b.Live || b == entry {
				continue
			}
			var nw map[*cfg.Block]bool
			for _, p := range preds[b] {
				if !p.Live {
					continue
				}
				if nw == nil {
					nw = map[*cfg.Block]bool{}
					for x := range dom[p] {
						nw[x] = true
					}
				} else {
					for x := range nw {
						if !dom[p][x] {
							delete(nw, x)
						}
					}
				}
			}
			if nw == nil {
				nw = map[*cfg.Block]bool{}
			}
			nw[b] = true
			if len(nw) != len(dom[b]) {
				dom[b] = nw
				changed = true
			}
		}
	}
	g.dom = dom
}

// Dominates reports whether every path from entry to b passes through a.
func (g *Graph) Dominates(a, b *cfg.Block) bool {
	g.computeDom()
	return g.dom[b][a]
}

// BlockOf finds the block and node index that contains n (n itself or an
// ancestor of n is a block node).
func (g *Graph) BlockOf(n ast.Node) (*cfg.Block, int) {
	var bb *cfg.Block
	bi := -1
	best := token.Pos(1 << 40)
	for _, b := range g.G.Blocks {
		for i, x := range b.Nodes {
			if x.Pos() <= n.Pos() && n.End() <= x.End() {
				if span := x.End() - x.Pos(); span < best {
					best, bb, bi = span, b, i
				}
			}
		}
	}
	return bb, bi
}

// NodeDominates reports whether node a (by containment) is executed before
// node b on every path from entry to b.
func (g *Graph) NodeDominates(a, b ast.Node) bool {
	ba, ia := g.BlockOf(a)
	bb, ib := g.BlockOf(b)
	if ba == nil || bb == nil {
		return false
	}
	if ba == bb {
		return ia <= ib
	}
	return g.Dominates(ba, bb)
}
