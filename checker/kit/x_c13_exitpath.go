package kit

import (
	"fmt"

	"golang.org/x/tools/go/cfg"
)

// BlockPath reconstructs one block path (entry first) leading to the exit,
// like PathTo but as blocks: rules that must name the statement through
// which a path left a construct (a `break` is not a CFG node) look at the
// kinds and statements of the blocks on the way.
func (r *Result) BlockPath(e Exit) []*cfg.Block {
	var rev []*cfg.Block
	k := r.pred[fmt.Sprintf("exit%d", e.id)]
	for k != "" && len(rev) < 400 {
		b := r.first[k]
		if b == nil {
			break
		}
		rev = append(rev, b)
		k = r.pred[k]
	}
	for i, j := 0, len(rev)-1; i < j; i, j = i+1, j-1 {
		rev[i], rev[j] = rev[j], rev[i]
	}
	return rev
}
