package kit

import (
	"encoding/json"
	"fmt"
	"go/ast"
	"go/token"
	"os"
	"path/filepath"
	"sort"
	"strings"
	"time"
)

// VerifDir is where evidence and known findings live.
func VerifDir() string {
	if d := os.Getenv("SIOT_VERIF"); d != "" {
		return d
	}
	return "/verif"
}

// Prop describes one property checker.
type Prop struct {
	ID          string
	Title       string
	Explanation string   // coverage.explanation
	Assumptions []string // trusted base / not covered
	AllDeps     bool     // needs syntax of dependencies (SSA, cross-module reads)
	Run         func(c *Ctx)
}

var registry = map[string]*Prop{}

// Register adds a property checker.
func Register(p *Prop) { registry[p.ID] = p }

// Lookup returns a registered property.
func Lookup(id string) *Prop { return registry[id] }

// IDs lists registered property ids.
func IDs() []string {
	var ids []string
	for k := range registry {
		ids = append(ids, k)
	}
	sort.Strings(ids)
	return ids
}

// Ctx is handed to a property's Run for one build configuration.
type Ctx struct {
	Prop   *Prop
	Tier   string
	P      *Prog
	Config string // "linux/amd64" …
	rep    *Report
}

// Report accumulates the outcome of one siotcheck invocation.
type Report struct {
	PropID     string
	Tier       string
	Rules      map[string]*Rule
	ruleOrder  []string
	Functions  map[string]bool
	Valuations int
	Configs    []string
	Packages   int
	Errors     []string // CHECKER-ERROR conditions
	Variants   struct{ Generated, Detected, Skipped int }
	Notes      []string
	Survivors  []string
	start      time.Time
	prog       *Prog
	loadFailed bool
}

// Rule is one rule of a property.
type Rule struct {
	ID    string
	Title string
	Floor int
	Obs   []*Ob
	rep   *Report
	cfg   string
}

// Ob is one obligation (rule instance).
type Ob struct {
	Rule       string   `json:"rule"`
	Func       string   `json:"func"`
	Site       string   `json:"site"`
	Construct  string   `json:"construct"`
	Obligation string   `json:"obligation"`
	Status     string   `json:"status"` // ok | violation | undecided | open
	By         string   `json:"discharged_by,omitempty"`
	Msg        string   `json:"message,omitempty"`
	Path       []string `json:"path,omitempty"`
	Config     string   `json:"config,omitempty"`
}

// Rule opens (or re-opens, for another build configuration) a rule.
func (c *Ctx) Rule(id, title string, floor int) *Rule {
	if r, ok := c.rep.Rules[id]; ok {
		r.cfg = c.Config
		return r
	}
	r := &Rule{ID: id, Title: title, Floor: floor, rep: c.rep, cfg: c.Config}
	c.rep.Rules[id] = r
	c.rep.ruleOrder = append(c.rep.ruleOrder, id)
	return r
}

// Analysed records that f was analysed (evidence).
func (c *Ctx) Analysed(fs ...*Func) {
	for _, f := range fs {
		if f != nil {
			c.rep.Functions[f.PkgRel()+"."+f.Name] = true
		}
	}
}

// AddValuations counts enumerated valuations (K4).
func (c *Ctx) AddValuations(n int) { c.rep.Valuations += n }

// Note adds a free-text note to the evidence.
func (c *Ctx) Note(format string, a ...any) {
	c.rep.Notes = append(c.rep.Notes, fmt.Sprintf(format, a...))
}

// Fatalf raises an anchor error (CHECKER-ERROR, exit 2).
func (c *Ctx) Fatalf(format string, a ...any) {
	panic(AnchorError{fmt.Sprintf(format, a...)})
}

// Ob opens an obligation at node n (may be nil) of f (may be nil).
// construct must identify the instance stably (role, not line).
func (r *Rule) Ob(f *Func, n ast.Node, construct, obligation string) *Ob {
	o := &Ob{Rule: r.ID, Construct: construct, Obligation: obligation, Status: "open", Config: r.cfg}
	if f != nil {
		o.Func = f.PkgRel() + "." + f.Name
		r.rep.Functions[o.Func] = true
		if n != nil {
			o.Site = f.Prog.Pos(n.Pos())
		} else {
			o.Site = f.Prog.Pos(f.Pos())
		}
	}
	r.Obs = append(r.Obs, o)
	return o
}

// ObAt opens an obligation at a raw position.
func (r *Rule) ObAt(p *Prog, fn string, pos token.Pos, construct, obligation string) *Ob {
	o := &Ob{Rule: r.ID, Func: fn, Construct: construct, Obligation: obligation, Status: "open", Config: r.cfg}
	if p != nil {
		o.Site = p.Pos(pos)
	}
	r.Obs = append(r.Obs, o)
	return o
}

// OK discharges the obligation.
func (o *Ob) OK(by string, a ...any) *Ob {
	if o.Status == "open" {
		o.Status = "ok"
		o.By = fmt.Sprintf(by, a...)
	}
	return o
}

// Violation marks the obligation violated (sticky).
func (o *Ob) Violation(msg string, a ...any) *Ob {
	o.Status = "violation"
	o.Msg = fmt.Sprintf(msg, a...)
	return o
}

// WithPath attaches an offending path.
func (o *Ob) WithPath(path []string) *Ob { o.Path = path; return o }

// Undecided marks the obligation as neither provable nor refutable.
func (o *Ob) Undecided(msg string, a ...any) *Ob {
	if o.Status != "violation" {
		o.Status = "undecided"
		o.Msg = fmt.Sprintf(msg, a...)
	}
	return o
}

// Check is a convenience: OK(by) when cond, else Violation(msg).
func (o *Ob) Check(cond bool, by, msg string) *Ob {
	if cond {
		return o.OK("%s", by)
	}
	return o.Violation("%s", msg)
}

// ---------------------------------------------------------------------------
// Known findings

// Finding is an entry of known-findings.json.
type Finding struct {
	Property  string `json:"property"`
	Rule      string `json:"rule"`
	Func      string `json:"func"`
	Construct string `json:"construct"`
	Status    string `json:"status"` // open | fixed
	Commit    string `json:"commit,omitempty"`
	What      string `json:"what"`
	Witness   string `json:"witness,omitempty"`
}

func loadFindings() ([]Finding, error) {
	b, err := os.ReadFile(filepath.Join(VerifDir(), "known-findings.json"))
	if err != nil {
		if os.IsNotExist(err) {
			return nil, nil
		}
		return nil, err
	}
	var doc struct {
		Findings []Finding `json:"findings"`
	}
	if err := json.Unmarshal(b, &doc); err != nil {
		return nil, fmt.Errorf("known-findings.json: %w", err)
	}
	return doc.Findings, nil
}

// ---------------------------------------------------------------------------
// Driver

// Matrix returns the build configurations of a tier.
func Matrix(tier string) []LoadConfig {
	if tier != "thorough" {
		return []LoadConfig{{}}
	}
	return []LoadConfig{
		{},
		{GOOS: "linux", GOARCH: "386"},
		{GOOS: "linux", GOARCH: "arm64"},
		{GOOS: "darwin", GOARCH: "amd64"},
		{Tags: []string{"verif"}},
	}
}

func cfgName(lc LoadConfig) string {
	if lc.GOOS == "" && len(lc.Tags) == 0 {
		return "default"
	}
	s := lc.GOOS + "/" + lc.GOARCH
	if len(lc.Tags) > 0 {
		s += " tags=" + strings.Join(lc.Tags, ",")
	}
	return strings.TrimPrefix(s, "/ ")
}

// runConfig loads one build configuration and runs the property's rules into rep.
func runConfig(rep *Report, prop *Prop, tier string, lc LoadConfig, quiet bool) {
	lc.AllDeps = prop.AllDeps
	name := cfgName(lc)
	defer func() {
		if r := recover(); r != nil {
			if ae, ok := r.(AnchorError); ok {
				rep.Errors = append(rep.Errors, fmt.Sprintf("[%s] anchor: %s", name, ae.Msg))
				return
			}
			rep.Errors = append(rep.Errors, fmt.Sprintf("[%s] panic in checker: %v", name, r))
			if os.Getenv("SIOT_DEBUG") != "" {
				panic(r)
			}
		}
	}()
	t0 := time.Now()
	prog, err := Load(lc)
	if err != nil {
		rep.Errors = append(rep.Errors, fmt.Sprintf("[%s] load: %v", name, err))
		rep.loadFailed = true
		return
	}
	rep.Packages = len(prog.Roots)
	rep.Configs = append(rep.Configs, name)
	rep.prog = prog
	if !quiet {
		fmt.Printf("loaded %d root packages of %s [%s] in %.1fs\n", len(prog.Roots), prog.Cfg.Dir, name, time.Since(t0).Seconds())
	}
	c := &Ctx{Prop: prop, Tier: tier, P: prog, Config: name, rep: rep}
	prop.Run(c)
}

func newReport(propID, tier string) *Report {
	return &Report{PropID: propID, Tier: tier, Rules: map[string]*Rule{}, Functions: map[string]bool{}, start: time.Now()}
}

// Main runs one property and returns the process exit code.
func Main(propID, tier string) (code int) {
	prop := Lookup(propID)
	if prop == nil {
		fmt.Printf("CHECKER-ERROR property=%s unknown property (registered: %v)\n", propID, IDs())
		return 2
	}
	rep := newReport(propID, tier)
	for _, lc := range Matrix(tier) {
		runConfig(rep, prop, tier, lc, false)
	}
	if tier == "thorough" || os.Getenv("SIOT_SWEEP") != "" {
		sweep(rep, prop, tier)
	}
	return rep.finish(prop)
}

func (rep *Report) finish(prop *Prop) int {
	findings, err := loadFindings()
	if err != nil {
		rep.Errors = append(rep.Errors, err.Error())
	}
	evDir := filepath.Join(VerifDir(), "evidence")
	os.MkdirAll(filepath.Join(evDir, "replay"), 0o755)
	// remove stale replay files of this property
	if old, _ := filepath.Glob(filepath.Join(evDir, "replay", rep.PropID+"-*.json")); len(old) > 0 {
		for _, f := range old {
			os.Remove(f)
		}
	}

	type ruleSum struct {
		Rule       string `json:"rule"`
		Title      string `json:"title"`
		Instances  int    `json:"instances"`
		Floor      int    `json:"floor"`
		Discharged int    `json:"discharged"`
		Violations int    `json:"violations"`
		Undecided  int    `json:"undecided"`
	}
	var sums []ruleSum
	var samples []*Ob
	total, discharged, nviol := 0, 0, 0
	distinct := map[string]bool{}
	var knownMatched []string
	var violLines []string
	sort.Strings(rep.ruleOrder)
	for _, id := range rep.ruleOrder {
		r := rep.Rules[id]
		rs := ruleSum{Rule: r.ID, Title: r.Title, Floor: r.Floor}
		perCfg := map[string]int{}
		for _, o := range r.Obs {
			perCfg[o.Config]++
			total++
			rs.Instances++
			switch o.Status {
			case "ok":
				discharged++
				rs.Discharged++
				distinct[o.Rule+"|"+o.Func+"|"+o.Construct] = true
			case "open", "undecided":
				rs.Undecided++
				rep.Errors = append(rep.Errors, fmt.Sprintf("undecided %s/%s %s %s [%s]: %s", rep.PropID, o.Rule, o.Site, o.Func, o.Construct, o.Msg))
			case "violation":
				rs.Violations++
				known := false
				for _, kf := range findings {
					if kf.Status == "open" && kf.Property == rep.PropID && kf.Rule == o.Rule && kf.Func == o.Func && kf.Construct == o.Construct {
						known = true
						line := fmt.Sprintf("KNOWN-FINDING: property=%s %s %s [%s] at %s: %s", rep.PropID, o.Rule, o.Func, o.Construct, o.Site, kf.What)
						knownMatched = append(knownMatched, line)
					}
				}
				if !known {
					nviol++
					path := filepath.Join(evDir, "replay", fmt.Sprintf("%s-%d.json", rep.PropID, nviol))
					b, _ := json.MarshalIndent(map[string]any{"property": rep.PropID, "rule": o.Rule, "rule_title": r.Title,
						"func": o.Func, "site": o.Site, "construct": o.Construct, "obligation": o.Obligation,
						"message": o.Msg, "path": o.Path, "config": o.Config}, "", " ")
					os.WriteFile(path, b, 0o644)
					fmt.Printf("%s %s/%s %s: in %s [%s]: %s\n", o.Site, rep.PropID, o.Rule, r.Title, o.Func, o.Construct, o.Msg)
					if len(o.Path) > 0 {
						fmt.Printf("    path: %s\n", strings.Join(o.Path, " -> "))
					}
					violLines = append(violLines, fmt.Sprintf("VIOLATION property=%s replay=%s", rep.PropID, path))
				}
			}
			if len(samples) < 400 {
				samples = append(samples, o)
			}
		}
		// floor per configuration
		for cfg, n := range perCfg {
			if n < r.Floor {
				rep.Errors = append(rep.Errors, fmt.Sprintf("rule %s/%s [%s]: %d instances found, floor is %d (anchors lost?)", rep.PropID, r.ID, cfg, n, r.Floor))
			}
		}
		if len(r.Obs) == 0 && r.Floor > 0 {
			rep.Errors = append(rep.Errors, fmt.Sprintf("rule %s/%s: 0 instances found, floor is %d (anchors lost?)", rep.PropID, r.ID, r.Floor))
		}
		sums = append(sums, rs)
	}
	if len(rep.Rules) == 0 && len(rep.Errors) == 0 {
		rep.Errors = append(rep.Errors, "no rule ran")
	}
	var fns []string
	for f := range rep.Functions {
		fns = append(fns, f)
	}
	sort.Strings(fns)
	sort.Strings(knownMatched)
	knownMatched = uniq(knownMatched)
	sort.Strings(rep.Errors)
	rep.Errors = uniq(rep.Errors)

	cov := map[string]any{
		"explanation":            prop.Explanation,
		"packages_loaded":        rep.Packages,
		"build_configurations":   rep.Configs,
		"functions_analysed":     fns,
		"rules":                  sums,
		"obligations":            total,
		"discharged":             discharged,
		"evaluations":            total + rep.Valuations,
		"valuations_enumerated":  rep.Valuations,
		"distinct_nontrivial":    len(distinct),
		"rule":                   "one evaluation per (rule, site, build configuration) obligation plus one per enumerated valuation of a finite-domain rule; non-trivial = discharged by a matched construct in the source; distinct by rule+function+construct key",
		"samples":                samples,
		"exhaustive":             len(rep.Errors) == 0,
		"variants_generated":     rep.Variants.Generated,
		"variants_detected":      rep.Variants.Detected,
		"variants_skipped":       rep.Variants.Skipped,
		"variants_undetected":    rep.Survivors,
		"known_findings_matched": knownMatched,
		"checker_errors":         rep.Errors,
		"notes":                  rep.Notes,
		"checker_cmd":            fmt.Sprintf("/verif/bin/siotcheck -prop %s -tier %s", rep.PropID, rep.Tier),
		"trusted_base":           []string{"go/types, go/cfg, go/packages (x/tools v0.29.0)", "siotcheck kernels (DESIGN.md §2.2)", "library semantics tables (DESIGN.md §6)"},
	}
	seed := 0
	fmt.Sscanf(os.Getenv("VERIF_SEED"), "%d", &seed)
	ev := map[string]any{
		"property_id": rep.PropID, "tier": rep.Tier, "seed": seed, "level": "other",
		"coverage": cov, "assumptions": prop.Assumptions,
		"wall_s": float64(int(time.Since(rep.start).Seconds()*10)) / 10, "violations": nviol,
	}
	b, _ := json.MarshalIndent(ev, "", " ")
	if err := os.WriteFile(filepath.Join(evDir, rep.PropID+".json"), b, 0o644); err != nil {
		fmt.Printf("CHECKER-ERROR property=%s cannot write evidence: %v\n", rep.PropID, err)
		return 2
	}
	for _, s := range sums {
		fmt.Printf("rule %s/%s %-40s instances=%d floor=%d ok=%d violations=%d undecided=%d\n", rep.PropID, s.Rule, trunc(s.Title, 40), s.Instances, s.Floor, s.Discharged, s.Violations, s.Undecided)
	}
	for _, l := range knownMatched {
		fmt.Println(l)
	}
	for _, l := range violLines {
		fmt.Println(l)
	}
	for _, e := range rep.Errors {
		fmt.Printf("CHECKER-ERROR property=%s %s\n", rep.PropID, e)
	}
	fmt.Printf("%s %s: %d obligations, %d discharged, %d violations, %d known, %d checker errors, %.1fs\n",
		rep.PropID, rep.Tier, total, discharged, nviol, len(knownMatched), len(rep.Errors), time.Since(rep.start).Seconds())
	if nviol > 0 {
		return 1
	}
	if len(rep.Errors) > 0 {
		return 2
	}
	return 0
}

func uniq(s []string) []string {
	var out []string
	for i, x := range s {
		if i == 0 || x != s[i-1] {
			out = append(out, x)
		}
	}
	return out
}
