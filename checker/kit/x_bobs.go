package kit

// K6 (AST flavour), part 3: enumeration and discharge of panic obligations.

import (
	"fmt"
	"go/ast"
	"go/token"
	"go/types"
	"strings"
)

// byteOrderMin lists the encoding/binary byte-order helpers that index their
// slice argument: qualified name -> (argument position, bytes needed).
var byteOrderMin = map[string][2]int{}

// byteOrderAppend lists the Append helpers (they never index their argument)
// with the number of bytes they add.
var byteOrderAppend = map[string]int{"AppendUint16": 2, "AppendUint32": 4, "AppendUint64": 8}

func init() {
	for _, ord := range []string{"bigEndian", "littleEndian", "ByteOrder", "AppendByteOrder"} {
		for name := range byteOrderAppend {
			byteOrderMin["encoding/binary.("+ord+")."+name] = [2]int{0, 0}
		}
	}
	for _, ord := range []string{"bigEndian", "littleEndian"} {
		for name, n := range map[string]int{"Uint16": 2, "Uint32": 4, "Uint64": 8, "PutUint16": 2, "PutUint32": 4, "PutUint64": 8} {
			byteOrderMin["encoding/binary.("+ord+")."+name] = [2]int{0, n}
		}
	}
	for name, n := range map[string]int{"Uint16": 2, "Uint32": 4, "Uint64": 8, "PutUint16": 2, "PutUint32": 4, "PutUint64": 8} {
		byteOrderMin["encoding/binary.(ByteOrder)."+name] = [2]int{0, n}
	}
}

// ByteOrderCall classifies a call of an encoding/binary byte-order helper:
// the helper name ("Uint16", "PutUint32" …), the byte order ("big"/"little"/"")
// and the number of bytes it touches.
func ByteOrderCall(info *types.Info, call *ast.CallExpr) (name, order string, n int, ok bool) {
	q := QualName(Callee(info, call))
	m, found := byteOrderMin[q]
	if !found {
		return "", "", 0, false
	}
	name = q[strings.LastIndex(q, ".")+1:]
	switch {
	case strings.Contains(q, "(bigEndian)"):
		order = "big"
	case strings.Contains(q, "(littleEndian)"):
		order = "little"
	}
	return name, order, m[1], true
}

func (b *Bounds) obligations() {
	for _, blk := range b.G.G.Blocks {
		if !blk.Live {
			continue
		}
		for _, n := range blk.Nodes {
			fs := b.before[n]
			if fs == nil {
				continue
			}
			b.collect(n, n, fs, nil)
		}
	}
}

// collect walks the expression tree of a CFG node in evaluation order,
// carrying the facts implied by short-circuit operators.
func (b *Bounds) collect(stmt ast.Node, n ast.Node, fs FactSet, extra []*BFact) {
	if n == nil {
		return
	}
	info := b.info
	switch x := n.(type) {
	case *ast.FuncLit:
		return
	case *ast.RangeStmt:
		// go/cfg lists the pieces separately
		return
	case *ast.BinaryExpr:
		switch x.Op {
		case token.LAND, token.LOR:
			b.collect(stmt, x.X, fs, extra)
			b.cur = fs
			fx, _ := b.condFacts(x.X, x.Op == token.LAND)
			b.cur = nil
			b.collect(stmt, x.Y, fs, append(append([]*BFact(nil), extra...), fx...))
			return
		case token.SHL, token.SHR:
			b.collect(stmt, x.X, fs, extra)
			b.collect(stmt, x.Y, fs, extra)
			if _, isC := ConstInt(info, x.Y); !isC {
				if bt := basicInt(info.TypeOf(x.Y)); bt != nil && bt.Info()&types.IsUnsigned == 0 {
					ob := b.newOb(stmt, x, "shift", fs, extra)
					env := b.EnvAt(fs, extra)
					if t := b.Term(x.Y); t != nil {
						b.goal(ob, env, linConst(0), env.LinOf(t), 0, "shift count "+b.F.Str(x.Y)+" >= 0")
					} else {
						b.fail(ob, "shift count "+b.F.Str(x.Y)+" is not trackable")
					}
					b.finish(ob)
				}
			}
			return
		case token.QUO, token.REM:
			b.collect(stmt, x.X, fs, extra)
			b.collect(stmt, x.Y, fs, extra)
			if bt := basicInt(info.TypeOf(x)); bt != nil {
				if _, isC := ConstInt(info, x.Y); !isC {
					ob := b.newOb(stmt, x, "divisor", fs, extra)
					env := b.EnvAt(fs, extra)
					if t := b.Term(x.Y); t != nil {
						iv := env.IvTerm(t)
						if iv.Lo > 0 || iv.Hi < 0 {
							ob.Goals = append(ob.Goals, "divisor "+b.F.Str(x.Y)+" != 0")
						} else {
							b.fail(ob, "divisor "+b.F.Str(x.Y)+" != 0")
						}
					} else {
						b.fail(ob, "divisor "+b.F.Str(x.Y)+" is not trackable")
					}
					b.finish(ob)
				}
			}
			return
		}
	case *ast.IndexExpr:
		b.collect(stmt, x.X, fs, extra)
		b.collect(stmt, x.Index, fs, extra)
		if tv, ok := info.Types[x.X]; ok && tv.IsType() {
			return
		}
		if _, isFn := info.TypeOf(x.X).Underlying().(*types.Signature); isFn {
			return
		}
		if _, isMap := info.TypeOf(x.X).Underlying().(*types.Map); isMap {
			return
		}
		ob := b.newOb(stmt, x, "index", fs, extra)
		env := b.EnvAt(fs, extra)
		ln, why := b.lenLin(env, x.X)
		it := b.Term(x.Index)
		switch {
		case ln == nil:
			b.fail(ob, "length of "+b.F.Str(x.X)+" is not trackable: "+why)
		case it == nil || it.Typ == nil:
			b.fail(ob, "index "+b.F.Str(x.Index)+" is not trackable")
		default:
			il := env.LinOf(it)
			b.goal(ob, env, linConst(0), il, 0, "0 <= "+b.F.Str(x.Index))
			b.goal(ob, env, il, ln, -1, b.F.Str(x.Index)+" < len("+b.F.Str(x.X)+")")
		}
		b.finish(ob)
		return
	case *ast.SliceExpr:
		b.collect(stmt, x.X, fs, extra)
		for _, e := range []ast.Expr{x.Low, x.High, x.Max} {
			if e != nil {
				b.collect(stmt, e, fs, extra)
			}
		}
		ob := b.newOb(stmt, x, "slice", fs, extra)
		env := b.EnvAt(fs, extra)
		ln, why := b.lenLin(env, x.X)
		if x.Slice3 {
			b.fail(ob, "three-index slice not supported")
			b.finish(ob)
			return
		}
		if ln == nil {
			b.fail(ob, "length of "+b.F.Str(x.X)+" is not trackable: "+why)
			b.finish(ob)
			return
		}
		lo, hi := linConst(0), ln
		okTerms := true
		if x.Low != nil {
			if t := b.Term(x.Low); t != nil && t.Typ != nil {
				lo = env.LinOf(t)
			} else {
				okTerms = false
				b.fail(ob, "bound "+b.F.Str(x.Low)+" is not trackable")
			}
		}
		if x.High != nil {
			if t := b.Term(x.High); t != nil && t.Typ != nil {
				hi = env.LinOf(t)
			} else {
				okTerms = false
				b.fail(ob, "bound "+b.F.Str(x.High)+" is not trackable")
			}
		}
		if okTerms {
			if x.Low != nil {
				b.goal(ob, env, linConst(0), lo, 0, "0 <= "+b.F.Str(x.Low))
			}
			if x.Low != nil || x.High != nil {
				ls, hs := "0", "len("+b.F.Str(x.X)+")"
				if x.Low != nil {
					ls = b.F.Str(x.Low)
				}
				if x.High != nil {
					hs = b.F.Str(x.High)
				}
				b.goal(ob, env, lo, hi, 0, ls+" <= "+hs)
			}
			if x.High != nil {
				b.goal(ob, env, hi, ln, 0, b.F.Str(x.High)+" <= len("+b.F.Str(x.X)+")")
			}
		}
		b.finish(ob)
		return
	case *ast.CallExpr:
		b.collect(stmt, x.Fun, fs, extra)
		for _, a := range x.Args {
			b.collect(stmt, a, fs, extra)
		}
		if _, _, need, ok := ByteOrderCall(info, x); ok && len(x.Args) > 0 && need > 0 {
			ob := b.newOb(stmt, x, "min-length", fs, extra)
			env := b.EnvAt(fs, extra)
			ln, why := b.lenLin(env, x.Args[0])
			if ln == nil {
				b.fail(ob, "length of "+b.F.Str(x.Args[0])+" is not trackable: "+why)
			} else {
				b.goal(ob, env, linConst(int64(need)), ln, 0, fmt.Sprintf("len(%s) >= %d", b.F.Str(x.Args[0]), need))
			}
			b.finish(ob)
		}
		if bi, ok := Callee(info, x).(*types.Builtin); ok && bi.Name() == "make" && len(x.Args) >= 2 {
			for _, a := range x.Args[1:] {
				if _, isC := ConstInt(info, a); isC {
					continue
				}
				if bt := basicInt(info.TypeOf(a)); bt != nil && bt.Info()&types.IsUnsigned == 0 {
					ob := b.newOb(stmt, x, "make-size", fs, extra)
					env := b.EnvAt(fs, extra)
					if t := b.Term(a); t != nil {
						b.goal(ob, env, linConst(0), env.LinOf(t), 0, "size "+b.F.Str(a)+" >= 0")
					} else {
						b.fail(ob, "size "+b.F.Str(a)+" is not trackable")
					}
					b.finish(ob)
				}
			}
		}
		return
	}
	// generic traversal of children
	first := true
	ast.Inspect(n, func(c ast.Node) bool {
		if first {
			first = false
			return true
		}
		if c == nil {
			return false
		}
		b.collect(stmt, c, fs, extra)
		return false
	})
}

func (b *Bounds) newOb(stmt ast.Node, n ast.Node, kind string, fs FactSet, extra []*BFact) *BoundOb {
	return &BoundOb{Node: n, Stmt: stmt, Kind: kind, Text: b.F.Str(n), Proved: true, Facts: fs, Extra: extra}
}

func (b *Bounds) fail(ob *BoundOb, what string) {
	if ob.Proved {
		ob.Proved = false
		ob.Failed = what
	}
}

func (b *Bounds) goal(ob *BoundOb, env *Env, lo, hi *Lin, c int64, text string) {
	ob.Goals = append(ob.Goals, text)
	if env.ProveLE(lo, hi, c) {
		for i := len(env.Trace) - 1; i >= 0; i-- {
			ob.By = append(ob.By, env.Trace[i])
		}
		return
	}
	b.fail(ob, text+fmt.Sprintf("  [need %s >= 0; interval %s]", hi.sub(lo).addC(c).Pretty(), env.IvLin(hi.sub(lo).addC(c))))
}

func (b *Bounds) finish(ob *BoundOb) {
	b.Obs = append(b.Obs, ob)
}

// lenLin returns the length of a slice/array/string valued expression.
func (b *Bounds) lenLin(env *Env, e ast.Expr) (*Lin, string) {
	e = ast.Unparen(e)
	if se, ok := e.(*ast.SliceExpr); ok && !se.Slice3 {
		var hi *Lin
		if se.High != nil {
			t := b.Term(se.High)
			if t == nil || t.Typ == nil {
				return nil, "bound " + b.F.Str(se.High)
			}
			hi = env.LinOf(t)
		} else {
			var why string
			hi, why = b.lenLin(env, se.X)
			if hi == nil {
				return nil, why
			}
		}
		if se.Low == nil {
			return hi, ""
		}
		t := b.Term(se.Low)
		if t == nil || t.Typ == nil {
			return nil, "bound " + b.F.Str(se.Low)
		}
		return hi.sub(env.LinOf(t)), ""
	}
	if t := b.lenTermOf(e); t != nil {
		return env.LinOf(t), ""
	}
	return nil, "not a variable, field path, array or sub-slice"
}

// Describe lists the facts relevant to an obligation (for reports).
func (ob *BoundOb) Describe() string {
	var parts []string
	seen := map[string]bool{}
	for _, s := range ob.By {
		if !seen[s] {
			seen[s] = true
			parts = append(parts, s)
		}
	}
	if len(parts) == 0 {
		return "interval arithmetic over definitions and guards"
	}
	return strings.Join(parts, "; ")
}

// LenLinOf returns the length of a slice/array/string valued expression as
// a linear form under env (nil if it cannot be tracked).
func (b *Bounds) LenLinOf(env *Env, e ast.Expr) *Lin {
	l, _ := b.lenLin(env, e)
	return l
}

// CondFacts returns the facts implied by cond having the given truth value,
// interpreted against the facts fs (boolean locals that hold a condition).
func (b *Bounds) CondFacts(fs FactSet, cond ast.Expr, val bool) []*BFact {
	saved := b.cur
	b.cur = fs
	defer func() { b.cur = saved }()
	facts, _ := b.condFacts(cond, val)
	return facts
}
