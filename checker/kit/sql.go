package kit

import (
	"fmt"
	"go/ast"
	"go/token"
	"go/types"
	"regexp"
	"strings"
)

// K2: SQL model of package store.

// SQLStmt is a classified SQL statement template.
type SQLStmt struct {
	Raw    string
	Verb   string      // SELECT INSERT UPDATE DELETE CREATE-TABLE CREATE-INDEX ALTER
	Table  string      // lower case
	Cols   []string    // SELECT list ("*" possible), INSERT column list, UPDATE SET columns, CREATE TABLE columns
	Values []string    // INSERT VALUES items
	Upsert [][2]string // ON CONFLICT DO UPDATE SET col = expr
	Where  []string    // columns constrained in WHERE
	// UpsertWhere: tokens of a WHERE that guards ON CONFLICT DO UPDATE (nil = unconditional)
	UpsertWhere []string
	WhereRaw    string
	Params      int // number of ? placeholders
}

// SQLSite is a call that executes or prepares SQL.
type SQLSite struct {
	F      *Func
	Call   *ast.CallExpr
	Recv   string // "db", "tx", "stmt", "wrapper"
	Method string // Exec Query QueryRow Prepare / wrapper name
	// TxArg is, for wrapper calls, the expression passed for the *sql.Tx
	// parameter (nil ident = runs on the DB handle).
	TxArg ast.Expr
	// Stmts lists the possible statement templates (one per way the query
	// string can be built); empty when the query is an opaque parameter
	// (inside a wrapper).
	Stmts []SQLStmt
	// Args are the bind arguments (after the query).
	Args []ast.Expr
	// Prepared links a (*Stmt).Exec to its Prepare site.
	Prepared *SQLSite
	// QueryParam is set when the query text is a parameter of F (wrapper body).
	QueryParam bool
}

func (s *SQLSite) Mutates() bool {
	for _, st := range s.Stmts {
		switch st.Verb {
		case "INSERT", "UPDATE", "DELETE", "CREATE-TABLE", "CREATE-INDEX", "ALTER":
			return true
		}
	}
	return false
}

// HasVerb reports whether any template has the verb on the table ("" = any).
func (s *SQLSite) HasVerb(verb, table string) bool {
	for _, st := range s.Stmts {
		if st.Verb == verb && (table == "" || st.Table == table) {
			return true
		}
	}
	return false
}

const sqlPkg = "database/sql"

var sqlMethods = map[string][2]string{
	"database/sql.(*DB).Exec": {"db", "Exec"}, "database/sql.(*DB).Query": {"db", "Query"},
	"database/sql.(*DB).QueryRow": {"db", "QueryRow"}, "database/sql.(*DB).Prepare": {"db", "Prepare"},
	"database/sql.(*Tx).Exec": {"tx", "Exec"}, "database/sql.(*Tx).Query": {"tx", "Query"},
	"database/sql.(*Tx).QueryRow": {"tx", "QueryRow"}, "database/sql.(*Tx).Prepare": {"tx", "Prepare"},
	"database/sql.(*Stmt).Exec": {"stmt", "Exec"}, "database/sql.(*Stmt).Query": {"stmt", "Query"},
	"database/sql.(*Stmt).QueryRow":  {"stmt", "QueryRow"},
	"database/sql.(*DB).ExecContext": {"db", "Exec"}, "database/sql.(*Tx).ExecContext": {"tx", "Exec"},
	"database/sql.(*DB).QueryContext": {"db", "Query"}, "database/sql.(*Tx).QueryContext": {"tx", "Query"},
}

// SQLModel is the set of SQL sites of a package.
type SQLModel struct {
	Sites    []*SQLSite
	Wrappers map[*Func]int       // wrapper function -> index of its query parameter
	TxParam  map[*Func]int       // wrapper function -> index of its *sql.Tx parameter (-1 none)
	Tables   map[string][]string // CREATE TABLE column order
	Unparsed []string
}

// SQLModelOf builds the model for a package (module relative path).
func (p *Prog) SQLModelOf(rel string) *SQLModel {
	m := &SQLModel{Wrappers: map[*Func]int{}, TxParam: map[*Func]int{}, Tables: map[string][]string{}}
	funcs := p.Funcs(rel)
	// pass 1: wrappers = functions that pass a string parameter as the query
	// of a sql method
	for _, f := range funcs {
		if f.Decl == nil {
			continue
		}
		params := f.Params()
		for _, call := range f.AllCalls(true) {
			if _, ok := sqlMethods[QualName(Callee(f.Info(), call))]; !ok || len(call.Args) == 0 {
				continue
			}
			o := ObjOf(f.Info(), call.Args[0])
			for i, pv := range params {
				if o == pv {
					m.Wrappers[f] = i
					m.TxParam[f] = -1
					for j, q := range params {
						if IsNamedType(q.Type(), sqlPkg, "Tx") {
							m.TxParam[f] = j
						}
					}
				}
			}
		}
	}
	// pass 2: sites
	for _, f := range funcs {
		if f.Body == nil {
			continue
		}
		prepared := map[types.Object]*SQLSite{}
		for _, call := range f.AllCalls(false) {
			callee := Callee(f.Info(), call)
			if km, ok := sqlMethods[QualName(callee)]; ok {
				site := &SQLSite{F: f, Call: call, Recv: km[0], Method: km[1]}
				if km[0] == "stmt" {
					site.Args = call.Args
					if sel, ok := ast.Unparen(call.Fun).(*ast.SelectorExpr); ok {
						if ps := prepared[ObjOf(f.Info(), sel.X)]; ps != nil {
							site.Prepared = ps
							site.Stmts = ps.Stmts
						}
					}
					if site.Prepared == nil {
						// search in enclosing function
						if sel, ok := ast.Unparen(call.Fun).(*ast.SelectorExpr); ok {
							site.Prepared = m.findPrepare(f, ObjOf(f.Info(), sel.X))
							if site.Prepared != nil {
								site.Stmts = site.Prepared.Stmts
							}
						}
					}
				} else if len(call.Args) > 0 {
					site.Args = call.Args[1:]
					m.fillStmts(f, site, call.Args[0])
				}
				m.Sites = append(m.Sites, site)
				if km[1] == "Prepare" {
					if as, ok := f.Prog.Parent(f.File, call).(*ast.AssignStmt); ok && len(as.Lhs) > 0 {
						if o := ObjOf(f.Info(), as.Lhs[0]); o != nil {
							prepared[o] = site
						}
					}
				}
				continue
			}
			if cf := f.CalleeFunc(call); cf != nil {
				if qi, ok := m.Wrappers[cf]; ok && qi < len(call.Args) {
					site := &SQLSite{F: f, Call: call, Recv: "wrapper", Method: cf.Name}
					if ti := m.TxParam[cf]; ti >= 0 && ti < len(call.Args) {
						site.TxArg = call.Args[ti]
					}
					site.Args = call.Args[qi+1:]
					m.fillStmts(f, site, call.Args[qi])
					m.Sites = append(m.Sites, site)
				}
			}
		}
	}
	for _, s := range m.Sites {
		for _, st := range s.Stmts {
			if st.Verb == "CREATE-TABLE" {
				m.Tables[st.Table] = st.Cols
			}
		}
	}
	return m
}

func (m *SQLModel) findPrepare(f *Func, stmtVar types.Object) *SQLSite {
	if stmtVar == nil {
		return nil
	}
	for _, s := range m.Sites {
		if s.Method != "Prepare" || s.F.Root() != f.Root() {
			continue
		}
		if as, ok := s.F.Prog.Parent(s.F.File, s.Call).(*ast.AssignStmt); ok && len(as.Lhs) > 0 {
			if ObjOf(s.F.Info(), as.Lhs[0]) == stmtVar {
				return s
			}
		}
	}
	return nil
}

func (m *SQLModel) fillStmts(f *Func, site *SQLSite, q ast.Expr) {
	// parameter of a wrapper?
	if o := ObjOf(f.Info(), q); o != nil {
		root := f.Root()
		if qi, ok := m.Wrappers[root]; ok {
			ps := root.Params()
			if qi < len(ps) && ps[qi] == o {
				site.QueryParam = true
				return
			}
		}
	}
	for _, tmpl := range sqlTemplates(f, q, 0) {
		st, ok := ParseSQL(tmpl)
		if !ok {
			m.Unparsed = append(m.Unparsed, fmt.Sprintf("%s: %q", f.At(site.Call), tmpl))
			continue
		}
		site.Stmts = append(site.Stmts, st)
	}
	if len(site.Stmts) == 0 && !site.QueryParam {
		m.Unparsed = append(m.Unparsed, fmt.Sprintf("%s: cannot resolve query text `%s`", f.At(site.Call), f.Str(q)))
	}
}

// sqlTemplates resolves the possible constant shapes of a query expression:
// constants, fmt.Sprintf with constant format (verbs become §), string
// concatenation (non-constant parts become §), and local variables assigned
// such expressions (all assignments, with `q += x` appended to each).
// StringTemplates resolves the possible constant shapes of a string
// expression (see sqlTemplates); non-constant parts appear as §.
func StringTemplates(f *Func, e ast.Expr) []string { return sqlTemplates(f, e, 0) }

func sqlTemplates(f *Func, e ast.Expr, depth int) []string {
	if depth > 4 {
		return []string{"§"}
	}
	e = ast.Unparen(e)
	if s, ok := ConstString(f.Info(), e); ok {
		return []string{s}
	}
	if depth == 0 {
		if ts := structRangeTemplates(f, e); ts != nil {
			return ts
		}
	}
	switch x := e.(type) {
	case *ast.BinaryExpr:
		if x.Op == token.ADD {
			var out []string
			for _, a := range sqlTemplates(f, x.X, depth+1) {
				for _, b := range sqlTemplates(f, x.Y, depth+1) {
					out = append(out, a+b)
				}
			}
			return out
		}
	case *ast.CallExpr:
		if CallIs(f.Info(), x, "fmt.Sprintf") && len(x.Args) > 0 {
			if format, ok := ConstString(f.Info(), x.Args[0]); ok {
				// substitute each verb by the (single) constant shape of its argument, else §
				i := 0
				out := fmtVerb.ReplaceAllStringFunc(format, func(v string) string {
					i++
					if i < len(x.Args) && strings.HasSuffix(strings.TrimRight(v, "'"), "s") {
						if ts := sqlTemplates(f, x.Args[i], depth+1); len(ts) == 1 && !strings.Contains(ts[0], "§") {
							return ts[0]
						}
					}
					return "§"
				})
				return []string{out}
			}
		}
		// a module helper whose body is a single `return <string expr>`: expand it
		// with the call's arguments bound to its parameters
		if cf := f.CalleeFunc(x); cf != nil && cf.Body != nil && len(cf.Body.List) == 1 && depth < 3 {
			if ret, ok := cf.Body.List[0].(*ast.ReturnStmt); ok && len(ret.Results) == 1 {
				params := cf.Params()
				if len(params) == len(x.Args) {
					bind := map[types.Object]string{}
					okAll := true
					for i, a := range x.Args {
						ts := sqlTemplates(f, a, depth+1)
						if len(ts) != 1 {
							okAll = false
							break
						}
						bind[params[i]] = ts[0]
					}
					if okAll {
						return sqlTemplatesBound(cf, ret.Results[0], depth+1, bind)
					}
				}
			}
		}
		return []string{"§"}
	case *ast.Ident:
		obj := ObjOf(f.Info(), x)
		v, ok := obj.(*types.Var)
		if !ok || v.IsField() {
			return []string{"§"}
		}
		var bases, appends []string
		root := f.Root()
		if root.Body == nil {
			return []string{"§"}
		}
		// range value variable over a literal list of constant strings:
		// for _, q := range []string{"CREATE INDEX …", …} { db.Exec(q) }
		var fromRange []string
		ast.Inspect(root.Body, func(n ast.Node) bool {
			rs, ok := n.(*ast.RangeStmt)
			if !ok || rs.Value == nil || ObjOf(f.Info(), rs.Value) != obj {
				return true
			}
			if cl, ok := ast.Unparen(rs.X).(*ast.CompositeLit); ok {
				for _, el := range cl.Elts {
					if kv, ok := el.(*ast.KeyValueExpr); ok {
						el = kv.Value
					}
					fromRange = append(fromRange, sqlTemplates(f, el, depth+1)...)
				}
			} else if lo := ObjOf(f.Info(), rs.X); lo != nil {
				// … or over a local assigned such a literal once
				ast.Inspect(root.Body, func(x ast.Node) bool {
					if as, ok := x.(*ast.AssignStmt); ok && len(as.Lhs) == 1 && len(as.Rhs) == 1 && ObjOf(f.Info(), as.Lhs[0]) == lo {
						if cl, ok := ast.Unparen(as.Rhs[0]).(*ast.CompositeLit); ok {
							for _, el := range cl.Elts {
								fromRange = append(fromRange, sqlTemplates(f, el, depth+1)...)
							}
						}
					}
					return true
				})
			}
			return true
		})
		if len(fromRange) > 0 {
			return fromRange
		}
		ast.Inspect(root.Body, func(n ast.Node) bool {
			as, ok := n.(*ast.AssignStmt)
			if !ok {
				return true
			}
			for i, l := range as.Lhs {
				if ObjOf(f.Info(), l) != obj || i >= len(as.Rhs) {
					continue
				}
				if as.Tok == token.ADD_ASSIGN {
					appends = append(appends, sqlTemplates(f, as.Rhs[i], depth+1)...)
				} else {
					bases = append(bases, sqlTemplates(f, as.Rhs[i], depth+1)...)
				}
			}
			return true
		})
		if len(bases) == 0 {
			return []string{"§"}
		}
		out := append([]string(nil), bases...)
		for _, b := range bases {
			for _, a := range appends {
				out = append(out, b+" "+a)
			}
		}
		return out
	}
	return []string{"§"}
}

// structRangeTemplates resolves a query built from the fields of a range variable
// over a literal table of structs:
//
//	for _, t := range []struct{ name, owner string }{{"node_points", "node_id"}, …} {
//		db.Exec(`DELETE FROM ` + t.name + ` … GROUP BY ` + t.owner)
//	}
//
// One template per table row, with all fields of that row substituted together.
func structRangeTemplates(f *Func, e ast.Expr) []string {
	info := f.Info()
	root := f.Root()
	if root.Body == nil {
		return nil
	}
	var rv types.Object
	ast.Inspect(e, func(n ast.Node) bool {
		if sel, ok := n.(*ast.SelectorExpr); ok {
			if id, ok := ast.Unparen(sel.X).(*ast.Ident); ok {
				if v, ok := ObjOf(info, id).(*types.Var); ok && !v.IsField() {
					if _, isStruct := v.Type().Underlying().(*types.Struct); isStruct && rv == nil {
						rv = v
					}
				}
			}
		}
		return true
	})
	if rv == nil {
		return nil
	}
	stt := rv.Type().Underlying().(*types.Struct)
	var lit *ast.CompositeLit
	ast.Inspect(root.Body, func(n ast.Node) bool {
		rs, ok := n.(*ast.RangeStmt)
		if !ok || rs.Value == nil || ObjOf(info, rs.Value) != rv {
			return true
		}
		if cl, ok := ast.Unparen(rs.X).(*ast.CompositeLit); ok {
			lit = cl
		} else if lo := ObjOf(info, rs.X); lo != nil {
			n := 0
			ast.Inspect(root.Body, func(x ast.Node) bool {
				if as, ok := x.(*ast.AssignStmt); ok && len(as.Lhs) == 1 && len(as.Rhs) == 1 && ObjOf(info, as.Lhs[0]) == lo {
					n++
					if cl, ok := ast.Unparen(as.Rhs[0]).(*ast.CompositeLit); ok {
						lit = cl
					}
				}
				return true
			})
			if n != 1 {
				lit = nil
			}
		}
		return true
	})
	if lit == nil || len(lit.Elts) == 0 {
		return nil
	}
	var out []string
	for _, el := range lit.Elts {
		if kv, ok := el.(*ast.KeyValueExpr); ok {
			el = kv.Value
		}
		row, ok := ast.Unparen(el).(*ast.CompositeLit)
		if !ok {
			return nil
		}
		fields := map[string]string{}
		for i, fe := range row.Elts {
			name := ""
			if kv, ok := fe.(*ast.KeyValueExpr); ok {
				if id, ok := kv.Key.(*ast.Ident); ok {
					name = id.Name
				}
				fe = kv.Value
			} else if i < stt.NumFields() {
				name = stt.Field(i).Name()
			}
			if v, ok := ConstString(info, fe); ok && name != "" {
				fields[name] = v
			}
		}
		var ev func(x ast.Expr) (string, bool)
		ev = func(x ast.Expr) (string, bool) {
			x = ast.Unparen(x)
			if v, ok := ConstString(info, x); ok {
				return v, true
			}
			switch y := x.(type) {
			case *ast.BinaryExpr:
				if y.Op == token.ADD {
					a, ok1 := ev(y.X)
					b, ok2 := ev(y.Y)
					return a + b, ok1 && ok2
				}
			case *ast.SelectorExpr:
				if ObjOf(info, y.X) == rv {
					v, ok := fields[y.Sel.Name]
					return v, ok
				}
			}
			if ts := sqlTemplates(f, x, 1); len(ts) == 1 {
				return ts[0], true
			}
			return "", false
		}
		t, ok := ev(e)
		if !ok {
			return nil
		}
		out = append(out, t)
	}
	return out
}

// sqlTemplatesBound evaluates a string expression of a helper with its
// parameters bound to templates.
func sqlTemplatesBound(f *Func, e ast.Expr, depth int, bind map[types.Object]string) []string {
	e = ast.Unparen(e)
	if s, ok := ConstString(f.Info(), e); ok {
		return []string{s}
	}
	switch x := e.(type) {
	case *ast.Ident:
		if t, ok := bind[ObjOf(f.Info(), x)]; ok {
			return []string{t}
		}
	case *ast.BinaryExpr:
		if x.Op == token.ADD {
			var out []string
			for _, a := range sqlTemplatesBound(f, x.X, depth+1, bind) {
				for _, b := range sqlTemplatesBound(f, x.Y, depth+1, bind) {
					out = append(out, a+b)
				}
			}
			return out
		}
	case *ast.CallExpr:
		if CallIs(f.Info(), x, "fmt.Sprintf") && len(x.Args) > 0 {
			if format, ok := ConstString(f.Info(), x.Args[0]); ok {
				i := 0
				return []string{fmtVerb.ReplaceAllStringFunc(format, func(v string) string {
					i++
					if i < len(x.Args) {
						if ts := sqlTemplatesBound(f, x.Args[i], depth+1, bind); len(ts) == 1 && !strings.Contains(ts[0], "§") {
							return ts[0]
						}
					}
					return "§"
				})}
			}
		}
	}
	return sqlTemplates(f, e, depth)
}

var fmtVerb = regexp.MustCompile(`'?%[-+# 0]*[0-9]*(\.[0-9]+)?[a-zA-Z]'?`)

var sqlTok = regexp.MustCompile(`(?s)\s*([A-Za-z_][A-Za-z0-9_]*|\?[0-9]*|§|'[^']*'|[0-9]+|<=|>=|!=|<>|[(),=*<>;.+-])`)

func sqlTokens(s string) ([]string, bool) {
	var out []string
	rest := s
	for {
		rest = strings.TrimLeft(rest, " \t\r\n")
		if rest == "" {
			return out, true
		}
		loc := sqlTok.FindStringSubmatchIndex(rest)
		if loc == nil || loc[0] != 0 {
			return out, false
		}
		out = append(out, rest[loc[2]:loc[3]])
		rest = rest[loc[1]:]
	}
}

// ParseSQL classifies one statement.
func ParseSQL(raw string) (SQLStmt, bool) {
	st := SQLStmt{Raw: strings.Join(strings.Fields(raw), " ")}
	toks, ok := sqlTokens(raw)
	if !ok || len(toks) == 0 {
		return st, false
	}
	up := func(i int) string {
		if i < len(toks) {
			return strings.ToUpper(toks[i])
		}
		return ""
	}
	for _, t := range toks {
		if strings.HasPrefix(t, "?") {
			st.Params++
		}
	}
	parenList := func(i int) ([]string, int) { // toks[i] == "("
		var items []string
		depth := 0
		cur := ""
		for ; i < len(toks); i++ {
			t := toks[i]
			if t == "(" {
				depth++
				if depth == 1 {
					continue
				}
			}
			if t == ")" {
				depth--
				if depth == 0 {
					if cur != "" {
						items = append(items, cur)
					}
					return items, i + 1
				}
			}
			if t == "," && depth == 1 {
				items = append(items, cur)
				cur = ""
				continue
			}
			if cur != "" {
				cur += " "
			}
			cur += t
		}
		return items, i
	}
	where := func(i int) {
		var raw []string
		for ; i < len(toks); i++ {
			raw = append(raw, toks[i])
			if i+1 < len(toks) {
				nx := strings.ToUpper(toks[i+1])
				if nx == "=" || nx == "IN" || nx == "!=" || nx == "<" || nx == ">" || nx == "<>" || nx == "<=" || nx == ">=" || nx == "IS" || nx == "LIKE" {
					if isIdent(toks[i]) {
						st.Where = append(st.Where, strings.ToLower(toks[i]))
					}
				}
			}
		}
		st.WhereRaw = strings.Join(raw, " ")
	}
	switch up(0) {
	case "SELECT":
		st.Verb = "SELECT"
		i := 1
		cur := ""
		for ; i < len(toks) && up(i) != "FROM"; i++ {
			if toks[i] == "," {
				st.Cols = append(st.Cols, strings.ToLower(cur))
				cur = ""
				continue
			}
			if cur != "" {
				cur += " "
			}
			cur += toks[i]
		}
		if cur != "" {
			st.Cols = append(st.Cols, strings.ToLower(cur))
		}
		if up(i) != "FROM" || i+1 >= len(toks) {
			return st, false
		}
		st.Table = strings.ToLower(toks[i+1])
		i += 2
		if i < len(toks) && toks[i] == "(" { // table-valued function
			_, i = parenList(i)
		}
		if up(i) == "WHERE" {
			where(i + 1)
		} else if i < len(toks) {
			// e.g. template "…§AND type = §" (missing space quirk) — keep raw
			where(i)
		}
		return st, true
	case "INSERT":
		if up(1) != "INTO" || len(toks) < 3 {
			return st, false
		}
		st.Verb = "INSERT"
		st.Table = strings.ToLower(toks[2])
		i := 3
		if i < len(toks) && toks[i] == "(" {
			var cols []string
			cols, i = parenList(i)
			for _, c := range cols {
				st.Cols = append(st.Cols, strings.ToLower(c))
			}
		}
		if up(i) != "VALUES" {
			return st, false
		}
		i++
		if i < len(toks) && toks[i] == "(" {
			st.Values, i = parenList(i)
		}
		if up(i) == "ON" && up(i+1) == "CONFLICT" {
			for ; i < len(toks) && up(i) != "SET"; i++ {
			}
			i++
			for i < len(toks) {
				if i+2 < len(toks) && toks[i+1] == "=" {
					col := strings.ToLower(toks[i])
					val := ""
					i += 2
					for i < len(toks) && toks[i] != "," && strings.ToUpper(toks[i]) != "WHERE" {
						val += toks[i]
						i++
					}
					st.Upsert = append(st.Upsert, [2]string{col, val})
					if i < len(toks) && toks[i] == "," {
						i++
						continue
					}
				}
				break
			}
			if up(i) == "WHERE" {
				st.UpsertWhere = append([]string{}, toks[i+1:]...)
			}
		}
		return st, true
	case "UPDATE":
		if len(toks) < 4 || up(2) != "SET" {
			return st, false
		}
		st.Verb = "UPDATE"
		st.Table = strings.ToLower(toks[1])
		i := 3
		for i < len(toks) && up(i) != "WHERE" {
			if i+1 < len(toks) && toks[i+1] == "=" {
				st.Cols = append(st.Cols, strings.ToLower(toks[i]))
			}
			i++
		}
		if up(i) == "WHERE" {
			where(i + 1)
		}
		return st, true
	case "DELETE":
		if up(1) != "FROM" {
			return st, false
		}
		st.Verb = "DELETE"
		if len(toks) > 2 {
			st.Table = strings.ToLower(toks[2])
		}
		for i := 3; i < len(toks); i++ {
			if up(i) == "WHERE" {
				where(i + 1)
			}
		}
		return st, true
	case "CREATE":
		i := 1
		if up(i) == "UNIQUE" {
			i++
		}
		kind := up(i)
		i++
		if up(i) == "IF" {
			i += 3
		}
		if kind == "INDEX" {
			st.Verb = "CREATE-INDEX"
			if i+2 < len(toks) {
				st.Table = strings.ToLower(toks[i+2])
			}
			return st, true
		}
		if kind != "TABLE" || i >= len(toks) {
			return st, false
		}
		st.Verb = "CREATE-TABLE"
		st.Table = strings.ToLower(toks[i])
		i++
		if i < len(toks) && toks[i] == "(" {
			items, _ := parenList(i)
			for _, it := range items {
				f := strings.Fields(it)
				if len(f) > 0 {
					st.Cols = append(st.Cols, strings.ToLower(f[0]))
				}
			}
		}
		return st, true
	case "WITH":
		// common table expression: read-only unless it carries a mutating verb;
		// table and columns are not modelled
		st.Verb = "SELECT"
		st.Table = "(cte)"
		for _, t := range toks {
			switch strings.ToUpper(t) {
			case "INSERT", "UPDATE", "DELETE", "REPLACE":
				return st, false
			}
		}
		return st, true
	case "ALTER":
		st.Verb = "ALTER"
		if len(toks) > 2 {
			st.Table = strings.ToLower(toks[2])
		}
		return st, true
	}
	return st, false
}

func isIdent(s string) bool {
	if s == "" {
		return false
	}
	c := s[0]
	return c == '_' || (c >= 'a' && c <= 'z') || (c >= 'A' && c <= 'Z')
}
