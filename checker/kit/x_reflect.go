package kit

// Reflect-surface abstract interpreter (K6 for reflection-heavy code).
//
// The analysed functions manipulate reflect.Value / reflect.Type /
// reflect.Kind locals.  The interpreter names the runtime objects behind them
// ("entities"), binds locals to entities, and keeps per entity
//
//	K:<ent>   set of reflect.Kinds the entity may have (bit mask, bit 0 = Invalid)
//	nn:<ent>  "T" when the Value is known non-nil
//	cs:<ent>  "T" when CanSet() is known true
//	mk:<ent>  length key when the Value was made by MakeSlice(t, n, n)
//
// plus a small integer domain (x_reflect_bounds.go).  Facts are refined on
// branch edges (k == reflect.Slice, v.IsNil(), v.IsValid(), i < v.Len(), …);
// an edge whose kind set becomes empty is infeasible.  Every reflect call is
// reported to the client together with the state it executes in; the client
// decides obligations (kind preconditions, index bounds).

import (
	"fmt"
	"go/ast"
	"go/types"
	"reflect"
	"sort"
	"strconv"
	"strings"
	"sync"
)

// Kind masks ---------------------------------------------------------------

const (
	RAllKinds uint32 = 1<<27 - 1
	RInvalid  uint32 = 1 << uint(reflect.Invalid)
	RAllValid        = RAllKinds &^ RInvalid
)

// RK builds a mask from kinds.
func RK(ks ...reflect.Kind) uint32 {
	var m uint32
	for _, k := range ks {
		m |= 1 << uint(k)
	}
	return m
}

var (
	RInts   = RK(reflect.Int, reflect.Int8, reflect.Int16, reflect.Int32, reflect.Int64)
	RUints  = RK(reflect.Uint, reflect.Uint8, reflect.Uint16, reflect.Uint32, reflect.Uint64, reflect.Uintptr)
	RFloats = RK(reflect.Float32, reflect.Float64)
)

// RMaskStr renders a kind mask.
func RMaskStr(m uint32) string {
	if m == RAllKinds {
		return "{any kind, or the zero Value}"
	}
	if m == RAllValid {
		return "{any kind}"
	}
	if rBitsSet(m) > 14 {
		return "{all but " + strings.TrimPrefix(RMaskStr(RAllKinds&^m), "{")
	}
	var out []string
	for k := 0; k < 27; k++ {
		if m&(1<<uint(k)) != 0 {
			if k == 0 {
				out = append(out, "zero Value")
			} else {
				out = append(out, reflect.Kind(k).String())
			}
		}
	}
	return "{" + strings.Join(out, ",") + "}"
}

func rBitsSet(m uint32) int {
	n := 0
	for ; m != 0; m &= m - 1 {
		n++
	}
	return n
}

// Types ---------------------------------------------------------------------

// RType classifies a static type: "Value", "Type", "Kind", "StructField",
// "MapIter" or "".
func RType(t types.Type) string {
	if t == nil {
		return ""
	}
	for _, n := range []string{"Value", "Type", "Kind", "StructField", "MapIter"} {
		if IsNamedType(t, "reflect", n) {
			return n
		}
	}
	return ""
}

// RCallName returns "Value.Elem", "Type.Key", "reflect.New" … for a call into
// package reflect, "" otherwise.
func RCallName(info *types.Info, call *ast.CallExpr) string {
	fn, ok := Callee(info, call).(*types.Func)
	if !ok || fn.Pkg() == nil || fn.Pkg().Path() != "reflect" {
		return ""
	}
	q := QualName(fn)
	q = strings.TrimPrefix(q, "reflect.")
	if strings.HasPrefix(q, "(") {
		q = strings.Replace(strings.Replace(strings.Replace(q, "(*", "", 1), "(", "", 1), ")", "", 1)
		return q // Value.Elem
	}
	return "reflect." + q
}

// Interpreter ----------------------------------------------------------------

// REvent is one executed call seen by the client.
type REvent struct {
	I    *RInterp
	Call *ast.CallExpr
	// Name: "Value.Index", "Type.Elem", "reflect.MakeSlice", or "arg" for a
	// reflect.Value handed to a function of the analysed package.
	Name   string
	Recv   string // receiver entity (methods) or argument entity ("arg")
	Callee *Func  // "arg": the called function
	Arg    ast.Expr
	// Inlined: the callee is interpreted in this context; the argument is judged there.
	Inlined bool
	S       S
	ents    map[ast.Expr]string
}

// Ent names the entity of an expression in the event's state.
func (ev *REvent) Ent(e ast.Expr) string { return ev.I.entOf(e, ev.S, ev.ents) }

// Bounds evaluates an integer expression in the event's state.
func (ev *REvent) Bounds(e ast.Expr) IBound { return ev.I.bounds(e, ev.S, ev.ents) }

// RInterp interprets one function.
type RInterp struct {
	F       *Func
	OnEvent func(ev *REvent)
	Sums    *RSummaries
	untrack map[types.Object]bool
	// Forks counts non-refining condition leaves (evidence only).
	Forks int
	// NoInline switches interpretation of helpers in place off.
	NoInline bool
	// Overflowed is set on the root interpreter when an inlined run exceeded
	// its state bound.
	Overflowed bool
	depth      int
	stack      []*Func
	root       *RInterp
}

func (ri *RInterp) rootI() *RInterp {
	if ri.root != nil {
		return ri.root
	}
	return ri
}

// Mask returns the kind set of an entity.
func (ri *RInterp) Mask(ent string, s S) uint32 {
	if v := s.Get("K:" + ent); v != "" && !strings.HasPrefix(ent, "kc:") {
		n, _ := strconv.ParseUint(v, 10, 32)
		return uint32(n)
	}
	switch {
	case strings.HasPrefix(ent, "kc:"):
		n, _ := strconv.Atoi(ent[3:])
		return 1 << uint(n)
	case strings.HasPrefix(ent, "unk@"), strings.HasPrefix(ent, "u:"):
		return RAllKinds
	case strings.HasPrefix(ent, "z:"), strings.HasPrefix(ent, "zv@"):
		return RInvalid
	}
	// type-level entity derived by Elem/Key/field: never Invalid
	return RAllValid
}

func rSetMask(s S, ent string, m uint32) S { return s.Set("K:"+ent, strconv.FormatUint(uint64(m), 10)) }

// entIs reports whether key k (after its tag) speaks about ent or an entity
// derived from it.
func rEntCovers(ent, name string) bool {
	return name == ent || strings.HasPrefix(name, ent+".")
}

// rResetEnt forgets everything about ent and entities derived from it.
func rResetEnt(s S, ent string) S {
	return rFilterKeys(s, func(tag, a, b string) bool {
		switch tag {
		case "K", "nn", "cs", "mk":
			return rEntCovers(ent, a)
		case "rl", "rc":
			return rEntCovers(ent, b)
		}
		return false
	})
}

// rKillVal forgets the value-level facts (nil-ness, length relations) of ent
// and of values reached through it; kinds are type-level and stay.
func rKillVal(s S, ent string) S {
	return rFilterKeys(s, func(tag, a, b string) bool {
		switch tag {
		case "nn", "mk":
			return rEntCovers(ent, a)
		case "rl", "rc":
			return rEntCovers(ent, b)
		}
		return false
	})
}

// rFilterKeys deletes the keys for which drop(tag, part1, part2) holds; keys
// have the form tag:part1 or tag:part1|part2.
func rFilterKeys(s S, drop func(tag, a, b string) bool) S {
	var m map[string]string
	for k := range s.m {
		i := strings.IndexByte(k, ':')
		if i < 0 {
			continue
		}
		tag, rest := k[:i], k[i+1:]
		a, b := rest, ""
		if j := strings.IndexByte(rest, '|'); j >= 0 {
			a, b = rest[:j], rest[j+1:]
		}
		if drop(tag, a, b) {
			if m == nil {
				m = make(map[string]string, len(s.m))
				for x, y := range s.m {
					m[x] = y
				}
			}
			delete(m, k)
		}
	}
	if m == nil {
		return s
	}
	return S{m}
}

func (ri *RInterp) info() *types.Info { return ri.F.Info() }

func (ri *RInterp) prepare() {
	if ri.untrack != nil {
		return
	}
	ri.untrack = map[types.Object]bool{}
	info := ri.info()
	var walk func(n ast.Node, inLit bool)
	walk = func(n ast.Node, inLit bool) {
		ast.Inspect(n, func(x ast.Node) bool {
			switch y := x.(type) {
			case *ast.FuncLit:
				if x != n {
					walk(y.Body, true)
					return false
				}
			case *ast.UnaryExpr:
				if y.Op.String() == "&" {
					if o := ObjOf(info, y.X); o != nil {
						ri.untrack[o] = true
					}
				}
			case *ast.AssignStmt:
				if inLit {
					for _, l := range y.Lhs {
						if o := ObjOf(info, l); o != nil {
							ri.untrack[o] = true
						}
					}
				}
			case *ast.IncDecStmt:
				if inLit {
					if o := ObjOf(info, y.X); o != nil {
						ri.untrack[o] = true
					}
				}
			}
			return true
		})
	}
	walk(ri.F.Body, false)
}

// localVar returns the variable denoted by e when it is a trackable local
// (parameter, result or local of this function; not captured-and-assigned,
// not address-taken).
func (ri *RInterp) localVar(e ast.Expr) *types.Var {
	id, ok := ast.Unparen(e).(*ast.Ident)
	if !ok {
		return nil
	}
	v, ok := ObjOf(ri.info(), id).(*types.Var)
	if !ok || v.IsField() || ri.untrack[v] {
		return nil
	}
	if v.Parent() == nil || v.Pkg() == nil || v.Parent() == v.Pkg().Scope() {
		return nil
	}
	return v
}

func (ri *RInterp) at(n ast.Node) string {
	// the raw position: unique, and lets scope-based cleanup recognise
	// entities created inside a loop body
	return strconv.Itoa(int(n.Pos()))
}

// rMentionsPos reports whether str contains "@<n>" with lo <= n <= hi.
func rMentionsPos(str string, lo, hi int) bool {
	for i := 0; i < len(str); i++ {
		if str[i] != '@' {
			continue
		}
		j := i + 1
		n := 0
		for j < len(str) && str[j] >= '0' && str[j] <= '9' {
			n = n*10 + int(str[j]-'0')
			j++
		}
		if j > i+1 && n >= lo && n <= hi {
			return true
		}
		i = j - 1
	}
	return false
}

// scopeKill forgets everything about variables declared, and entities
// created, inside [lo, hi] (a loop body that has just been left or is about
// to be entered again).
func rScopeKill(s S, lo, hi int) S {
	var m map[string]string
	for k, v := range s.m {
		drop := rMentionsPos(k, lo, hi)
		if !drop && strings.HasPrefix(k, "b:") {
			drop = false // a binding of an outer variable to an inner entity: rebind below
		}
		if drop {
			if m == nil {
				m = make(map[string]string, len(s.m))
				for x, y := range s.m {
					m[x] = y
				}
			}
			delete(m, k)
			continue
		}
		if strings.HasPrefix(k, "b:") && rMentionsPos(v, lo, hi) {
			if m == nil {
				m = make(map[string]string, len(s.m))
				for x, y := range s.m {
					m[x] = y
				}
			}
			m[k] = "u:" + k[2:]
		}
	}
	if m == nil {
		return s
	}
	return S{m}
}

// entOf names the entity an expression of a reflect type denotes.
func (ri *RInterp) entOf(e ast.Expr, s S, ents map[ast.Expr]string) string {
	e = ast.Unparen(e)
	if x, ok := ents[e]; ok {
		return x
	}
	info := ri.info()
	// a constant kind (k = reflect.Struct) is an entity of exactly that kind
	if RType(info.TypeOf(e)) == "Kind" {
		if c, ok := ConstInt(info, e); ok && c >= 0 && c <= 26 {
			return "kc:" + strconv.FormatInt(c, 10)
		}
	}
	switch x := e.(type) {
	case *ast.Ident:
		if v, ok := ObjOf(info, x).(*types.Var); ok && RType(v.Type()) != "" {
			if b := s.Get("b:" + VarID(v)); b != "" {
				return b
			}
			return "p:" + VarID(v)
		}
	case *ast.SelectorExpr:
		// sf.Type of a StructField: the field's type entity
		if RType(info.TypeOf(x.X)) == "StructField" && x.Sel.Name == "Type" {
			return ri.entOf(x.X, s, ents)
		}
	}
	if call, ok := e.(*ast.CallExpr); ok {
		if v := s.Get("re:" + ri.at(call) + "#0"); v != "" {
			return v
		}
	}
	if ta, ok := e.(*ast.TypeAssertExpr); ok && ta.Type != nil && RType(info.TypeOf(e)) == "Value" {
		// a reflect.Value carried in an interface: valid by assumption A1 (the
		// senders inside the package are checked at their call sites)
		return "ta@" + ri.at(e)
	}
	return "unk@" + ri.at(e)
}

// idxCanon names an index expression that is a trackable local integer.
func (ri *RInterp) idxCanon(e ast.Expr) string {
	if v := ri.localVar(e); v != nil {
		return "[" + VarID(v) + "]"
	}
	return ""
}

// rPureCallee lists callees that neither retain nor modify a reflect.Value /
// slice argument.
func rPureCallee(q string) bool {
	switch {
	case strings.HasPrefix(q, "fmt."), strings.HasPrefix(q, "log."), strings.HasPrefix(q, "errors."):
		return true
	}
	switch q {
	case "reflect.Copy", "reflect.ValueOf", "reflect.Indirect", "reflect.TypeOf",
		"slices.Sort", "golang.org/x/exp/slices.Sort", "sort.Ints", "slices.Max", "slices.Min",
		"golang.org/x/exp/slices.Max", "golang.org/x/exp/slices.Min":
		return true
	}
	return false
}

// exec performs one call: names its result, applies its effects and reports
// it to the client.  Calls of a node are executed in evaluation order.
func (ri *RInterp) exec(call *ast.CallExpr, s S, ents map[ast.Expr]string) S {
	info := ri.info()
	name := RCallName(info, call)
	pos := ri.at(call)
	emit := func(ev *REvent) {
		if ri.OnEvent != nil {
			ev.I, ev.S, ev.ents = ri, s, ents
			ri.OnEvent(ev)
		}
	}
	fresh := func(ent string, mask uint32) string {
		s = rResetEnt(s, ent)
		s = rSetMask(s, ent, mask)
		return ent
	}
	switch {
	case strings.HasPrefix(name, "Value.") || strings.HasPrefix(name, "Type."):
		sel, ok := ast.Unparen(call.Fun).(*ast.SelectorExpr)
		if !ok {
			ents[call] = "unk@" + pos
			return s
		}
		X := ri.entOf(sel.X, s, ents)
		emit(&REvent{Call: call, Name: name, Recv: X})
		m := ri.Mask(X, s)
		switch name {
		case "Value.Type", "Value.Kind", "Type.Kind":
			ents[call] = X
		case "Type.Elem":
			ents[call] = X + ".elem"
		case "Type.Key":
			ents[call] = X + ".key"
		case "Value.Elem":
			ptr := RK(reflect.Pointer)
			switch {
			case m&^ptr == 0 && s.Get("nn:"+X) == "T":
				ents[call] = X + ".elem"
				s = s.Set("cs:"+X+".elem", "T")
			case m&^ptr == 0:
				em := ri.Mask(X+".elem", s)
				ents[call] = fresh(X+".elem?@"+pos, em|RInvalid)
			default:
				ents[call] = fresh(X+".ielem@"+pos, RAllKinds)
			}
		case "Value.Field", "Type.Field":
			if len(call.Args) == 1 {
				if c := ri.idxCanon(call.Args[0]); c != "" {
					ents[call] = X + ".f" + c
					break
				}
			}
			ents[call] = fresh(X+".f@"+pos, RAllValid)
		case "Value.Index":
			ents[call] = fresh(X+".idx@"+pos, RAllValid)
		case "Value.Slice", "Value.Slice3":
			rm := m & RK(reflect.Slice, reflect.String)
			if m&RK(reflect.Array) != 0 {
				rm |= RK(reflect.Slice)
			}
			if rm == 0 {
				rm = RAllValid
			}
			ents[call] = fresh(X+".slc@"+pos, rm)
			s = s.Set("nn:"+ents[call], "T")
		case "Value.MapIndex":
			ents[call] = fresh(X+".mi@"+pos, RAllKinds)
		case "Value.Set":
			s = rKillVal(s, X)
			if len(call.Args) == 1 {
				Y := ri.entOf(call.Args[0], s, ents)
				if s.Get("nn:"+Y) == "T" {
					s = s.Set("nn:"+X, "T")
				}
				if k := s.Get("mk:" + Y); k != "" {
					s = s.Set("mk:"+X, k)
				}
			}
		case "Value.SetLen", "Value.SetCap", "Value.Grow", "Value.SetZero", "Value.Clear":
			s = rKillVal(s, X)
		case "Value.SetMapIndex":
			// length changes; nil-ness does not
			s = rFilterKeys(s, func(tag, a, b string) bool { return (tag == "rl" || tag == "rc") && rEntCovers(X, b) })
		default:
			if t := info.TypeOf(call); RType(t) != "" {
				ents[call] = fresh("unk@"+pos, RAllKinds)
				if RType(t) == "Type" || RType(t) == "Kind" {
					s = rSetMask(s, ents[call], RAllValid)
				}
			}
		}
		return s
	case strings.HasPrefix(name, "MapIter."):
		if RType(info.TypeOf(call)) == "Value" {
			ents[call] = fresh("it@"+pos, RAllValid)
		}
		return s
	case name != "":
		emit(&REvent{Call: call, Name: name})
		arg := func(i int) string {
			if i < len(call.Args) {
				return ri.entOf(call.Args[i], s, ents)
			}
			return ""
		}
		switch name {
		case "reflect.New":
			T := arg(0)
			tm := ri.Mask(T, s)
			e := fresh("new@"+pos, RK(reflect.Pointer))
			s = s.Set("nn:"+e, "T")
			s = rSetMask(s, e+".elem", tm&^RInvalid)
			ents[call] = e
		case "reflect.Zero":
			ents[call] = fresh("zero@"+pos, ri.Mask(arg(0), s)&^RInvalid)
		case "reflect.MakeSlice":
			e := fresh("mks@"+pos, RK(reflect.Slice))
			s = s.Set("nn:"+e, "T")
			if len(call.Args) == 3 && SameExpr(info, call.Args[1], call.Args[2]) {
				if b := ri.bounds(call.Args[1], s, ents); b.LenOf != "" {
					s = s.Set("mk:"+e, b.LenOf)
				}
			}
			ents[call] = e
		case "reflect.MakeMap", "reflect.MakeMapWithSize":
			e := fresh("mkm@"+pos, RK(reflect.Map))
			s = s.Set("nn:"+e, "T")
			ents[call] = e
		case "reflect.ValueOf":
			// assumption A1: callers hand in non-nil interfaces
			ents[call] = fresh("vo@"+pos, RAllValid)
		case "reflect.Indirect":
			X := arg(0)
			if ri.Mask(X, s)&RK(reflect.Pointer) == 0 {
				ents[call] = X
			} else {
				// assumption A1: the caller's pointer is not nil
				ents[call] = fresh("ind@"+pos, RAllValid)
			}
		case "reflect.TypeOf":
			ents[call] = fresh("to@"+pos, RAllValid)
		default:
			if RType(info.TypeOf(call)) != "" {
				ents[call] = fresh("unk@"+pos, RAllKinds)
			}
		}
		return s
	}
	// not a reflect call ------------------------------------------------------
	obj := Callee(info, call)
	q := QualName(obj)
	callee := ri.F.CalleeFunc(call)
	// reflect.Values handed to a function of the analysed package
	if callee != nil {
		for _, a := range call.Args {
			if RType(info.TypeOf(a)) == "Value" {
				emit(&REvent{Call: call, Name: "arg", Recv: ri.entOf(a, s, ents), Callee: callee, Arg: a})
			}
		}
		if sel, ok := ast.Unparen(call.Fun).(*ast.SelectorExpr); ok && RType(info.TypeOf(sel.X)) == "Value" {
			emit(&REvent{Call: call, Name: "arg", Recv: ri.entOf(sel.X, s, ents), Callee: callee, Arg: sel.X})
		}
	}
	if b, ok := obj.(*types.Builtin); ok {
		switch b.Name() {
		case "len", "cap", "delete", "make", "new", "panic", "print", "println", "min", "max", "append", "copy":
			return s
		}
	}
	if _, isConv := info.Types[call.Fun]; isConv && info.Types[call.Fun].IsType() {
		return s
	}
	if !rPureCallee(q) {
		for _, a := range call.Args {
			a = ast.Unparen(a)
			switch RType(info.TypeOf(a)) {
			case "Value":
				if _, isCall := a.(*ast.CallExpr); !isCall {
					s = rKillVal(s, ri.entOf(a, s, ents))
				}
			case "":
				if v := ri.localVar(a); v != nil {
					s = s.Del("ae:" + VarID(v)).Del("mK:" + VarID(v))
				}
			}
		}
	}
	// result naming
	if t := info.TypeOf(call); t != nil {
		if tup, ok := t.(*types.Tuple); ok {
			var sum *RSummary
			if callee != nil && ri.Sums != nil {
				sum = ri.Sums.Of(callee)
			}
			base := "call@" + pos
			for i := 0; i < tup.Len(); i++ {
				if RType(tup.At(i).Type()) == "" {
					continue
				}
				e := fmt.Sprintf("%s#%d", base, i)
				mask := RAllKinds
				if sum != nil && sum.CoBound {
					e = base
				}
				if sum != nil && !sum.MayInvalid {
					mask = RAllValid
				}
				s = rResetEnt(s, e)
				s = rSetMask(s, e, mask)
				ents[rTupleKey{call, i}.expr()] = e
			}
		} else if RType(t) != "" {
			mask := RAllKinds
			if callee != nil && ri.Sums != nil {
				if sum := ri.Sums.Of(callee); sum != nil && !sum.MayInvalid {
					mask = RAllValid
				}
			}
			ents[call] = fresh("call@"+pos, mask)
		}
	}
	return s
}

// tuple results are looked up by (call, index) when the assignment is bound.
type rTupleKey struct {
	call *ast.CallExpr
	i    int
}

var (
	rTupleExprs = map[rTupleKey]ast.Expr{}
	rTupleMu    sync.Mutex // properties run concurrently in the sensitivity sweep
)

func (k rTupleKey) expr() ast.Expr {
	rTupleMu.Lock()
	defer rTupleMu.Unlock()
	if e, ok := rTupleExprs[k]; ok {
		return e
	}
	e := &ast.BadExpr{From: k.call.Pos(), To: k.call.End()}
	rTupleExprs[k] = e
	return e
}

// rSortedKeys is a small helper for deterministic iteration.
func rSortedKeys(m map[string]int64) []string {
	ks := make([]string, 0, len(m))
	for k := range m {
		ks = append(ks, k)
	}
	sort.Strings(ks)
	return ks
}
