package kit

// A concrete evaluator of byte-stream code (C16): the Go subset a framing
// reader is written in — integers, booleans, byte slices with their backing
// arrays, one struct object with a bytes.Buffer and a device behind an
// interface field, same-package helpers, defer — is executed on the AST for
// one concrete input.  The host enumerates a finite input domain (K4) and
// compares what the function hands out with a specification.
//
// Nothing of the analysed repository is compiled or run.  Whatever the
// evaluator does not model ends the run with XUnsupported (the host reports
// "undecided"); a Go run-time panic ends it with XCrash; exhausting the step
// budget with XTimeout.

import (
	"fmt"
	"go/ast"
	"go/constant"
	"go/token"
	"go/types"
	"strings"
)

// XUnsupported: the run met a construct the evaluator does not model.
type XUnsupported struct{ What string }

func (e *XUnsupported) Error() string { return e.What }

// XCrash: the evaluated code panics (index out of range, …).
type XCrash struct{ Msg, At string }

func (e *XCrash) Error() string { return e.Msg + " at " + e.At }

// XTimeout: the step budget was used up (the code spins).
type XTimeout struct{ Steps int }

func (e *XTimeout) Error() string { return fmt.Sprintf("no return after %d evaluation steps", e.Steps) }

// XArr is the backing array of integer-element slices.
type XArr struct {
	D      []int64
	Frozen string      // non-empty: stores through this array are not modelled (why)
	Stale  func() bool // non-nil: the content is no longer meaningful once it returns true
}

// XBuf models a bytes.Buffer: D is the unread part.
type XBuf struct {
	D   []int64
	Ver int // bumped by every operation that may move or overwrite the storage
}

// XObj is a struct object (reference semantics; struct copies are refused).
type XObj struct {
	T types.Type
	F map[string]*XVal
}

// XDev is what stands behind an interface-typed field: the host scripts it.
type XDev struct {
	Read  func(m *XMachine, p XVal) (n int64, err string)
	Write func(m *XMachine, p XVal) (n int64, err string)
}

// XVal is a concrete value.
type XVal struct {
	K   byte // 'i' integer, 'b' bool, 's' slice, 'e' error ("" = nil), 'o' struct / pointer to struct, 'B' bytes.Buffer, 'D' device, 'S' string, 'f' closure, 'n' nil, 'u' opaque
	I   int64
	Arr *XArr
	Off int
	Len int
	Cap int
	Err string
	Obj *XObj
	Buf *XBuf
	Dev *XDev
	Str string
	Lit *ast.FuncLit
	env *xframe
	T   *types.Basic // integers: the static type (for wrap-around)
}

// XInt, XBool, XErr, XSlice build values.
func XInt(v int64) XVal { return XVal{K: 'i', I: v, T: types.Typ[types.Int]} }

// XBool builds a boolean.
func XBool(b bool) XVal {
	if b {
		return XVal{K: 'b', I: 1}
	}
	return XVal{K: 'b'}
}

// XErr builds an error value; "" is the nil error.
func XErr(id string) XVal { return XVal{K: 'e', Err: id} }

// XNewSlice makes a fresh zeroed slice of n integer elements.
func XNewSlice(n int) XVal {
	return XVal{K: 's', Arr: &XArr{D: make([]int64, n)}, Len: n, Cap: n}
}

// XMachine evaluates functions of the analysed module.
type XMachine struct {
	P        *Prog
	MaxSteps int
	Steps    int
	// Stub replaces the evaluation of a module function (ok=false: evaluate it).
	Stub func(cf *Func, args []XVal) (results []XVal, ok bool)
	// CallAt is the source position of the device call being performed (for the host's messages).
	CallAt string

	globals map[types.Object]*XVal
	depth   int
}

type xframe struct {
	vars   map[types.Object]*XVal
	parent *xframe
	info   *types.Info
	f      *Func
	ftype  *ast.FuncType
	ret    []XVal
	defers []func()
}

type xctl struct {
	kind  int // 0 none, 1 break, 2 continue, 3 return, 4 fallthrough
	label string
}

func (m *XMachine) unsupported(format string, a ...any) {
	panic(&XUnsupported{fmt.Sprintf(format, a...)})
}

func (m *XMachine) crash(fr *xframe, n ast.Node, format string, a ...any) {
	at := "?"
	if fr != nil && fr.f != nil && n != nil {
		at = fr.f.At(n)
	}
	panic(&XCrash{fmt.Sprintf(format, a...), at})
}

func (m *XMachine) step() {
	m.Steps++
	if m.MaxSteps > 0 && m.Steps > m.MaxSteps {
		panic(&XTimeout{m.Steps})
	}
}

// Call evaluates f (a declared function or method of the module) and returns
// its results; err is *XUnsupported, *XCrash or *XTimeout.
func (m *XMachine) Call(f *Func, recv *XVal, args []XVal) (res []XVal, err error) {
	defer func() {
		if r := recover(); r != nil {
			switch e := r.(type) {
			case *XUnsupported:
				err = e
			case *XCrash:
				err = e
			case *XTimeout:
				err = e
			default:
				panic(r)
			}
		}
	}()
	if m.globals == nil {
		m.globals = map[types.Object]*XVal{}
	}
	m.depth = 0
	return m.invoke(f, f.Type, f.Body, f.Info(), nil, recv, args), nil
}

// ---------------------------------------------------------------------------
// slices

func (m *XMachine) arrCheck(a *XArr) {
	if a != nil && a.Stale != nil && a.Stale() {
		m.unsupported("bytes obtained from a bytes.Buffer are used after the buffer was written (their content is unspecified)")
	}
}

// Elem reads element i of a slice value (host side and evaluator).
func (m *XMachine) Elem(s XVal, i int) int64 {
	m.arrCheck(s.Arr)
	return s.Arr.D[s.Off+i]
}

// SetElem writes element i of a slice value.
func (m *XMachine) SetElem(s XVal, i int, v int64) {
	if s.Arr.Frozen != "" {
		m.unsupported("store into %s", s.Arr.Frozen)
	}
	m.arrCheck(s.Arr)
	s.Arr.D[s.Off+i] = v
}

// Content copies the elements of a slice value.
func (m *XMachine) Content(s XVal) []int64 {
	if s.Len == 0 {
		return nil
	}
	m.arrCheck(s.Arr)
	return append([]int64(nil), s.Arr.D[s.Off:s.Off+s.Len]...)
}

func (m *XMachine) sliceOf(d []int64) XVal {
	return XVal{K: 's', Arr: &XArr{D: d}, Len: len(d), Cap: len(d)}
}

func (m *XMachine) wantSlice(fr *xframe, n ast.Node, v XVal) XVal {
	if v.K == 'n' {
		return XVal{K: 's'}
	}
	if v.K != 's' {
		m.unsupported("%s is not an integer slice the evaluator follows", fr.f.Str(n))
	}
	return v
}

// ---------------------------------------------------------------------------
// types and zero values

func xBasicInt(t types.Type) *types.Basic {
	if t == nil {
		return nil
	}
	b, ok := t.Underlying().(*types.Basic)
	if !ok || b.Info()&types.IsInteger == 0 {
		return nil
	}
	if b.Info()&types.IsUntyped != 0 {
		return types.Typ[types.Int]
	}
	return b
}

func xWrap(v int64, b *types.Basic) int64 {
	if b == nil {
		return v
	}
	switch b.Kind() {
	case types.Int8:
		return int64(int8(v))
	case types.Int16:
		return int64(int16(v))
	case types.Int32:
		return int64(int32(v))
	case types.Uint8:
		return int64(uint8(v))
	case types.Uint16:
		return int64(uint16(v))
	case types.Uint32:
		return int64(uint32(v))
	}
	return v // int, int64, uint, uint64, uintptr: 64 bit (values of the enumerated domains are small)
}

func xIsError(t types.Type) bool {
	return t != nil && types.Identical(t, types.Universe.Lookup("error").Type())
}

func xIntElems(t types.Type) bool {
	s, ok := t.Underlying().(*types.Slice)
	return ok && xBasicInt(s.Elem()) != nil
}

func (m *XMachine) zero(t types.Type) XVal {
	if IsNamedType(t, "bytes", "Buffer") {
		if _, isPtr := t.(*types.Pointer); isPtr {
			return XVal{K: 'n'}
		}
		return XVal{K: 'B', Buf: &XBuf{}}
	}
	switch u := t.Underlying().(type) {
	case *types.Basic:
		switch {
		case u.Info()&types.IsInteger != 0:
			return XVal{K: 'i', T: xBasicInt(t)}
		case u.Info()&types.IsBoolean != 0:
			return XVal{K: 'b'}
		case u.Info()&types.IsString != 0:
			return XVal{K: 'S'}
		}
	case *types.Slice:
		return XVal{K: 's'}
	case *types.Struct:
		o := &XObj{T: t, F: map[string]*XVal{}}
		for i := 0; i < u.NumFields(); i++ {
			z := m.zero(u.Field(i).Type())
			o.F[u.Field(i).Name()] = &z
		}
		return XVal{K: 'o', Obj: o}
	case *types.Interface:
		if xIsError(t) {
			return XVal{K: 'e'}
		}
		return XVal{K: 'n'}
	case *types.Pointer, *types.Map, *types.Chan, *types.Signature:
		return XVal{K: 'n'}
	}
	return XVal{K: 'u'} // opaque: any use of it ends the run as unsupported
}

// ---------------------------------------------------------------------------
// frames

func (fr *xframe) lookup(o types.Object) *XVal {
	for x := fr; x != nil; x = x.parent {
		if c, ok := x.vars[o]; ok {
			return c
		}
	}
	return nil
}

func (m *XMachine) global(fr *xframe, o types.Object, at ast.Node) *XVal {
	if c, ok := m.globals[o]; ok {
		return c
	}
	v, ok := o.(*types.Var)
	if !ok || v.Pkg() == nil || v.Parent() != v.Pkg().Scope() {
		m.unsupported("%s is not a variable the evaluator follows", fr.f.Str(at))
	}
	if xIsError(v.Type()) {
		c := XErr(v.Pkg().Path() + "." + v.Name())
		m.globals[o] = &c
		return &c
	}
	// a package-level variable of the module with an initialiser the evaluator can build
	if strings.HasPrefix(v.Pkg().Path(), ModPath) {
		rel := strings.TrimPrefix(strings.TrimPrefix(v.Pkg().Path(), ModPath), "/")
		if pk := m.P.Pkg(rel); pk != nil {
			for _, file := range pk.Syntax {
				for _, d := range file.Decls {
					gd, ok := d.(*ast.GenDecl)
					if !ok || gd.Tok != token.VAR {
						continue
					}
					for _, sp := range gd.Specs {
						vs := sp.(*ast.ValueSpec)
						for i, nm := range vs.Names {
							if pk.TypesInfo.Defs[nm] != o {
								continue
							}
							var c XVal
							if len(vs.Values) == len(vs.Names) {
								gf := &xframe{vars: map[types.Object]*XVal{}, info: pk.TypesInfo, f: fr.f}
								c = m.eval(gf, vs.Values[i])
							} else if len(vs.Values) == 0 {
								c = m.zero(v.Type())
							} else {
								m.unsupported("initialiser of %s", v.Name())
							}
							m.globals[o] = &c
							return &c
						}
					}
				}
			}
		}
	}
	m.unsupported("package-level variable %s.%s", v.Pkg().Path(), v.Name())
	return nil
}

// invoke runs a function body with bound receiver and arguments.
func (m *XMachine) invoke(f *Func, ft *ast.FuncType, body *ast.BlockStmt, info *types.Info, parent *xframe, recv *XVal, args []XVal) []XVal {
	m.depth++
	defer func() { m.depth-- }()
	if m.depth > 24 {
		m.unsupported("call depth exceeds 24 in %s", f.Name)
	}
	fr := &xframe{vars: map[types.Object]*XVal{}, parent: parent, info: info, f: f, ftype: ft}
	if recv != nil && f.Decl != nil && f.Decl.Recv != nil && len(f.Decl.Recv.List) == 1 && len(f.Decl.Recv.List[0].Names) == 1 {
		if o := info.Defs[f.Decl.Recv.List[0].Names[0]]; o != nil {
			c := *recv
			fr.vars[o] = &c
		}
	}
	i := 0
	if ft.Params != nil {
		for _, fl := range ft.Params.List {
			if _, variadic := fl.Type.(*ast.Ellipsis); variadic {
				m.unsupported("variadic function %s", f.Name)
			}
			if len(fl.Names) == 0 {
				i++
				continue
			}
			for _, nm := range fl.Names {
				if i >= len(args) {
					m.unsupported("call of %s with %d arguments", f.Name, len(args))
				}
				if o := info.Defs[nm]; o != nil {
					c := m.convertTo(args[i], o.Type())
					fr.vars[o] = &c
				}
				i++
			}
		}
	}
	var named []types.Object
	nres := 0
	if ft.Results != nil {
		for _, fl := range ft.Results.List {
			if len(fl.Names) == 0 {
				nres++
			}
			for _, nm := range fl.Names {
				nres++
				if o := info.Defs[nm]; o != nil {
					z := m.zero(o.Type())
					fr.vars[o] = &z
					named = append(named, o)
				}
			}
		}
	}
	ctl := m.block(fr, body.List)
	if ctl.kind != 3 {
		if nres > 0 && len(named) != nres {
			m.unsupported("%s ends without a return statement", f.Name)
		}
		fr.ret = nil
		for _, o := range named {
			fr.ret = append(fr.ret, *fr.vars[o])
		}
	}
	if len(fr.defers) > 0 {
		// named results are visible to deferred calls
		if len(named) == nres && nres > 0 && len(fr.ret) == nres {
			for k, o := range named {
				*fr.vars[o] = fr.ret[k]
			}
		}
		for k := len(fr.defers) - 1; k >= 0; k-- {
			fr.defers[k]()
		}
		if len(named) == nres && nres > 0 {
			fr.ret = fr.ret[:0]
			for _, o := range named {
				fr.ret = append(fr.ret, *fr.vars[o])
			}
		}
	}
	return fr.ret
}

// convertTo adapts a value to the static type it is stored under (integer
// wrap-around, untyped nil).
func (m *XMachine) convertTo(v XVal, t types.Type) XVal {
	if t == nil {
		return v
	}
	switch v.K {
	case 'i':
		if b := xBasicInt(t); b != nil {
			v.I, v.T = xWrap(v.I, b), b
		}
	case 'n':
		switch t.Underlying().(type) {
		case *types.Slice:
			return XVal{K: 's'}
		case *types.Interface:
			if xIsError(t) {
				return XVal{K: 'e'}
			}
		}
	}
	return v
}

// ---------------------------------------------------------------------------
// statements

func (m *XMachine) block(fr *xframe, list []ast.Stmt) xctl {
	for _, s := range list {
		if c := m.stmt(fr, s, ""); c.kind != 0 {
			return c
		}
	}
	return xctl{}
}

func (m *XMachine) truth(fr *xframe, e ast.Expr) bool {
	v := m.eval(fr, e)
	if v.K != 'b' {
		m.unsupported("condition %s", fr.f.Str(e))
	}
	return v.I != 0
}

// loopCtl interprets the control signal of a loop body: stop = leave the
// loop, out = signal to hand on.
func loopCtl(c xctl, label string) (stop bool, out xctl) {
	switch c.kind {
	case 1:
		if c.label == "" || c.label == label {
			return true, xctl{}
		}
		return true, c
	case 2:
		if c.label == "" || c.label == label {
			return false, xctl{}
		}
		return true, c
	case 3:
		return true, c
	}
	return false, xctl{}
}

func (m *XMachine) stmt(fr *xframe, s ast.Stmt, label string) xctl {
	m.step()
	switch y := s.(type) {
	case *ast.BlockStmt:
		return m.block(fr, y.List)
	case *ast.EmptyStmt:
		return xctl{}
	case *ast.ExprStmt:
		if call, ok := ast.Unparen(y.X).(*ast.CallExpr); ok {
			m.call(fr, call)
		} else {
			m.eval(fr, y.X)
		}
		return xctl{}
	case *ast.AssignStmt:
		m.assignStmt(fr, y)
		return xctl{}
	case *ast.IncDecStmt:
		v := m.eval(fr, y.X)
		if v.K != 'i' {
			m.unsupported("%s", fr.f.Str(y))
		}
		if y.Tok == token.INC {
			v.I++
		} else {
			v.I--
		}
		v.I = xWrap(v.I, xBasicInt(fr.info.TypeOf(y.X)))
		m.assign(fr, y.X, v, false)
		return xctl{}
	case *ast.DeclStmt:
		gd, ok := y.Decl.(*ast.GenDecl)
		if !ok {
			m.unsupported("declaration %s", fr.f.Str(y))
		}
		if gd.Tok != token.VAR {
			return xctl{} // constants and types are the type checker's business
		}
		for _, sp := range gd.Specs {
			vs := sp.(*ast.ValueSpec)
			var vals []XVal
			switch {
			case len(vs.Values) == len(vs.Names):
				for _, e := range vs.Values {
					vals = append(vals, m.eval(fr, e))
				}
			case len(vs.Values) == 1:
				vals = m.multi(fr, vs.Values[0])
			case len(vs.Values) != 0:
				m.unsupported("declaration %s", fr.f.Str(y))
			}
			for i, nm := range vs.Names {
				o := fr.info.Defs[nm]
				if o == nil {
					continue
				}
				var v XVal
				if vals != nil {
					if i >= len(vals) {
						m.unsupported("declaration %s", fr.f.Str(y))
					}
					v = m.convertTo(vals[i], o.Type())
				} else {
					v = m.zero(o.Type())
				}
				fr.vars[o] = &v
			}
		}
		return xctl{}
	case *ast.IfStmt:
		if y.Init != nil {
			m.stmt(fr, y.Init, "")
		}
		if m.truth(fr, y.Cond) {
			return m.block(fr, y.Body.List)
		}
		if y.Else != nil {
			return m.stmt(fr, y.Else, "")
		}
		return xctl{}
	case *ast.ForStmt:
		if y.Init != nil {
			m.stmt(fr, y.Init, "")
		}
		for {
			m.step()
			if y.Cond != nil && !m.truth(fr, y.Cond) {
				return xctl{}
			}
			if stop, out := loopCtl(m.block(fr, y.Body.List), label); stop {
				return out
			}
			if y.Post != nil {
				m.stmt(fr, y.Post, "")
			}
		}
	case *ast.RangeStmt:
		return m.rangeStmt(fr, y, label)
	case *ast.SwitchStmt:
		return m.switchStmt(fr, y, label)
	case *ast.LabeledStmt:
		return m.stmt(fr, y.Stmt, y.Label.Name)
	case *ast.BranchStmt:
		lb := ""
		if y.Label != nil {
			lb = y.Label.Name
		}
		switch y.Tok {
		case token.BREAK:
			return xctl{1, lb}
		case token.CONTINUE:
			return xctl{2, lb}
		case token.FALLTHROUGH:
			return xctl{4, ""}
		}
		m.unsupported("%s", fr.f.Str(y))
	case *ast.ReturnStmt:
		switch {
		case len(y.Results) == 0:
			fr.ret = nil
			if fr.ftype.Results != nil {
				for _, fl := range fr.ftype.Results.List {
					for _, nm := range fl.Names {
						if o := fr.info.Defs[nm]; o != nil {
							if c := fr.lookup(o); c != nil {
								fr.ret = append(fr.ret, *c)
							}
						}
					}
				}
			}
		case len(y.Results) == 1:
			fr.ret = m.multi(fr, y.Results[0])
		default:
			var out []XVal
			for _, e := range y.Results {
				out = append(out, m.eval(fr, e))
			}
			fr.ret = out
		}
		// results take the declared result types (untyped nil becomes a nil error, …)
		if fr.ftype.Results != nil {
			k := 0
			for _, fl := range fr.ftype.Results.List {
				n := len(fl.Names)
				if n == 0 {
					n = 1
				}
				for j := 0; j < n; j++ {
					if k < len(fr.ret) {
						fr.ret[k] = m.convertTo(fr.ret[k], fr.info.TypeOf(fl.Type))
					}
					k++
				}
			}
		}
		return xctl{3, ""}
	case *ast.DeferStmt:
		run := m.prepareCall(fr, y.Call)
		fr.defers = append(fr.defers, func() { run() })
		return xctl{}
	}
	m.unsupported("statement %T at %s", s, fr.f.At(s))
	return xctl{}
}

func (m *XMachine) rangeStmt(fr *xframe, y *ast.RangeStmt, label string) xctl {
	x := m.eval(fr, y.X)
	n := 0
	var elem func(i int) XVal
	switch {
	case x.K == 's' || x.K == 'n':
		x = m.wantSlice(fr, y.X, x)
		n = x.Len
		et := xBasicInt(fr.info.TypeOf(y.X).Underlying().(*types.Slice).Elem())
		elem = func(i int) XVal { return XVal{K: 'i', I: m.Elem(x, i), T: et} }
	case x.K == 'i':
		n = int(x.I)
	default:
		m.unsupported("range over %s", fr.f.Str(y.X))
	}
	for i := 0; i < n; i++ {
		m.step()
		if y.Key != nil {
			m.assign(fr, y.Key, XInt(int64(i)), y.Tok == token.DEFINE)
		}
		if y.Value != nil {
			if elem == nil {
				m.unsupported("range value of %s", fr.f.Str(y.X))
			}
			m.assign(fr, y.Value, elem(i), y.Tok == token.DEFINE)
		}
		if stop, out := loopCtl(m.block(fr, y.Body.List), label); stop {
			return out
		}
	}
	return xctl{}
}

func (m *XMachine) switchStmt(fr *xframe, y *ast.SwitchStmt, label string) xctl {
	if y.Init != nil {
		m.stmt(fr, y.Init, "")
	}
	var tag *XVal
	if y.Tag != nil {
		v := m.eval(fr, y.Tag)
		tag = &v
	}
	chosen := -1
	def := -1
	for i, cs := range y.Body.List {
		cc := cs.(*ast.CaseClause)
		if cc.List == nil {
			def = i
			continue
		}
		for _, e := range cc.List {
			m.step()
			hit := false
			if tag != nil {
				hit = m.equal(fr, e, *tag, m.eval(fr, e))
			} else {
				hit = m.truth(fr, e)
			}
			if hit {
				chosen = i
				break
			}
		}
		if chosen >= 0 {
			break
		}
	}
	if chosen < 0 {
		chosen = def
	}
	for chosen >= 0 && chosen < len(y.Body.List) {
		c := m.block(fr, y.Body.List[chosen].(*ast.CaseClause).Body)
		switch c.kind {
		case 4:
			chosen++
			continue
		case 1:
			if c.label == "" || c.label == label {
				return xctl{}
			}
		}
		return c
	}
	return xctl{}
}

func (m *XMachine) assignStmt(fr *xframe, y *ast.AssignStmt) {
	def := y.Tok == token.DEFINE
	switch {
	case y.Tok == token.ASSIGN || def:
		var vals []XVal
		if len(y.Rhs) == 1 && len(y.Lhs) > 1 {
			vals = m.multi(fr, y.Rhs[0])
			if len(vals) != len(y.Lhs) {
				m.unsupported("assignment %s", fr.f.Str(y))
			}
		} else {
			for _, r := range y.Rhs {
				m.noStructCopy(fr, r)
				vals = append(vals, m.eval(fr, r))
			}
		}
		for i, l := range y.Lhs {
			m.assign(fr, l, vals[i], def)
		}
	default:
		op, ok := map[token.Token]token.Token{token.ADD_ASSIGN: token.ADD, token.SUB_ASSIGN: token.SUB, token.MUL_ASSIGN: token.MUL,
			token.QUO_ASSIGN: token.QUO, token.REM_ASSIGN: token.REM, token.AND_ASSIGN: token.AND, token.OR_ASSIGN: token.OR,
			token.XOR_ASSIGN: token.XOR, token.SHL_ASSIGN: token.SHL, token.SHR_ASSIGN: token.SHR, token.AND_NOT_ASSIGN: token.AND_NOT}[y.Tok]
		if !ok || len(y.Lhs) != 1 || len(y.Rhs) != 1 {
			m.unsupported("assignment %s", fr.f.Str(y))
		}
		a, b := m.eval(fr, y.Lhs[0]), m.eval(fr, y.Rhs[0])
		m.assign(fr, y.Lhs[0], m.arith(fr, y, op, a, b, fr.info.TypeOf(y.Lhs[0])), false)
	}
}

// noStructCopy refuses `x = y` for struct values (objects have reference semantics here).
func (m *XMachine) noStructCopy(fr *xframe, r ast.Expr) {
	t := fr.info.TypeOf(r)
	if t == nil {
		return
	}
	if _, isStruct := t.Underlying().(*types.Struct); !isStruct {
		return
	}
	switch ast.Unparen(r).(type) {
	case *ast.CompositeLit, *ast.CallExpr:
		return
	}
	m.unsupported("copy of the struct value %s", fr.f.Str(r))
}

func (m *XMachine) assign(fr *xframe, lhs ast.Expr, v XVal, define bool) {
	lhs = ast.Unparen(lhs)
	switch x := lhs.(type) {
	case *ast.Ident:
		if x.Name == "_" {
			return
		}
		if o := fr.info.Defs[x]; o != nil && define {
			c := m.convertTo(v, o.Type())
			fr.vars[o] = &c
			return
		}
		o := fr.info.Uses[x]
		if o == nil {
			o = fr.info.Defs[x]
		}
		if o == nil {
			m.unsupported("assignment to %s", x.Name)
		}
		c := fr.lookup(o)
		if c == nil {
			c = m.global(fr, o, x)
		}
		*c = m.convertTo(v, o.Type())
	case *ast.IndexExpr:
		base := m.wantSlice(fr, x.X, m.eval(fr, x.X))
		idx := m.eval(fr, x.Index)
		if idx.K != 'i' || v.K != 'i' {
			m.unsupported("store %s", fr.f.Str(lhs))
		}
		if idx.I < 0 || idx.I >= int64(base.Len) {
			m.crash(fr, x, "index out of range [%d] with length %d", idx.I, base.Len)
		}
		m.SetElem(base, int(idx.I), xWrap(v.I, xBasicInt(fr.info.TypeOf(lhs))))
	case *ast.SelectorExpr:
		c := m.fieldCell(fr, x)
		*c = m.convertTo(v, fr.info.TypeOf(x))
	case *ast.StarExpr:
		m.unsupported("store through %s", fr.f.Str(lhs))
	default:
		m.unsupported("assignment to %s", fr.f.Str(lhs))
	}
}

func (m *XMachine) fieldCell(fr *xframe, x *ast.SelectorExpr) *XVal {
	sel, ok := fr.info.Selections[x]
	if !ok || sel.Kind() != types.FieldVal {
		m.unsupported("selector %s", fr.f.Str(x))
	}
	base := m.eval(fr, x.X)
	if base.K == 'n' {
		m.crash(fr, x, "nil pointer dereference")
	}
	if base.K != 'o' {
		m.unsupported("field of %s", fr.f.Str(x.X))
	}
	// embedded fields: walk the implicit path
	obj := base.Obj
	path := sel.Index()
	t := sel.Recv()
	for k, ix := range path {
		if p, isPtr := t.Underlying().(*types.Pointer); isPtr {
			t = p.Elem()
		}
		st, ok := t.Underlying().(*types.Struct)
		if !ok {
			m.unsupported("selector %s", fr.f.Str(x))
		}
		fld := st.Field(ix)
		c, ok := obj.F[fld.Name()]
		if !ok {
			z := m.zero(fld.Type())
			c = &z
			obj.F[fld.Name()] = c
		}
		if k == len(path)-1 {
			return c
		}
		if c.K != 'o' {
			m.unsupported("selector %s", fr.f.Str(x))
		}
		obj, t = c.Obj, fld.Type()
	}
	return nil
}

// ---------------------------------------------------------------------------
// expressions

func (m *XMachine) constVal(fr *xframe, e ast.Expr, tv types.TypeAndValue) XVal {
	switch tv.Value.Kind() {
	case constant.Bool:
		return XBool(constant.BoolVal(tv.Value))
	case constant.Int:
		if v, ok := constant.Int64Val(tv.Value); ok {
			return XVal{K: 'i', I: v, T: xBasicInt(tv.Type)}
		}
		if v, ok := constant.Uint64Val(tv.Value); ok {
			return XVal{K: 'i', I: int64(v), T: xBasicInt(tv.Type)}
		}
	case constant.String:
		return XVal{K: 'S', Str: constant.StringVal(tv.Value)}
	}
	m.unsupported("constant %s", fr.f.Str(e))
	return XVal{}
}

// multi evaluates an expression that may yield several values.
func (m *XMachine) multi(fr *xframe, e ast.Expr) []XVal {
	if call, ok := ast.Unparen(e).(*ast.CallExpr); ok {
		if tv, ok := fr.info.Types[e]; !ok || tv.Value == nil {
			return m.call(fr, call)
		}
	}
	return []XVal{m.eval(fr, e)}
}

func (m *XMachine) eval(fr *xframe, e ast.Expr) XVal {
	m.step()
	if tv, ok := fr.info.Types[e]; ok && tv.Value != nil {
		return m.constVal(fr, e, tv)
	}
	switch x := e.(type) {
	case *ast.ParenExpr:
		return m.eval(fr, x.X)
	case *ast.Ident:
		o := fr.info.Uses[x]
		if o == nil {
			o = fr.info.Defs[x]
		}
		switch o.(type) {
		case *types.Nil:
			return XVal{K: 'n'}
		case *types.Var:
			if c := fr.lookup(o); c != nil {
				return *c
			}
			return *m.global(fr, o, x)
		}
		m.unsupported("identifier %s", x.Name)
	case *ast.SelectorExpr:
		if _, ok := fr.info.Selections[x]; ok {
			return *m.fieldCell(fr, x)
		}
		if o, ok := fr.info.Uses[x.Sel].(*types.Var); ok {
			return *m.global(fr, o, x)
		}
		m.unsupported("selector %s", fr.f.Str(x))
	case *ast.UnaryExpr:
		if x.Op == token.AND {
			v := m.eval(fr, x.X)
			if v.K == 'o' || v.K == 'B' {
				return v
			}
			m.unsupported("address of %s", fr.f.Str(x.X))
		}
		v := m.eval(fr, x.X)
		switch {
		case x.Op == token.NOT && v.K == 'b':
			return XBool(v.I == 0)
		case x.Op == token.SUB && v.K == 'i':
			v.I = xWrap(-v.I, v.T)
			return v
		case x.Op == token.ADD && v.K == 'i':
			return v
		case x.Op == token.XOR && v.K == 'i':
			v.I = xWrap(^v.I, v.T)
			return v
		}
		m.unsupported("operation %s", fr.f.Str(x))
	case *ast.StarExpr:
		v := m.eval(fr, x.X)
		if v.K == 'o' || v.K == 'B' {
			return v
		}
		if v.K == 'n' {
			m.crash(fr, x, "nil pointer dereference")
		}
		m.unsupported("dereference %s", fr.f.Str(x))
	case *ast.BinaryExpr:
		switch x.Op {
		case token.LAND:
			if !m.truth(fr, x.X) {
				return XBool(false)
			}
			return XBool(m.truth(fr, x.Y))
		case token.LOR:
			if m.truth(fr, x.X) {
				return XBool(true)
			}
			return XBool(m.truth(fr, x.Y))
		}
		a, b := m.eval(fr, x.X), m.eval(fr, x.Y)
		switch x.Op {
		case token.EQL:
			return XBool(m.equal(fr, x, a, b))
		case token.NEQ:
			return XBool(!m.equal(fr, x, a, b))
		case token.LSS, token.LEQ, token.GTR, token.GEQ:
			if a.K == 'i' && b.K == 'i' {
				av, bv := a.I, b.I
				// unsigned 64-bit operands compare as unsigned
				if t := xBasicInt(fr.info.TypeOf(x.X)); t != nil && t.Info()&types.IsUnsigned != 0 && (av < 0 || bv < 0) {
					m.unsupported("comparison of large unsigned values %s", fr.f.Str(x))
				}
				switch x.Op {
				case token.LSS:
					return XBool(av < bv)
				case token.LEQ:
					return XBool(av <= bv)
				case token.GTR:
					return XBool(av > bv)
				}
				return XBool(av >= bv)
			}
			m.unsupported("comparison %s", fr.f.Str(x))
		}
		return m.arith(fr, x, x.Op, a, b, fr.info.TypeOf(x))
	case *ast.IndexExpr:
		base := m.eval(fr, x.X)
		if base.K != 's' && base.K != 'n' {
			m.unsupported("index %s", fr.f.Str(x))
		}
		base = m.wantSlice(fr, x.X, base)
		idx := m.eval(fr, x.Index)
		if idx.K != 'i' {
			m.unsupported("index %s", fr.f.Str(x))
		}
		if idx.I < 0 || idx.I >= int64(base.Len) {
			m.crash(fr, x, "index out of range [%d] with length %d", idx.I, base.Len)
		}
		return XVal{K: 'i', I: m.Elem(base, int(idx.I)), T: xBasicInt(fr.info.TypeOf(x))}
	case *ast.SliceExpr:
		base := m.eval(fr, x.X)
		if base.K != 's' && base.K != 'n' {
			m.unsupported("slice expression %s", fr.f.Str(x))
		}
		base = m.wantSlice(fr, x.X, base)
		lo, hi, mx := 0, base.Len, base.Cap
		get := func(e ast.Expr) int {
			v := m.eval(fr, e)
			if v.K != 'i' {
				m.unsupported("slice bound %s", fr.f.Str(e))
			}
			return int(v.I)
		}
		if x.Low != nil {
			lo = get(x.Low)
		}
		if x.High != nil {
			hi = get(x.High)
		}
		if x.Slice3 && x.Max != nil {
			mx = get(x.Max)
			if mx < 0 || mx > base.Cap {
				m.crash(fr, x, "slice bounds out of range [::%d] with capacity %d", mx, base.Cap)
			}
		}
		if hi < 0 || hi > mx {
			m.crash(fr, x, "slice bounds out of range [:%d] with capacity %d", hi, mx)
		}
		if lo < 0 || lo > hi {
			m.crash(fr, x, "slice bounds out of range [%d:%d]", lo, hi)
		}
		return XVal{K: 's', Arr: base.Arr, Off: base.Off + lo, Len: hi - lo, Cap: mx - lo}
	case *ast.CallExpr:
		res := m.call(fr, x)
		if len(res) != 1 {
			m.unsupported("%s used as a single value", fr.f.Str(x))
		}
		return res[0]
	case *ast.CompositeLit:
		return m.compositeLit(fr, x)
	case *ast.FuncLit:
		return XVal{K: 'f', Lit: x, env: fr}
	}
	m.unsupported("expression %s (%T)", fr.f.Str(e), e)
	return XVal{}
}

func (m *XMachine) compositeLit(fr *xframe, x *ast.CompositeLit) XVal {
	t := fr.info.TypeOf(x)
	switch u := t.Underlying().(type) {
	case *types.Slice:
		et := xBasicInt(u.Elem())
		if et == nil {
			m.unsupported("literal %s", fr.f.Str(x))
		}
		var d []int64
		for _, el := range x.Elts {
			if _, isKV := el.(*ast.KeyValueExpr); isKV {
				m.unsupported("keyed literal %s", fr.f.Str(x))
			}
			v := m.eval(fr, el)
			if v.K != 'i' {
				m.unsupported("literal %s", fr.f.Str(x))
			}
			d = append(d, xWrap(v.I, et))
		}
		return XVal{K: 's', Arr: &XArr{D: d}, Len: len(d), Cap: len(d)}
	case *types.Struct:
		v := m.zero(t)
		for i, el := range x.Elts {
			if kv, ok := el.(*ast.KeyValueExpr); ok {
				id, ok := kv.Key.(*ast.Ident)
				if !ok {
					m.unsupported("literal %s", fr.f.Str(x))
				}
				var ft types.Type
				for j := 0; j < u.NumFields(); j++ {
					if u.Field(j).Name() == id.Name {
						ft = u.Field(j).Type()
					}
				}
				c := m.convertTo(m.eval(fr, kv.Value), ft)
				v.Obj.F[id.Name] = &c
			} else if i < u.NumFields() {
				c := m.convertTo(m.eval(fr, el), u.Field(i).Type())
				v.Obj.F[u.Field(i).Name()] = &c
			}
		}
		return v
	}
	m.unsupported("literal %s", fr.f.Str(x))
	return XVal{}
}

func (m *XMachine) equal(fr *xframe, at ast.Node, a, b XVal) bool {
	isNil := func(v XVal) bool {
		switch v.K {
		case 'n':
			return true
		case 'e':
			return v.Err == ""
		case 's':
			return v.Arr == nil
		}
		return false
	}
	switch {
	case a.K == 'n' || b.K == 'n':
		return isNil(a) && isNil(b)
	case a.K == 'i' && b.K == 'i', a.K == 'b' && b.K == 'b':
		return a.I == b.I
	case a.K == 'e' && b.K == 'e':
		return a.Err == b.Err
	case a.K == 'S' && b.K == 'S':
		return a.Str == b.Str
	case a.K == 'o' && b.K == 'o':
		return a.Obj == b.Obj
	}
	m.unsupported("comparison %s", fr.f.Str(at))
	return false
}

func (m *XMachine) arith(fr *xframe, at ast.Node, op token.Token, a, b XVal, t types.Type) XVal {
	if a.K == 'S' && b.K == 'S' && op == token.ADD {
		return XVal{K: 'S', Str: a.Str + b.Str}
	}
	if a.K != 'i' || b.K != 'i' {
		m.unsupported("operation %s", fr.f.Str(at))
	}
	bt := xBasicInt(t)
	if bt == nil {
		bt = a.T
	}
	if bt != nil && bt.Info()&types.IsUnsigned != 0 && bt.Kind() != types.Uint8 && bt.Kind() != types.Uint16 && bt.Kind() != types.Uint32 && (a.I < 0 || b.I < 0) {
		m.unsupported("64-bit unsigned arithmetic %s", fr.f.Str(at))
	}
	var r int64
	switch op {
	case token.ADD:
		r = a.I + b.I
	case token.SUB:
		r = a.I - b.I
		if bt != nil && bt.Info()&types.IsUnsigned != 0 && r < 0 && xWrap(r, bt) == r {
			m.unsupported("64-bit unsigned wrap-around in %s", fr.f.Str(at))
		}
	case token.MUL:
		r = a.I * b.I
	case token.QUO:
		if b.I == 0 {
			m.crash(fr, at, "integer divide by zero")
		}
		r = a.I / b.I
	case token.REM:
		if b.I == 0 {
			m.crash(fr, at, "integer divide by zero")
		}
		r = a.I % b.I
	case token.AND:
		r = a.I & b.I
	case token.OR:
		r = a.I | b.I
	case token.XOR:
		r = a.I ^ b.I
	case token.AND_NOT:
		r = a.I &^ b.I
	case token.SHL:
		if b.I < 0 {
			m.crash(fr, at, "negative shift amount")
		}
		if b.I > 62 {
			m.unsupported("shift %s", fr.f.Str(at))
		}
		r = a.I << uint(b.I)
	case token.SHR:
		if b.I < 0 {
			m.crash(fr, at, "negative shift amount")
		}
		if b.I > 62 {
			b.I = 63
		}
		r = a.I >> uint(b.I)
	default:
		m.unsupported("operation %s", fr.f.Str(at))
	}
	return XVal{K: 'i', I: xWrap(r, bt), T: bt}
}

// ---------------------------------------------------------------------------
// calls

func (m *XMachine) call(fr *xframe, call *ast.CallExpr) []XVal {
	return m.prepareCall(fr, call)()
}

func (m *XMachine) evalArgs(fr *xframe, call *ast.CallExpr) []XVal {
	var out []XVal
	if len(call.Args) == 1 {
		// f(g()) with a multi-valued g
		if _, isCall := ast.Unparen(call.Args[0]).(*ast.CallExpr); isCall {
			if tup, ok := fr.info.TypeOf(call.Args[0]).(*types.Tuple); ok && tup.Len() > 1 {
				return m.multi(fr, call.Args[0])
			}
		}
	}
	for _, a := range call.Args {
		out = append(out, m.eval(fr, a))
	}
	return out
}

// quietArgs: the arguments of a logging / formatting call are not evaluated;
// they must not contain calls with effects the evaluator models.
func (m *XMachine) quietArgs(fr *xframe, call *ast.CallExpr) {
	for _, a := range call.Args {
		ast.Inspect(a, func(n ast.Node) bool {
			c, ok := n.(*ast.CallExpr)
			if !ok {
				return true
			}
			obj := Callee(fr.info, c)
			fn, isFn := obj.(*types.Func)
			if !isFn {
				if _, isBuiltin := obj.(*types.Builtin); isBuiltin || obj == nil {
					return true
				}
				m.unsupported("call %s inside the arguments of %s", fr.f.Str(c), fr.f.Str(call.Fun))
			}
			if m.P.FuncOf(fn) != nil {
				m.unsupported("call of %s inside the arguments of %s", fn.Name(), fr.f.Str(call.Fun))
			}
			if sig := fn.Type().(*types.Signature); sig.Recv() != nil {
				q := QualName(fn)
				switch q {
				case "bytes.(*Buffer).Len", "bytes.(*Buffer).Bytes", "bytes.(*Buffer).String", "bytes.(*Buffer).Cap", "bytes.(*Buffer).Available":
				default:
					if strings.HasPrefix(q, "bytes.(*Buffer).") || types.IsInterface(sig.Recv().Type()) {
						m.unsupported("call of %s inside the arguments of %s", q, fr.f.Str(call.Fun))
					}
				}
			}
			return true
		})
	}
}

// prepareCall evaluates the operands of a call now and returns the action
// that performs it (deferred calls run it at function exit).
func (m *XMachine) prepareCall(fr *xframe, call *ast.CallExpr) func() []XVal {
	info := fr.info
	fun := ast.Unparen(call.Fun)
	// conversion
	if tv, ok := info.Types[fun]; ok && tv.IsType() {
		if len(call.Args) != 1 {
			m.unsupported("conversion %s", fr.f.Str(call))
		}
		v := m.conversion(fr, call, tv.Type, m.eval(fr, call.Args[0]))
		return func() []XVal { return []XVal{v} }
	}
	// immediately invoked literal
	if lit, ok := fun.(*ast.FuncLit); ok {
		args := m.evalArgs(fr, call)
		return func() []XVal { return m.invoke(fr.f, lit.Type, lit.Body, info, fr, nil, args) }
	}
	obj := Callee(info, call)
	switch o := obj.(type) {
	case *types.Builtin:
		return m.builtin(fr, call, o.Name())
	case *types.Var:
		fv := m.eval(fr, fun)
		if fv.K != 'f' {
			m.unsupported("call of %s", fr.f.Str(fun))
		}
		args := m.evalArgs(fr, call)
		return func() []XVal { return m.invoke(fr.f, fv.Lit.Type, fv.Lit.Body, info, fv.env, nil, args) }
	case *types.Func:
		sig := o.Type().(*types.Signature)
		q := QualName(o)
		if sig.Recv() != nil {
			sel, ok := fun.(*ast.SelectorExpr)
			if !ok {
				m.unsupported("method expression %s", fr.f.Str(fun))
			}
			if s, ok := info.Selections[sel]; !ok || s.Kind() != types.MethodVal {
				m.unsupported("method expression %s", fr.f.Str(fun))
			}
			recv := m.eval(fr, sel.X)
			switch {
			case recv.K == 'B':
				args := m.evalArgs(fr, call)
				return func() []XVal { return m.bufMethod(fr, call, recv.Buf, o.Name(), args) }
			case recv.K == 'D':
				args := m.evalArgs(fr, call)
				return func() []XVal { return m.devMethod(fr, call, recv.Dev, o.Name(), args) }
			case recv.K == 'n':
				m.crash(fr, call, "method call on a nil value")
			}
			if cf := m.P.FuncOf(o); cf != nil && cf.Body != nil {
				args := m.evalArgs(fr, call)
				return func() []XVal { return m.moduleCall(cf, &recv, args) }
			}
			m.unsupported("call of %s", q)
		}
		if cf := m.P.FuncOf(o); cf != nil && cf.Body != nil {
			args := m.evalArgs(fr, call)
			return func() []XVal { return m.moduleCall(cf, nil, args) }
		}
		return m.library(fr, call, q)
	}
	m.unsupported("call %s", fr.f.Str(call))
	return nil
}

func (m *XMachine) moduleCall(cf *Func, recv *XVal, args []XVal) []XVal {
	if m.Stub != nil {
		if res, ok := m.Stub(cf, args); ok {
			return res
		}
	}
	return m.invoke(cf, cf.Type, cf.Body, cf.Info(), nil, recv, args)
}

func (m *XMachine) conversion(fr *xframe, call *ast.CallExpr, t types.Type, v XVal) XVal {
	switch u := t.Underlying().(type) {
	case *types.Basic:
		if b := xBasicInt(t); b != nil && v.K == 'i' {
			return XVal{K: 'i', I: xWrap(v.I, b), T: b}
		}
		if u.Info()&types.IsBoolean != 0 && v.K == 'b' {
			return v
		}
	case *types.Slice:
		switch v.K {
		case 'n':
			return XVal{K: 's'}
		case 's':
			return v
		case 'S':
			if xBasicInt(u.Elem()) != nil && xBasicInt(u.Elem()).Kind() == types.Uint8 {
				d := make([]int64, len(v.Str))
				for i := 0; i < len(v.Str); i++ {
					d[i] = int64(v.Str[i])
				}
				return m.sliceOf(d)
			}
		}
	case *types.Interface:
		return m.convertTo(v, t)
	case *types.Pointer:
		if v.K == 'n' || v.K == 'o' || v.K == 'B' {
			return v
		}
	}
	m.unsupported("conversion %s", fr.f.Str(call))
	return XVal{}
}

func (m *XMachine) wantInt(fr *xframe, at ast.Node, v XVal) int {
	if v.K != 'i' {
		m.unsupported("%s is not an integer", fr.f.Str(at))
	}
	return int(v.I)
}

func (m *XMachine) builtin(fr *xframe, call *ast.CallExpr, name string) func() []XVal {
	one := func(v XVal) func() []XVal { return func() []XVal { return []XVal{v} } }
	switch name {
	case "len", "cap":
		v := m.eval(fr, call.Args[0])
		switch v.K {
		case 's':
			if name == "cap" {
				return one(XInt(int64(v.Cap)))
			}
			return one(XInt(int64(v.Len)))
		case 'n':
			return one(XInt(0))
		case 'S':
			if name == "len" {
				return one(XInt(int64(len(v.Str))))
			}
		}
		m.unsupported("%s", fr.f.Str(call))
	case "copy":
		dst := m.wantSlice(fr, call.Args[0], m.eval(fr, call.Args[0]))
		sv := m.eval(fr, call.Args[1])
		if sv.K == 'S' {
			sv = m.conversion(fr, call, types.NewSlice(types.Typ[types.Uint8]), sv)
		}
		src := m.wantSlice(fr, call.Args[1], sv)
		return func() []XVal {
			n := min(dst.Len, src.Len)
			tmp := m.Content(XVal{K: 's', Arr: src.Arr, Off: src.Off, Len: n, Cap: n})
			for i := 0; i < n; i++ {
				m.SetElem(dst, i, tmp[i])
			}
			return []XVal{XInt(int64(n))}
		}
	case "append":
		base := m.wantSlice(fr, call.Args[0], m.eval(fr, call.Args[0]))
		et := xBasicInt(fr.info.TypeOf(call).Underlying().(*types.Slice).Elem())
		if et == nil {
			m.unsupported("%s", fr.f.Str(call))
		}
		var add []int64
		if call.Ellipsis.IsValid() {
			sv := m.eval(fr, call.Args[1])
			if sv.K == 'S' {
				sv = m.conversion(fr, call, types.NewSlice(types.Typ[types.Uint8]), sv)
			}
			add = m.Content(m.wantSlice(fr, call.Args[1], sv))
		} else {
			for _, a := range call.Args[1:] {
				add = append(add, xWrap(int64(m.wantInt(fr, a, m.eval(fr, a))), et))
			}
		}
		return func() []XVal {
			if base.Len+len(add) <= base.Cap {
				out := XVal{K: 's', Arr: base.Arr, Off: base.Off, Len: base.Len + len(add), Cap: base.Cap}
				if len(add) > 0 {
					// the array may be shorter than the capacity says only for fresh arrays; grow it
					for len(base.Arr.D) < base.Off+out.Len {
						base.Arr.D = append(base.Arr.D, 0)
					}
				}
				for i, v := range add {
					m.SetElem(out, base.Len+i, v)
				}
				return []XVal{out}
			}
			d := append(m.Content(base), add...)
			c := max(2*base.Cap, len(d))
			arr := &XArr{D: make([]int64, c)}
			copy(arr.D, d)
			return []XVal{{K: 's', Arr: arr, Len: len(d), Cap: c}}
		}
	case "make":
		t := fr.info.TypeOf(call)
		if !xIntElems(t) {
			m.unsupported("%s", fr.f.Str(call))
		}
		n := m.wantInt(fr, call.Args[1], m.eval(fr, call.Args[1]))
		c := n
		if len(call.Args) == 3 {
			c = m.wantInt(fr, call.Args[2], m.eval(fr, call.Args[2]))
		}
		if n < 0 || c < n {
			m.crash(fr, call, "makeslice: len or cap out of range")
		}
		if c > 1<<20 {
			m.unsupported("%s with %d elements", fr.f.Str(call), c)
		}
		return one(XVal{K: 's', Arr: &XArr{D: make([]int64, c)}, Len: n, Cap: c})
	case "min", "max":
		best := m.eval(fr, call.Args[0])
		for _, a := range call.Args[1:] {
			v := m.eval(fr, a)
			if best.K != 'i' || v.K != 'i' {
				m.unsupported("%s", fr.f.Str(call))
			}
			if (name == "min" && v.I < best.I) || (name == "max" && v.I > best.I) {
				best = v
			}
		}
		return one(best)
	case "panic":
		return func() []XVal {
			m.crash(fr, call, "panic(%s)", fr.f.Str(call.Args[0]))
			return nil
		}
	case "print", "println":
		m.quietArgs(fr, call)
		return func() []XVal { return nil }
	}
	m.unsupported("builtin %s", name)
	return nil
}

func (m *XMachine) devMethod(fr *xframe, call *ast.CallExpr, d *XDev, name string, args []XVal) []XVal {
	var fn func(m *XMachine, p XVal) (int64, string)
	switch name {
	case "Read":
		fn = d.Read
	case "Write":
		fn = d.Write
	}
	if fn == nil || len(args) != 1 {
		m.unsupported("device method %s", name)
	}
	m.CallAt = fr.f.At(call)
	n, err := fn(m, m.wantSlice(fr, call.Args[0], args[0]))
	return []XVal{XInt(n), XErr(err)}
}

func (m *XMachine) bufMethod(fr *xframe, call *ast.CallExpr, b *XBuf, name string, args []XVal) []XVal {
	snapshot := func(d []int64) XVal {
		ver := b.Ver
		arr := &XArr{D: append([]int64(nil), d...), Frozen: "bytes owned by a bytes.Buffer", Stale: func() bool { return b.Ver != ver }}
		return XVal{K: 's', Arr: arr, Len: len(d), Cap: len(d)}
	}
	switch name {
	case "Len":
		return []XVal{XInt(int64(len(b.D)))}
	case "Bytes":
		return []XVal{snapshot(b.D)}
	case "Read":
		p := m.wantSlice(fr, call.Args[0], args[0])
		if len(b.D) == 0 {
			if p.Len == 0 {
				return []XVal{XInt(0), XErr("")}
			}
			return []XVal{XInt(0), XErr("io.EOF")}
		}
		n := min(p.Len, len(b.D))
		for i := 0; i < n; i++ {
			m.SetElem(p, i, b.D[i])
		}
		b.D = b.D[n:]
		return []XVal{XInt(int64(n)), XErr("")}
	case "Next":
		n := m.wantInt(fr, call.Args[0], args[0])
		if n < 0 {
			m.crash(fr, call, "slice bounds out of range in bytes.Buffer.Next(%d)", n)
		}
		n = min(n, len(b.D))
		out := snapshot(b.D[:n])
		b.D = b.D[n:]
		return []XVal{out}
	case "Write":
		p := m.wantSlice(fr, call.Args[0], args[0])
		b.D = append(append([]int64(nil), b.D...), m.Content(p)...)
		b.Ver++
		return []XVal{XInt(int64(p.Len)), XErr("")}
	case "WriteByte":
		b.D = append(append([]int64(nil), b.D...), xWrap(int64(m.wantInt(fr, call.Args[0], args[0])), types.Typ[types.Uint8]))
		b.Ver++
		return []XVal{XErr("")}
	case "WriteString":
		if args[0].K != 'S' {
			m.unsupported("%s", fr.f.Str(call))
		}
		d := append([]int64(nil), b.D...)
		for i := 0; i < len(args[0].Str); i++ {
			d = append(d, int64(args[0].Str[i]))
		}
		b.D = d
		b.Ver++
		return []XVal{XInt(int64(len(args[0].Str))), XErr("")}
	case "ReadByte":
		if len(b.D) == 0 {
			return []XVal{{K: 'i', T: types.Typ[types.Uint8]}, XErr("io.EOF")}
		}
		v := b.D[0]
		b.D = b.D[1:]
		return []XVal{{K: 'i', I: v, T: types.Typ[types.Uint8]}, XErr("")}
	case "Reset":
		b.D = nil
		b.Ver++
		return nil
	case "Truncate":
		n := m.wantInt(fr, call.Args[0], args[0])
		if n < 0 || n > len(b.D) {
			m.crash(fr, call, "bytes.Buffer: truncation out of range")
		}
		b.D = b.D[:n]
		b.Ver++
		return nil
	case "Grow":
		if m.wantInt(fr, call.Args[0], args[0]) < 0 {
			m.crash(fr, call, "bytes.Buffer.Grow: negative count")
		}
		b.Ver++
		return nil
	}
	m.unsupported("bytes.Buffer method %s", name)
	return nil
}

func (m *XMachine) library(fr *xframe, call *ast.CallExpr, q string) func() []XVal {
	one := func(v XVal) func() []XVal { return func() []XVal { return []XVal{v} } }
	switch {
	case strings.HasPrefix(q, "log.") || q == "fmt.Println" || q == "fmt.Printf" || q == "fmt.Print":
		m.quietArgs(fr, call)
		if strings.HasPrefix(q, "log.Fatal") || strings.HasPrefix(q, "log.Panic") {
			return func() []XVal {
				m.crash(fr, call, "%s", q)
				return nil
			}
		}
		if strings.HasPrefix(q, "fmt.") {
			return func() []XVal { return []XVal{XInt(0), XErr("")} }
		}
		return func() []XVal { return nil }
	case q == "errors.New" || q == "fmt.Errorf":
		m.quietArgs(fr, call)
		return one(XErr(fmt.Sprintf("error made at %s", fr.f.At(call))))
	case q == "fmt.Sprintf" || q == "fmt.Sprint" || q == "fmt.Sprintln":
		m.quietArgs(fr, call)
		return one(XVal{K: 'S', Str: "?"})
	}
	args := m.evalArgs(fr, call)
	sl := func(i int) []int64 { return m.Content(m.wantSlice(fr, call.Args[i], args[i])) }
	index := func(s, sep []int64) int {
		for i := 0; i+len(sep) <= len(s); i++ {
			hit := true
			for j := range sep {
				if s[i+j] != sep[j] {
					hit = false
					break
				}
			}
			if hit {
				return i
			}
		}
		return -1
	}
	inSet := func(c int64, set string) bool {
		for i := 0; i < len(set); i++ {
			if set[i] >= 0x80 {
				m.unsupported("%s with a non-ASCII cutset", q)
			}
			if int64(set[i]) == c {
				return true
			}
		}
		return false
	}
	sub := func(i, lo, hi int) XVal {
		s := m.wantSlice(fr, call.Args[i], args[i])
		if s.Arr == nil {
			return s
		}
		return XVal{K: 's', Arr: s.Arr, Off: s.Off + lo, Len: hi - lo, Cap: s.Cap - lo}
	}
	switch q {
	case "bytes.IndexByte", "bytes.LastIndexByte", "slices.Index":
		s, c := sl(0), int64(m.wantInt(fr, call.Args[1], args[1]))
		at := -1
		for i, v := range s {
			if v == c {
				at = i
				if q != "bytes.LastIndexByte" {
					break
				}
			}
		}
		return one(XInt(int64(at)))
	case "bytes.Index":
		return one(XInt(int64(index(sl(0), sl(1)))))
	case "bytes.Contains":
		return one(XBool(index(sl(0), sl(1)) >= 0))
	case "slices.Contains":
		s, c := sl(0), int64(m.wantInt(fr, call.Args[1], args[1]))
		for _, v := range s {
			if v == c {
				return one(XBool(true))
			}
		}
		return one(XBool(false))
	case "bytes.Count":
		s, sep := sl(0), sl(1)
		if len(sep) == 0 {
			m.unsupported("bytes.Count with an empty separator")
		}
		n := 0
		for i := 0; i+len(sep) <= len(s); {
			if index(s[i:i+len(sep)], sep) == 0 {
				n++
				i += len(sep)
			} else {
				i++
			}
		}
		return one(XInt(int64(n)))
	case "bytes.Equal", "slices.Equal":
		a, b := sl(0), sl(1)
		return one(XBool(len(a) == len(b) && index(a, b) == 0 || len(a) == 0 && len(b) == 0))
	case "bytes.HasPrefix":
		a, b := sl(0), sl(1)
		return one(XBool(len(a) >= len(b) && index(a[:len(b)], b) == 0 || len(b) == 0))
	case "bytes.HasSuffix":
		a, b := sl(0), sl(1)
		return one(XBool(len(a) >= len(b) && index(a[len(a)-len(b):], b) == 0 || len(b) == 0))
	case "bytes.Clone", "slices.Clone":
		s := m.wantSlice(fr, call.Args[0], args[0])
		if s.Arr == nil {
			return one(s)
		}
		return one(m.sliceOf(m.Content(s)))
	case "bytes.TrimLeft", "bytes.TrimRight", "bytes.Trim":
		if args[1].K != 'S' {
			m.unsupported("%s", fr.f.Str(call))
		}
		s := sl(0)
		lo, hi := 0, len(s)
		if q != "bytes.TrimRight" {
			for lo < hi && inSet(s[lo], args[1].Str) {
				lo++
			}
		}
		if q != "bytes.TrimLeft" {
			for hi > lo && inSet(s[hi-1], args[1].Str) {
				hi--
			}
		}
		if lo == hi && q != "bytes.TrimRight" {
			return one(XVal{K: 's'}) // the library returns nil when nothing is left
		}
		return one(sub(0, lo, hi))
	case "bytes.TrimPrefix":
		a, b := sl(0), sl(1)
		if len(a) >= len(b) && (len(b) == 0 || index(a[:len(b)], b) == 0) {
			return one(sub(0, len(b), len(a)))
		}
		return one(args[0])
	case "bytes.TrimSuffix":
		a, b := sl(0), sl(1)
		if len(a) >= len(b) && (len(b) == 0 || index(a[len(a)-len(b):], b) == 0) {
			return one(sub(0, 0, len(a)-len(b)))
		}
		return one(args[0])
	}
	m.unsupported("call of %s", q)
	return nil
}
