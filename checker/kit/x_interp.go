package kit

// A small evaluator of one function over go/cfg under a hypothesised input
// valuation (K4 scenario evaluation with concrete integers).  Integers,
// booleans, slice lengths/capacities and struct fields are tracked exactly
// (Go wrap-around semantics); everything else is "unknown".  A branch on an
// unknown that is chosen by the environment (result of an interface method,
// content of an input buffer) forks without loss; a branch on any other
// unknown taints the path, and nothing is concluded from tainted paths.
// It is used (a) to exhibit a concrete crashing input for an obligation the
// prover could not discharge and (b) to evaluate guards at critical values.

import (
	"fmt"
	"go/ast"
	"go/constant"
	"go/token"
	"go/types"
	"strconv"
	"strings"

	"golang.org/x/tools/go/cfg"
)

// IVal is an abstract value.
type IVal struct {
	K    byte // 'i' int, 'b' bool, 's' slice, 'p' pointer to struct, 't' struct value, 'n' nil, 'e' opaque non-nil, 'u' unknown, 'f' function value
	I    int64
	L, C int64  // slice length and capacity (-1 unknown)
	Env  bool   // unknown chosen by the environment; for slices: content is input data
	Ref  string // base key of the struct ('p', 't')
	Tag  string // for unknowns: "len:<key>" = length of an input slice
	Typ  *types.Basic
	Dyn  types.Type   // dynamic type of an integer held in an interface (named type)
	Lib  bool         // opaque value made by errors.New / fmt.Errorf
	Lit  *ast.FuncLit // function value: the literal …
	Env2 []iscope     // … and the static scopes it was created in (innermost first)
}

// iscope says which heap prefix holds the variables declared in a source range.
type iscope struct {
	pos, end token.Pos
	prefix   string
}

func (v IVal) known() bool { return v.K == 'i' || v.K == 'b' }

func (v IVal) String() string {
	switch v.K {
	case 'i':
		return fmt.Sprint(v.I)
	case 'b':
		return fmt.Sprint(v.I != 0)
	case 's':
		return fmt.Sprintf("slice(len=%d,cap=%d)", v.L, v.C)
	case 'n':
		return "nil"
	case 'e':
		return "non-nil"
	case 'p', 't':
		return "&" + v.Ref
	}
	return "?"
}

// ICrash is a run-time panic found on an untainted path.
type ICrash struct {
	Node ast.Node
	Msg  string
	F    *Func // function that contains Node
}

// IExit is a function exit.
type IExit struct {
	Ret     *ast.ReturnStmt
	Tainted bool
	Trace   []string
	Heap    map[string]IVal
	Vals    []IVal // values of the results
}

// IResult of one run.
type IResult struct {
	Crashes     []ICrash
	Exits       []IExit
	Stops       []IStop
	Unsupported []string
	Overflow    bool
	Steps       int
	Consumed    map[string]bool // input keys that were read
	LenCmp      map[string][]int64
	Conds       []ICond
}

// IStop records a path stopped by the Stop hook.
type IStop struct {
	Node    ast.Node
	Tainted bool
	Trace   []string
}

// ICond records a condition leaf evaluated with a watched variable.
type ICond struct {
	Expr ast.Expr
	Val  bool
}

// Interp evaluates one function.
type Interp struct {
	P *Prog
	F *Func
	// Input supplies the value of an input location: "p.Data", "p.FunctionCode",
	// "elem:p.Data[0]", or "call:<pos>" for an input-reading helper call.
	Input func(key string, t types.Type) (IVal, bool)
	// OnCall observes calls; a non-empty string is appended to the path trace.
	// If results != nil they replace the default (unknown) results.
	OnCall func(call *ast.CallExpr, args []IVal) (event string, results []IVal)
	// OnCallHeap is like OnCall but also sees the heap (struct arguments can
	// be inspected: fields of a 't' value live under Ref + "." + name); it
	// takes precedence over OnCall.
	OnCallHeap func(call *ast.CallExpr, args []IVal, heap map[string]IVal) (event string, results []IVal)
	// Heap0 presets heap locations (e.g. the fields of a struct a hook returns).
	Heap0 map[string]IVal
	// OnStore observes element stores `x[i] = v` (after the bounds check).
	OnStore func(lhs *ast.IndexExpr, idx, val IVal, tainted bool)
	// Override fixes the value of expression nodes (used to replay a loop
	// body for a chosen counter value).
	Override map[ast.Expr]IVal
	// Stop ends a path when the node is about to be executed.
	Stop     func(n ast.Node) bool
	MaxSteps int
	Sums     func(cf *Func) *Summary
	// NoInline keeps a module function opaque (its results are unknown).
	// By default every declared function of the analysed function's package
	// is evaluated in line (up to a small depth).
	NoInline func(cf *Func) bool

	cf     *Func    // function of the current frame
	scopes []iscope // static scopes of the current frame (closures: the literal, then its definers)
	prefix string   // heap key prefix of the current frame
	depth  int
	exits  *[]frameExit
	info   *types.Info
	bnd    *Bounds
	g      *Graph
	ranges map[ast.Node]*ast.RangeStmt
	res    *IResult
	inputs map[types.Object]bool
	brs    map[*cfg.Block]Branch
	vkeys  map[types.Object]string
	seenFn map[*Func]bool
}

type istate struct {
	blk     *cfg.Block
	idx     int
	heap    map[string]IVal
	tainted bool
	trace   []string
	calls   map[*ast.CallExpr][]IVal // results of calls of the current node evaluated in line
}

func (s *istate) fork() *istate {
	h := make(map[string]IVal, len(s.heap)+2)
	for k, v := range s.heap {
		h[k] = v
	}
	n := &istate{blk: s.blk, idx: s.idx, heap: h, tainted: s.tainted, trace: append([]string(nil), s.trace...)}
	if len(s.calls) > 0 {
		n.calls = make(map[*ast.CallExpr][]IVal, len(s.calls))
		for k, v := range s.calls {
			n.calls[k] = v
		}
	}
	return n
}

// frameExit is how one path left a function frame.
type frameExit struct {
	st   *istate
	ret  *ast.ReturnStmt
	vals []IVal
}

type crashErr struct {
	node ast.Node
	msg  string
}

type unsupportedErr struct{ what string }

// enter switches the per-function tables to f.
func (ip *Interp) enter(f *Func) {
	ip.cf = f
	ip.info = f.Info()
	ip.g = ip.P.Graph(f)
	ip.bnd = AnalyseBounds(ip.P, f)
	if !ip.seenFn[f] {
		ip.seenFn[f] = true
		ast.Inspect(f.Body, func(n ast.Node) bool {
			if rs, ok := n.(*ast.RangeStmt); ok {
				ip.ranges[rs.X] = rs
			}
			return true
		})
	}
}

// Run evaluates the function from its entry.
func (ip *Interp) Run() *IResult {
	if ip.MaxSteps == 0 {
		ip.MaxSteps = 400000
	}
	ip.res = &IResult{Consumed: map[string]bool{}, LenCmp: map[string][]int64{}}
	ip.ranges = map[ast.Node]*ast.RangeStmt{}
	ip.brs = map[*cfg.Block]Branch{}
	ip.vkeys = map[types.Object]string{}
	ip.seenFn = map[*Func]bool{}
	ip.prefix, ip.depth = "", 0
	ip.scopes = []iscope{{ip.F.Node().Pos(), ip.F.Node().End(), ""}}
	ip.enter(ip.F)
	ip.inputs = map[types.Object]bool{}
	for _, p := range ip.F.Params() {
		ip.inputs[p] = true
	}
	if ip.F.Decl != nil && ip.F.Decl.Recv != nil {
		for _, fl := range ip.F.Decl.Recv.List {
			for _, nm := range fl.Names {
				if o := ip.info.Defs[nm]; o != nil {
					ip.inputs[o] = true
				}
			}
		}
	}
	if len(ip.g.G.Blocks) == 0 {
		return ip.res
	}
	start := &istate{blk: ip.g.G.Blocks[0], heap: map[string]IVal{}}
	for k, v := range ip.Heap0 {
		start.heap[k] = v
	}
	for _, e := range ip.runFrame(start) {
		ip.res.Exits = append(ip.res.Exits, IExit{Ret: e.ret, Tainted: e.st.tainted, Trace: e.st.trace, Heap: e.st.heap, Vals: e.vals})
	}
	return ip.res
}

// runFrame runs the current function from st to all its exits.
func (ip *Interp) runFrame(start *istate) []frameExit {
	var exits []frameExit
	saved := ip.exits
	ip.exits = &exits
	defer func() { ip.exits = saved }()
	stack := []*istate{start}
	visited := map[string]bool{}
	for len(stack) > 0 {
		st := stack[len(stack)-1]
		stack = stack[:len(stack)-1]
		if ip.res.Steps > ip.MaxSteps {
			ip.res.Overflow = true
			break
		}
		next := ip.runBlock(st, visited)
		stack = append(stack, next...)
	}
	return exits
}

func fnv(h uint64, s string) uint64 {
	for i := 0; i < len(s); i++ {
		h ^= uint64(s[i])
		h *= 1099511628211
	}
	return h
}

// mix64 is a non-linear finaliser (splitmix64): entry digests are summed, so
// they must not be affine in the values.
func mix64(x uint64) uint64 {
	x ^= x >> 30
	x *= 0xbf58476d1ce4e5b9
	x ^= x >> 27
	x *= 0x94d049bb133111eb
	x ^= x >> 31
	return x
}

// heapKey is an order-independent digest of the state.
func heapKey(s *istate) string {
	var sum uint64
	for k, v := range s.heap {
		h := fnv(14695981039346656037, k)
		h = mix64(h + uint64(v.K)*0x9e3779b97f4a7c15)
		h = mix64(h + uint64(v.I)*0xbf58476d1ce4e5b9)
		h = mix64(h + uint64(v.L)*0x94d049bb133111eb)
		h = mix64(h + uint64(v.C)*0xd6e8feb86659fd93)
		h = mix64(fnv(h, v.Ref))
		sum += h
	}
	t := uint64(14695981039346656037)
	for _, e := range s.trace {
		t = fnv(t, e) * 31
	}
	var b [26]byte
	put := func(off int, x uint64) {
		for i := 0; i < 8; i++ {
			b[off+i] = byte(x >> (8 * i))
		}
	}
	put(0, sum)
	put(8, t)
	put(16, uint64(s.blk.Index))
	if s.tainted {
		b[24] = 1
	}
	b[25] = byte(len(s.heap))
	return string(b[:])
}

// runBlock executes the rest of a block and returns the successor states.
func (ip *Interp) runBlock(st *istate, visited map[string]bool) (next []*istate) {
	blk := st.blk
	if st.idx == 0 && (blk.Kind == cfg.KindForLoop || blk.Kind == cfg.KindRangeLoop) {
		k := heapKey(st)
		if visited[k] {
			return nil
		}
		visited[k] = true
	}
	defer func() {
		if r := recover(); r != nil {
			switch e := r.(type) {
			case crashErr:
				if !st.tainted {
					ip.res.Crashes = append(ip.res.Crashes, ICrash{Node: e.node, Msg: e.msg, F: ip.cf})
				}
			case unsupportedErr:
				ip.res.Unsupported = append(ip.res.Unsupported, e.what)
			default:
				panic(r)
			}
		}
	}()
	br, cached := ip.brs[blk]
	if !cached {
		br = ip.g.BranchOf(blk)
		ip.brs[blk] = br
	}
	n := len(blk.Nodes)
	last := n
	if len(blk.Succs) == 2 && (br.Kind == BrCond || br.Kind == BrCase) {
		last = n - 1
	}
	for i := st.idx; i < last; i++ {
		node := blk.Nodes[i]
		ip.res.Steps++
		if ip.Stop != nil && ip.Stop(node) {
			ip.res.Stops = append(ip.res.Stops, IStop{Node: node, Tainted: st.tainted, Trace: st.trace})
			return next
		}
		// calls of module functions inside the node are evaluated first; when
		// a callee has several outcomes the other states resume at this node
		states := ip.inlineCalls(st, node)
		if len(states) == 0 {
			return next
		}
		for _, s := range states[1:] {
			s.blk, s.idx = blk, i
			next = append(next, s)
		}
		st = states[0]
		if ret, ok := node.(*ast.ReturnStmt); ok {
			*ip.exits = append(*ip.exits, frameExit{st: st, ret: ret, vals: ip.returnValues(st, ret)})
			return next
		}
		ip.exec(st, node)
		st.calls = nil
	}
	switch len(blk.Succs) {
	case 0:
		if !blk.Live {
			return next
		}
		*ip.exits = append(*ip.exits, frameExit{st: st, vals: ip.returnValues(st, nil)})
		return next
	case 1:
		st.blk, st.idx = blk.Succs[0], 0
		return append(next, st)
	}
	ip.res.Steps++
	if last < n && ip.Stop != nil && ip.Stop(blk.Nodes[last]) {
		ip.res.Stops = append(ip.res.Stops, IStop{Node: blk.Nodes[last], Tainted: st.tainted, Trace: st.trace})
		return next
	}
	var outs []condOut
	switch br.Kind {
	case BrCond:
		outs = ip.cond(st, br.Cond)
	case BrCase:
		if br.Tag == nil {
			outs = ip.cond(st, br.Cond)
		} else {
			for _, s := range ip.inlineCalls(st, br.Case) {
				a, b := ip.eval(s, br.Tag), ip.eval(s, br.Case)
				outs = append(outs, ip.decide(s, ip.compare(token.EQL, a, b, nil))...)
				s.calls = nil
			}
		}
	case BrRange:
		outs = ip.rangeStep(st, br.Range)
	default:
		panic(unsupportedErr{"branch kind at " + ip.cf.At(blk.Nodes[len(blk.Nodes)-1])})
	}
	for _, o := range outs {
		s := o.st
		if o.val {
			s.blk = blk.Succs[0]
		} else {
			s.blk = blk.Succs[1]
		}
		s.idx = 0
		next = append(next, s)
	}
	return next
}

type condOut struct {
	st  *istate
	val bool
}

// decide turns a boolean value into successor states.
func (ip *Interp) decide(st *istate, v IVal) []condOut {
	if v.K == 'b' {
		return []condOut{{st, v.I != 0}}
	}
	a, b := st, st.fork()
	if !v.Env {
		a.tainted, b.tainted = true, true
	}
	return []condOut{{a, true}, {b, false}}
}

func (ip *Interp) cond(st *istate, e ast.Expr) []condOut {
	if ip.Override != nil {
		if v, ok := ip.Override[e]; ok {
			return ip.decide(st, v)
		}
	}
	e = ast.Unparen(e)
	switch x := e.(type) {
	case *ast.UnaryExpr:
		if x.Op == token.NOT {
			outs := ip.cond(st, x.X)
			for i := range outs {
				outs[i].val = !outs[i].val
			}
			return outs
		}
	case *ast.BinaryExpr:
		if x.Op == token.LAND || x.Op == token.LOR {
			var res []condOut
			for _, o := range ip.cond(st, x.X) {
				if o.val == (x.Op == token.LOR) {
					res = append(res, o)
				} else {
					res = append(res, ip.cond(o.st, x.Y)...)
				}
			}
			return res
		}
	}
	var outs []condOut
	for _, s := range ip.inlineCalls(st, e) {
		v := ip.eval(s, e)
		s.calls = nil
		outs = append(outs, ip.decide(s, v)...)
	}
	return outs
}

func (ip *Interp) rangeStep(st *istate, rs *ast.RangeStmt) []condOut {
	ck := fmt.Sprintf("%srange@%d", ip.prefix, rs.Pos())
	cnt := st.heap[ck]
	lim := st.heap[ck+".n"]
	if cnt.K != 'i' || lim.K != 'i' {
		panic(unsupportedErr{"range over a value of unknown length at " + ip.cf.At(rs)})
	}
	if cnt.I >= lim.I {
		return []condOut{{st, false}}
	}
	if rs.Key != nil {
		kt := basicInt(ip.info.TypeOf(rs.Key))
		ip.store(st, rs.Key, IVal{K: 'i', I: cnt.I, Typ: kt})
	}
	if rs.Value != nil {
		ev := IVal{K: 'u', Env: lim.Env}
		et := ip.info.TypeOf(rs.Value)
		if base, ok := st.heap[ck+".s"]; ok && base.K == 's' {
			if base.Ref != "" {
				if v, ok := st.heap[fmt.Sprintf("%s[%d]", base.Ref, cnt.I)]; ok {
					ev = v
				}
			} else if base.Env && ip.Input != nil {
				if _, pretty, ok := ip.lvalue(st, rs.X); ok {
					key := fmt.Sprintf("elem:%s[%d]", pretty, cnt.I)
					ip.res.Consumed[key] = true
					if v, ok := ip.Input(key, et); ok {
						if v.K == 'i' {
							v.Typ = basicInt(et)
							v.I = wrap(v.I, v.Typ, ip.cf.Pkg.TypesSizes)
						}
						ev = v
					}
				}
			}
		}
		ip.store(st, rs.Value, ev)
	}
	st.heap[ck] = IVal{K: 'i', I: cnt.I + 1}
	return []condOut{{st, true}}
}

// ---------------------------------------------------------------------------
// locations

func (ip *Interp) varKey(o types.Object) string {
	k, ok := ip.vkeys[o]
	if !ok {
		k = "v" + strconv.Itoa(int(o.Pos())) + ":" + o.Name()
		ip.vkeys[o] = k
	}
	// a variable lives in the frame of the innermost enclosing function it is declared in
	for _, sc := range ip.scopes {
		if sc.pos <= o.Pos() && o.Pos() <= sc.end {
			if sc.prefix != "" {
				return sc.prefix + k
			}
			return k
		}
	}
	if ip.prefix != "" {
		return ip.prefix + k
	}
	return k
}

// lvalue returns the heap key of an addressable expression (variables and
// field paths); pretty is the input-style name ("p.Data").
func (ip *Interp) lvalue(st *istate, e ast.Expr) (key, pretty string, ok bool) {
	e = ast.Unparen(e)
	switch x := e.(type) {
	case *ast.Ident:
		o := ObjOf(ip.info, x)
		if o == nil {
			return "", "", false
		}
		if v, isVar := o.(*types.Var); !isVar || v.Pkg() == nil || v.Parent() == v.Pkg().Scope() {
			return "", "", false
		}
		return ip.varKey(o), x.Name, true
	case *ast.SelectorExpr:
		sel, isSel := ip.info.Selections[x]
		if !isSel || sel.Kind() != types.FieldVal || len(sel.Index()) != 1 {
			return "", "", false
		}
		bk, bp, ok := ip.lvalue(st, x.X)
		if !ok {
			return "", "", false
		}
		if _, isPtr := ip.info.TypeOf(x.X).Underlying().(*types.Pointer); isPtr {
			pv := ip.load(st, bk, bp, ip.info.TypeOf(x.X), x.X)
			if pv.K != 'p' {
				return "", "", false
			}
			return pv.Ref + "." + x.Sel.Name, bp + "." + x.Sel.Name, true
		}
		return bk + "." + x.Sel.Name, bp + "." + x.Sel.Name, true
	case *ast.StarExpr:
		bk, bp, ok := ip.lvalue(st, x.X)
		if !ok {
			return "", "", false
		}
		pv := ip.load(st, bk, bp, ip.info.TypeOf(x.X), x.X)
		if pv.K != 'p' {
			return "", "", false
		}
		return pv.Ref, bp, true
	}
	return "", "", false
}

func (ip *Interp) isInputRoot(e ast.Expr) bool {
	o := rootObj(ip.info, e)
	return o != nil && ip.inputs[o]
}

// load reads a location, asking Input for input locations not yet set.
func (ip *Interp) load(st *istate, key, pretty string, t types.Type, e ast.Expr) IVal {
	if v, ok := st.heap[key]; ok {
		return v
	}
	if t != nil {
		if _, isStruct := t.Underlying().(*types.Struct); isStruct {
			return IVal{K: 't', Ref: key}
		}
	}
	if strings.HasPrefix(key, "in:") {
		pretty = key[3:] // an input location reached through a pointer, in any frame
	}
	if strings.HasPrefix(key, "in:") || (e != nil && ip.depth == 0 && ip.isInputRoot(e)) {
		var v IVal
		if t != nil {
			if pt, isPtr := t.Underlying().(*types.Pointer); isPtr {
				if _, isStruct := pt.Elem().Underlying().(*types.Struct); isStruct {
					v = IVal{K: 'p', Ref: "in:" + pretty}
					st.heap[key] = v
					return v
				}
			}
		}
		ip.res.Consumed[pretty] = true
		if ip.Input != nil {
			if iv, ok := ip.Input(pretty, t); ok {
				if iv.K == 'i' {
					iv.Typ = basicInt(t)
					iv.I = wrap(iv.I, iv.Typ, ip.cf.Pkg.TypesSizes)
				}
				st.heap[key] = iv
				return iv
			}
		}
		v = IVal{K: 'u', Env: true}
		if t != nil {
			if _, isSlice := t.Underlying().(*types.Slice); isSlice {
				v = IVal{K: 's', L: -1, C: -1, Env: true, Tag: "len:" + pretty}
			}
		}
		st.heap[key] = v
		return v
	}
	return IVal{K: 'u'}
}

func (ip *Interp) zero(st *istate, key string, t types.Type) IVal {
	switch u := t.Underlying().(type) {
	case *types.Basic:
		switch {
		case u.Info()&types.IsInteger != 0:
			return IVal{K: 'i', Typ: u}
		case u.Info()&types.IsBoolean != 0:
			return IVal{K: 'b'}
		}
		return IVal{K: 'u'}
	case *types.Slice:
		return IVal{K: 's', L: 0, C: 0}
	case *types.Pointer, *types.Interface, *types.Map, *types.Chan, *types.Signature:
		return IVal{K: 'n'}
	case *types.Struct:
		for i := 0; i < u.NumFields(); i++ {
			f := u.Field(i)
			st.heap[key+"."+f.Name()] = ip.zero(st, key+"."+f.Name(), f.Type())
		}
		return IVal{K: 't', Ref: key}
	}
	return IVal{K: 'u'}
}

// storeKey writes v to the location; struct values are copied field-wise.
func (ip *Interp) storeKey(st *istate, key string, t types.Type, v IVal) {
	if t != nil {
		if su, isStruct := t.Underlying().(*types.Struct); isStruct {
			if v.K != 't' {
				for i := 0; i < su.NumFields(); i++ {
					ip.storeKey(st, key+"."+su.Field(i).Name(), su.Field(i).Type(), IVal{K: 'u'})
				}
				return
			}
			if v.Ref == key {
				return
			}
			for i := 0; i < su.NumFields(); i++ {
				f := su.Field(i)
				src := v.Ref + "." + f.Name()
				fv, ok := st.heap[src]
				if !ok {
					if _, nested := f.Type().Underlying().(*types.Struct); nested {
						fv = IVal{K: 't', Ref: src}
					} else if strings.HasPrefix(v.Ref, "in:") {
						pretty := strings.TrimPrefix(src, "in:")
						ip.res.Consumed[pretty] = true
						fv = IVal{K: 'u', Env: true}
						if ip.Input != nil {
							if iv, ok := ip.Input(pretty, f.Type()); ok {
								fv = iv
								if fv.K == 'i' {
									fv.Typ = basicInt(f.Type())
								}
							} else if _, isSlice := f.Type().Underlying().(*types.Slice); isSlice {
								fv = IVal{K: 's', L: -1, C: -1, Env: true, Tag: "len:" + pretty}
							}
						}
						st.heap[src] = fv
					} else {
						fv = IVal{K: 'u'}
					}
				}
				ip.storeKey(st, key+"."+f.Name(), f.Type(), fv)
			}
			return
		}
	}
	st.heap[key] = v
}

func (ip *Interp) store(st *istate, lhs ast.Expr, v IVal) {
	lhs = ast.Unparen(lhs)
	if id, ok := lhs.(*ast.Ident); ok && id.Name == "_" {
		return
	}
	if ix, ok := lhs.(*ast.IndexExpr); ok {
		ip.eval(st, ix) // bounds check
		if base := ip.eval(st, ix.X); base.K == 's' && base.Ref != "" {
			if idx := ip.eval(st, ix.Index); idx.K == 'i' {
				st.heap[fmt.Sprintf("%s[%d]", base.Ref, idx.I)] = v
			} else {
				ip.dropElems(st, base.Ref)
			}
		}
		if ip.OnStore != nil {
			ip.OnStore(ix, ip.eval(st, ix.Index), v, st.tainted)
		}
		return
	}
	key, _, ok := ip.lvalue(st, lhs)
	if !ok {
		return // store to something we do not track (global, map element …)
	}
	ip.storeKey(st, key, ip.info.TypeOf(lhs), v)
}

// ---------------------------------------------------------------------------
// statements

func (ip *Interp) exec(st *istate, n ast.Node) {
	switch y := n.(type) {
	case *ast.AssignStmt:
		switch {
		case y.Tok == token.ASSIGN || y.Tok == token.DEFINE:
			if len(y.Lhs) == len(y.Rhs) {
				vals := make([]IVal, len(y.Rhs))
				for i, r := range y.Rhs {
					vals[i] = ip.eval(st, r)
				}
				for i, l := range y.Lhs {
					ip.store(st, l, vals[i])
				}
				return
			}
			if len(y.Rhs) == 1 {
				var vals []IVal
				switch r := ast.Unparen(y.Rhs[0]).(type) {
				case *ast.CallExpr:
					vals = ip.call(st, r)
				case *ast.TypeAssertExpr:
					if r.Type != nil && len(y.Lhs) == 2 {
						val, ok := ip.assertType(ip.eval(st, r.X), ip.info.TypeOf(r.Type))
						vals = []IVal{val, ok}
					} else {
						ip.eval(st, r)
					}
				default:
					ip.eval(st, r)
				}
				for i, l := range y.Lhs {
					v := IVal{K: 'u'}
					if i < len(vals) {
						v = vals[i]
					}
					ip.store(st, l, v)
				}
				return
			}
		default:
			if len(y.Lhs) == 1 && len(y.Rhs) == 1 {
				op := map[token.Token]token.Token{token.ADD_ASSIGN: token.ADD, token.SUB_ASSIGN: token.SUB, token.MUL_ASSIGN: token.MUL,
					token.QUO_ASSIGN: token.QUO, token.REM_ASSIGN: token.REM, token.AND_ASSIGN: token.AND, token.OR_ASSIGN: token.OR,
					token.XOR_ASSIGN: token.XOR, token.SHL_ASSIGN: token.SHL, token.SHR_ASSIGN: token.SHR, token.AND_NOT_ASSIGN: token.AND_NOT}[y.Tok]
				a := ip.eval(st, y.Lhs[0])
				b := ip.eval(st, y.Rhs[0])
				ip.store(st, y.Lhs[0], ip.arith(op, a, b, basicInt(ip.info.TypeOf(y.Lhs[0])), y))
				return
			}
		}
		panic(unsupportedErr{"assignment " + ip.cf.Str(y)})
	case *ast.IncDecStmt:
		a := ip.eval(st, y.X)
		op := token.ADD
		if y.Tok == token.DEC {
			op = token.SUB
		}
		bt := basicInt(ip.info.TypeOf(y.X))
		ip.store(st, y.X, ip.arith(op, a, IVal{K: 'i', I: 1, Typ: bt}, bt, y))
	case *ast.ExprStmt:
		ip.eval(st, y.X)
	case *ast.DeclStmt:
		if gd, ok := y.Decl.(*ast.GenDecl); ok {
			for _, sp := range gd.Specs {
				if vs, ok := sp.(*ast.ValueSpec); ok {
					ip.exec(st, vs)
				}
			}
		}
	case *ast.ValueSpec:
		for i, nm := range y.Names {
			o := ip.info.Defs[nm]
			if o == nil {
				continue
			}
			switch {
			case len(y.Values) == len(y.Names):
				ip.store(st, nm, ip.eval(st, y.Values[i]))
			case len(y.Values) == 0:
				ip.storeKey(st, ip.varKey(o), o.Type(), ip.zero(st, ip.varKey(o), o.Type()))
			default:
				ip.store(st, nm, IVal{K: 'u'})
			}
		}
	case *ast.DeferStmt, *ast.GoStmt, *ast.EmptyStmt:
		// deferred calls run at exit; they do not affect the bounds of this body
	case ast.Expr:
		// switch tags, range operands and key/value definitions appear as bare expressions
		if rs, ok := ip.ranges[y]; ok {
			v := ip.eval(st, y)
			ck := fmt.Sprintf("%srange@%d", ip.prefix, rs.Pos())
			st.heap[ck] = IVal{K: 'i', I: 0}
			switch {
			case v.K == 's' && v.L >= 0:
				st.heap[ck+".n"] = IVal{K: 'i', I: v.L, Env: v.Env}
				st.heap[ck+".s"] = v
			case v.K == 'i':
				st.heap[ck+".n"] = IVal{K: 'i', I: v.I}
			default:
				if a, isArr := ip.info.TypeOf(y).Underlying().(*types.Array); isArr {
					st.heap[ck+".n"] = IVal{K: 'i', I: a.Len()}
				} else {
					st.heap[ck+".n"] = IVal{K: 'u'}
				}
			}
			return
		}
		if id, ok := y.(*ast.Ident); ok && ip.info.Defs[id] != nil {
			return // range key/value definition
		}
		ip.eval(st, y)
	default:
		panic(unsupportedErr{fmt.Sprintf("%T at %s", n, ip.cf.At(n))})
	}
}

// ---------------------------------------------------------------------------
// expressions

func isFloatType(t types.Type) bool {
	if t == nil {
		return false
	}
	b, ok := t.Underlying().(*types.Basic)
	return ok && b.Info()&(types.IsFloat|types.IsComplex) != 0
}

func wrap(v int64, bt *types.Basic, sizes types.Sizes) int64 {
	if bt == nil {
		return v
	}
	bits := uint(64)
	if sizes != nil {
		bits = uint(sizes.Sizeof(bt) * 8)
	}
	if bits >= 64 {
		return v
	}
	m := int64(1) << bits
	v &= m - 1
	if bt.Info()&types.IsUnsigned == 0 && v >= m>>1 {
		v -= m
	}
	return v
}

func (ip *Interp) arith(op token.Token, a, b IVal, bt *types.Basic, at ast.Node) IVal {
	if a.K != 'i' || b.K != 'i' {
		return IVal{K: 'u', Env: (a.K == 'i' || a.Env) && (b.K == 'i' || b.Env) && (a.K == 'i' || a.K == 'u') && (b.K == 'i' || b.K == 'u'), Typ: bt}
	}
	var r int64
	switch op {
	case token.ADD:
		r = a.I + b.I
	case token.SUB:
		r = a.I - b.I
	case token.MUL:
		r = a.I * b.I
	case token.QUO:
		if b.I == 0 {
			panic(crashErr{at, "integer divide by zero"})
		}
		r = a.I / b.I
	case token.REM:
		if b.I == 0 {
			panic(crashErr{at, "integer divide by zero"})
		}
		r = a.I % b.I
	case token.AND:
		r = a.I & b.I
	case token.OR:
		r = a.I | b.I
	case token.XOR:
		r = a.I ^ b.I
	case token.AND_NOT:
		r = a.I &^ b.I
	case token.SHL:
		if b.I < 0 {
			panic(crashErr{at, "negative shift amount"})
		}
		if b.I >= 64 {
			r = 0
		} else {
			r = a.I << uint(b.I)
		}
	case token.SHR:
		if b.I < 0 {
			panic(crashErr{at, "negative shift amount"})
		}
		if b.I >= 64 {
			if a.I < 0 {
				r = -1
			}
		} else {
			r = a.I >> uint(b.I)
		}
	default:
		return IVal{K: 'u', Typ: bt}
	}
	return IVal{K: 'i', I: wrap(r, bt, ip.cf.Pkg.TypesSizes), Typ: bt}
}

func (ip *Interp) compare(op token.Token, a, b IVal, at ast.Expr) IVal {
	// nil-ness
	nilish := func(v IVal) (isNil, known bool) {
		switch v.K {
		case 'n':
			return true, true
		case 'e', 'p', 'f', 'i', 'b':
			return false, true
		case 's':
			return false, false
		}
		return false, false
	}
	if a.K == 'n' || b.K == 'n' {
		x := a
		if a.K == 'n' {
			x = b
		}
		if isNil, known := nilish(x); known {
			if op == token.EQL {
				return IVal{K: 'b', I: b2i(isNil)}
			}
			if op == token.NEQ {
				return IVal{K: 'b', I: b2i(!isNil)}
			}
		}
		return IVal{K: 'u', Env: x.K == 'u' && x.Env}
	}
	if (a.K == 'i' && b.K == 'i') || (a.K == 'b' && b.K == 'b') {
		var r bool
		switch op {
		case token.EQL:
			r = a.I == b.I
		case token.NEQ:
			r = a.I != b.I
		case token.LSS:
			r = a.I < b.I
		case token.LEQ:
			r = a.I <= b.I
		case token.GTR:
			r = a.I > b.I
		case token.GEQ:
			r = a.I >= b.I
		}
		return IVal{K: 'b', I: b2i(r)}
	}
	// length of an input slice against a concrete value: remember the value
	for _, pr := range [][2]IVal{{a, b}, {b, a}} {
		if strings.HasPrefix(pr[0].Tag, "len:") && pr[1].K == 'i' {
			ip.res.LenCmp[pr[0].Tag[4:]] = append(ip.res.LenCmp[pr[0].Tag[4:]], pr[1].I)
		}
	}
	// the outcome is the environment's choice only if an environment-chosen
	// unknown takes part and nothing untracked does
	envU := func(v IVal) bool { return v.K == 'u' && v.Env }
	blind := func(v IVal) bool { return v.K == 'u' && !v.Env }
	return IVal{K: 'u', Env: (envU(a) || envU(b)) && !blind(a) && !blind(b)}
}

func b2i(b bool) int64 {
	if b {
		return 1
	}
	return 0
}

// eval evaluates e and maintains the dynamic type of integers of named types
// (needed for type assertions on interface values).
func (ip *Interp) eval(st *istate, e ast.Expr) IVal {
	v := ip.eval0(st, e)
	if v.K == 'i' {
		if t := ip.info.TypeOf(e); t != nil {
			if _, isIface := t.Underlying().(*types.Interface); !isIface {
				if n, ok := types.Unalias(t).(*types.Named); ok {
					v.Dyn = n
				} else {
					v.Dyn = nil
				}
			}
		}
	}
	return v
}

func (ip *Interp) eval0(st *istate, e ast.Expr) IVal {
	info := ip.info
	if ip.Override != nil {
		if v, ok := ip.Override[e]; ok {
			return v
		}
	}
	e = ast.Unparen(e)
	if ip.Override != nil {
		if v, ok := ip.Override[e]; ok {
			return v
		}
	}
	if tv, ok := info.Types[e]; ok && tv.Value != nil {
		switch tv.Value.Kind() {
		case constant.Bool:
			return IVal{K: 'b', I: b2i(constant.BoolVal(tv.Value))}
		case constant.Int:
			if isFloatType(tv.Type) {
				return IVal{K: 'e'} // floats are carried as bit patterns only
			}
			if i, exact := constant.Int64Val(tv.Value); exact {
				return IVal{K: 'i', I: i, Typ: basicInt(tv.Type)}
			}
		case constant.Float:
			if v := constant.ToInt(tv.Value); v.Kind() == constant.Int && basicInt(tv.Type) != nil {
				if i, exact := constant.Int64Val(v); exact {
					return IVal{K: 'i', I: i, Typ: basicInt(tv.Type)}
				}
			}
		}
		return IVal{K: 'e'}
	}
	switch x := e.(type) {
	case *ast.Ident:
		if IsNilIdent(info, x) {
			return IVal{K: 'n'}
		}
		if key, pretty, ok := ip.lvalue(st, x); ok {
			return ip.load(st, key, pretty, info.TypeOf(x), x)
		}
		return IVal{K: 'u'}
	case *ast.SelectorExpr:
		if sel, ok := info.Selections[x]; ok && sel.Kind() == types.MethodVal {
			ip.eval(st, x.X)
			_, isIface := info.TypeOf(x.X).Underlying().(*types.Interface)
			return IVal{K: 'f', Env: isIface}
		}
		if key, pretty, ok := ip.lvalue(st, x); ok {
			return ip.load(st, key, pretty, info.TypeOf(x), x)
		}
		return IVal{K: 'u'}
	case *ast.StarExpr:
		v := ip.eval(st, x.X)
		if v.K == 'p' {
			return IVal{K: 't', Ref: v.Ref}
		}
		if v.K == 'n' {
			panic(crashErr{x, "nil pointer dereference"})
		}
		return IVal{K: 'u'}
	case *ast.UnaryExpr:
		switch x.Op {
		case token.AND:
			if key, _, ok := ip.lvalue(st, x.X); ok {
				return IVal{K: 'p', Ref: key}
			}
			if cl, ok := ast.Unparen(x.X).(*ast.CompositeLit); ok {
				v := ip.eval(st, cl)
				if v.K == 't' {
					return IVal{K: 'p', Ref: v.Ref}
				}
			}
			return IVal{K: 'e'}
		case token.NOT:
			v := ip.eval(st, x.X)
			if v.K == 'b' {
				return IVal{K: 'b', I: 1 - v.I}
			}
			return v
		}
		if isFloatType(info.TypeOf(x)) && (x.Op == token.SUB || x.Op == token.ADD) {
			ip.eval(st, x.X)
			return IVal{K: 'u'}
		}
		switch x.Op {
		case token.SUB:
			bt := basicInt(info.TypeOf(x))
			return ip.arith(token.SUB, IVal{K: 'i', Typ: bt}, ip.eval(st, x.X), bt, x)
		case token.ADD:
			return ip.eval(st, x.X)
		case token.XOR:
			bt := basicInt(info.TypeOf(x))
			return ip.arith(token.XOR, IVal{K: 'i', I: -1, Typ: bt}, ip.eval(st, x.X), bt, x)
		case token.ARROW:
			panic(unsupportedErr{"channel receive at " + ip.cf.At(x)})
		}
		return IVal{K: 'u'}
	case *ast.BinaryExpr:
		switch x.Op {
		case token.LAND, token.LOR:
			a := ip.eval(st, x.X)
			if a.K == 'b' {
				if (a.I != 0) == (x.Op == token.LOR) {
					return a
				}
				return ip.eval(st, x.Y)
			}
			// the right operand may or may not be evaluated: be conservative
			return IVal{K: 'u'}
		}
		if isFloatType(info.TypeOf(x.X)) || isFloatType(info.TypeOf(x.Y)) {
			// floats are carried as bit patterns: no arithmetic, no comparison
			ip.eval(st, x.X)
			ip.eval(st, x.Y)
			return IVal{K: 'u'}
		}
		switch x.Op {
		case token.EQL, token.NEQ, token.LSS, token.LEQ, token.GTR, token.GEQ:
			a, b := ip.eval(st, x.X), ip.eval(st, x.Y)
			return ip.compare(x.Op, a, b, x)
		}
		a, b := ip.eval(st, x.X), ip.eval(st, x.Y)
		return ip.arith(x.Op, a, b, basicInt(info.TypeOf(x)), x)
	case *ast.IndexExpr:
		if tv, ok := info.Types[x.X]; ok && tv.IsType() {
			return IVal{K: 'u'}
		}
		if _, isMap := info.TypeOf(x.X).Underlying().(*types.Map); isMap {
			k := ip.eval(st, x.Index)
			if tab := ip.bnd.constTable(x.X); tab != nil && k.K == 'i' {
				return IVal{K: 'i', I: tab.M[k.I], Typ: basicInt(info.TypeOf(x))}
			}
			return IVal{K: 'u'}
		}
		base := ip.eval(st, x.X)
		idx := ip.eval(st, x.Index)
		ln := int64(-1)
		switch {
		case base.K == 's':
			ln = base.L
		default:
			t := info.TypeOf(x.X).Underlying()
			if p, ok := t.(*types.Pointer); ok {
				t = p.Elem().Underlying()
			}
			if a, ok := t.(*types.Array); ok {
				ln = a.Len()
			}
		}
		if idx.K == 'i' && ln >= 0 && (idx.I < 0 || idx.I >= ln) {
			panic(crashErr{x, fmt.Sprintf("index out of range [%d] with length %d", idx.I, ln)})
		}
		if idx.K == 'i' && idx.I < 0 {
			panic(crashErr{x, fmt.Sprintf("index out of range [%d]", idx.I)})
		}
		// remembered element of a literal
		if base.K == 's' && base.Ref != "" && idx.K == 'i' {
			if v, ok := st.heap[fmt.Sprintf("%s[%d]", base.Ref, idx.I)]; ok {
				return v
			}
		}
		// element of a constant package-level table
		if idx.K == 'i' {
			if tab := ip.bnd.constTable(x.X); tab != nil {
				return IVal{K: 'i', I: tab.M[idx.I], Typ: basicInt(info.TypeOf(x))}
			}
		}
		// element value
		if base.Env && ip.Input != nil && idx.K == 'i' {
			if _, pretty, ok := ip.lvalue(st, x.X); ok {
				key := fmt.Sprintf("elem:%s[%d]", pretty, idx.I)
				ip.res.Consumed[key] = true
				if v, ok := ip.Input(key, info.TypeOf(x)); ok {
					if v.K == 'i' {
						v.Typ = basicInt(info.TypeOf(x))
						v.I = wrap(v.I, v.Typ, ip.cf.Pkg.TypesSizes)
					}
					return v
				}
			}
		}
		return IVal{K: 'u', Env: base.Env, Typ: basicInt(info.TypeOf(x))}
	case *ast.SliceExpr:
		base := ip.eval(st, x.X)
		if x.Slice3 {
			panic(unsupportedErr{"three-index slice at " + ip.cf.At(x)})
		}
		var lo, hi IVal
		lo = IVal{K: 'i'}
		if x.Low != nil {
			lo = ip.eval(st, x.Low)
		}
		ln, cp := int64(-1), int64(-1)
		isStr := false
		switch {
		case base.K == 's':
			ln, cp = base.L, base.C
		default:
			t := info.TypeOf(x.X).Underlying()
			if p, ok := t.(*types.Pointer); ok {
				t = p.Elem().Underlying()
			}
			if a, ok := t.(*types.Array); ok {
				ln, cp = a.Len(), a.Len()
			}
			if bt, ok := t.(*types.Basic); ok && bt.Info()&types.IsString != 0 {
				isStr = true
			}
		}
		if x.High != nil {
			hi = ip.eval(st, x.High)
		} else if ln >= 0 {
			hi = IVal{K: 'i', I: ln}
		} else {
			hi = IVal{K: 'u'}
		}
		if isStr {
			return IVal{K: 'u'}
		}
		if hi.K == 'i' && cp >= 0 && (hi.I < 0 || hi.I > cp) {
			panic(crashErr{x, fmt.Sprintf("slice bounds out of range [:%d] with capacity %d", hi.I, cp)})
		}
		if lo.K == 'i' && hi.K == 'i' && (lo.I < 0 || lo.I > hi.I) {
			panic(crashErr{x, fmt.Sprintf("slice bounds out of range [%d:%d]", lo.I, hi.I)})
		}
		if lo.K == 'i' && hi.K == 'i' {
			c := int64(-1)
			if cp >= 0 {
				c = cp - lo.I
			}
			ref := ""
			if lo.I == 0 {
				ref = base.Ref
			}
			return IVal{K: 's', L: hi.I - lo.I, C: c, Env: base.Env, Ref: ref}
		}
		return IVal{K: 's', L: -1, C: -1, Env: base.Env}
	case *ast.CompositeLit:
		t := info.TypeOf(x)
		switch u := t.Underlying().(type) {
		case *types.Slice:
			// the elements of a literal are remembered (until something
			// that cannot be followed writes to the slice)
			key := fmt.Sprintf("elts%d#%d", x.Pos(), ip.depth)
			ip.dropElems(st, key)
			n := int64(0)
			for _, el := range x.Elts {
				if kv, ok := el.(*ast.KeyValueExpr); ok {
					ip.eval(st, kv.Value)
					ip.dropElems(st, key)
					return IVal{K: 's', L: -1, C: -1}
				}
				st.heap[fmt.Sprintf("%s[%d]", key, n)] = ip.eval(st, el)
				n++
			}
			return IVal{K: 's', L: n, C: n, Ref: key}
		case *types.Struct:
			key := fmt.Sprintf("lit%d", x.Pos())
			ip.zero(st, key, t)
			for i, el := range x.Elts {
				if kv, ok := el.(*ast.KeyValueExpr); ok {
					if id, ok := kv.Key.(*ast.Ident); ok {
						for j := 0; j < u.NumFields(); j++ {
							if u.Field(j).Name() == id.Name {
								ip.storeKey(st, key+"."+id.Name, u.Field(j).Type(), ip.eval(st, kv.Value))
							}
						}
					}
				} else if i < u.NumFields() {
					ip.storeKey(st, key+"."+u.Field(i).Name(), u.Field(i).Type(), ip.eval(st, el))
				}
			}
			return IVal{K: 't', Ref: key}
		}
		for _, el := range x.Elts {
			if kv, ok := el.(*ast.KeyValueExpr); ok {
				ip.eval(st, kv.Value)
			} else {
				ip.eval(st, el)
			}
		}
		return IVal{K: 'e'}
	case *ast.CallExpr:
		vals := ip.call(st, x)
		if len(vals) == 1 {
			return vals[0]
		}
		return IVal{K: 'u'}
	case *ast.TypeAssertExpr:
		v := ip.eval(st, x.X)
		if x.Type == nil {
			return IVal{K: 'u'}
		}
		val, ok := ip.assertType(v, info.TypeOf(x.Type))
		if ok.K == 'b' && ok.I == 0 {
			panic(crashErr{x, "interface conversion: type assertion fails"})
		}
		if ok.K != 'b' {
			return IVal{K: 'u', Env: ok.Env}
		}
		return val
	case *ast.FuncLit:
		return IVal{K: 'f', Lit: x, Env2: append([]iscope(nil), ip.scopes...)}
	case *ast.KeyValueExpr:
		return ip.eval(st, x.Value)
	}
	return IVal{K: 'u'}
}

// call evaluates a call and returns its results.
func (ip *Interp) call(st *istate, call *ast.CallExpr) []IVal {
	info := ip.info
	if vals, ok := st.calls[call]; ok {
		return vals
	}
	// conversion
	if tv, ok := info.Types[call.Fun]; ok && tv.IsType() && len(call.Args) == 1 {
		v := ip.eval(st, call.Args[0])
		if isFloatType(info.TypeOf(call.Args[0])) != isFloatType(tv.Type) {
			return []IVal{{K: 'u'}} // numeric conversion between float and integer: not a bit cast
		}
		if bt := basicInt(tv.Type); bt != nil {
			if v.K == 'i' {
				return []IVal{{K: 'i', I: wrap(v.I, bt, ip.cf.Pkg.TypesSizes), Typ: bt}}
			}
			return []IVal{{K: 'u', Env: v.Env && v.K == 'u', Typ: bt}}
		}
		if _, isSlice := tv.Type.Underlying().(*types.Slice); isSlice && v.K == 's' {
			return []IVal{v}
		}
		return []IVal{{K: 'u', Env: v.Env}}
	}
	callee := Callee(info, call)
	if bi, ok := callee.(*types.Builtin); ok {
		switch bi.Name() {
		case "len", "cap":
			v := ip.eval(st, call.Args[0])
			if v.K == 's' {
				n := v.L
				if bi.Name() == "cap" {
					n = v.C
				}
				if n >= 0 {
					return []IVal{{K: 'i', I: n, Typ: types.Typ[types.Int]}}
				}
				return []IVal{{K: 'u', Env: v.Env, Tag: v.Tag, Typ: types.Typ[types.Int]}}
			}
			if tv, ok := info.Types[call]; ok && tv.Value != nil {
				if i, exact := constant.Int64Val(constant.ToInt(tv.Value)); exact {
					return []IVal{{K: 'i', I: i, Typ: types.Typ[types.Int]}}
				}
			}
			return []IVal{{K: 'u', Typ: types.Typ[types.Int]}}
		case "make":
			if _, isSlice := info.TypeOf(call).Underlying().(*types.Slice); isSlice && len(call.Args) >= 2 {
				n := ip.eval(st, call.Args[1])
				c := n
				if len(call.Args) == 3 {
					c = ip.eval(st, call.Args[2])
				}
				if n.K == 'i' && n.I < 0 {
					panic(crashErr{call, fmt.Sprintf("makeslice: len out of range (%d)", n.I)})
				}
				if n.K == 'i' && c.K == 'i' {
					if c.I < n.I {
						panic(crashErr{call, "makeslice: cap out of range"})
					}
					return []IVal{{K: 's', L: n.I, C: c.I}}
				}
				return []IVal{{K: 's', L: -1, C: -1}}
			}
			for _, a := range call.Args[1:] {
				ip.eval(st, a)
			}
			return []IVal{{K: 'e'}}
		case "copy":
			for i, a := range call.Args {
				if v := ip.eval(st, a); i == 0 && v.Ref != "" && v.K == 's' {
					ip.dropElems(st, v.Ref)
				}
			}
			return []IVal{{K: 'u'}}
		case "append":
			var first IVal
			for i, a := range call.Args {
				v := ip.eval(st, a)
				if i == 0 {
					first = v
				}
			}
			if first.K == 's' && first.L >= 0 && !call.Ellipsis.IsValid() {
				return []IVal{{K: 's', L: first.L + int64(len(call.Args)-1), C: -1, Env: first.Env}}
			}
			return []IVal{{K: 's', L: -1, C: -1}}
		case "panic":
			panic(unsupportedErr{"explicit panic at " + ip.cf.At(call)})
		case "new":
			return []IVal{{K: 'e'}}
		}
		for _, a := range call.Args {
			ip.eval(st, a)
		}
		return []IVal{{K: 'u'}}
	}
	// evaluate function operand and arguments
	var fnVal IVal
	switch f := ast.Unparen(call.Fun).(type) {
	case *ast.Ident:
		if _, isVar := ObjOf(info, f).(*types.Var); isVar {
			fnVal = ip.eval(st, f)
		}
	case *ast.SelectorExpr:
		if sel, ok := info.Selections[f]; ok {
			ip.eval(st, f.X)
			if sel.Kind() == types.FieldVal {
				fnVal = ip.eval(st, f)
			}
		}
	default:
		fnVal = ip.eval(st, call.Fun)
	}
	args := make([]IVal, len(call.Args))
	for i, a := range call.Args {
		args[i] = ip.eval(st, a)
		// a callee that is not followed may write the slice
		if args[i].K == 's' && args[i].Ref != "" {
			ip.dropElems(st, args[i].Ref)
		}
	}
	sig, _ := info.TypeOf(call.Fun).Underlying().(*types.Signature)
	nres := 0
	if sig != nil {
		nres = sig.Results().Len()
	}
	// byte-order helpers index their argument
	if name, _, need, ok := ByteOrderCall(info, call); ok && len(args) > 0 {
		if add, isAppend := byteOrderAppend[name]; isAppend {
			if args[0].K == 's' && args[0].L >= 0 {
				return []IVal{{K: 's', L: args[0].L + int64(add), C: -1, Env: args[0].Env}}
			}
			return []IVal{{K: 's', L: -1, C: -1}}
		}
		if args[0].K == 's' && args[0].L >= 0 && args[0].L < int64(need) {
			panic(crashErr{call, fmt.Sprintf("binary.%s on a slice of length %d (needs %d)", name, args[0].L, need)})
		}
		if nres == 1 {
			bt := basicInt(sig.Results().At(0).Type())
			if args[0].Env && ip.Input != nil {
				key := fmt.Sprintf("call:%d", call.Pos())
				ip.res.Consumed[key] = true
				if v, ok := ip.Input(key, sig.Results().At(0).Type()); ok {
					if v.K == 'i' {
						v.Typ = bt
						v.I = wrap(v.I, bt, ip.cf.Pkg.TypesSizes)
					}
					return []IVal{v}
				}
			}
			return []IVal{{K: 'u', Env: args[0].Env, Typ: bt}}
		}
		return nil
	}
	event, over := "", []IVal(nil)
	if ip.OnCallHeap != nil || ip.OnCall != nil {
		if ip.OnCallHeap != nil {
			event, over = ip.OnCallHeap(call, args, st.heap)
		} else {
			event, over = ip.OnCall(call, args)
		}
		if event != "" {
			// more than three consecutive repetitions add nothing (and would
			// keep loop states apart forever)
			n := len(st.trace)
			if !(n >= 3 && st.trace[n-1] == event && st.trace[n-2] == event && st.trace[n-3] == event) {
				st.trace = append(append([]string(nil), st.trace...), event)
			}
		}
	}
	if over != nil {
		return over
	}
	q := QualName(callee)
	switch q {
	case "errors.New", "fmt.Errorf":
		return []IVal{{K: 'e', Lib: true}}
	case "math.Float32bits", "math.Float32frombits", "math.Float64bits", "math.Float64frombits":
		// floats are carried as their bit pattern
		if len(args) == 1 && args[0].K == 'i' {
			v := args[0]
			v.Typ, v.Dyn = nil, nil
			if q == "math.Float32bits" || q == "math.Float32frombits" {
				v.I &= 0xffffffff
			}
			return []IVal{v}
		}
	}
	out := make([]IVal, nres)
	env := false
	if fn, ok := callee.(*types.Func); ok {
		if s := fn.Type().(*types.Signature); s.Recv() != nil {
			if _, isIface := s.Recv().Type().Underlying().(*types.Interface); isIface {
				env = true
			}
		}
	}
	if fnVal.K == 'f' && fnVal.Env {
		env = true
	}
	for i := range out {
		out[i] = IVal{K: 'u', Env: env}
		if sig != nil {
			out[i].Typ = basicInt(sig.Results().At(i).Type())
		}
	}
	// io.Reader contract: 0 <= n <= len(p) is not representable as a single
	// value; leave unknown (environment)
	// callee summary: facts that must hold for a nil error
	if ip.Sums != nil && nres > 0 {
		if cf := ip.cf.CalleeFunc(call); cf != nil && cf.Decl != nil {
			if sum := ip.Sums(cf); sum != nil && len(sum.Params) == len(args) {
				for _, f := range sum.OnNil {
					if v, ok := evalFact(f, sum.Params, args); ok && !v {
						out[nres-1] = IVal{K: 'e'}
					}
				}
			}
		}
	}
	return out
}

// evalFact evaluates a comparison fact over parameters bound to values.
func evalFact(f *BFact, params []*types.Var, args []IVal) (val, ok bool) {
	var ev func(t *BTerm) (int64, bool)
	ev = func(t *BTerm) (int64, bool) {
		switch t.K {
		case TConst:
			return t.Val, true
		case TVar:
			for i, p := range params {
				if p == t.Obj && args[i].K == 'i' {
					return args[i].I, true
				}
			}
		case TLen:
			if t.Args[0].K == TVar {
				for i, p := range params {
					if p == t.Args[0].Obj && args[i].K == 's' && args[i].L >= 0 {
						return args[i].L, true
					}
				}
			}
		case TConv:
			return ev(t.Args[0]) // only used for lossless cases below
		case TBin:
			a, ok1 := ev(t.Args[0])
			b, ok2 := ev(t.Args[1])
			if ok1 && ok2 {
				switch t.Op {
				case token.ADD:
					return a + b, true
				case token.SUB:
					return a - b, true
				case token.MUL:
					return a * b, true
				}
			}
		}
		return 0, false
	}
	if f.Kind != 'c' {
		return false, false
	}
	// conversions make the evaluation inexact: refuse
	exact := true
	f.terms(func(t *BTerm) {
		if t.K == TConv {
			exact = false
		}
	})
	if !exact {
		return false, false
	}
	a, ok1 := ev(f.L)
	b, ok2 := ev(f.R)
	if !ok1 || !ok2 {
		return false, false
	}
	switch f.Op {
	case token.LSS:
		return a < b, true
	case token.LEQ:
		return a <= b, true
	case token.GTR:
		return a > b, true
	case token.GEQ:
		return a >= b, true
	case token.EQL:
		return a == b, true
	case token.NEQ:
		return a != b, true
	}
	return false, false
}

// assertType evaluates v.(T): the asserted value and the ok flag.
func (ip *Interp) assertType(v IVal, T types.Type) (val, ok IVal) {
	no := IVal{K: 'b', I: 0}
	zero := IVal{K: 'u'}
	if bt := basicInt(T); bt != nil {
		zero = IVal{K: 'i', Typ: bt}
	}
	if T == nil {
		return IVal{K: 'u'}, IVal{K: 'u'}
	}
	_, tIface := T.Underlying().(*types.Interface)
	switch v.K {
	case 'n':
		return zero, no
	case 'i':
		if v.Dyn == nil {
			return IVal{K: 'u'}, IVal{K: 'u'}
		}
		hit := types.Identical(v.Dyn, T)
		if tIface {
			hit = types.Implements(v.Dyn, T.Underlying().(*types.Interface))
		}
		if hit {
			return v, IVal{K: 'b', I: 1}
		}
		return zero, no
	case 'e':
		// values made by errors.New / fmt.Errorf are never of a module type
		if v.Lib && !tIface {
			if n, isNamed := types.Unalias(T).(*types.Named); isNamed && n.Obj().Pkg() != nil && strings.HasPrefix(n.Obj().Pkg().Path(), ModPath) {
				return zero, no
			}
		}
	case 'u':
		return IVal{K: 'u', Env: v.Env}, IVal{K: 'u', Env: v.Env}
	}
	return IVal{K: 'u'}, IVal{K: 'u'}
}

// returnValues evaluates the results of a return statement (nil: the
// function fell off its end); named results are read for a bare return.
func (ip *Interp) returnValues(st *istate, ret *ast.ReturnStmt) []IVal {
	var named []*ast.Ident
	if ip.cf.Type != nil && ip.cf.Type.Results != nil {
		for _, fl := range ip.cf.Type.Results.List {
			named = append(named, fl.Names...)
		}
	}
	if ret == nil || len(ret.Results) == 0 {
		var out []IVal
		for _, nm := range named {
			out = append(out, ip.eval(st, nm))
		}
		return out
	}
	if len(ret.Results) == 1 {
		if call, ok := ast.Unparen(ret.Results[0]).(*ast.CallExpr); ok {
			if tv, isT := ip.info.Types[call.Fun]; !isT || !tv.IsType() {
				vals := ip.call(st, call)
				if len(vals) > 0 {
					return vals
				}
				return []IVal{{K: 'u'}}
			}
		}
	}
	out := make([]IVal, len(ret.Results))
	for i, r := range ret.Results {
		out[i] = ip.eval(st, r)
	}
	return out
}

// inlinable reports whether the call is evaluated in line.
// closureOf returns the function value of a call through a local variable or
// parameter that holds a function literal.
func (ip *Interp) closureOf(st *istate, call *ast.CallExpr) (IVal, *Func) {
	id, ok := ast.Unparen(call.Fun).(*ast.Ident)
	if !ok || st == nil || ip.depth >= 4 {
		return IVal{}, nil
	}
	if _, isVar := ObjOf(ip.info, id).(*types.Var); !isVar {
		return IVal{}, nil
	}
	key, _, ok := ip.lvalue(st, id)
	if !ok {
		return IVal{}, nil
	}
	v, found := st.heap[key]
	if !found || v.K != 'f' || v.Lit == nil {
		return IVal{}, nil
	}
	rel := strings.TrimPrefix(strings.TrimPrefix(ip.F.Pkg.PkgPath, ModPath), "/")
	lf := ip.P.LitFunc(rel, v.Lit)
	if lf == nil || lf.Body == nil {
		return IVal{}, nil
	}
	return v, lf
}

func (ip *Interp) inlinable(call *ast.CallExpr) *Func {
	if ip.depth >= 4 {
		return nil
	}
	if tv, ok := ip.info.Types[call.Fun]; ok && tv.IsType() {
		return nil
	}
	fn, ok := Callee(ip.info, call).(*types.Func)
	if !ok {
		return nil
	}
	cf := ip.P.FuncOf(fn)
	if cf == nil || cf.Decl == nil || cf.Body == nil || cf.Pkg != ip.F.Pkg {
		return nil
	}
	if ip.NoInline != nil && ip.NoInline(cf) {
		return nil
	}
	sig := fn.Type().(*types.Signature)
	if sig.Variadic() && !call.Ellipsis.IsValid() {
		// extra arguments are packed into a fresh slice
	}
	return cf
}

// inlineCalls evaluates the module calls contained in node n (not inside
// function literals, not in the right operand of && / ||) and returns the
// resulting states, each with the results cached for the evaluation of n.
func (ip *Interp) inlineCalls(st *istate, n ast.Node) []*istate {
	var calls []*ast.CallExpr
	var visit func(x ast.Node, lazy bool)
	visit = func(x ast.Node, lazy bool) {
		switch y := x.(type) {
		case nil:
			return
		case *ast.FuncLit:
			return
		case *ast.BinaryExpr:
			if y.Op == token.LAND || y.Op == token.LOR {
				visit(y.X, lazy)
				visit(y.Y, true)
				return
			}
		case *ast.DeferStmt, *ast.GoStmt:
			return
		case *ast.CallExpr:
			visit(y.Fun, lazy)
			for _, a := range y.Args {
				visit(a, lazy)
			}
			if !lazy {
				if _, done := st.calls[y]; !done {
					if ip.inlinable(y) != nil {
						calls = append(calls, y)
					} else if _, lf := ip.closureOf(st, y); lf != nil {
						calls = append(calls, y)
					}
				}
			}
			return
		}
		first := true
		ast.Inspect(x, func(c ast.Node) bool {
			if first {
				first = false
				return true
			}
			if c != nil {
				visit(c, lazy)
			}
			return false
		})
	}
	visit(n, false)
	if len(calls) == 0 {
		return []*istate{st}
	}
	states := []*istate{st}
	for _, call := range calls {
		var nextStates []*istate
		for _, s := range states {
			nextStates = append(nextStates, ip.invoke(s, call)...)
		}
		states = nextStates
	}
	return states
}

// invoke runs the callee of call in a new frame and returns one state per
// outcome with the results cached under the call.
func (ip *Interp) invoke(st *istate, call *ast.CallExpr) []*istate {
	cf := ip.inlinable(call)
	var closure IVal
	if cf == nil {
		closure, cf = ip.closureOf(st, call)
	}
	if cf == nil {
		return []*istate{st}
	}
	info := ip.info
	// hooks first: an overridden call is not evaluated in line
	args := make([]IVal, len(call.Args))
	for i, a := range call.Args {
		args[i] = ip.eval(st, a)
	}
	if ip.OnCall != nil || ip.OnCallHeap != nil {
		var event string
		var over []IVal
		if ip.OnCallHeap != nil {
			event, over = ip.OnCallHeap(call, args, st.heap)
		} else {
			event, over = ip.OnCall(call, args)
		}
		if event != "" || over != nil {
			if event != "" {
				n := len(st.trace)
				if !(n >= 3 && st.trace[n-1] == event && st.trace[n-2] == event && st.trace[n-3] == event) {
					st.trace = append(append([]string(nil), st.trace...), event)
				}
			}
			// an event without results only observes the call: it is still evaluated in line
			if over != nil {
				if st.calls == nil {
					st.calls = map[*ast.CallExpr][]IVal{}
				}
				st.calls[call] = over
				return []*istate{st}
			}
		}
	}
	// receiver
	var recv *IVal
	var recvExpr ast.Expr
	if sel, ok := ast.Unparen(call.Fun).(*ast.SelectorExpr); ok {
		if s, ok := info.Selections[sel]; ok && s.Kind() == types.MethodVal {
			recvExpr = sel.X
			v := ip.eval(st, sel.X)
			sig := s.Obj().Type().(*types.Signature)
			_, wantPtr := sig.Recv().Type().(*types.Pointer)
			_, havePtr := info.TypeOf(sel.X).Underlying().(*types.Pointer)
			switch {
			case wantPtr && !havePtr:
				if key, _, ok := ip.lvalue(st, sel.X); ok {
					v = IVal{K: 'p', Ref: key}
				} else {
					v = IVal{K: 'u'}
				}
			case !wantPtr && havePtr:
				if v.K == 'p' {
					v = IVal{K: 't', Ref: v.Ref}
				}
			}
			recv = &v
		}
	}
	_ = recvExpr
	// new frame
	saved := struct {
		cf     *Func
		prefix string
		depth  int
		info   *types.Info
		g      *Graph
		bnd    *Bounds
		scopes []iscope
	}{ip.cf, ip.prefix, ip.depth, ip.info, ip.g, ip.bnd, ip.scopes}
	callerPrefix := ip.prefix
	framePrefix := fmt.Sprintf("%sc%d/", callerPrefix, call.Pos())
	ip.prefix = framePrefix
	ip.depth++
	ip.enter(cf)
	if closure.Lit != nil {
		// the literal's own variables in the new frame, captured ones where they were declared
		ip.scopes = append([]iscope{{closure.Lit.Pos(), closure.Lit.End(), framePrefix}}, closure.Env2...)
	} else {
		ip.scopes = []iscope{{cf.Node().Pos(), cf.Node().End(), framePrefix}}
	}
	restore := func() {
		ip.cf, ip.prefix, ip.depth, ip.info, ip.g, ip.bnd, ip.scopes = saved.cf, saved.prefix, saved.depth, saved.info, saved.g, saved.bnd, saved.scopes
	}
	sub := st.fork()
	sub.calls = nil
	// bind receiver and parameters
	if recv != nil && cf.Decl != nil && cf.Decl.Recv != nil {
		for _, fl := range cf.Decl.Recv.List {
			for _, nm := range fl.Names {
				if o := ip.info.Defs[nm]; o != nil {
					ip.storeKey(sub, ip.varKey(o), o.Type(), *recv)
				}
			}
		}
	}
	params := cf.Params()
	var sig *types.Signature
	if cf.Obj != nil {
		sig = cf.Obj.Type().(*types.Signature)
	} else if t, ok := ip.info.TypeOf(cf.Lit).(*types.Signature); ok {
		sig = t
	}
	if sig == nil {
		restore()
		return []*istate{st}
	}
	for i, pv := range params {
		var v IVal
		switch {
		case sig.Variadic() && i == len(params)-1 && !call.Ellipsis.IsValid():
			n := int64(len(args) - i)
			if n < 0 {
				n = 0
			}
			v = IVal{K: 's', L: n, C: n}
		case i < len(args):
			v = args[i]
		default:
			v = IVal{K: 'u'}
		}
		ip.storeKey(sub, ip.varKey(pv), pv.Type(), v)
	}
	if len(ip.g.G.Blocks) == 0 {
		restore()
		return []*istate{st}
	}
	sub.blk, sub.idx = ip.g.G.Blocks[0], 0
	exits := ip.runFrame(sub)
	resTypes := sig.Results()
	var out []*istate
	for _, e := range exits {
		s := e.st
		vals := e.vals
		for len(vals) < resTypes.Len() {
			vals = append(vals, IVal{K: 'u'})
		}
		// struct results live in the callee's frame: move them to the caller
		for i := range vals {
			if vals[i].K == 't' && strings.HasPrefix(vals[i].Ref, framePrefix) && i < resTypes.Len() {
				key := fmt.Sprintf("%sret%d.%d", callerPrefix, call.Pos(), i)
				ip.storeKey(s, key, resTypes.At(i).Type(), vals[i])
				vals[i] = IVal{K: 't', Ref: key}
			}
		}
		for k := range s.heap {
			if strings.HasPrefix(k, framePrefix) {
				delete(s.heap, k)
			}
		}
		s.blk, s.idx = st.blk, st.idx
		s.calls = map[*ast.CallExpr][]IVal{}
		for k, v := range st.calls {
			s.calls[k] = v
		}
		s.calls[call] = vals
		out = append(out, s)
	}
	restore()
	return out
}

// dropElems forgets the remembered elements of a literal slice.
func (ip *Interp) dropElems(st *istate, ref string) {
	pre := ref + "["
	for k := range st.heap {
		if strings.HasPrefix(k, pre) {
			delete(st.heap, k)
		}
	}
}

// SliceElem returns the remembered element i of a slice value in heap.
func SliceElem(heap map[string]IVal, v IVal, i int64) (IVal, bool) {
	if v.K != 's' || v.Ref == "" {
		return IVal{}, false
	}
	e, ok := heap[fmt.Sprintf("%s[%d]", v.Ref, i)]
	return e, ok
}
