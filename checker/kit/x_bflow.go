package kit

// K6 (AST flavour), part 2: a forward must-analysis of "facts" over go/cfg
// (branch-edge comparisons, single-assignment definitions, make lengths,
// range/loop bounds, table-driven guards, callee nil-return summaries) and
// the enumeration of panic obligations (index, slice, byte-order helpers,
// make size, shift count, division).

import (
	"fmt"
	"go/ast"
	"go/constant"
	"go/token"
	"go/types"
	"sort"
	"strings"
	"sync"

	"golang.org/x/tools/go/cfg"
)

// FactSet is an immutable-by-convention set of facts keyed by Key().
type FactSet map[string]*BFact

func (fs FactSet) clone() FactSet {
	n := make(FactSet, len(fs)+4)
	for k, v := range fs {
		n[k] = v
	}
	return n
}

// List returns the facts in key order.
func (fs FactSet) List() []*BFact {
	ks := make([]string, 0, len(fs))
	for k := range fs {
		ks = append(ks, k)
	}
	sort.Strings(ks)
	out := make([]*BFact, 0, len(ks))
	for _, k := range ks {
		out = append(out, fs[k])
	}
	return out
}

// Bounds is the result of analysing one function.
type Bounds struct {
	P     *Prog
	F     *Func
	G     *Graph
	info  *types.Info
	sizes types.Sizes

	untracked map[types.Object]bool
	addrFree  map[types.Object]bool // local struct variables whose address is never taken
	axioms    []*BFact
	tables    map[types.Object]*ConstTable
	carry     map[*ast.ForStmt][]*BFact
	before    map[ast.Node]FactSet // facts before each CFG node
	edgeT     map[*cfg.Block]FactSet
	in        map[*cfg.Block]FactSet
	summaries func(callee *Func) *Summary
	Obs       []*BoundOb
	predDepth int
	cur       FactSet // the fact set conditions are currently interpreted against
	entry     FactSet // facts that hold on entry (analysis in the context of one call)
	Caller    *Bounds // the analysis this one was started from (call context)
	CallSite  *ast.CallExpr
	captured  bool                       // a function literal: variables of enclosing functions are visible
	funcArgs  map[types.Object]*boundLit // function-typed parameters bound to literals by the call context
	back      map[types.Object]*BTerm    // this function's receiver/parameters -> the caller's variables they were bound to
}

// Summary of a callee: facts over its parameters that hold whenever it
// returns a nil error.
type Summary struct {
	F      *Func
	Params []*types.Var
	OnNil  []*BFact
}

// BoundOb is one panic obligation.
type BoundOb struct {
	Node   ast.Node // the index / slice / call / binary expression
	Stmt   ast.Node // the CFG node that contains it
	Kind   string   // "index", "slice", "min-length", "make-size", "shift", "divisor"
	Text   string   // source text of the expression
	Goals  []string // what had to be shown
	Proved bool
	Failed string   // first goal that could not be shown
	By     []string // facts used
	Facts  FactSet
	Extra  []*BFact // short-circuit facts local to the expression
}

// Caches are per loaded program; build configurations and sweep variants are
// analysed concurrently, and only the most recent programs are kept.
type progCache struct {
	bounds map[*Func]*Bounds
	sums   map[*Func]*Summary
}

// The caches live with their program (Prog.Aux), so that they are released
// together with it: the sensitivity sweep loads hundreds of variants.
var cacheMu sync.Mutex

// cacheOf returns the cache of p; the caller holds cacheMu.
func cacheOf(p *Prog) *progCache {
	return p.Aux("kit.boundsCache", func() any {
		return &progCache{bounds: map[*Func]*Bounds{}, sums: map[*Func]*Summary{}}
	}).(*progCache)
}

func summaryGet(cf *Func) (*Summary, bool) {
	cacheMu.Lock()
	defer cacheMu.Unlock()
	s, ok := cacheOf(cf.Prog).sums[cf]
	return s, ok
}

func summaryPut(cf *Func, s *Summary) {
	cacheMu.Lock()
	defer cacheMu.Unlock()
	cacheOf(cf.Prog).sums[cf] = s
}

// AnalyseBounds runs the must-analysis and evaluates all obligations of f.
// Calls of module functions contribute their nil-return summaries.
func AnalyseBounds(p *Prog, f *Func) *Bounds {
	var sums func(cf *Func) *Summary
	sums = func(cf *Func) *Summary {
		if s, ok := summaryGet(cf); ok {
			return s
		}
		summaryPut(cf, nil) // recursion guard
		s := NilReturnSummary(p, cf, sums)
		summaryPut(cf, s)
		return s
	}
	return AnalyseBoundsWith(p, f, sums)
}

// ---------------------------------------------------------------------------
// preparation: which variables can be tracked, inductive idioms

func (b *Bounds) prepare() {
	info := b.info
	var walk func(n ast.Node, inLit bool)
	walk = func(n ast.Node, inLit bool) {
		ast.Inspect(n, func(x ast.Node) bool {
			switch y := x.(type) {
			case *ast.FuncLit:
				if x != n {
					walk(y.Body, true)
					return false
				}
			case *ast.UnaryExpr:
				if y.Op == token.AND {
					if o := rootObj(info, y.X); o != nil {
						b.untracked[o] = true
					}
				}
			case *ast.AssignStmt:
				if inLit {
					for _, l := range y.Lhs {
						if o := rootObj(info, l); o != nil {
							b.untracked[o] = true
						}
					}
				}
			case *ast.IncDecStmt:
				if inLit {
					if o := rootObj(info, y.X); o != nil {
						b.untracked[o] = true
					}
				}
			case *ast.RangeStmt:
				if inLit {
					for _, l := range []ast.Expr{y.Key, y.Value} {
						if l != nil {
							if o := rootObj(info, l); o != nil {
								b.untracked[o] = true
							}
						}
					}
				}
			case *ast.CallExpr:
				// a method with pointer receiver called on an addressable
				// variable takes its address
				if sel, ok := ast.Unparen(y.Fun).(*ast.SelectorExpr); ok {
					if s, ok := info.Selections[sel]; ok && s.Kind() == types.MethodVal {
						if sig, ok := s.Obj().Type().(*types.Signature); ok && sig.Recv() != nil {
							if _, isPtr := sig.Recv().Type().(*types.Pointer); isPtr {
								if t := info.TypeOf(sel.X); t != nil {
									if _, already := t.Underlying().(*types.Pointer); !already && !throughPointer(info, sel.X) {
										if o := rootObj(info, sel.X); o != nil {
											b.untracked[o] = true
										}
									}
								}
							}
						}
					}
				}
			}
			return true
		})
	}
	walk(b.F.Body, false)
	// when f is itself a literal, variables of enclosing functions are not ours
	b.monotoneCounters()
	b.carryCounters()
}

// throughPointer reports whether the selector path e dereferences a pointer
// on its way from the root variable (then &e is not an address of the root
// variable's own storage).
func throughPointer(info *types.Info, e ast.Expr) bool {
	for {
		switch x := ast.Unparen(e).(type) {
		case *ast.SelectorExpr:
			if t := info.TypeOf(x.X); t != nil {
				if _, isPtr := t.Underlying().(*types.Pointer); isPtr {
					return true
				}
			}
			e = x.X
		case *ast.IndexExpr:
			if t := info.TypeOf(x.X); t != nil {
				if _, isArr := t.Underlying().(*types.Array); !isArr {
					return true
				}
			}
			e = x.X
		case *ast.StarExpr:
			return true
		default:
			return false
		}
	}
}

func rootObj(info *types.Info, e ast.Expr) types.Object {
	for {
		switch x := ast.Unparen(e).(type) {
		case *ast.Ident:
			return ObjOf(info, x)
		case *ast.SelectorExpr:
			if _, ok := info.Selections[x]; !ok {
				return nil
			}
			e = x.X
		case *ast.IndexExpr:
			e = x.X
		case *ast.StarExpr:
			e = x.X
		default:
			return nil
		}
	}
}

func (b *Bounds) local(o types.Object) bool {
	v, ok := o.(*types.Var)
	if !ok || v.IsField() || b.untracked[o] || v.Pkg() == nil {
		return false
	}
	if v.Parent() == nil || v.Parent() == v.Pkg().Scope() {
		return false
	}
	// declared inside this function (parameters included); a literal analysed
	// in the context of its call also sees the variables of the functions around it
	if b.captured {
		root := b.F.Root()
		return v.Pos() >= root.Node().Pos() && v.Pos() <= root.Node().End()
	}
	return v.Pos() >= b.F.Node().Pos() && v.Pos() <= b.F.Node().End()
}

// assignments of a variable inside the function body
type varWrites struct {
	defs []ast.Expr // right-hand sides of = / := / var (nil entry: unknown value)
	incs int        // ++ and += positive constant
	oth  int        // anything else (--, -=, range key, multi-value …)
}

func (b *Bounds) writesOf() map[types.Object]*varWrites {
	info := b.info
	m := map[types.Object]*varWrites{}
	get := func(o types.Object) *varWrites {
		w := m[o]
		if w == nil {
			w = &varWrites{}
			m[o] = w
		}
		return w
	}
	ast.Inspect(b.F.Body, func(n ast.Node) bool {
		switch y := n.(type) {
		case *ast.AssignStmt:
			for i, l := range y.Lhs {
				id, ok := ast.Unparen(l).(*ast.Ident)
				if !ok {
					continue
				}
				o := ObjOf(info, id)
				if o == nil {
					continue
				}
				w := get(o)
				switch {
				case (y.Tok == token.ASSIGN || y.Tok == token.DEFINE) && len(y.Lhs) == len(y.Rhs):
					w.defs = append(w.defs, y.Rhs[i])
				case y.Tok == token.ADD_ASSIGN && len(y.Rhs) == 1:
					if c, ok := ConstInt(info, y.Rhs[0]); ok && c > 0 {
						w.incs++
					} else {
						w.oth++
					}
				default:
					w.oth++
				}
			}
		case *ast.IncDecStmt:
			if id, ok := ast.Unparen(y.X).(*ast.Ident); ok {
				if o := ObjOf(info, id); o != nil {
					if y.Tok == token.INC {
						get(o).incs++
					} else {
						get(o).oth++
					}
				}
			}
		case *ast.RangeStmt:
			for _, l := range []ast.Expr{y.Key, y.Value} {
				if id, ok := l.(*ast.Ident); ok && id != nil {
					if o := ObjOf(info, id); o != nil {
						get(o).oth++
					}
				}
			}
		case *ast.ValueSpec:
			for i, nm := range y.Names {
				if o := info.Defs[nm]; o != nil {
					w := get(o)
					switch {
					case len(y.Values) == len(y.Names):
						w.defs = append(w.defs, y.Values[i])
					case len(y.Values) == 0:
						w.defs = append(w.defs, nil) // zero value
					default:
						w.oth++
					}
				}
			}
		}
		return true
	})
	return m
}

// monotoneCounters: a local integer variable that is only ever set to
// constants and incremented never drops below the smallest constant (no
// overflow: increments of loop counters are guarded by the loop condition).
func (b *Bounds) monotoneCounters() {
	for o, w := range b.writesOf() {
		if !b.local(o) || w.oth > 0 || len(w.defs) == 0 {
			continue
		}
		bt, ok := o.Type().Underlying().(*types.Basic)
		if !ok || bt.Info()&types.IsInteger == 0 {
			continue
		}
		// parameters have an unknown initial value
		if b.isParam(o) {
			continue
		}
		min := int64(0)
		okAll := true
		for i, d := range w.defs {
			c := int64(0)
			if d != nil {
				v, isC := ConstInt(b.info, d)
				if !isC {
					okAll = false
					break
				}
				c = v
			}
			if i == 0 || c < min {
				min = c
			}
		}
		if !okAll {
			continue
		}
		v := mkTerm(&BTerm{K: TVar, Obj: o, Typ: bt})
		f := &BFact{Kind: 'c', L: v, Op: token.GEQ, R: mkTerm(&BTerm{K: TConst, Val: min}), Src: "monotone counter " + o.Name()}
		f.key = "ax:" + v.key
		b.axioms = append(b.axioms, f)
	}
}

func (b *Bounds) isParam(o types.Object) bool {
	for _, p := range b.F.Params() {
		if p == o {
			return true
		}
	}
	if b.F.Decl != nil && b.F.Decl.Recv != nil {
		for _, fl := range b.F.Decl.Recv.List {
			for _, nm := range fl.Names {
				if b.info.Defs[nm] == o {
					return true
				}
			}
		}
	}
	if b.F.Type.Results != nil {
		for _, fl := range b.F.Type.Results.List {
			for _, nm := range fl.Names {
				if b.info.Defs[nm] == o {
					return true
				}
			}
		}
	}
	return false
}

// cmpWith decomposes a comparison that has the variable o as one operand and
// returns it with o on the left: (other operand, operator).
func cmpWith(info *types.Info, cond ast.Expr, o types.Object) (ast.Expr, token.Token, bool) {
	x, y, op, ok := CmpAtom(cond)
	if !ok || o == nil {
		return nil, 0, false
	}
	if ObjOf(info, x) == o {
		return y, op, true
	}
	if ObjOf(info, y) == o {
		return x, mirror(op), true
	}
	return nil, 0, false
}

// carryCounters recognises, in `for i := 0; i < B; i++ { … r++; if r >= K { q++; r = 0 } … }`
// with q and r initialised to 0 and not written elsewhere, the invariant
// q == ⌊i/K⌋ (and r == i mod K) at the head of every iteration.
func (b *Bounds) carryCounters() {
	info := b.info
	writes := b.writesOf()
	ast.Inspect(b.F.Body, func(n ast.Node) bool {
		fs, ok := n.(*ast.ForStmt)
		if !ok || fs.Init == nil || fs.Post == nil || fs.Cond == nil {
			return true
		}
		init, ok := fs.Init.(*ast.AssignStmt)
		if !ok || init.Tok != token.DEFINE || len(init.Lhs) != 1 || len(init.Rhs) != 1 {
			return true
		}
		iv := ObjOf(info, init.Lhs[0])
		if c, isC := ConstInt(info, init.Rhs[0]); iv == nil || !isC || c != 0 || !b.local(iv) {
			return true
		}
		post, ok := fs.Post.(*ast.IncDecStmt)
		if !ok || post.Tok != token.INC || ObjOf(info, post.X) != iv {
			return true
		}
		if w := writes[iv]; w == nil || len(w.defs) != 1 || w.incs != 1 || w.oth != 0 {
			return true
		}
		// strict upper bound keeps i+1 representable
		if _, op, ok := cmpWith(info, fs.Cond, iv); !ok || op != token.LSS {
			return true
		}
		// no continue / goto / labels inside the body
		clean := true
		ast.Inspect(fs.Body, func(x ast.Node) bool {
			switch y := x.(type) {
			case *ast.BranchStmt:
				if y.Tok == token.CONTINUE || y.Tok == token.GOTO {
					clean = false
				}
			case *ast.LabeledStmt:
				clean = false
			case *ast.FuncLit:
				return false
			}
			return true
		})
		if !clean {
			return true
		}
		ibt, _ := iv.Type().Underlying().(*types.Basic)
		for idx, st := range fs.Body.List {
			inc, ok := st.(*ast.IncDecStmt)
			if !ok || inc.Tok != token.INC {
				continue
			}
			r := ObjOf(info, inc.X)
			if r == nil || !b.local(r) {
				continue
			}
			for j2, st2 := range fs.Body.List[idx+1:] {
				ifs, ok := st2.(*ast.IfStmt)
				if !ok || ifs.Init != nil || ifs.Else != nil {
					continue
				}
				condExpr := ifs.Cond
				var condVar types.Object
				// the condition may sit in a boolean local set by the statement just before the if
				if id, isId := ast.Unparen(condExpr).(*ast.Ident); isId && j2 > 0 {
					if as, isAs := fs.Body.List[idx+j2].(*ast.AssignStmt); isAs && len(as.Lhs) == 1 && len(as.Rhs) == 1 && ObjOf(info, as.Lhs[0]) != nil && ObjOf(info, as.Lhs[0]) == ObjOf(info, id) {
						condVar = ObjOf(info, id)
						if w := writes[condVar]; w != nil && len(w.defs) == 1 && w.incs == 0 && w.oth == 0 {
							condExpr = as.Rhs[0]
						}
					}
				}
				y, op, ok := cmpWith(info, condExpr, r)
				if !ok || (op != token.GEQ && op != token.EQL) {
					continue
				}
				K, isC := ConstInt(info, y)
				if !isC || K < 1 {
					continue
				}
				var q types.Object
				reset := false
				good := true
				for _, s := range ifs.Body.List {
					switch z := s.(type) {
					case *ast.IncDecStmt:
						if z.Tok == token.INC && q == nil && ObjOf(info, z.X) != r {
							q = ObjOf(info, z.X)
						} else {
							good = false
						}
					case *ast.AssignStmt:
						if z.Tok == token.ASSIGN && len(z.Lhs) == 1 && len(z.Rhs) == 1 && ObjOf(info, z.Lhs[0]) == r {
							if c, isC := ConstInt(info, z.Rhs[0]); isC && c == 0 {
								reset = true
								continue
							}
						}
						good = false
					default:
						good = false
					}
				}
				if !good || !reset || q == nil || !b.local(q) {
					continue
				}
				wq, wr := writes[q], writes[r]
				zero := func(w *varWrites, n int) bool {
					if w == nil || w.oth != 0 || len(w.defs) != n {
						return false
					}
					for _, d := range w.defs {
						if d == nil {
							continue
						}
						if c, isC := ConstInt(info, d); !isC || c != 0 {
							return false
						}
					}
					return true
				}
				// q: one zero initialisation + this increment; r: zero initialisation + reset + this increment
				if !zero(wq, 1) || wq.incs != 1 || !zero(wr, 2) || wr.incs != 1 {
					continue
				}
				// both initialised before the loop (declaration precedes the for statement, outside it)
				if q.Pos() >= fs.Pos() || r.Pos() >= fs.Pos() {
					continue
				}
				qbt, _ := q.Type().Underlying().(*types.Basic)
				if qbt == nil || qbt.Info()&types.IsInteger == 0 {
					continue
				}
				it := mkTerm(&BTerm{K: TVar, Obj: iv, Typ: ibt})
				qt := mkTerm(&BTerm{K: TVar, Obj: q, Typ: qbt})
				env := NewEnv(b.sizes, nil)
				f := &BFact{Kind: 'e', L: qt, RLin: env.fdiv(linAtom(it), K), Src: fmt.Sprintf("carry counter: %s counts %s in steps of %d", q.Name(), iv.Name(), K)}
				f.key = "e:" + qt.key
				b.carry[fs] = append(b.carry[fs], f)
			}
		}
		return true
	})
}

// loopLowerBounds: in `for i := E; …; i++` (or i += positive constant) whose
// body does not write i nor any variable of E, i >= E holds at the head of
// every iteration (increments are guarded by the loop condition, so the
// counter does not wrap).
func (b *Bounds) loopLowerBounds(fs *ast.ForStmt) []*BFact {
	info := b.info
	init, ok := fs.Init.(*ast.AssignStmt)
	if !ok || init.Tok != token.DEFINE || len(init.Lhs) != len(init.Rhs) || fs.Post == nil || fs.Cond == nil {
		return nil
	}
	var stepped types.Object
	switch post := fs.Post.(type) {
	case *ast.IncDecStmt:
		if post.Tok == token.INC {
			stepped = ObjOf(info, post.X)
		}
	case *ast.AssignStmt:
		if post.Tok == token.ADD_ASSIGN && len(post.Lhs) == 1 && len(post.Rhs) == 1 {
			if k, isC := ConstInt(info, post.Rhs[0]); isC && k > 0 {
				stepped = ObjOf(info, post.Lhs[0])
			}
		}
	}
	if stepped == nil || !b.local(stepped) {
		return nil
	}
	// strict upper bound on the counter keeps the increment representable
	if _, op, ok := cmpWith(info, fs.Cond, stepped); !ok || op != token.LSS {
		return nil
	}
	var out []*BFact
	for i, l := range init.Lhs {
		if ObjOf(info, l) != stepped {
			continue
		}
		it, et := b.Term(l), b.Term(init.Rhs[i])
		if it == nil || et == nil || it.Typ == nil || et.Typ == nil || mentions(et, it.key) {
			return nil
		}
		// nothing in the body writes the counter or a variable of E
		written := map[types.Object]bool{}
		ast.Inspect(fs.Body, func(n ast.Node) bool {
			switch y := n.(type) {
			case *ast.AssignStmt:
				for _, x := range y.Lhs {
					if o := rootObj(info, x); o != nil {
						written[o] = true
					}
				}
			case *ast.IncDecStmt:
				if o := rootObj(info, y.X); o != nil {
					written[o] = true
				}
			case *ast.RangeStmt:
				for _, x := range []ast.Expr{y.Key, y.Value} {
					if x != nil {
						if o := rootObj(info, x); o != nil {
							written[o] = true
						}
					}
				}
			}
			return true
		})
		bad := written[stepped]
		et.walk(func(t *BTerm) {
			if t.K == TVar && written[t.Obj] {
				bad = true
			}
			if t.K == TField || t.K == TElem {
				bad = true
			}
		})
		if bad {
			return nil
		}
		f := cmpFact(it, token.GEQ, et, "loop counter "+stepped.Name()+" starts at "+b.F.Str(init.Rhs[i])+" and only grows")
		out = append(out, f)
	}
	return out
}

// ---------------------------------------------------------------------------
// terms from syntax

func basicInt(t types.Type) *types.Basic {
	if t == nil {
		return nil
	}
	bt, ok := t.Underlying().(*types.Basic)
	if !ok || bt.Info()&types.IsInteger == 0 {
		return nil
	}
	if bt.Kind() == types.UntypedInt || bt.Kind() == types.UntypedRune {
		return types.Typ[types.Int]
	}
	return bt
}

// Term converts a pure expression; nil when it is not trackable.
func (b *Bounds) Term(e ast.Expr) *BTerm {
	info := b.info
	e = ast.Unparen(e)
	if tv, ok := info.Types[e]; ok && tv.Value != nil {
		if v := constant.ToInt(tv.Value); v.Kind() == constant.Int {
			if i, exact := constant.Int64Val(v); exact {
				return mkTerm(&BTerm{K: TConst, Val: i, Typ: basicInt(tv.Type)})
			}
		}
		return nil
	}
	switch x := e.(type) {
	case *ast.Ident:
		o := ObjOf(info, x)
		if o == nil || !b.local(o) {
			return nil
		}
		return mkTerm(&BTerm{K: TVar, Obj: o, Typ: basicInt(o.Type())})
	case *ast.SelectorExpr:
		sel, ok := info.Selections[x]
		if !ok || sel.Kind() != types.FieldVal || len(sel.Index()) != 1 {
			return nil
		}
		base := b.Term(x.X)
		if base == nil || (base.K != TVar && base.K != TField) {
			return nil
		}
		return mkTerm(&BTerm{K: TField, Obj: sel.Obj(), Args: []*BTerm{base}, Typ: basicInt(sel.Obj().Type())})
	case *ast.StarExpr:
		return nil
	case *ast.CallExpr:
		if tv, ok := info.Types[x.Fun]; ok && tv.IsType() && len(x.Args) == 1 {
			bt := basicInt(tv.Type)
			a := b.Term(x.Args[0])
			if bt == nil || a == nil || a.Typ == nil {
				return nil
			}
			return mkTerm(&BTerm{K: TConv, Args: []*BTerm{a}, Typ: bt})
		}
		if bi, ok := Callee(info, x).(*types.Builtin); ok && bi.Name() == "len" && len(x.Args) == 1 {
			a := b.Term(x.Args[0])
			if a == nil || (a.K != TVar && a.K != TField) {
				return nil
			}
			return mkTerm(&BTerm{K: TLen, Args: []*BTerm{a}, Typ: types.Typ[types.Int]})
		}
		// a function-typed parameter bound to a literal `func(a…) T { return <expr over a…> }`
		if id, ok := ast.Unparen(x.Fun).(*ast.Ident); ok && b.funcArgs != nil {
			if bl, ok := b.funcArgs[ObjOf(info, id)]; ok && len(bl.lit.Body.List) == 1 {
				if ret, ok := bl.lit.Body.List[0].(*ast.ReturnStmt); ok && len(ret.Results) == 1 {
					if lf := b.P.LitFunc(b.F.PkgRel(), bl.lit); lf != nil {
						lb := AnalyseBoundsWith(b.P, lf, b.summaries)
						if rt := lb.Term(ret.Results[0]); rt != nil {
							sub := map[types.Object]*BTerm{}
							okArgs := true
							for i, pv := range lf.Params() {
								if i < len(x.Args) {
									if a := b.Term(x.Args[i]); a != nil {
										sub[pv] = a
										continue
									}
								}
								okArgs = false
							}
							if okArgs {
								if r, ok := substTerm(rt, sub); ok {
									return r
								}
							}
						}
					}
				}
			}
		}
		// a module function that maps constants to constants by a switch
		if len(x.Args) == 1 {
			if tab := b.constFunc(x); tab != nil {
				if bt := basicInt(info.TypeOf(x)); bt != nil {
					if k := b.Term(x.Args[0]); k != nil && k.Typ != nil {
						return mkTerm(&BTerm{K: TLookup, Tab: tab, Args: []*BTerm{k}, Typ: bt})
					}
				}
			}
		}
		return nil
	case *ast.UnaryExpr:
		a := b.Term(x.X)
		if a == nil || a.Typ == nil {
			return nil
		}
		switch x.Op {
		case token.ADD:
			return a
		case token.SUB:
			return mkTerm(&BTerm{K: TBin, Op: token.SUB, Args: []*BTerm{mkTerm(&BTerm{K: TConst, Val: 0, Typ: a.Typ}), a}, Typ: a.Typ})
		}
		return nil
	case *ast.BinaryExpr:
		bt := basicInt(info.TypeOf(x))
		if bt == nil {
			return nil
		}
		switch x.Op {
		case token.ADD, token.SUB, token.MUL, token.QUO, token.REM, token.SHL, token.SHR, token.AND, token.OR, token.XOR, token.AND_NOT:
		default:
			return nil
		}
		l, r := b.Term(x.X), b.Term(x.Y)
		if l == nil || r == nil || l.Typ == nil || r.Typ == nil {
			return nil
		}
		return mkTerm(&BTerm{K: TBin, Op: x.Op, Args: []*BTerm{l, r}, Typ: bt})
	case *ast.IndexExpr:
		bt := basicInt(info.TypeOf(x))
		if bt == nil {
			return nil
		}
		if tab := b.constTable(x.X); tab != nil {
			k := b.Term(x.Index)
			if k == nil {
				return nil
			}
			return mkTerm(&BTerm{K: TLookup, Tab: tab, Args: []*BTerm{k}, Typ: bt})
		}
		base, idx := b.Term(x.X), b.Term(x.Index)
		if base == nil || idx == nil || (base.K != TVar && base.K != TField) {
			return nil
		}
		if _, isMap := info.TypeOf(x.X).Underlying().(*types.Map); isMap {
			return nil
		}
		return mkTerm(&BTerm{K: TElem, Args: []*BTerm{base, idx}, Typ: bt})
	}
	return nil
}

// constTable recognises a package-level map variable initialised by a
// literal of integer constants and never written in its package.
func (b *Bounds) constTable(e ast.Expr) *ConstTable {
	id, ok := ast.Unparen(e).(*ast.Ident)
	if !ok {
		return nil
	}
	o, ok := b.info.Uses[id].(*types.Var)
	if !ok || o.Pkg() == nil || o.Parent() != o.Pkg().Scope() {
		return nil
	}
	if t, done := b.tables[o]; done {
		return t
	}
	b.tables[o] = nil
	switch o.Type().Underlying().(type) {
	case *types.Map, *types.Array, *types.Slice:
	default:
		return nil
	}
	if o.Exported() {
		return nil
	}
	pk := b.P.ByPath[o.Pkg().Path()]
	if pk == nil {
		return nil
	}
	info := pk.TypesInfo
	var lit *ast.CompositeLit
	written := false
	for _, file := range pk.Syntax {
		ast.Inspect(file, func(n ast.Node) bool {
			switch y := n.(type) {
			case *ast.ValueSpec:
				for i, nm := range y.Names {
					if info.Defs[nm] == o && i < len(y.Values) {
						lit, _ = ast.Unparen(y.Values[i]).(*ast.CompositeLit)
					}
				}
				return true
			case *ast.Ident:
				if info.Uses[y] != o {
					return true
				}
				// every use must be the operand of an index expression that is read, or of len()
				par := b.P.Parent(file, y)
				switch p := par.(type) {
				case *ast.IndexExpr:
					if p.X != y {
						written = true
						return true
					}
					switch pp := b.P.Parent(file, p).(type) {
					case *ast.AssignStmt:
						for _, l := range pp.Lhs {
							if ast.Unparen(l) == p {
								written = true
							}
						}
					case *ast.IncDecStmt:
						written = true
					case *ast.UnaryExpr:
						if pp.Op == token.AND {
							written = true
						}
					}
				case *ast.CallExpr:
					if bi, ok := Callee(info, p).(*types.Builtin); !ok || bi.Name() != "len" {
						written = true
					}
				case *ast.RangeStmt:
					if p.X != y {
						written = true
					}
				default:
					written = true
				}
			}
			return true
		})
	}
	if lit == nil || written {
		return nil
	}
	t := &ConstTable{Obj: o, M: map[int64]int64{}}
	_, isMap := o.Type().Underlying().(*types.Map)
	next := int64(0)
	for _, el := range lit.Elts {
		kv, ok := el.(*ast.KeyValueExpr)
		var k int64
		val := el
		if ok {
			var okk bool
			k, okk = ConstInt(info, kv.Key)
			if !okk {
				return nil
			}
			val = kv.Value
		} else {
			if isMap {
				return nil
			}
			k = next // positional element of an array / slice literal
		}
		v, ok2 := ConstInt(info, val)
		if !ok2 {
			return nil
		}
		t.M[k] = v
		t.Keys = append(t.Keys, k)
		next = k + 1
	}
	b.tables[o] = t
	return t
}

// constFunc recognises a call of a module function of the form
//
//	func f(k K) V { switch k { case c1, c2: return v1; …; default: return vd }; return vd }
//
// with constant cases and results, and returns it as a table.
func (b *Bounds) constFunc(call *ast.CallExpr) *ConstTable {
	fn, ok := Callee(b.info, call).(*types.Func)
	if !ok {
		return nil
	}
	cf := b.P.FuncOf(fn)
	if cf == nil || cf.Decl == nil || cf.Body == nil {
		return nil
	}
	if t, done := b.tables[fn]; done {
		return t
	}
	b.tables[fn] = nil
	ps := cf.Params()
	sig := fn.Type().(*types.Signature)
	if len(ps) != 1 || sig.Recv() != nil || sig.Results().Len() != 1 || basicInt(ps[0].Type()) == nil || basicInt(sig.Results().At(0).Type()) == nil {
		return nil
	}
	info := cf.Info()
	t := &ConstTable{Obj: fn, M: map[int64]int64{}}
	haveDef := false
	retConst := func(stmts []ast.Stmt) (int64, bool) {
		if len(stmts) != 1 {
			return 0, false
		}
		r, ok := stmts[0].(*ast.ReturnStmt)
		if !ok || len(r.Results) != 1 {
			return 0, false
		}
		return ConstInt(info, r.Results[0])
	}
	list := cf.Body.List
	if len(list) == 0 || len(list) > 2 {
		return nil
	}
	sw, ok := list[0].(*ast.SwitchStmt)
	if !ok || sw.Init != nil || sw.Tag == nil || ObjOf(info, sw.Tag) != types.Object(ps[0]) {
		return nil
	}
	for _, st := range sw.Body.List {
		cc := st.(*ast.CaseClause)
		v, ok := retConst(cc.Body)
		if !ok {
			return nil
		}
		if cc.List == nil {
			t.Def, haveDef = v, true
			continue
		}
		for _, e := range cc.List {
			k, isC := ConstInt(info, e)
			if !isC {
				return nil
			}
			t.M[k] = v
			t.Keys = append(t.Keys, k)
		}
	}
	if len(list) == 2 {
		v, ok := retConst(list[1:])
		if !ok || haveDef {
			return nil
		}
		t.Def, haveDef = v, true
	}
	if !haveDef {
		return nil
	}
	b.tables[fn] = t
	return t
}

// predicateFacts: cond is a call of a module function whose body is a single
// `return <boolean expression>` over its receiver and parameters; the facts of
// that expression are translated to the caller's terms.
func (b *Bounds) predicateFacts(call *ast.CallExpr, val bool) ([]*BFact, []types.Object) {
	fn, ok := Callee(b.info, call).(*types.Func)
	if !ok {
		return nil, nil
	}
	cf := b.P.FuncOf(fn)
	if cf == nil || cf.Decl == nil || cf.Body == nil || cf == b.F || len(cf.Body.List) != 1 {
		return nil, nil
	}
	ret, ok := cf.Body.List[0].(*ast.ReturnStmt)
	if !ok || len(ret.Results) != 1 {
		return nil, nil
	}
	if b.predDepth > 2 {
		return nil, nil
	}
	cb := AnalyseBoundsWith(b.P, cf, b.summaries)
	cb.predDepth = b.predDepth + 1
	facts, _ := cb.condFacts(ret.Results[0], val)
	cb.predDepth = 0
	if len(facts) == 0 {
		return nil, nil
	}
	sub := map[types.Object]*BTerm{}
	for i, p := range cf.Params() {
		if i < len(call.Args) {
			if a := b.Term(call.Args[i]); a != nil {
				sub[p] = a
			}
		}
	}
	if cf.Decl.Recv != nil {
		if sel, ok := ast.Unparen(call.Fun).(*ast.SelectorExpr); ok {
			for _, fl := range cf.Decl.Recv.List {
				for _, nm := range fl.Names {
					if o := cf.Info().Defs[nm]; o != nil {
						if a := b.Term(sel.X); a != nil {
							sub[o] = a
						}
					}
				}
			}
		}
	}
	var out []*BFact
	for _, f := range facts {
		if f.Kind != 'c' {
			continue
		}
		l, ok1 := substTerm(f.L, sub)
		r, ok2 := substTerm(f.R, sub)
		if ok1 && ok2 {
			out = append(out, cmpFact(l, f.Op, r, fmt.Sprintf("%s is %v (%s)", b.F.Str(call), val, b.F.At(call))))
		}
	}
	return out, nil
}

// ---------------------------------------------------------------------------
// facts from conditions

func mirror(op token.Token) token.Token {
	switch op {
	case token.LSS:
		return token.GTR
	case token.GTR:
		return token.LSS
	case token.LEQ:
		return token.GEQ
	case token.GEQ:
		return token.LEQ
	}
	return op
}

func negate(op token.Token) token.Token {
	switch op {
	case token.LSS:
		return token.GEQ
	case token.GEQ:
		return token.LSS
	case token.GTR:
		return token.LEQ
	case token.LEQ:
		return token.GTR
	case token.EQL:
		return token.NEQ
	case token.NEQ:
		return token.EQL
	}
	return op
}

func cmpFact(l *BTerm, op token.Token, r *BTerm, src string) *BFact {
	f := &BFact{Kind: 'c', L: l, Op: op, R: r, Src: src}
	f.key = "c:" + l.key + op.String() + r.key
	return f
}

// condFacts returns the facts implied by cond having the given truth value,
// and the error variables known to be nil.
func (b *Bounds) condFacts(cond ast.Expr, val bool) (facts []*BFact, nilErrs []types.Object) {
	cond = ast.Unparen(cond)
	switch x := cond.(type) {
	case *ast.Ident:
		// a boolean local that still holds a condition
		if o := ObjOf(b.info, x); o != nil && b.cur != nil {
			if d, ok := b.cur["d:"+VarID(o)]; ok && d.Kind == 'd' {
				if val {
					return d.Cond, d.NilT
				}
				return d.CondF, d.NilF
			}
		}
		return nil, nil
	case *ast.UnaryExpr:
		if x.Op == token.NOT {
			return b.condFacts(x.X, !val)
		}
	case *ast.CallExpr:
		return b.predicateFacts(x, val)
	case *ast.BinaryExpr:
		switch x.Op {
		case token.LAND:
			if val {
				f1, n1 := b.condFacts(x.X, true)
				f2, n2 := b.condFacts(x.Y, true)
				return append(f1, f2...), append(n1, n2...)
			}
			return nil, nil
		case token.LOR:
			if !val {
				f1, n1 := b.condFacts(x.X, false)
				f2, n2 := b.condFacts(x.Y, false)
				return append(f1, f2...), append(n1, n2...)
			}
			return nil, nil
		case token.EQL, token.NEQ, token.LSS, token.LEQ, token.GTR, token.GEQ:
			if ex, trueIsErr, ok := ErrCheck(b.info, x); ok {
				if trueIsErr != val {
					if o := ObjOf(b.info, ex); o != nil {
						return nil, []types.Object{o}
					}
				}
				return nil, nil
			}
			l, r := b.Term(x.X), b.Term(x.Y)
			if l == nil || r == nil || (l.Typ == nil && l.K != TConst) || (r.Typ == nil && r.K != TConst) {
				return nil, nil
			}
			op := x.Op
			if !val {
				op = negate(op)
			}
			return []*BFact{cmpFact(l, op, r, b.F.Str(cond)+fmt.Sprintf(" is %v (%s)", val, b.F.At(cond)))}, nil
		}
	}
	return nil, nil
}

// ---------------------------------------------------------------------------
// transfer functions

func (b *Bounds) killIf(fs FactSet, pred func(t *BTerm) bool) {
	for k, f := range fs {
		hit := false
		f.terms(func(t *BTerm) {
			if !hit && pred(t) {
				hit = true
			}
		})
		if f.Kind == 'n' && !hit {
			continue
		}
		if hit {
			delete(fs, k)
		}
	}
}

func (b *Bounds) killVar(fs FactSet, o types.Object) {
	b.killIf(fs, func(t *BTerm) bool { return t.K == TVar && t.Obj == o })
	for k, f := range fs {
		if (f.Kind == 'n' || f.Kind == 'd') && f.Obj == o {
			delete(fs, k)
			continue
		}
		if f.Kind == 'd' {
			for _, e := range append(append([]types.Object(nil), f.NilT...), f.NilF...) {
				if e == o {
					delete(fs, k)
					break
				}
			}
		}
	}
}

func (b *Bounds) rootOf(t *BTerm) *BTerm {
	for t.K == TField {
		t = t.Args[0]
	}
	return t
}

// isolated reports whether the path is rooted in a local non-pointer struct
// variable whose address is never taken: its fields alias nothing else.
func (b *Bounds) isolated(path *BTerm) bool {
	for t := path; t.K == TField; t = t.Args[0] {
		base := t.Args[0]
		var bt types.Type
		if base.K == TVar {
			bt = base.Obj.Type()
		} else {
			bt = base.Obj.Type()
		}
		if _, isPtr := bt.Underlying().(*types.Pointer); isPtr {
			return false
		}
	}
	r := b.rootOf(path)
	return r.K == TVar && b.local(r.Obj) && !b.isParamPtr(r.Obj)
}

func (b *Bounds) isParamPtr(o types.Object) bool {
	_, isPtr := o.Type().Underlying().(*types.Pointer)
	return isPtr
}

// killPath handles an assignment to the field path p.
func (b *Bounds) killPath(fs FactSet, p *BTerm) {
	if b.isolated(p) {
		b.killIf(fs, func(t *BTerm) bool {
			return t.K == TField && strings.HasPrefix(t.key, p.key) && (len(t.key) == len(p.key) || t.key[len(p.key)] == '.')
		})
		return
	}
	b.killIf(fs, func(t *BTerm) bool { return t.K == TField && t.Obj == p.Obj && !b.isolated(t) })
}

// killFieldsUnder forgets everything reachable through the pointer variable o.
func (b *Bounds) killFieldsUnder(fs FactSet, o types.Object) {
	b.killIf(fs, func(t *BTerm) bool { return t.K == TField && b.rootOf(t).Obj == o })
}

// killElems forgets element values of slices whose element type is et (nil:
// of every slice).
func (b *Bounds) killElems(fs FactSet, et types.Type) {
	b.killIf(fs, func(t *BTerm) bool {
		if t.K != TElem {
			return false
		}
		if et == nil || t.Args[0].Obj == nil {
			return true
		}
		switch u := t.Args[0].Obj.Type().Underlying().(type) {
		case *types.Slice:
			return types.Identical(u.Elem(), et)
		case *types.Array:
			return types.Identical(u.Elem(), et)
		case *types.Pointer:
			if a, ok := u.Elem().Underlying().(*types.Array); ok {
				return types.Identical(a.Elem(), et)
			}
		}
		return true
	})
}

func elemTypeOf(t types.Type) types.Type {
	if t == nil {
		return nil
	}
	switch u := t.Underlying().(type) {
	case *types.Slice:
		return u.Elem()
	case *types.Array:
		return u.Elem()
	case *types.Pointer:
		if a, ok := u.Elem().Underlying().(*types.Array); ok {
			return a.Elem()
		}
	}
	return nil
}

func (b *Bounds) eqFact(l, r *BTerm, src string) *BFact {
	f := &BFact{Kind: 'e', L: l, R: r, Src: src}
	f.key = "e:" + l.key
	return f
}

// lenOfExpr returns a term for the length of a slice-valued expression whose
// value is being assigned (nil when unknown).
func (b *Bounds) lenOfExpr(e ast.Expr) *BTerm {
	info := b.info
	e = ast.Unparen(e)
	intT := types.Typ[types.Int]
	switch x := e.(type) {
	case *ast.CallExpr:
		if bi, ok := Callee(info, x).(*types.Builtin); ok && bi.Name() == "make" && len(x.Args) >= 2 {
			if _, isSlice := info.TypeOf(x).Underlying().(*types.Slice); isSlice {
				return b.Term(x.Args[1])
			}
		}
		return nil
	case *ast.CompositeLit:
		if _, isSlice := info.TypeOf(x).Underlying().(*types.Slice); isSlice {
			for _, el := range x.Elts {
				if _, keyed := el.(*ast.KeyValueExpr); keyed {
					return nil
				}
			}
			return mkTerm(&BTerm{K: TConst, Val: int64(len(x.Elts)), Typ: intT})
		}
		return nil
	case *ast.SliceExpr:
		if x.Slice3 {
			return nil
		}
		var hi *BTerm
		if x.High != nil {
			hi = b.Term(x.High)
		} else {
			hi = b.lenTermOf(x.X)
		}
		if hi == nil || hi.Typ == nil {
			return nil
		}
		if x.Low == nil {
			return hi
		}
		lo := b.Term(x.Low)
		if lo == nil || lo.Typ == nil {
			return nil
		}
		if lo.K == TConst && lo.Val == 0 {
			return hi
		}
		return mkTerm(&BTerm{K: TBin, Op: token.SUB, Args: []*BTerm{conv(hi, intT), conv(lo, intT)}, Typ: intT})
	}
	if t := b.Term(e); t != nil && (t.K == TVar || t.K == TField) {
		if _, isSlice := info.TypeOf(e).Underlying().(*types.Slice); isSlice {
			return mkTerm(&BTerm{K: TLen, Args: []*BTerm{t}, Typ: intT})
		}
	}
	return nil
}

func conv(t *BTerm, to *types.Basic) *BTerm {
	if t.Typ == to || t.K == TConst {
		return t
	}
	return mkTerm(&BTerm{K: TConv, Args: []*BTerm{t}, Typ: to})
}

// lenTermOf returns len(x) for a path expression (or a constant for arrays).
func (b *Bounds) lenTermOf(x ast.Expr) *BTerm {
	t := b.info.TypeOf(x)
	if t == nil {
		return nil
	}
	u := t.Underlying()
	if p, ok := u.(*types.Pointer); ok {
		u = p.Elem().Underlying()
	}
	if a, ok := u.(*types.Array); ok {
		return mkTerm(&BTerm{K: TConst, Val: a.Len(), Typ: types.Typ[types.Int]})
	}
	if s, ok := ConstString(b.info, x); ok {
		return mkTerm(&BTerm{K: TConst, Val: int64(len(s)), Typ: types.Typ[types.Int]})
	}
	p := b.Term(x)
	if p == nil || (p.K != TVar && p.K != TField) {
		return nil
	}
	return mkTerm(&BTerm{K: TLen, Args: []*BTerm{p}, Typ: types.Typ[types.Int]})
}

// assign models `lhs = rhs` (rhs nil: unknown value).
func (b *Bounds) assign(fs FactSet, lhs ast.Expr, rhs ast.Expr, at ast.Node) {
	info := b.info
	lhs = ast.Unparen(lhs)
	if id, ok := lhs.(*ast.Ident); ok && id.Name == "_" {
		return
	}
	// compute the new facts from the old state first
	var gen []*BFact
	lt := b.Term(lhs)
	src := ""
	if at != nil {
		src = b.F.Str(at) + " (" + b.F.At(at) + ")"
	}
	if lt != nil && (lt.K == TVar || lt.K == TField) && rhs != nil {
		if lt.Typ != nil {
			if rt := b.Term(rhs); rt != nil && !mentions(rt, lt.key) {
				gen = append(gen, b.eqFact(lt, rt, src))
			}
		} else if _, isSlice := info.TypeOf(lhs).Underlying().(*types.Slice); isSlice {
			if n := b.lenOfExpr(rhs); n != nil && !mentions(n, lt.key) {
				ll := mkTerm(&BTerm{K: TLen, Args: []*BTerm{lt}, Typ: types.Typ[types.Int]})
				gen = append(gen, b.eqFact(ll, n, src))
			}
		}
	}
	// a struct literal assigned to a local: lengths of its slice fields and
	// values of its integer fields
	if lt != nil && lt.K == TVar && rhs != nil {
		if cl, ok := ast.Unparen(rhs).(*ast.CompositeLit); ok {
			if st, isStruct := info.TypeOf(cl).Underlying().(*types.Struct); isStruct {
				for i, el := range cl.Elts {
					var fld *types.Var
					val := el
					if kv, isKV := el.(*ast.KeyValueExpr); isKV {
						fld, _ = ObjOf(info, kv.Key).(*types.Var)
						val = kv.Value
					} else if i < st.NumFields() {
						fld = st.Field(i)
					}
					if fld == nil {
						continue
					}
					path := mkTerm(&BTerm{K: TField, Obj: fld, Args: []*BTerm{lt}, Typ: basicInt(fld.Type())})
					if path.Typ != nil {
						if rt := b.Term(val); rt != nil && !mentions(rt, lt.key) {
							gen = append(gen, b.eqFact(path, rt, src))
						}
					} else if _, isSlice := fld.Type().Underlying().(*types.Slice); isSlice {
						if n := b.lenOfExpr(val); n != nil && !mentions(n, lt.key) {
							gen = append(gen, b.eqFact(mkTerm(&BTerm{K: TLen, Args: []*BTerm{path}, Typ: types.Typ[types.Int]}), n, src))
						}
					}
				}
			}
		}
	}
	// a boolean local that receives a condition
	if id, ok := lhs.(*ast.Ident); ok && rhs != nil {
		if o := ObjOf(info, id); o != nil && b.local(o) {
			if bt, isB := o.Type().Underlying().(*types.Basic); isB && bt.Info()&types.IsBoolean != 0 {
				saved := b.cur
				b.cur = fs
				tf, tn := b.condFacts(rhs, true)
				ff, fn := b.condFacts(rhs, false)
				b.cur = saved
				selfRef := false
				for _, list := range [][]*BFact{tf, ff} {
					for _, f := range list {
						f.terms(func(t *BTerm) {
							if t.K == TVar && t.Obj == o {
								selfRef = true
							}
						})
					}
				}
				if !selfRef && (len(tf)+len(ff)+len(tn)+len(fn) > 0) {
					d := &BFact{Kind: 'd', Obj: o, Cond: tf, CondF: ff, NilT: tn, NilF: fn, Src: src}
					d.key = "d:" + VarID(o)
					gen = append(gen, d)
				}
			}
		}
	}
	// kill
	switch x := lhs.(type) {
	case *ast.Ident:
		if o := ObjOf(info, x); o != nil {
			b.killVar(fs, o)
		}
	case *ast.SelectorExpr:
		if lt != nil {
			b.killPath(fs, lt)
		} else if sel, ok := info.Selections[x]; ok {
			o := sel.Obj()
			b.killIf(fs, func(t *BTerm) bool { return t.K == TField && t.Obj == o })
		}
	case *ast.IndexExpr:
		if _, isMap := info.TypeOf(x.X).Underlying().(*types.Map); !isMap {
			b.killElems(fs, elemTypeOf(info.TypeOf(x.X)))
		}
	case *ast.StarExpr:
		// store through a pointer: forget all non-isolated field facts and elements
		b.killIf(fs, func(t *BTerm) bool { return (t.K == TField && !b.isolated(t)) || t.K == TElem })
	}
	for _, f := range gen {
		fs[f.key] = f
	}
}

var readerQual = map[string]bool{"io.(Reader).Read": true}

// callEffects forgets what a call may change and returns facts about its results.
func (b *Bounds) callEffects(fs FactSet, call *ast.CallExpr) {
	info := b.info
	if tv, ok := info.Types[call.Fun]; ok && tv.IsType() {
		return
	}
	if bi, ok := Callee(info, call).(*types.Builtin); ok {
		switch bi.Name() {
		case "len", "cap", "make", "new", "min", "max", "panic", "print", "println", "real", "imag", "complex":
			return
		case "copy":
			if len(call.Args) > 0 {
				b.killElems(fs, elemTypeOf(info.TypeOf(call.Args[0])))
			}
			return
		case "append", "delete", "clear", "close":
			if len(call.Args) > 0 {
				b.killElems(fs, elemTypeOf(info.TypeOf(call.Args[0])))
			}
			return
		}
	}
	// a module function that provably writes nothing through its pointer
	// receiver / parameters leaves all facts intact
	if cf := b.F.CalleeFunc(call); cf != nil && cf.Decl != nil && readOnlyFunc(b.P, cf, 0) {
		return
	}
	var touched []types.Type
	touchesAll := false
	consider := func(e ast.Expr) {
		t := info.TypeOf(e)
		if t == nil {
			return
		}
		switch t.Underlying().(type) {
		case *types.Pointer:
			if o := rootObj(info, e); o != nil {
				if id, ok := ast.Unparen(e).(*ast.Ident); ok && ObjOf(info, id) == o {
					b.killFieldsUnder(fs, o)
				} else {
					b.killIf(fs, func(t *BTerm) bool { return t.K == TField && !b.isolated(t) })
				}
			}
		case *types.Slice:
			touched = append(touched, elemTypeOf(t))
		case *types.Map, *types.Interface, *types.Struct, *types.Signature:
			touchesAll = true
		}
	}
	if sel, ok := ast.Unparen(call.Fun).(*ast.SelectorExpr); ok {
		if s, ok := info.Selections[sel]; ok && s.Kind() == types.MethodVal {
			consider(sel.X)
			if sig, ok := s.Obj().Type().(*types.Signature); ok && sig.Recv() != nil {
				if _, ptrRecv := sig.Recv().Type().(*types.Pointer); ptrRecv {
					if t := info.TypeOf(sel.X); t != nil {
						if _, already := t.Underlying().(*types.Pointer); !already {
							// implicit &x: the callee may change everything under the root
							if o := rootObj(info, sel.X); o != nil {
								b.killFieldsUnder(fs, o)
							}
						}
					}
				}
			}
		}
	}
	for _, a := range call.Args {
		consider(a)
	}
	// a closure variable may write captured variables: those are untracked already
	if touchesAll {
		b.killElems(fs, nil)
	}
	for _, et := range touched {
		b.killElems(fs, et)
	}
}

// transfer applies the effect of CFG node n to fs (in place).
func (b *Bounds) transfer(fs FactSet, n ast.Node) {
	info := b.info
	for _, call := range CallsIn(n) {
		b.callEffects(fs, call)
	}
	switch y := n.(type) {
	case *ast.AssignStmt:
		switch {
		case (y.Tok == token.ASSIGN || y.Tok == token.DEFINE) && len(y.Lhs) == len(y.Rhs):
			if len(y.Lhs) == 1 {
				b.assign(fs, y.Lhs[0], y.Rhs[0], y)
			} else {
				// parallel assignment: all right-hand sides are evaluated first;
				// definitions are kept when no right-hand side mentions an
				// assigned variable
				var gen []*BFact
				indep := true
				var lts []*BTerm
				for _, l := range y.Lhs {
					lts = append(lts, b.Term(l))
				}
				for i, l := range y.Lhs {
					lt := lts[i]
					if lt == nil || lt.K != TVar {
						continue
					}
					if lt.Typ == nil {
						// a slice: its length
						if _, isSlice := info.TypeOf(l).Underlying().(*types.Slice); isSlice {
							if n := b.lenOfExpr(y.Rhs[i]); n != nil {
								for _, o := range lts {
									if o != nil && mentions(n, o.key) {
										indep = false
									}
								}
								ll := mkTerm(&BTerm{K: TLen, Args: []*BTerm{lt}, Typ: types.Typ[types.Int]})
								gen = append(gen, b.eqFact(ll, n, b.F.Str(y)+" ("+b.F.At(y)+")"))
							}
						}
						continue
					}
					rt := b.Term(y.Rhs[i])
					if rt == nil {
						continue
					}
					for _, o := range lts {
						if o != nil && mentions(rt, o.key) {
							indep = false
						}
					}
					gen = append(gen, b.eqFact(lt, rt, b.F.Str(y)+" ("+b.F.At(y)+")"))
					_ = l
				}
				for _, l := range y.Lhs {
					b.assign(fs, l, nil, y)
				}
				if indep {
					for _, f := range gen {
						fs[f.key] = f
					}
				}
			}
		case len(y.Rhs) == 1 && len(y.Lhs) > 1:
			for _, l := range y.Lhs {
				b.assign(fs, l, nil, y)
			}
			if call, ok := ast.Unparen(y.Rhs[0]).(*ast.CallExpr); ok {
				b.callResults(fs, y.Lhs, call)
			}
		default: // op-assign
			for _, l := range y.Lhs {
				b.assign(fs, l, nil, y)
			}
		}
		if len(y.Lhs) == 1 && len(y.Rhs) == 1 {
			if call, ok := ast.Unparen(y.Rhs[0]).(*ast.CallExpr); ok {
				b.callResults(fs, y.Lhs, call)
			}
		}
	case *ast.IncDecStmt:
		b.assign(fs, y.X, nil, y)
	case *ast.DeclStmt:
		if gd, ok := y.Decl.(*ast.GenDecl); ok {
			for _, sp := range gd.Specs {
				if vs, ok := sp.(*ast.ValueSpec); ok {
					b.valueSpec(fs, vs)
				}
			}
		}
	case *ast.ValueSpec:
		b.valueSpec(fs, y)
	case *ast.RangeStmt:
		for _, l := range []ast.Expr{y.Key, y.Value} {
			if l != nil {
				b.assign(fs, l, nil, nil)
			}
		}
	case *ast.Ident:
		// range key / value definition nodes
		if o := info.Defs[y]; o != nil {
			b.killVar(fs, o)
		}
	}
}

func (b *Bounds) valueSpec(fs FactSet, vs *ast.ValueSpec) {
	for i, nm := range vs.Names {
		switch {
		case len(vs.Values) == len(vs.Names):
			b.assign(fs, nm, vs.Values[i], vs)
		case len(vs.Values) == 0:
			if o := b.info.Defs[nm]; o != nil {
				b.killVar(fs, o)
				if bt := basicInt(o.Type()); bt != nil && b.local(o) {
					v := mkTerm(&BTerm{K: TVar, Obj: o, Typ: bt})
					f := b.eqFact(v, mkTerm(&BTerm{K: TConst, Val: 0, Typ: bt}), b.F.Str(vs))
					fs[f.key] = f
				}
			}
		default:
			b.assign(fs, nm, nil, vs)
		}
	}
}

// callResults adds what is known about results: io.Reader's contract and
// callee summaries keyed on a nil error.
func (b *Bounds) callResults(fs FactSet, lhs []ast.Expr, call *ast.CallExpr) {
	info := b.info
	callee := Callee(info, call)
	if fn, ok := callee.(*types.Func); ok && len(lhs) == 2 && len(call.Args) == 1 && isReaderRead(fn) {
		n := b.Term(lhs[0])
		buf := b.lenTermOf(call.Args[0])
		if n != nil && n.Typ != nil && buf != nil && !mentions(buf, n.key) {
			zero := mkTerm(&BTerm{K: TConst, Val: 0, Typ: types.Typ[types.Int]})
			src := "io.Reader contract at " + b.F.At(call)
			f1 := cmpFact(n, token.GEQ, zero, src)
			f2 := cmpFact(n, token.LEQ, buf, src)
			fs[f1.key] = f1
			fs[f2.key] = f2
		}
		return
	}
	// summaries
	if b.summaries == nil || len(lhs) == 0 {
		return
	}
	cf := b.F.CalleeFunc(call)
	if cf == nil || cf.Decl == nil {
		return
	}
	errObj := ObjOf(info, lhs[len(lhs)-1])
	if errObj == nil || !b.local(errObj) || !types.Identical(errObj.Type(), types.Universe.Lookup("error").Type()) {
		return
	}
	sum := b.summaries(cf)
	if sum == nil || len(sum.OnNil) == 0 || len(sum.Params) != len(call.Args) {
		return
	}
	sub := map[types.Object]*BTerm{}
	for i, p := range sum.Params {
		a := b.Term(call.Args[i])
		if a == nil {
			continue
		}
		sub[p] = a
	}
	var conds []*BFact
	for _, f := range sum.OnNil {
		l, ok1 := substTerm(f.L, sub)
		r, ok2 := substTerm(f.R, sub)
		if ok1 && ok2 {
			conds = append(conds, cmpFact(l, f.Op, r, fmt.Sprintf("%s returned nil (%s)", cf.Name, b.F.At(call))))
		}
	}
	if len(conds) == 0 {
		return
	}
	pf := &BFact{Kind: 'n', Obj: errObj, Cond: conds, Src: b.F.At(call)}
	pf.key = "n:" + VarID(errObj)
	fs[pf.key] = pf
}

func isReaderRead(fn *types.Func) bool {
	if fn.Name() != "Read" {
		return false
	}
	sig := fn.Type().(*types.Signature)
	if sig.Recv() == nil || sig.Params().Len() != 1 || sig.Results().Len() != 2 {
		return false
	}
	if _, isIface := sig.Recv().Type().Underlying().(*types.Interface); !isIface {
		return false
	}
	// the method must be io.Reader's (directly or through embedding)
	return fn.Pkg() != nil && fn.Pkg().Path() == "io"
}

// substTerm replaces parameter variables; ok=false if an unmapped variable remains.
func substTerm(t *BTerm, sub map[types.Object]*BTerm) (*BTerm, bool) {
	return substTermG(t, sub, false)
}

// substTermG is substTerm; with ghosts, an integer variable without mapping is
// kept as it is: it belongs to another function's frame, which the code the
// facts are handed to cannot write, so it acts as a symbol.
func substTermG(t *BTerm, sub map[types.Object]*BTerm, ghosts bool) (*BTerm, bool) {
	switch t.K {
	case TConst:
		return t, true
	case TVar:
		if r, ok := sub[t.Obj]; ok {
			return r, true
		}
		if ghosts && t.Typ != nil {
			return t, true
		}
		return nil, false
	}
	n := *t
	n.Args = make([]*BTerm, len(t.Args))
	for i, a := range t.Args {
		if ghosts && (t.K == TLen || t.K == TField || t.K == TElem) && i == 0 && a.K == TVar {
			// the root of a path must be mapped
			if _, mapped := sub[a.Obj]; !mapped {
				return nil, false
			}
		}
		r, ok := substTermG(a, sub, ghosts)
		if !ok {
			return nil, false
		}
		n.Args[i] = r
	}
	if t.K == TLen && n.Args[0].K != TVar && n.Args[0].K != TField {
		return nil, false
	}
	if t.K == TField && n.Args[0].K != TVar && n.Args[0].K != TField {
		return nil, false
	}
	return mkTerm(&n), true
}

// ---------------------------------------------------------------------------
// the dataflow

func meet(a, c FactSet) FactSet {
	out := FactSet{}
	for k, f := range a {
		g, ok := c[k]
		if !ok {
			continue
		}
		if f.Kind == 's' {
			u := map[int64]bool{}
			for v := range f.Set {
				u[v] = true
			}
			for v := range g.Set {
				u[v] = true
			}
			n := *f
			n.Set = u
			out[k] = &n
			continue
		}
		if f.Kind == 'e' {
			// same left-hand side: the right-hand sides must agree
			if (f.R != nil && g.R != nil && f.R.key == g.R.key) || (f.RLin != nil && g.RLin != nil && f.RLin.Key() == g.RLin.Key()) {
				out[k] = f
			}
			continue
		}
		if f.Kind == 'n' || f.Kind == 'd' {
			if f.Src == g.Src {
				out[k] = f
			}
			continue
		}
		out[k] = f
	}
	return out
}

func sameFacts(a, c FactSet) bool {
	if len(a) != len(c) {
		return false
	}
	for k, f := range a {
		g, ok := c[k]
		if !ok {
			return false
		}
		if f.Kind == 's' {
			if len(f.Set) != len(g.Set) {
				return false
			}
		}
		if f.Kind == 'e' {
			if (f.R == nil) != (g.R == nil) || (f.R != nil && f.R.key != g.R.key) {
				return false
			}
		}
	}
	return true
}

func (b *Bounds) activate(fs FactSet, nilErrs []types.Object) {
	for _, o := range nilErrs {
		if pf, ok := fs["n:"+VarID(o)]; ok {
			for _, c := range pf.Cond {
				fs[c.key] = c
			}
		}
	}
}

// edgeFacts returns the states flowing along the two (or one) out-edges.
func (b *Bounds) edgeFacts(blk *cfg.Block, out FactSet) []FactSet {
	if len(blk.Succs) != 2 {
		return []FactSet{out}
	}
	br := b.G.BranchOf(blk)
	t, f := out.clone(), out.clone()
	b.cur = out
	defer func() { b.cur = nil }()
	switch br.Kind {
	case BrCond:
		tf, tn := b.condFacts(br.Cond, true)
		ff, fn := b.condFacts(br.Cond, false)
		for _, x := range tf {
			t[x.key] = x
		}
		for _, x := range ff {
			f[x.key] = x
		}
		b.activate(t, tn)
		b.activate(f, fn)
		if blk.Kind == cfg.KindForLoop {
			if fs, ok := blk.Stmt.(*ast.ForStmt); ok {
				for _, cf := range b.carry[fs] {
					t[cf.key] = cf
				}
				for _, lf := range b.loopLowerBounds(fs) {
					t[lf.key] = lf
				}
			}
		}
	case BrCase:
		if br.Tag == nil {
			tf, tn := b.condFacts(br.Cond, true)
			ff, fn := b.condFacts(br.Cond, false)
			for _, x := range tf {
				t[x.key] = x
			}
			for _, x := range ff {
				f[x.key] = x
			}
			b.activate(t, tn)
			b.activate(f, fn)
		} else if tag := b.Term(br.Tag); tag != nil && tag.Typ != nil {
			if c, ok := ConstInt(b.info, br.Case); ok {
				sf := &BFact{Kind: 's', L: tag, Set: map[int64]bool{c: true}, Src: "case " + b.F.Str(br.Case) + " (" + b.F.At(br.Case) + ")"}
				sf.key = "s:" + tag.key
				t[sf.key] = sf
				ct := mkTerm(&BTerm{K: TConst, Val: c, Typ: tag.Typ})
				nf := cmpFact(tag, token.NEQ, ct, "not case "+b.F.Str(br.Case))
				f[nf.key] = nf
			} else if ct := b.Term(br.Case); ct != nil && ct.Typ != nil {
				x := cmpFact(tag, token.EQL, ct, "case "+b.F.Str(br.Case))
				t[x.key] = x
			}
		}
	case BrRange:
		rs := br.Range
		for _, l := range []ast.Expr{rs.Key, rs.Value} {
			if l != nil {
				b.assign(t, l, nil, nil)
			}
		}
		if rs.Key != nil {
			if k := b.Term(rs.Key); k != nil && k.Typ != nil {
				var hi *BTerm
				xt := b.info.TypeOf(rs.X)
				if bt := basicInt(xt); bt != nil {
					hi = b.Term(rs.X)
				} else if xt != nil {
					switch xt.Underlying().(type) {
					case *types.Slice, *types.Array, *types.Basic, *types.Pointer:
						hi = b.lenTermOf(rs.X)
					}
				}
				if hi != nil && !mentions(hi, k.key) {
					src := "range " + b.F.Str(rs.X) + " (" + b.F.At(rs) + ")"
					f1 := cmpFact(k, token.GEQ, mkTerm(&BTerm{K: TConst, Val: 0, Typ: k.Typ}), src)
					f2 := cmpFact(k, token.LSS, hi, src)
					t[f1.key] = f1
					t[f2.key] = f2
				}
			}
		}
	}
	return []FactSet{t, f}
}

func (b *Bounds) flow() {
	blocks := b.G.G.Blocks
	if len(blocks) == 0 {
		return
	}
	entry := blocks[0]
	b.in[entry] = FactSet{}
	if b.entry != nil {
		b.in[entry] = b.entry.clone()
	}
	work := []*cfg.Block{entry}
	inWork := map[*cfg.Block]bool{entry: true}
	iter := 0
	for len(work) > 0 {
		iter++
		if iter > 20000 {
			break
		}
		blk := work[0]
		work = work[1:]
		inWork[blk] = false
		st := b.in[blk].clone()
		for _, n := range blk.Nodes {
			b.transfer(st, n)
		}
		outs := b.edgeFacts(blk, st)
		for i, s := range blk.Succs {
			o := outs[0]
			if len(outs) == 2 {
				o = outs[i]
			}
			cur, ok := b.in[s]
			var nw FactSet
			if !ok {
				nw = o.clone()
			} else {
				nw = meet(cur, o)
			}
			if !ok || !sameFacts(cur, nw) {
				b.in[s] = nw
				if !inWork[s] {
					inWork[s] = true
					work = append(work, s)
				}
			}
		}
	}
	// final pass: facts before every node
	for _, blk := range blocks {
		in, ok := b.in[blk]
		if !ok {
			continue
		}
		st := in.clone()
		for _, n := range blk.Nodes {
			b.before[n] = st.clone()
			b.transfer(st, n)
		}
	}
}

// FactsBefore returns the facts that hold before the CFG node containing n.
func (b *Bounds) FactsBefore(n ast.Node) (FactSet, ast.Node) {
	blk, i := b.G.BlockOf(n)
	if blk == nil {
		return nil, nil
	}
	return b.before[blk.Nodes[i]], blk.Nodes[i]
}

// EnvAt builds an evaluation environment for the point before node n, with
// extra facts.
func (b *Bounds) EnvAt(fs FactSet, extra []*BFact) *Env {
	var facts []*BFact
	facts = append(facts, b.axioms...)
	facts = append(facts, fs.List()...)
	facts = append(facts, extra...)
	return NewEnv(b.sizes, facts)
}

// NilReturnSummary computes facts over the parameters of f that hold at
// every `return …, nil`.
func NilReturnSummary(p *Prog, f *Func, sums func(*Func) *Summary) *Summary {
	sig, _ := f.Obj.Type().(*types.Signature)
	if sig == nil || sig.Results().Len() == 0 {
		return nil
	}
	last := sig.Results().At(sig.Results().Len() - 1)
	if !types.Identical(last.Type(), types.Universe.Lookup("error").Type()) {
		return nil
	}
	b := AnalyseBoundsWith(p, f, sums)
	params := f.Params()
	isParam := map[types.Object]bool{}
	writes := b.writesOf()
	for _, pv := range params {
		if w := writes[pv]; w == nil && !b.untracked[pv] {
			isParam[pv] = true
		}
	}
	var common FactSet
	found := false
	ast.Inspect(f.Body, func(n ast.Node) bool {
		if _, ok := n.(*ast.FuncLit); ok {
			return false
		}
		r, ok := n.(*ast.ReturnStmt)
		if !ok {
			return true
		}
		if len(r.Results) == 0 {
			common = FactSet{}
			found = true
			return true
		}
		lastE := r.Results[len(r.Results)-1]
		if len(r.Results) != sig.Results().Len() || !IsNilIdent(f.Info(), lastE) {
			return true // returns a non-nil or unknown error: no claim needed, unless it may be nil
		}
		fs := b.before[r]
		if fs == nil {
			return true // unreachable
		}
		if !found {
			common = fs.clone()
			found = true
		} else {
			common = meet(common, fs)
		}
		return true
	})
	// a return of an error variable may be nil too: only literal-nil returns
	// and returns of provably non-nil errors are understood
	sound := true
	ast.Inspect(f.Body, func(n ast.Node) bool {
		if _, ok := n.(*ast.FuncLit); ok {
			return false
		}
		r, ok := n.(*ast.ReturnStmt)
		if !ok || len(r.Results) == 0 {
			return true
		}
		lastE := ast.Unparen(r.Results[len(r.Results)-1])
		if IsNilIdent(f.Info(), lastE) {
			return true
		}
		if id, ok := lastE.(*ast.Ident); ok {
			// a package-level error value (ErrX = errors.New) is non-nil
			if v, ok := f.Info().Uses[id].(*types.Var); ok && v.Pkg() != nil && v.Parent() == v.Pkg().Scope() {
				return true
			}
			// an error variable returned on the err != nil edge
			if fs := b.before[r]; fs != nil {
				_ = fs
			}
			if b.nonNilAt(r, id) {
				return true
			}
		}
		if c, ok := lastE.(*ast.CallExpr); ok {
			switch QualName(Callee(f.Info(), c)) {
			case "fmt.Errorf", "errors.New":
				return true
			}
		}
		sound = false
		return true
	})
	if !found || !sound {
		return &Summary{F: f, Params: params}
	}
	s := &Summary{F: f, Params: params}
	for _, fact := range common.List() {
		if fact.Kind != 'c' {
			continue
		}
		okFact := true
		fact.terms(func(t *BTerm) {
			if t.K == TVar && !isParam[t.Obj] {
				okFact = false
			}
			if t.K == TElem || t.K == TLookup {
				okFact = false
			}
			if t.K == TField {
				okFact = false
			}
		})
		if okFact {
			s.OnNil = append(s.OnNil, fact)
		}
	}
	return s
}

// nonNilAt: the return statement is dominated by the true edge of `id != nil`.
func (b *Bounds) nonNilAt(r *ast.ReturnStmt, id *ast.Ident) bool {
	o := ObjOf(b.info, id)
	if o == nil {
		return false
	}
	rb, _ := b.G.BlockOf(r)
	if rb == nil {
		return false
	}
	for _, blk := range b.G.G.Blocks {
		if !blk.Live || len(blk.Succs) != 2 {
			continue
		}
		br := b.G.BranchOf(blk)
		if br.Kind != BrCond {
			continue
		}
		x, trueIsErr, ok := ErrCheck(b.info, br.Cond)
		if !ok || ObjOf(b.info, x) != o {
			continue
		}
		succ := blk.Succs[0]
		if !trueIsErr {
			succ = blk.Succs[1]
		}
		// the edge dominates the return when succ has a single predecessor and dominates the block
		preds := 0
		for _, pb := range b.G.G.Blocks {
			if !pb.Live {
				continue
			}
			for _, s := range pb.Succs {
				if s == succ {
					preds++
				}
			}
		}
		if preds == 1 && b.G.Dominates(succ, rb) {
			// and the variable is not reassigned in between (same block chain): check writes after the test
			reassigned := false
			ast.Inspect(b.F.Body, func(n ast.Node) bool {
				if as, ok := n.(*ast.AssignStmt); ok && as.Pos() > br.Cond.End() && as.End() < r.Pos() {
					for _, l := range as.Lhs {
						if ObjOf(b.info, l) == o {
							reassigned = true
						}
					}
				}
				return true
			})
			if !reassigned {
				return true
			}
		}
	}
	return false
}

// AnalyseBoundsWith is AnalyseBounds with callee summaries enabled.
func AnalyseBoundsWith(p *Prog, f *Func, sums func(*Func) *Summary) *Bounds {
	cacheMu.Lock()
	if b, ok := cacheOf(p).bounds[f]; ok {
		cacheMu.Unlock()
		return b
	}
	b := &Bounds{P: p, F: f, G: p.Graph(f), info: f.Info(), sizes: f.Pkg.TypesSizes,
		untracked: map[types.Object]bool{}, addrFree: map[types.Object]bool{}, tables: map[types.Object]*ConstTable{},
		carry: map[*ast.ForStmt][]*BFact{}, before: map[ast.Node]FactSet{}, edgeT: map[*cfg.Block]FactSet{}, in: map[*cfg.Block]FactSet{},
		summaries: sums}
	cacheOf(p).bounds[f] = b
	cacheMu.Unlock()
	b.prepare()
	b.flow()
	b.obligations()
	return b
}

// ResetBoundsCache drops cached analyses (a new program was loaded).
func ResetBoundsCache() {
}

// read-only verdicts are cached per program (see Prog.Aux)
func roCacheOf(f *Func) *sync.Map {
	return f.Prog.Aux("kit.roCache", func() any { return &sync.Map{} }).(*sync.Map)
}

// readOnlyFunc: f stores nothing through its receiver or parameters (no
// assignment rooted in them, parameters are only handed to read-only module
// functions or to len/cap), and does not write package-level variables.
func readOnlyFunc(p *Prog, f *Func, depth int) bool {
	if v, ok := roCacheOf(f).Load(f); ok {
		return v.(bool)
	}
	if depth > 3 || f.Body == nil {
		return false
	}
	info := f.Info()
	roots := map[types.Object]bool{}
	for _, pv := range f.Params() {
		roots[pv] = true
	}
	if f.Decl != nil && f.Decl.Recv != nil {
		for _, fl := range f.Decl.Recv.List {
			for _, nm := range fl.Names {
				if o := info.Defs[nm]; o != nil {
					roots[o] = true
				}
			}
		}
	}
	// aliases: locals assigned from (parts of) a root are roots too
	for round := 0; round < 2; round++ {
		ast.Inspect(f.Body, func(n ast.Node) bool {
			if as, ok := n.(*ast.AssignStmt); ok && len(as.Lhs) == len(as.Rhs) {
				for i, l := range as.Lhs {
					if o := rootObj(info, as.Rhs[i]); o != nil && roots[o] {
						if lo := ObjOf(info, l); lo != nil {
							switch lo.Type().Underlying().(type) {
							case *types.Pointer, *types.Slice, *types.Map:
								roots[lo] = true
							}
						}
					}
				}
			}
			return true
		})
	}
	ok := true
	isGlobal := func(o types.Object) bool {
		v, isVar := o.(*types.Var)
		return isVar && v.Pkg() != nil && v.Parent() == v.Pkg().Scope()
	}
	written := func(l ast.Expr) {
		l = ast.Unparen(l)
		if id, isId := l.(*ast.Ident); isId {
			// assigning a local (or a parameter variable itself) is harmless
			if o := ObjOf(info, id); o != nil && isGlobal(o) {
				ok = false
			}
			return
		}
		if o := rootObj(info, l); o == nil || roots[o] || isGlobal(o) {
			ok = false
		}
	}
	ast.Inspect(f.Body, func(n ast.Node) bool {
		switch y := n.(type) {
		case *ast.FuncLit:
			ok = false
			return false
		case *ast.AssignStmt:
			for _, l := range y.Lhs {
				written(l)
			}
		case *ast.IncDecStmt:
			written(y.X)
		case *ast.GoStmt, *ast.DeferStmt, *ast.SendStmt:
			ok = false
		case *ast.CallExpr:
			if tv, isT := info.Types[y.Fun]; isT && tv.IsType() {
				return true
			}
			if bi, isB := Callee(info, y).(*types.Builtin); isB {
				switch bi.Name() {
				case "len", "cap", "min", "max":
				case "copy", "append", "delete", "clear":
					for i, a := range y.Args {
						if o := rootObj(info, a); i == 0 && o != nil && (roots[o] || isGlobal(o)) {
							ok = false
						}
					}
				}
				return true
			}
			passes := false
			check := func(e ast.Expr) {
				if o := rootObj(info, e); o != nil && (roots[o] || isGlobal(o)) {
					if t := info.TypeOf(e); t != nil {
						switch t.Underlying().(type) {
						case *types.Pointer, *types.Slice, *types.Map, *types.Interface, *types.Signature:
							passes = true
						}
					}
				}
			}
			for _, a := range y.Args {
				check(a)
			}
			if sel, isSel := ast.Unparen(y.Fun).(*ast.SelectorExpr); isSel {
				if s, isM := info.Selections[sel]; isM && s.Kind() == types.MethodVal {
					if o := rootObj(info, sel.X); o != nil && (roots[o] || isGlobal(o)) {
						passes = true
					}
				}
			}
			if passes {
				if name, _, _, isBO := ByteOrderCall(info, y); isBO && !strings.HasPrefix(name, "Put") && !strings.HasPrefix(name, "Append") {
					return true
				}
				cf := f.CalleeFunc(y)
				if cf == nil || cf.Decl == nil || cf == f || !readOnlyFunc(p, cf, depth+1) {
					ok = false
				}
			}
		}
		return true
	})
	roCacheOf(f).Store(f, ok)
	return ok
}

// boundLit is a function literal bound to a function-typed parameter, with
// the analysis of the function that wrote it.
type boundLit struct {
	lit     *ast.FuncLit
	definer *Bounds
}

// expandLocals rewrites t by replacing variables that have a definition
// fact (v == R) with their definition, so that the result mentions only
// variables without one (parameters, receiver, loop counters).
func expandLocals(t *BTerm, eq map[string]*BFact, depth int) *BTerm {
	if depth > 6 {
		return t
	}
	if t.K == TVar {
		if f, ok := eq[t.key]; ok && f.R != nil && !mentions(f.R, t.key) {
			return expandLocals(f.R, eq, depth+1)
		}
		return t
	}
	if len(t.Args) == 0 {
		return t
	}
	n := *t
	n.Args = make([]*BTerm, len(t.Args))
	changed := false
	for i, a := range t.Args {
		n.Args[i] = expandLocals(a, eq, depth+1)
		if n.Args[i] != a {
			changed = true
		}
	}
	if !changed {
		return t
	}
	if (n.K == TLen || n.K == TField) && n.Args[0].K != TVar && n.Args[0].K != TField {
		return t
	}
	return mkTerm(&n)
}

// CalleeAt analyses the module function called at call in the context of
// this analysis: the facts that hold before the call, rewritten over the
// callee's receiver and parameters, hold on its entry.  nil if the callee
// has no body in the module or the chain of contexts is too deep / recursive.
func (b *Bounds) CalleeAt(call *ast.CallExpr) *Bounds {
	cf := b.F.CalleeFunc(call)
	if cf == nil || cf.Decl == nil || cf.Body == nil {
		return nil
	}
	depth := 0
	for x := b; x != nil; x = x.Caller {
		if x.F == cf {
			return nil
		}
		depth++
	}
	if depth > 3 {
		return nil
	}
	fs, _ := b.FactsBefore(call)
	entry := FactSet{}
	if fs != nil {
		eq := map[string]*BFact{}
		for _, f := range fs {
			if f.Kind == 'e' && f.R != nil {
				eq[f.L.key] = f
			}
		}
		// caller object -> callee term
		sub := map[types.Object]*BTerm{}
		var constArgs []*BFact
		bind := func(callerExpr ast.Expr, calleeObj types.Object) {
			t := b.Term(callerExpr)
			if t != nil && t.K == TConst && calleeObj != nil {
				if bt := basicInt(calleeObj.Type()); bt != nil {
					pv := mkTerm(&BTerm{K: TVar, Obj: calleeObj, Typ: bt})
					constArgs = append(constArgs, cmpFact(pv, token.EQL, mkTerm(&BTerm{K: TConst, Val: t.Val, Typ: bt}), "argument "+b.F.Str(callerExpr)+" [caller "+b.F.Name+"]"))
				}
				return
			}
			if t == nil || t.K != TVar || calleeObj == nil {
				return
			}
			bt := basicInt(calleeObj.Type())
			sub[t.Obj] = mkTerm(&BTerm{K: TVar, Obj: calleeObj, Typ: bt})
		}
		for i, p := range cf.Params() {
			if i < len(call.Args) {
				bind(call.Args[i], p)
			}
		}
		if cf.Decl.Recv != nil {
			if sel, ok := ast.Unparen(call.Fun).(*ast.SelectorExpr); ok {
				for _, fl := range cf.Decl.Recv.List {
					for _, nm := range fl.Names {
						bind(sel.X, cf.Info().Defs[nm])
					}
				}
			}
		}
		for _, f := range constArgs {
			entry[f.key] = f
		}
		for _, f := range fs.List() {
			switch f.Kind {
			case 'c':
				l, ok1 := substTermG(expandLocals(f.L, eq, 0), sub, true)
				r, ok2 := substTermG(expandLocals(f.R, eq, 0), sub, true)
				if ok1 && ok2 {
					nf := cmpFact(l, f.Op, r, f.Src+" [caller "+b.F.Name+"]")
					entry[nf.key] = nf
				}
			case 's':
				if l, ok := substTermG(expandLocals(f.L, eq, 0), sub, true); ok {
					nf := &BFact{Kind: 's', L: l, Set: f.Set, Src: f.Src + " [caller " + b.F.Name + "]"}
					nf.key = "s:" + l.key
					entry[nf.key] = nf
				}
			}
		}
	}
	cb := &Bounds{P: b.P, F: cf, G: b.P.Graph(cf), info: cf.Info(), sizes: cf.Pkg.TypesSizes,
		untracked: map[types.Object]bool{}, addrFree: map[types.Object]bool{}, tables: map[types.Object]*ConstTable{},
		carry: map[*ast.ForStmt][]*BFact{}, before: map[ast.Node]FactSet{}, edgeT: map[*cfg.Block]FactSet{}, in: map[*cfg.Block]FactSet{},
		summaries: b.summaries, entry: entry, Caller: b, CallSite: call,
		funcArgs: map[types.Object]*boundLit{}, back: map[types.Object]*BTerm{}}
	// function-typed parameters bound to literals (directly, or to a parameter the caller has bound)
	for i, p := range cf.Params() {
		if i >= len(call.Args) {
			break
		}
		if _, isFn := p.Type().Underlying().(*types.Signature); !isFn {
			if t := b.Term(call.Args[i]); t != nil && t.K == TVar {
				cb.back[p] = t
			}
			continue
		}
		switch a := ast.Unparen(call.Args[i]).(type) {
		case *ast.FuncLit:
			cb.funcArgs[p] = &boundLit{lit: a, definer: b}
		case *ast.Ident:
			if bl, ok := b.funcArgs[ObjOf(b.info, a)]; ok {
				cb.funcArgs[p] = bl
			}
		}
	}
	if cf.Decl.Recv != nil {
		if sel, ok := ast.Unparen(call.Fun).(*ast.SelectorExpr); ok {
			if t := b.Term(sel.X); t != nil && t.K == TVar {
				for _, fl := range cf.Decl.Recv.List {
					for _, nm := range fl.Names {
						if o := cf.Info().Defs[nm]; o != nil {
							cb.back[o] = t
						}
					}
				}
			}
		}
	}
	cb.prepare()
	cb.flow()
	cb.obligations()
	return cb
}

// ModuleCalls lists the calls in the function's body (not in literals) whose
// callee is a declared function of the module with a body.
func (b *Bounds) ModuleCalls() []*ast.CallExpr {
	var out []*ast.CallExpr
	for _, call := range b.F.AllCalls(false) {
		if cf := b.F.CalleeFunc(call); cf != nil && cf.Decl != nil && cf.Body != nil {
			out = append(out, call)
		}
	}
	return out
}

// ClosureCalls lists the calls in the function's body through function-typed
// parameters that the call context binds to literals.
func (b *Bounds) ClosureCalls() []*ast.CallExpr {
	var out []*ast.CallExpr
	if len(b.funcArgs) == 0 {
		return nil
	}
	for _, call := range b.F.AllCalls(false) {
		if id, ok := ast.Unparen(call.Fun).(*ast.Ident); ok {
			if _, bound := b.funcArgs[ObjOf(b.info, id)]; bound {
				out = append(out, call)
			}
		}
	}
	return out
}

// ClosureAt analyses the literal bound to the function-typed parameter called
// at call, in the context of that call: the facts before the call hold on
// entry, with the literal's parameters for the arguments, this function's
// receiver/parameters renamed back to the variables of the literal's definer
// they were bound to (so that captured variables line up), and every other
// integer variable kept as a symbol.
func (b *Bounds) ClosureAt(call *ast.CallExpr) *Bounds {
	id, ok := ast.Unparen(call.Fun).(*ast.Ident)
	if !ok || b.funcArgs == nil {
		return nil
	}
	bl, ok := b.funcArgs[ObjOf(b.info, id)]
	if !ok || bl.definer != b.Caller {
		return nil // only literals written by the direct caller are lined up
	}
	lf := b.P.LitFunc(b.F.PkgRel(), bl.lit)
	if lf == nil || lf.Body == nil {
		return nil
	}
	fs, _ := b.FactsBefore(call)
	entry := FactSet{}
	if fs != nil {
		eq := map[string]*BFact{}
		for _, f := range fs {
			if f.Kind == 'e' && f.R != nil {
				eq[f.L.key] = f
			}
		}
		sub := map[types.Object]*BTerm{}
		for o, t := range b.back {
			sub[o] = t
		}
		for i, p := range lf.Params() {
			if i < len(call.Args) {
				if t := b.Term(call.Args[i]); t != nil && t.K == TVar {
					sub[t.Obj] = mkTerm(&BTerm{K: TVar, Obj: p, Typ: basicInt(p.Type())})
				}
			}
		}
		// the literal's own parameters must not collide with symbols kept from this frame
		for _, f := range fs.List() {
			switch f.Kind {
			case 'c':
				l, ok1 := substTermG(expandLocals(f.L, eq, 0), sub, true)
				r, ok2 := substTermG(expandLocals(f.R, eq, 0), sub, true)
				if ok1 && ok2 {
					nf := cmpFact(l, f.Op, r, f.Src+" [call of the literal in "+b.F.Name+"]")
					entry[nf.key] = nf
				}
			case 's':
				if l, ok := substTermG(expandLocals(f.L, eq, 0), sub, true); ok {
					nf := &BFact{Kind: 's', L: l, Set: f.Set, Src: f.Src}
					nf.key = "s:" + l.key
					entry[nf.key] = nf
				}
			}
		}
		// axioms of this frame (monotone counters) as facts
		for _, ax := range b.axioms {
			l, ok1 := substTermG(ax.L, sub, true)
			r, ok2 := substTermG(ax.R, sub, true)
			if ok1 && ok2 {
				nf := cmpFact(l, ax.Op, r, ax.Src)
				entry[nf.key] = nf
			}
		}
	}
	cb := &Bounds{P: b.P, F: lf, G: b.P.Graph(lf), info: lf.Info(), sizes: lf.Pkg.TypesSizes,
		untracked: map[types.Object]bool{}, addrFree: map[types.Object]bool{}, tables: map[types.Object]*ConstTable{},
		carry: map[*ast.ForStmt][]*BFact{}, before: map[ast.Node]FactSet{}, edgeT: map[*cfg.Block]FactSet{}, in: map[*cfg.Block]FactSet{},
		summaries: b.summaries, entry: entry, Caller: b, CallSite: call, captured: true,
		funcArgs: map[types.Object]*boundLit{}, back: map[types.Object]*BTerm{}}
	cb.prepare()
	cb.flow()
	cb.obligations()
	return cb
}
