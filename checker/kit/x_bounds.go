package kit

import (
	"fmt"
	"go/ast"
	"go/constant"
	"go/token"
	"go/types"
	"sort"
	"strconv"
	"strings"
)

// LenFlow is a small guard engine (K6, dischargers 1, 2 and 5) for ONE
// sequence variable X (a []byte parameter, the result of strings.Split …) of
// one function.  It runs the path engine with an abstract state made of
//
//   - "L": the set of lengths X may have (a union of integer intervals),
//     refined on branch edges of comparisons between len(X)-affine
//     expressions and constants (`len(x) < n`, `len(x) != n`, `l := len(x)`
//     copies, `switch len(x)`, both polarities, any && / || / ! nesting);
//   - "n:<var>": the symbolic value of integer locals (constant, L+k,
//     (L+k)/s), so that `end := l; end -= 2; d[17:end]` is followed;
//   - "u": set once a condition that is correlated with the length in a way
//     the engine does not interpret was passed (then a failed proof is
//     *undecided*, never a violation).
//
// Every index / slice expression on X is an obligation.  It is discharged
// when 0 <= index < len (0 <= lo <= hi <= len for slices) is PROVED for all
// lengths of the state; it is a violation only when a concrete length (and
// loop iteration) inside the state's length set breaks it; otherwise it is
// undecided.  Conditions that do not mention the length fork both ways.
type LenFlow struct {
	F *Func
	X types.Object // tracked sequence variable
	// Def is the assignment that defines X (nil when X is a parameter:
	// tracking then starts at function entry with len >= MinLen).
	Def ast.Node
	// MinLen is the minimum length X has at its definition.
	MinLen int64
	// DefDom, when set, is the length set X has at its definition (format of
	// ResultLen) instead of [MinLen, inf).  ErrVar/DomOK/DomErr correlate it
	// with an error variable assigned by the same statement: on the
	// `ErrVar != nil` edge the length set is intersected with DomErr, on the
	// nil edge with DomOK (X is a result of a summarised helper call).
	DefDom string
	ErrVar types.Object
	DomOK  string
	DomErr string
	// Describe, when set, is appended to a counterexample length.
	Describe func(l int64) string
	// Value switches the engine to "value mode": X is an integer variable
	// (typically a parameter) and the tracked quantity "L" is its VALUE, not
	// a length.  MinLen is then the smallest value (LenNegInf for signed).
	// There are no index obligations; clients read Result.Exits and ask
	// ValueSet for the values of X that reach an exit.
	Value bool
	// Src lists expressions whose value determines len(X) (the argument of
	// strings.Split): a condition mentioning one of them is "correlated".
	Src []ast.Expr
	// Leaf lets the client interpret non-length leaves (rule atoms).
	Leaf func(e ast.Expr, s S) (t, f []S, handled bool)
	// Visit is called for every non-branch CFG node with the state before it.
	Visit func(n ast.Node, s S)
	// Init is merged into the start state.
	Init S

	Sites   []*LenSite
	Result  *Result
	Graph   *Graph
	Problem string // non-empty: the function has a shape the engine refuses (all sites undecided)

	info    *types.Info
	site    map[ast.Expr]*LenSite
	varying map[types.Object]bool
	untrack map[types.Object]bool
	taint   map[types.Object]bool
	loops   map[types.Object]*lenLoop // loop variable -> canonical loop
	subs    map[types.Object]LenSym   // single-definition sub-slices Y = X[lo:hi] with length-only bounds: len(Y)
	loopCnd map[ast.Expr]bool
	nassign map[types.Object]int // assignments per variable (any form)
	boolDef map[types.Object]ast.Expr
	noSites int
	inRhs   map[ast.Expr]bool // sites under the right operand of && / || in a non-branch node
}

// LenSite is one index/slice expression on X.
type LenSite struct {
	Base    types.Object // nil: the tracked slice; else a followed sub-slice of it
	Expr    ast.Expr     // *ast.IndexExpr or *ast.SliceExpr
	Verdict string       // "ok" | "violation" | "undecided" | "" (never reached)
	By      string
	Msg     string
	// Bounds lists, per reaching state, the symbolic bounds of a slice
	// expression (Lo/Hi) or the index (Lo == Hi).
	Bounds []LenBounds
}

// LenBounds is the linear form of the bounds under one state.
type LenBounds struct {
	Lo, Hi string // canonical "17", "L-2", "44+4*i" …; "?" when not linear
	State  S
}

type lenLoop struct {
	v      types.Object
	lo     int64
	bound  ast.Expr // i+off < bound (strict) or i+off <= bound
	off    int64
	step   int64
	strict bool
	rangeX bool // `for i := range X`
	stmt   ast.Stmt
	clean  bool // body has no break/continue/goto/return
}

const lenInf = int64(1) << 60

type lenIv struct{ lo, hi int64 }
type lenDom []lenIv

func (d lenDom) String() string {
	var p []string
	for _, iv := range d {
		if iv.hi >= lenInf {
			p = append(p, fmt.Sprintf("%d:inf", iv.lo))
		} else {
			p = append(p, fmt.Sprintf("%d:%d", iv.lo, iv.hi))
		}
	}
	return strings.Join(p, ",")
}

func parseLenDom(s string) lenDom {
	var d lenDom
	if s == "" {
		return d
	}
	for _, p := range strings.Split(s, ",") {
		ab := strings.SplitN(p, ":", 2)
		lo, _ := strconv.ParseInt(ab[0], 10, 64)
		hi := lenInf
		if ab[1] != "inf" {
			hi, _ = strconv.ParseInt(ab[1], 10, 64)
		}
		d = append(d, lenIv{lo, hi})
	}
	return d
}

func (d lenDom) intersect(lo, hi int64) lenDom {
	var out lenDom
	for _, iv := range d {
		a, b := iv.lo, iv.hi
		if lo > a {
			a = lo
		}
		if hi < b {
			b = hi
		}
		if a <= b {
			out = append(out, lenIv{a, b})
		}
	}
	return out
}

func (d lenDom) union(e lenDom) lenDom {
	all := append(append(lenDom{}, d...), e...)
	sort.Slice(all, func(i, j int) bool { return all[i].lo < all[j].lo })
	var out lenDom
	for _, iv := range all {
		if n := len(out); n > 0 && iv.lo <= out[n-1].hi+1 {
			if iv.hi > out[n-1].hi {
				out[n-1].hi = iv.hi
			}
			continue
		}
		out = append(out, iv)
	}
	return out
}

// sat returns the sub-domain where `L op c` holds.
func (d lenDom) sat(op token.Token, c int64) lenDom {
	switch op {
	case token.LSS:
		return d.intersect(-lenInf, c-1)
	case token.LEQ:
		return d.intersect(-lenInf, c)
	case token.GTR:
		return d.intersect(c+1, lenInf)
	case token.GEQ:
		return d.intersect(c, lenInf)
	case token.EQL:
		return d.intersect(c, c)
	case token.NEQ:
		return d.intersect(-lenInf, c-1).union(d.intersect(c+1, lenInf))
	}
	return d
}

func lenNegOp(op token.Token) token.Token {
	switch op {
	case token.LSS:
		return token.GEQ
	case token.LEQ:
		return token.GTR
	case token.GTR:
		return token.LEQ
	case token.GEQ:
		return token.LSS
	case token.EQL:
		return token.NEQ
	case token.NEQ:
		return token.EQL
	}
	return op
}

func lenFlipOp(op token.Token) token.Token {
	switch op {
	case token.LSS:
		return token.GTR
	case token.LEQ:
		return token.GEQ
	case token.GTR:
		return token.LSS
	case token.GEQ:
		return token.LEQ
	}
	return op
}

func (d lenDom) min() int64 { return d[0].lo }
func (d lenDom) max() int64 { return d[len(d)-1].hi }

// samples returns up to n concrete lengths per interval, smallest first.
func (d lenDom) samples(n int64) []int64 {
	var out []int64
	for _, iv := range d {
		for l := iv.lo; l <= iv.hi && l < iv.lo+n; l++ {
			out = append(out, l)
		}
	}
	return out
}

// LenSym is the symbolic value of an integer: C (Kind 'c'), L+K ('l'),
// (L+K)/S ('d').
type LenSym struct {
	Kind byte
	C    int64
	K    int64
	S    int64
}

func (v LenSym) repr() string {
	switch v.Kind {
	case 'c':
		return fmt.Sprintf("c:%d", v.C)
	case 'l':
		return fmt.Sprintf("l:%d", v.K)
	case 'd':
		return fmt.Sprintf("d:%d:%d", v.K, v.S)
	}
	return "?"
}

func parseLenSym(r string) (LenSym, bool) {
	p := strings.Split(r, ":")
	switch {
	case len(p) == 2 && p[0] == "c":
		c, _ := strconv.ParseInt(p[1], 10, 64)
		return LenSym{Kind: 'c', C: c}, true
	case len(p) == 2 && p[0] == "l":
		k, _ := strconv.ParseInt(p[1], 10, 64)
		return LenSym{Kind: 'l', K: k}, true
	case len(p) == 3 && p[0] == "d":
		k, _ := strconv.ParseInt(p[1], 10, 64)
		s, _ := strconv.ParseInt(p[2], 10, 64)
		return LenSym{Kind: 'd', K: k, S: s}, true
	}
	return LenSym{}, false
}

func (v LenSym) at(l int64) int64 {
	switch v.Kind {
	case 'c':
		return v.C
	case 'l':
		return l + v.K
	case 'd':
		return (l + v.K) / v.S // Go truncating division
	}
	return 0
}

// ---------------------------------------------------------------------------

func (lf *LenFlow) isX(e ast.Expr) bool {
	id, ok := ast.Unparen(e).(*ast.Ident)
	return ok && ObjOf(lf.info, id) == lf.X
}

func (lf *LenFlow) describe(l int64) string {
	if lf.Describe == nil {
		return ""
	}
	return lf.Describe(l)
}

func (d lenDom) meet(e lenDom) lenDom {
	var out lenDom
	for _, iv := range e {
		out = out.union(d.intersect(iv.lo, iv.hi))
	}
	return out
}

// LenDomUnion joins two length sets in the textual format of ResultLen.
func LenDomUnion(a, b string) string {
	return parseLenDom(a).union(parseLenDom(b)).String()
}

// ResultLen gives the set of lengths of e under state s, where e is the
// tracked slice itself, a slice expression of it, or nil (length 0):
// the textual length set, the constant off with len(e) = len(X)+off (only
// meaningful when rel is true), and whether the path was free of
// uninterpreted length-correlated conditions.
func (lf *LenFlow) ResultLen(e ast.Expr, s S) (set string, off int64, rel, exact, ok bool) {
	exact = s.Get("u") == ""
	e = ast.Unparen(e)
	if IsNilIdent(lf.info, e) {
		return lenDom{{0, 0}}.String(), 0, false, exact, true
	}
	if !s.Has("L") {
		return "", 0, false, false, false
	}
	dom := parseLenDom(s.Get("L"))
	if len(dom) == 0 {
		return "", 0, false, false, false
	}
	if lf.isX(e) {
		return dom.String(), 0, true, exact, true
	}
	se, isSlice := e.(*ast.SliceExpr)
	if !isSlice || !lf.isX(se.X) || se.Max != nil {
		return "", 0, false, false, false
	}
	lo := lenConstLin(0)
	hi := lenLin{cL: 1, at: map[types.Object]int64{}, dv: map[string]int64{}}
	ok1, ok2 := true, true
	if se.Low != nil {
		lo, ok1 = lf.lin(se.Low, s)
	}
	if se.High != nil {
		hi, ok2 = lf.lin(se.High, s)
	}
	if !ok1 || !ok2 {
		return "", 0, false, false, false
	}
	n := hi.add(lo, -1)
	if len(n.at) > 0 || len(n.dv) > 0 || (n.cL != 0 && n.cL != 1) {
		return "", 0, false, false, false
	}
	if n.cL == 0 {
		if n.c0 < 0 {
			return "", 0, false, false, false
		}
		return lenDom{{n.c0, n.c0}}.String(), 0, false, exact, true
	}
	var out lenDom
	for _, iv := range dom {
		a, b := iv.lo+n.c0, iv.hi
		if b < lenInf {
			b += n.c0
		}
		if a < 0 {
			a = 0 // such lengths panic at the slice itself (its own obligation)
		}
		if a <= b {
			out = out.union(lenDom{{a, b}})
		}
	}
	if len(out) == 0 {
		return "", 0, false, false, false
	}
	return out.String(), n.c0, true, exact, true
}

// Window gives the part of X that e denotes under s, as symbolic bounds
// [lo, hi) (constants or len(X)+k): X itself, a slice local last assigned a
// window of X, or a slice expression of either.
func (lf *LenFlow) Window(e ast.Expr, s S) (lo, hi LenSym, ok bool) {
	e = ast.Unparen(e)
	if !s.Has("L") {
		return lo, hi, false
	}
	switch x := e.(type) {
	case *ast.Ident:
		if lf.isX(x) {
			return LenSym{Kind: 'c'}, LenSym{Kind: 'l'}, true
		}
		if o := ObjOf(lf.info, x); o != nil {
			if r := s.Get("w:" + VarID(o)); r != "" {
				p := strings.SplitN(r, "|", 2)
				a, ok1 := parseLenSym(p[0])
				b, ok2 := parseLenSym(p[1])
				return a, b, ok1 && ok2
			}
		}
	case *ast.SliceExpr:
		if x.Max != nil {
			return lo, hi, false
		}
		blo, bhi, ok := lf.Window(x.X, s)
		if !ok {
			return lo, hi, false
		}
		add := func(a, b LenSym) (LenSym, bool) {
			switch {
			case a.Kind == 'c' && b.Kind == 'c':
				return LenSym{Kind: 'c', C: a.C + b.C}, true
			case a.Kind == 'l' && b.Kind == 'c':
				return LenSym{Kind: 'l', K: a.K + b.C}, true
			case a.Kind == 'c' && b.Kind == 'l':
				return LenSym{Kind: 'l', K: b.K + a.C}, true
			}
			return LenSym{}, false
		}
		// bounds are relative to the base window; len(base) terms must be rewritten,
		// so only bases that start at 0 may use len-relative bounds
		rel := func(b ast.Expr) (LenSym, bool) {
			v, ok := lf.EvalSym(b, s)
			if !ok || (v.Kind != 'c' && v.Kind != 'l') {
				return LenSym{}, false
			}
			if v.Kind == 'l' && !(lf.isX(x.X)) {
				return LenSym{}, false // len(X)-relative bound inside a sub-window: not the window's own length
			}
			if v.Kind == 'l' {
				return v, true // absolute already (base is X)
			}
			return add(blo, v)
		}
		lo, hi = blo, bhi
		if x.Low != nil {
			if lo, ok = rel(x.Low); !ok {
				return lo, hi, false
			}
		}
		if x.High != nil {
			if hi, ok = rel(x.High); !ok {
				return lo, hi, false
			}
		}
		return lo, hi, true
	}
	return lo, hi, false
}

// WindowStrings renders Window in the notation of LenBounds ("17", "L-2").
func (lf *LenFlow) WindowStrings(e ast.Expr, s S) (lo, hi string, ok bool) {
	a, b, ok := lf.Window(e, s)
	if !ok {
		return "", "", false
	}
	return lenSymLin(a).String(), lenSymLin(b).String(), true
}

// LenNegInf is the MinLen of a signed integer in value mode.
const LenNegInf = -lenInf

// ValueSet renders the values of X (value mode) or lengths that reach a state,
// plus one concrete member; ok=false when none, correlated=true when the path
// passed an uninterpreted condition on X.
func (lf *LenFlow) ValueSet(s S) (set string, sample int64, correlated, ok bool) {
	if !s.Has("L") {
		return "", 0, false, false
	}
	d := parseLenDom(s.Get("L"))
	if len(d) == 0 {
		return "", 0, false, false
	}
	var parts []string
	for _, iv := range d {
		lo, hi := fmt.Sprint(iv.lo), fmt.Sprint(iv.hi)
		if iv.lo <= -lenInf {
			lo = "-inf"
		}
		if iv.hi >= lenInf {
			hi = "+inf"
		}
		if lo == hi {
			parts = append(parts, lo)
		} else {
			parts = append(parts, lo+".."+hi)
		}
	}
	// prefer a small concrete member
	sample = d[0].lo
	for _, iv := range d {
		if iv.lo <= 0 && 0 <= iv.hi {
			sample = 0
			break
		}
		if iv.lo > -lenInf {
			sample = iv.lo
			break
		}
		if iv.hi < lenInf {
			sample = iv.hi
		}
	}
	return strings.Join(parts, ","), sample, s.Get("u") != "", true
}

func (lf *LenFlow) isSub(e ast.Expr) bool {
	id, ok := ast.Unparen(e).(*ast.Ident)
	if !ok {
		return false
	}
	_, is := lf.subs[ObjOf(lf.info, id)]
	return is
}

func (lf *LenFlow) isLenOfX(e ast.Expr) bool {
	if lf.Value {
		return false
	}
	c, ok := ast.Unparen(e).(*ast.CallExpr)
	if !ok || len(c.Args) != 1 {
		return false
	}
	b, ok := Callee(lf.info, c).(*types.Builtin)
	return ok && b.Name() == "len" && lf.isX(c.Args[0])
}

func lenIsInt(t types.Type) bool {
	if t == nil {
		return false
	}
	b, ok := t.Underlying().(*types.Basic)
	return ok && b.Info()&types.IsInteger != 0
}

func (lf *LenFlow) trackable(o types.Object) bool {
	v, ok := o.(*types.Var)
	if !ok || v.IsField() || lf.untrack[o] || lf.varying[o] {
		return false
	}
	if v.Parent() == nil || v.Pkg() == nil || v.Parent() == v.Pkg().Scope() {
		return false
	}
	return lenIsInt(v.Type())
}

// prepare computes the static facts and refuses unsupported shapes.
func (lf *LenFlow) prepare() {
	f := lf.F
	lf.info = f.Info()
	info := lf.info
	lf.site = map[ast.Expr]*LenSite{}
	lf.varying = map[types.Object]bool{}
	lf.untrack = map[types.Object]bool{}
	lf.taint = map[types.Object]bool{}
	lf.loops = map[types.Object]*lenLoop{}
	lf.loopCnd = map[ast.Expr]bool{}
	lf.inRhs = map[ast.Expr]bool{}
	lf.boolDef = map[types.Object]ast.Expr{}
	lf.nassign = map[types.Object]int{}
	ast.Inspect(f.Body, func(x ast.Node) bool {
		bump := func(e ast.Expr) {
			if e == nil {
				return
			}
			if id, ok := ast.Unparen(e).(*ast.Ident); ok {
				if o := ObjOf(info, id); o != nil {
					lf.nassign[o]++
				}
			}
		}
		switch y := x.(type) {
		case *ast.AssignStmt:
			for _, l := range y.Lhs {
				bump(l)
			}
		case *ast.ValueSpec:
			for _, nm := range y.Names {
				if o := info.Defs[nm]; o != nil {
					lf.nassign[o]++
				}
			}
		case *ast.IncDecStmt:
			bump(y.X)
			bump(y.X) // never "assigned once"
		case *ast.RangeStmt:
			bump(y.Key)
			bump(y.Key)
			bump(y.Value)
			bump(y.Value)
		}
		return true
	})

	// --- uses of X
	defs := 0
	var walk func(n ast.Node, inLit bool, loopDepth int)
	selfRef := func(lhs ast.Expr, rhs ast.Expr) bool {
		o := ObjOf(info, lhs)
		found := false
		if o != nil && rhs != nil {
			ast.Inspect(rhs, func(x ast.Node) bool {
				if id, ok := x.(*ast.Ident); ok && ObjOf(info, id) == o {
					found = true
				}
				return !found
			})
		}
		return found
	}
	walk = func(n ast.Node, inLit bool, loopDepth int) {
		ast.Inspect(n, func(x ast.Node) bool {
			switch y := x.(type) {
			case *ast.FuncLit:
				if x != n {
					walk(y.Body, true, 0)
					return false
				}
			case *ast.ForStmt:
				if x != n {
					if y.Init != nil {
						walk(y.Init, inLit, loopDepth)
					}
					if y.Cond != nil {
						walk(y.Cond, inLit, loopDepth+1)
					}
					if y.Post != nil {
						walk(y.Post, inLit, loopDepth+1)
					}
					walk(y.Body, inLit, loopDepth+1)
					return false
				}
			case *ast.RangeStmt:
				if x != n {
					walk(y.X, inLit, loopDepth)
					for _, kv := range []ast.Expr{y.Key, y.Value} {
						if kv != nil {
							if o := ObjOf(info, kv); o != nil {
								lf.varying[o] = true
							}
						}
					}
					walk(y.Body, inLit, loopDepth+1)
					return false
				}
			case *ast.UnaryExpr:
				if y.Op == token.AND {
					if o := ObjOf(info, y.X); o != nil {
						lf.untrack[o] = true
						if o == lf.X {
							lf.Problem = "address of the tracked slice is taken"
						}
					}
				}
			case *ast.AssignStmt:
				for i, l := range y.Lhs {
					o := ObjOf(info, l)
					if o == nil {
						continue
					}
					if o == lf.X {
						defs++
						if ast.Node(y) != lf.Def {
							lf.Problem = "the tracked slice is reassigned"
						}
					}
					if inLit {
						lf.untrack[o] = true
					}
					var rhs ast.Expr
					if len(y.Rhs) == len(y.Lhs) {
						rhs = y.Rhs[i]
					}
					if loopDepth > 0 && (y.Tok != token.ASSIGN && y.Tok != token.DEFINE || selfRef(l, rhs)) {
						lf.varying[o] = true
					}
				}
			case *ast.IncDecStmt:
				if o := ObjOf(info, y.X); o != nil {
					if inLit {
						lf.untrack[o] = true
					}
					if loopDepth > 0 {
						lf.varying[o] = true
					}
				}
			case *ast.Ident:
				if inLit && ObjOf(info, y) == lf.X {
					lf.Problem = "the tracked slice is used inside a nested function literal"
				}
			}
			return true
		})
	}
	walk(f.Body, false, 0)
	if lf.Def != nil && defs != 1 && lf.Problem == "" {
		lf.Problem = fmt.Sprintf("the tracked slice has %d assignments (expected exactly its definition)", defs)
	}

	// --- canonical loops
	ast.Inspect(f.Body, func(x ast.Node) bool {
		switch y := x.(type) {
		case *ast.FuncLit:
			return false
		case *ast.ForStmt:
			lf.canonFor(y)
		case *ast.RangeStmt:
			if lf.isX(y.X) && y.Key != nil {
				if o := ObjOf(info, y.Key); o != nil && !lf.assignedIn(y.Body, o) {
					lf.loops[o] = &lenLoop{v: o, lo: 0, step: 1, rangeX: true, stmt: y, clean: true}
				}
			}
		}
		return true
	})

	// --- sub-slices Y := X[lo:hi] whose bounds depend on the length only are
	// followed one level: len(Y) is a symbolic value, Y[i] an obligation
	lf.subs = map[types.Object]LenSym{}
	derived := map[types.Object]*ast.SliceExpr{}
	ndefs := map[types.Object]int{}
	ast.Inspect(f.Body, func(x ast.Node) bool {
		switch y := x.(type) {
		case *ast.AssignStmt:
			for i, l := range y.Lhs {
				o := ObjOf(info, l)
				if o == nil {
					continue
				}
				if _, isIdent := ast.Unparen(l).(*ast.Ident); !isIdent {
					continue
				}
				ndefs[o]++
				if len(y.Lhs) == len(y.Rhs) && (y.Tok == token.DEFINE || y.Tok == token.ASSIGN) {
					if se, ok := ast.Unparen(y.Rhs[i]).(*ast.SliceExpr); ok && lf.isX(se.X) {
						derived[o] = se
					}
				}
			}
		case *ast.ValueSpec:
			for i, nm := range y.Names {
				if o := info.Defs[nm]; o != nil {
					ndefs[o]++
					if i < len(y.Values) {
						if se, ok := ast.Unparen(y.Values[i]).(*ast.SliceExpr); ok && lf.isX(se.X) {
							derived[o] = se
						}
					}
				}
			}
		}
		return true
	})
	probe := NewS().Set("L", lenDom{{0, lenInf}}.String())
	for o, se := range derived {
		if ndefs[o] != 1 || lf.untrack[o] || se.Max != nil {
			continue
		}
		usedInLit := false
		ast.Inspect(f.Body, func(x ast.Node) bool {
			if fl, ok := x.(*ast.FuncLit); ok {
				ast.Inspect(fl.Body, func(z ast.Node) bool {
					if id, ok := z.(*ast.Ident); ok && ObjOf(info, id) == o {
						usedInLit = true
					}
					return true
				})
				return false
			}
			return true
		})
		if usedInLit {
			continue
		}
		lo, hi := LenSym{Kind: 'c'}, LenSym{Kind: 'l'}
		ok1, ok2 := true, true
		if se.Low != nil {
			lo, ok1 = lf.EvalSym(se.Low, probe)
		}
		if se.High != nil {
			hi, ok2 = lf.EvalSym(se.High, probe)
		}
		if !ok1 || !ok2 || lo.Kind != 'c' || (hi.Kind != 'c' && hi.Kind != 'l') {
			continue
		}
		if hi.Kind == 'l' {
			lf.subs[o] = LenSym{Kind: 'l', K: hi.K - lo.C}
		} else {
			lf.subs[o] = LenSym{Kind: 'c', C: hi.C - lo.C}
		}
	}

	// --- static taint: variables whose value is correlated with len(X)
	mentions := func(e ast.Expr) bool { return lf.mentionsStatic(e) }
	for changed := true; changed; {
		changed = false
		ast.Inspect(f.Body, func(x ast.Node) bool {
			mark := func(l ast.Expr, r ast.Expr) {
				o := ObjOf(info, l)
				if o == nil || o == lf.X || lf.taint[o] || r == nil {
					return
				}
				if !mentions(r) {
					return
				}
				// integer locals are followed symbolically in the state
				if lf.trackable(o) {
					return
				}
				lf.taint[o] = true
				changed = true
			}
			switch y := x.(type) {
			case *ast.AssignStmt:
				for i, l := range y.Lhs {
					if len(y.Rhs) == len(y.Lhs) {
						mark(l, y.Rhs[i])
					} else if len(y.Rhs) == 1 {
						mark(l, y.Rhs[0])
					}
				}
			case *ast.ValueSpec:
				for i, nm := range y.Names {
					if i < len(y.Values) {
						mark(nm, y.Values[i])
					}
				}
			}
			return true
		})
	}

	// --- sites and short-circuit positions in non-branch nodes
	baseOf := func(e ast.Expr) (types.Object, bool) {
		if lf.isX(e) {
			return nil, true
		}
		if id, ok := ast.Unparen(e).(*ast.Ident); ok {
			if o := ObjOf(info, id); o != nil {
				if _, ok := lf.subs[o]; ok {
					return o, true
				}
			}
		}
		return nil, false
	}
	ast.Inspect(f.Body, func(x ast.Node) bool {
		var base ast.Expr
		var e ast.Expr
		switch y := x.(type) {
		case *ast.FuncLit:
			return false
		case *ast.IndexExpr:
			base, e = y.X, y
		case *ast.SliceExpr:
			base, e = y.X, y
		}
		if base != nil {
			if b, ok := baseOf(base); ok {
				st := &LenSite{Base: b, Expr: e}
				lf.Sites = append(lf.Sites, st)
				lf.site[e] = st
			}
		}
		return true
	})
	// other sub-slices that are indexed themselves are not followed
	ast.Inspect(f.Body, func(x ast.Node) bool {
		var base ast.Expr
		switch y := x.(type) {
		case *ast.IndexExpr:
			base = y.X
		case *ast.SliceExpr:
			base = y.X
		}
		if base != nil {
			if o := ObjOf(info, base); o != nil && derived[o] != nil && lf.Problem == "" {
				if _, followed := lf.subs[o]; !followed {
					lf.Problem = fmt.Sprintf("sub-slice %s of the tracked slice is indexed itself (not followed)", o.Name())
				}
			}
		}
		return true
	})
}

func (lf *LenFlow) assignedIn(n ast.Node, o types.Object) bool {
	found := false
	ast.Inspect(n, func(x ast.Node) bool {
		switch y := x.(type) {
		case *ast.AssignStmt:
			for _, l := range y.Lhs {
				if ObjOf(lf.info, l) == o {
					found = true
				}
			}
		case *ast.IncDecStmt:
			if ObjOf(lf.info, y.X) == o {
				found = true
			}
		case *ast.RangeStmt:
			for _, kv := range []ast.Expr{y.Key, y.Value} {
				if kv != nil && ObjOf(lf.info, kv) == o {
					found = true
				}
			}
		case *ast.UnaryExpr:
			if y.Op == token.AND && ObjOf(lf.info, y.X) == o {
				found = true
			}
		}
		return !found
	})
	return found
}

func (lf *LenFlow) canonFor(fs *ast.ForStmt) {
	info := lf.info
	init, ok := fs.Init.(*ast.AssignStmt)
	if !ok || init.Tok != token.DEFINE || len(init.Lhs) != 1 || len(init.Rhs) != 1 {
		return
	}
	v := ObjOf(info, init.Lhs[0])
	lo, okc := ConstInt(info, init.Rhs[0])
	if v == nil || !okc || lo < 0 {
		return
	}
	step := int64(1)
	switch p := fs.Post.(type) {
	case *ast.IncDecStmt:
		if p.Tok != token.INC || ObjOf(info, p.X) != v {
			return
		}
	case *ast.AssignStmt:
		if p.Tok != token.ADD_ASSIGN || len(p.Lhs) != 1 || ObjOf(info, p.Lhs[0]) != v {
			return
		}
		c, ok := ConstInt(info, p.Rhs[0])
		if !ok || c <= 0 {
			return
		}
		step = c
	default:
		return
	}
	a, b, op, okc := CmpAtom(fs.Cond)
	if !okc {
		return
	}
	// one side is v, v+c or v-c (c constant); the other is the bound
	side := func(e ast.Expr) (int64, bool) {
		e = ast.Unparen(e)
		if ObjOf(info, e) == v {
			if _, isIdent := e.(*ast.Ident); isIdent {
				return 0, true
			}
		}
		if be, ok := e.(*ast.BinaryExpr); ok && (be.Op == token.ADD || be.Op == token.SUB) {
			if id, isIdent := ast.Unparen(be.X).(*ast.Ident); isIdent && ObjOf(info, id) == v {
				if c, ok := ConstInt(info, be.Y); ok {
					if be.Op == token.SUB {
						c = -c
					}
					return c, true
				}
			}
			if id, isIdent := ast.Unparen(be.Y).(*ast.Ident); isIdent && ObjOf(info, id) == v && be.Op == token.ADD {
				if c, ok := ConstInt(info, be.X); ok {
					return c, true
				}
			}
		}
		return 0, false
	}
	off, isV := side(a)
	if !isV {
		a, b, op = b, a, lenFlipOp(op)
		off, isV = side(a)
	}
	if !isV || (op != token.LSS && op != token.LEQ) {
		return
	}
	if lf.assignedIn(fs.Body, v) {
		return
	}
	// the bound must not change inside the loop
	bad := false
	ast.Inspect(b, func(x ast.Node) bool {
		if id, ok := x.(*ast.Ident); ok {
			if o := ObjOf(info, id); o != nil && (lf.assignedIn(fs.Body, o) || o == v) {
				bad = true
			}
		}
		return !bad
	})
	if bad {
		return
	}
	clean := true
	ast.Inspect(fs.Body, func(x ast.Node) bool {
		switch x.(type) {
		case *ast.FuncLit:
			return false
		case *ast.BranchStmt, *ast.ReturnStmt:
			clean = false
		}
		return clean
	})
	lf.loops[v] = &lenLoop{v: v, lo: lo, bound: b, off: off, step: step, strict: op == token.LSS, stmt: fs, clean: clean}
	lf.loopCnd[fs.Cond] = true
}

// mentionsStatic: e mentions X as a whole value, a source expression, or a
// tainted variable, or len/cap of X.
func (lf *LenFlow) mentionsStatic(e ast.Expr) bool {
	found := false
	var visit func(n ast.Node)
	visit = func(n ast.Node) {
		if n == nil || found {
			return
		}
		switch y := n.(type) {
		case *ast.FuncLit:
			return
		case *ast.IndexExpr:
			if lf.isX(y.X) || lf.isSub(y.X) {
				return // an element of X is content, not length
			}
		case *ast.SliceExpr:
			if lf.isX(y.X) || lf.isSub(y.X) {
				return
			}
		case *ast.Ident:
			o := ObjOf(lf.info, y)
			if o != nil && (o == lf.X || lf.taint[o]) {
				found = true
			}
			if _, ok := lf.subs[o]; ok && o != nil {
				found = true
			}
			return
		case ast.Expr:
			for _, s := range lf.Src {
				if SameExpr(lf.info, y, s) {
					found = true
					return
				}
			}
		}
		first := true
		ast.Inspect(n, func(c ast.Node) bool {
			if first {
				first = false
				return true
			}
			if c != nil {
				visit(c)
			}
			return false
		})
	}
	visit(e)
	return found
}

// mentionsLen: static mention or a variable currently bound to a
// length-derived symbolic value.
func (lf *LenFlow) mentionsLen(e ast.Expr, s S) bool {
	if e == nil {
		return false
	}
	if lf.mentionsStatic(e) {
		return true
	}
	found := false
	ast.Inspect(e, func(n ast.Node) bool {
		switch y := n.(type) {
		case *ast.FuncLit:
			return false
		case *ast.IndexExpr:
			if lf.isX(y.X) || lf.isSub(y.X) {
				return false
			}
		case *ast.SliceExpr:
			if lf.isX(y.X) || lf.isSub(y.X) {
				return false
			}
		case *ast.Ident:
			if o := ObjOf(lf.info, y); o != nil {
				if r := s.Get("n:" + VarID(o)); r != "" && !strings.HasPrefix(r, "c:") {
					found = true
				}
			}
		}
		return !found
	})
	return found
}

// EvalSym evaluates an integer expression symbolically under s.
func (lf *LenFlow) EvalSym(e ast.Expr, s S) (LenSym, bool) {
	e = ast.Unparen(e)
	if c, ok := ConstInt(lf.info, e); ok {
		return LenSym{Kind: 'c', C: c}, true
	}
	if lf.Value && lf.isX(e) {
		if !s.Has("L") {
			return LenSym{}, false
		}
		return LenSym{Kind: 'l'}, true
	}
	switch x := e.(type) {
	case *ast.Ident:
		o := ObjOf(lf.info, x)
		if o == nil || !lf.trackable(o) {
			return LenSym{}, false
		}
		return parseLenSym(s.Get("n:" + VarID(o)))
	case *ast.CallExpr:
		if lf.isLenOfX(x) {
			if !s.Has("L") {
				return LenSym{}, false
			}
			return LenSym{Kind: 'l'}, true
		}
		if b, ok := Callee(lf.info, x).(*types.Builtin); ok && b.Name() == "len" && len(x.Args) == 1 && !lf.Value {
			if id, ok := ast.Unparen(x.Args[0]).(*ast.Ident); ok {
				if sub, ok := lf.subs[ObjOf(lf.info, id)]; ok && s.Has("L") {
					return sub, true
				}
			}
		}
		// integer conversion that cannot truncate a length
		if tv, ok := lf.info.Types[x.Fun]; ok && tv.IsType() && len(x.Args) == 1 {
			if b, ok := tv.Type.Underlying().(*types.Basic); ok {
				switch b.Kind() {
				case types.Int, types.Int64, types.Uint, types.Uint64:
					if lenIsInt(lf.info.TypeOf(x.Args[0])) {
						return lf.EvalSym(x.Args[0], s)
					}
				}
			}
		}
	case *ast.BinaryExpr:
		a, ok1 := lf.EvalSym(x.X, s)
		b, ok2 := lf.EvalSym(x.Y, s)
		if !ok1 || !ok2 {
			return LenSym{}, false
		}
		switch x.Op {
		case token.ADD:
			switch {
			case a.Kind == 'c' && b.Kind == 'c':
				return LenSym{Kind: 'c', C: a.C + b.C}, true
			case a.Kind == 'l' && b.Kind == 'c':
				return LenSym{Kind: 'l', K: a.K + b.C}, true
			case a.Kind == 'c' && b.Kind == 'l':
				return LenSym{Kind: 'l', K: b.K + a.C}, true
			}
		case token.SUB:
			switch {
			case a.Kind == 'c' && b.Kind == 'c':
				return LenSym{Kind: 'c', C: a.C - b.C}, true
			case a.Kind == 'l' && b.Kind == 'c':
				return LenSym{Kind: 'l', K: a.K - b.C}, true
			case a.Kind == 'l' && b.Kind == 'l':
				return LenSym{Kind: 'c', C: a.K - b.K}, true
			}
		case token.MUL:
			if a.Kind == 'c' && b.Kind == 'c' {
				return LenSym{Kind: 'c', C: a.C * b.C}, true
			}
		case token.QUO:
			switch {
			case a.Kind == 'c' && b.Kind == 'c' && b.C != 0:
				return LenSym{Kind: 'c', C: a.C / b.C}, true
			case a.Kind == 'l' && b.Kind == 'c' && b.C > 0:
				if b.C == 1 {
					return a, true
				}
				return LenSym{Kind: 'd', K: a.K, S: b.C}, true
			}
		}
	}
	return LenSym{}, false
}

// ---------------------------------------------------------------------------
// linear forms over L and loop variables

type lenLin struct {
	c0, cL int64
	at     map[types.Object]int64 // loop variable -> coefficient
	dv     map[string]int64       // (L+k)/s atoms "k:s" -> coefficient
}

func (a lenLin) clone() lenLin {
	b := lenLin{c0: a.c0, cL: a.cL, at: map[types.Object]int64{}, dv: map[string]int64{}}
	for k, v := range a.at {
		b.at[k] = v
	}
	for k, v := range a.dv {
		b.dv[k] = v
	}
	return b
}

func (a lenLin) add(b lenLin, sign int64) lenLin {
	r := a.clone()
	r.c0 += sign * b.c0
	r.cL += sign * b.cL
	for k, v := range b.at {
		r.at[k] += sign * v
		if r.at[k] == 0 {
			delete(r.at, k)
		}
	}
	for k, v := range b.dv {
		r.dv[k] += sign * v
		if r.dv[k] == 0 {
			delete(r.dv, k)
		}
	}
	return r
}

func (a lenLin) scale(c int64) lenLin {
	r := lenLin{c0: a.c0 * c, cL: a.cL * c, at: map[types.Object]int64{}, dv: map[string]int64{}}
	if c != 0 {
		for k, v := range a.at {
			r.at[k] = v * c
		}
		for k, v := range a.dv {
			r.dv[k] = v * c
		}
	}
	return r
}

func (a lenLin) isConst() bool { return a.cL == 0 && len(a.at) == 0 && len(a.dv) == 0 }

func (a lenLin) String() string {
	var parts []string
	if a.cL != 0 {
		if a.cL == 1 {
			parts = append(parts, "L")
		} else {
			parts = append(parts, fmt.Sprintf("%d*L", a.cL))
		}
	}
	var names []string
	for o, c := range a.at {
		if c == 1 {
			names = append(names, o.Name())
		} else {
			names = append(names, fmt.Sprintf("%d*%s", c, o.Name()))
		}
	}
	for k, c := range a.dv {
		names = append(names, fmt.Sprintf("%d*((L+%s)", c, strings.Replace(k, ":", ")/", 1)+")"))
	}
	sort.Strings(names)
	parts = append(parts, names...)
	if a.c0 != 0 || len(parts) == 0 {
		parts = append(parts, strconv.FormatInt(a.c0, 10))
	}
	s := strings.Join(parts, "+")
	return strings.ReplaceAll(s, "+-", "-")
}

func lenConstLin(c int64) lenLin {
	return lenLin{c0: c, at: map[types.Object]int64{}, dv: map[string]int64{}}
}

func lenSymLin(v LenSym) lenLin {
	r := lenConstLin(0)
	switch v.Kind {
	case 'c':
		r.c0 = v.C
	case 'l':
		r.cL, r.c0 = 1, v.K
	case 'd':
		r.dv[fmt.Sprintf("%d:%d", v.K, v.S)] = 1
	}
	return r
}

func (lf *LenFlow) lin(e ast.Expr, s S) (lenLin, bool) {
	e = ast.Unparen(e)
	if v, ok := lf.EvalSym(e, s); ok {
		return lenSymLin(v), true
	}
	switch x := e.(type) {
	case *ast.Ident:
		if o := ObjOf(lf.info, x); o != nil && lf.loops[o] != nil {
			r := lenConstLin(0)
			r.at[o] = 1
			return r, true
		}
	case *ast.CallExpr:
		if tv, ok := lf.info.Types[x.Fun]; ok && tv.IsType() && len(x.Args) == 1 {
			if b, ok := tv.Type.Underlying().(*types.Basic); ok {
				switch b.Kind() {
				case types.Int, types.Int64, types.Uint, types.Uint64:
					if lenIsInt(lf.info.TypeOf(x.Args[0])) {
						return lf.lin(x.Args[0], s)
					}
				}
			}
		}
	case *ast.BinaryExpr:
		a, ok1 := lf.lin(x.X, s)
		b, ok2 := lf.lin(x.Y, s)
		if !ok1 || !ok2 {
			return lenLin{}, false
		}
		switch x.Op {
		case token.ADD:
			return a.add(b, 1), true
		case token.SUB:
			return a.add(b, -1), true
		case token.MUL:
			if a.isConst() {
				return b.scale(a.c0), true
			}
			if b.isConst() {
				return a.scale(b.c0), true
			}
		}
	}
	return lenLin{}, false
}

// proveNonNeg tries to prove g >= 0 for every length of dom and every value
// of the loop variables inside their loops.
func (lf *LenFlow) proveNonNeg(g lenLin, dom lenDom, s S) bool {
	g = g.clone()
	// eliminate loop variables by their extreme value
	for o, c := range g.at {
		lp := lf.loops[o]
		delete(g.at, o)
		if c > 0 {
			g.c0 += c * lp.lo
			continue
		}
		// c < 0: substitute the upper bound
		var ub lenLin
		if lp.rangeX {
			ub = lenLin{c0: -1, cL: 1, at: map[types.Object]int64{}, dv: map[string]int64{}}
		} else {
			b, ok := lf.lin(lp.bound, s)
			if !ok || len(b.at) > 0 {
				return false
			}
			ub = b.add(lenConstLin(lp.off), -1)
			if lp.strict {
				ub = ub.add(lenConstLin(1), -1)
			}
		}
		g = g.add(ub.scale(c), 1)
	}
	// eliminate (L+k)/s atoms: inside a loop bounded by it, L+k >= s > 0 and
	// s*((L+k)/s) <= L+k; outside we only know it when L+k >= 0 on dom.
	for key, c := range g.dv {
		p := strings.Split(key, ":")
		k, _ := strconv.ParseInt(p[0], 10, 64)
		sdiv, _ := strconv.ParseInt(p[1], 10, 64)
		delete(g.dv, key)
		if c > 0 {
			// lower bound of the quotient: needs L+k >= 0, then q >= 0 … too weak to be useful
			if dom.min()+k < 0 {
				return false
			}
			continue // q >= 0 contributes >= 0
		}
		// c < 0: q <= (L+k)/s  (for L+k >= 0; for L+k < 0 truncation gives q <= 0 and
		// the real quotient is smaller, so require L+k >= 0 or handle via the loop fact)
		if c%sdiv != 0 {
			return false
		}
		// c*q >= (c/s)*(L+k) holds when L+k >= 0; when L+k < 0, q in (-1,0]·… q = trunc <= 0
		// and c*q >= 0 > … not comparable, so demand L+k >= 0 on the domain unless the
		// term came from a loop whose body only runs for q >= 1 (then L+k >= s).
		if dom.min()+k < 0 && !lf.divFromLoop(key, s) {
			return false
		}
		g.cL += c / sdiv
		g.c0 += (c / sdiv) * k
	}
	switch {
	case g.cL == 0:
		return g.c0 >= 0
	case g.cL > 0:
		return g.c0+g.cL*dom.min() >= 0
	default:
		if dom.max() >= lenInf {
			return false
		}
		return g.c0+g.cL*dom.max() >= 0
	}
}

// divFromLoop reports whether the (L+k)/s atom is the bound of a canonical
// loop (so that inside the body the quotient is >= 1).
func (lf *LenFlow) divFromLoop(key string, s S) bool {
	for _, lp := range lf.loops {
		if lp.bound == nil || lp.off < 0 {
			continue
		}
		if b, ok := lf.lin(lp.bound, s); ok && len(b.dv) == 1 && b.dv[key] == 1 && b.c0 == 0 && b.cL == 0 {
			return true
		}
	}
	return false
}

// refute searches a concrete length (and loop iteration) with g < 0.
func (lf *LenFlow) refute(g lenLin, dom lenDom, s S) (string, bool) {
	if len(g.at) > 1 {
		return "", false
	}
	var lp *lenLoop
	var ci int64
	for o, c := range g.at {
		lp, ci = lf.loops[o], c
	}
	if lp != nil && !lp.clean {
		return "", false
	}
	evalDv := func(l int64) int64 {
		var t int64
		for key, c := range g.dv {
			p := strings.Split(key, ":")
			k, _ := strconv.ParseInt(p[0], 10, 64)
			sd, _ := strconv.ParseInt(p[1], 10, 64)
			t += c * ((l + k) / sd)
		}
		return t
	}
	for _, l := range dom.samples(96) {
		base := g.c0 + g.cL*l + evalDv(l)
		if lp == nil {
			if base < 0 {
				return fmt.Sprintf("len=%d", l) + lf.describe(l), true
			}
			continue
		}
		// concrete loop bound
		var hi int64
		if lp.rangeX {
			hi = l - 1
		} else {
			b, ok := lf.lin(lp.bound, s)
			if !ok || len(b.at) > 0 {
				return "", false
			}
			hi = b.c0 + b.cL*l
			for key, c := range b.dv {
				p := strings.Split(key, ":")
				k, _ := strconv.ParseInt(p[0], 10, 64)
				sd, _ := strconv.ParseInt(p[1], 10, 64)
				hi += c * ((l + k) / sd)
			}
			hi -= lp.off
			if lp.strict {
				hi--
			}
		}
		for i := lp.lo; i <= hi && i < lp.lo+4096*lp.step; i += lp.step {
			if base+ci*i < 0 {
				return fmt.Sprintf("len=%d%s, %s=%d", l, lf.describe(l), lp.v.Name(), i), true
			}
		}
	}
	return "", false
}

// ---------------------------------------------------------------------------
// obligations

func (st *LenSite) set(verdict, by, msg string) {
	rank := map[string]int{"": 0, "ok": 1, "undecided": 2, "violation": 3}
	if rank[verdict] > rank[st.Verdict] {
		st.Verdict, st.By, st.Msg = verdict, by, msg
	}
}

func (lf *LenFlow) checkSite(st *LenSite, s S) {
	if lf.inRhs[st.Expr] {
		st.set("undecided", "", "index sits under a short-circuit operator of a non-branch expression")
		return
	}
	if !s.Has("L") {
		st.set("undecided", "", "reached before the definition of the slice")
		return
	}
	dom := parseLenDom(s.Get("L"))
	if len(dom) == 0 {
		return // infeasible
	}
	corr := s.Get("u") != ""
	L := lenLin{cL: 1, at: map[types.Object]int64{}, dv: map[string]int64{}}
	if st.Base != nil {
		L = lenSymLin(lf.subs[st.Base])
	}
	type goal struct {
		g    lenLin
		what string
	}
	var goals []goal
	bounds := LenBounds{State: s, Lo: "?", Hi: "?"}
	undecided := ""
	switch x := st.Expr.(type) {
	case *ast.IndexExpr:
		ix, ok := lf.lin(x.Index, s)
		if !ok {
			undecided = fmt.Sprintf("index %s is not linear in len and constants", lf.F.Str(x.Index))
			break
		}
		bounds.Lo, bounds.Hi = ix.String(), ix.String()
		goals = append(goals, goal{ix, "index >= 0"}, goal{L.add(ix, -1).add(lenConstLin(1), -1), "index < len"})
	case *ast.SliceExpr:
		lo, hi := lenConstLin(0), L
		ok1, ok2 := true, true
		if x.Low != nil {
			lo, ok1 = lf.lin(x.Low, s)
		}
		if x.High != nil {
			hi, ok2 = lf.lin(x.High, s)
		}
		if x.Max != nil {
			undecided = "three-index slice"
			break
		}
		if !ok1 || !ok2 {
			undecided = fmt.Sprintf("slice bounds of %s are not linear in len and constants", lf.F.Str(x))
			break
		}
		bounds.Lo, bounds.Hi = lo.String(), hi.String()
		goals = append(goals, goal{lo, "low >= 0"}, goal{hi.add(lo, -1), "low <= high"}, goal{L.add(hi, -1), "high <= len"})
	}
	st.Bounds = append(st.Bounds, bounds)
	for _, gl := range goals {
		for o := range gl.g.at {
			lp := lf.loops[o]
			var body *ast.BlockStmt
			switch y := lp.stmt.(type) {
			case *ast.ForStmt:
				body = y.Body
			case *ast.RangeStmt:
				body = y.Body
			}
			if body == nil || st.Expr.Pos() < body.Pos() || st.Expr.End() > body.End() {
				undecided = "loop variable used outside the loop body"
			}
		}
	}
	if undecided != "" {
		st.set("undecided", "", undecided)
		return
	}
	for _, gl := range goals {
		if lf.proveNonNeg(gl.g, dom, s) {
			continue
		}
		if w, ok := lf.refute(gl.g, dom, s); ok && !corr {
			st.set("violation", "", fmt.Sprintf("%s is not implied by the guards: lengths reaching it are {%s}; fails (%s) for %s",
				lf.F.Str(st.Expr), dom, gl.what, w))
			return
		}
		why := "no proof and no concrete counterexample"
		if corr {
			why = "the path passed a condition correlated with the length that the engine does not interpret"
		}
		st.set("undecided", "", fmt.Sprintf("%s: %s with lengths {%s}: %s", lf.F.Str(st.Expr), gl.what, dom, why))
		return
	}
	st.set("ok", fmt.Sprintf("lengths reaching it are {%s}", dom), "")
}

func (lf *LenFlow) sitesIn(n ast.Node, s S) {
	if n == nil || lf.noSites > 0 {
		return
	}
	ast.Inspect(n, func(x ast.Node) bool {
		switch y := x.(type) {
		case *ast.FuncLit:
			return false
		case ast.Expr:
			if st := lf.site[y]; st != nil {
				lf.checkSite(st, s)
			}
		}
		return true
	})
}

// markRhs records sites under the right operand of && / || inside a
// non-branch node.
func (lf *LenFlow) markRhs(n ast.Node) {
	ast.Inspect(n, func(x ast.Node) bool {
		switch y := x.(type) {
		case *ast.FuncLit:
			return false
		case *ast.BinaryExpr:
			if y.Op == token.LAND || y.Op == token.LOR {
				ast.Inspect(y.Y, func(z ast.Node) bool {
					if e, ok := z.(ast.Expr); ok && lf.site[e] != nil {
						lf.inRhs[e] = true
					}
					return true
				})
			}
		}
		return true
	})
}

// ---------------------------------------------------------------------------
// transfer functions

func (lf *LenFlow) bind(s S, lhs ast.Expr, rhs ast.Expr, tok token.Token) S {
	o := ObjOf(lf.info, lhs)
	if o == nil {
		return s
	}
	key := "n:" + VarID(o)
	if !lf.trackable(o) {
		return s.Del(key)
	}
	switch tok {
	case token.ASSIGN, token.DEFINE:
		if rhs == nil {
			return s.Del(key)
		}
		if v, ok := lf.EvalSym(rhs, s); ok {
			return s.Set(key, v.repr())
		}
		if lf.mentionsLen(rhs, s) {
			return s.Set(key, "?")
		}
		return s.Del(key)
	case token.ADD_ASSIGN, token.SUB_ASSIGN:
		cur, ok1 := parseLenSym(s.Get(key))
		d, ok2 := lf.EvalSym(rhs, s)
		if ok1 && ok2 && d.Kind == 'c' && cur.Kind != 'd' {
			if tok == token.SUB_ASSIGN {
				d.C = -d.C
			}
			if cur.Kind == 'c' {
				cur.C += d.C
			} else {
				cur.K += d.C
			}
			return s.Set(key, cur.repr())
		}
	}
	if s.Get(key) != "" && !strings.HasPrefix(s.Get(key), "c:") || lf.mentionsLen(rhs, s) {
		return s.Set(key, "?")
	}
	return s.Del(key)
}

// LenRange returns the smallest and largest length X may have under s
// (max = -1 when unbounded).
func (lf *LenFlow) LenRange(s S) (min, max int64, ok bool) {
	if !s.Has("L") {
		return 0, 0, false
	}
	d := parseLenDom(s.Get("L"))
	if len(d) == 0 {
		return 0, 0, false
	}
	max = d.max()
	if max >= lenInf {
		max = -1
	}
	return d.min(), max, true
}

func (lf *LenFlow) node(n ast.Node, s S) []S {
	lf.sitesIn(n, s)
	if lf.Visit != nil {
		lf.Visit(n, s)
	}
	switch y := n.(type) {
	case *ast.AssignStmt:
		if ast.Node(y) == lf.Def {
			if lf.DefDom != "" {
				s = s.Set("L", lf.DefDom)
			} else {
				s = s.Set("L", lenDom{{lf.MinLen, lenInf}}.String())
			}
		}
		if len(y.Lhs) == len(y.Rhs) {
			// evaluate all right-hand sides in the old state
			old := s
			for i, l := range y.Lhs {
				o := ObjOf(lf.info, l)
				if o == nil {
					continue
				}
				// byte windows of X held in slice locals
				if _, isIdent := ast.Unparen(l).(*ast.Ident); isIdent && o != lf.X && !lf.Value {
					wk := "w:" + VarID(o)
					if lo, hi, ok := lf.Window(y.Rhs[i], old); ok && (y.Tok == token.ASSIGN || y.Tok == token.DEFINE) && !lf.untrack[o] {
						s = s.Set(wk, lo.repr()+"|"+hi.repr())
					} else if s.Has(wk) {
						s = s.Del(wk)
					}
				}
				key := "n:" + VarID(o)
				s2 := lf.bind(old, l, y.Rhs[i], y.Tok)
				if s2.Has(key) {
					s = s.Set(key, s2.Get(key))
				} else {
					s = s.Del(key)
				}
			}
		} else {
			for _, l := range y.Lhs {
				s = lf.bind(s, l, nil, token.ASSIGN)
				if o := ObjOf(lf.info, l); o != nil && s.Has("w:"+VarID(o)) {
					s = s.Del("w:" + VarID(o))
				}
			}
		}
	case *ast.IncDecStmt:
		o := ObjOf(lf.info, y.X)
		if o != nil {
			key := "n:" + VarID(o)
			cur, ok := parseLenSym(s.Get(key))
			d := int64(1)
			if y.Tok == token.DEC {
				d = -1
			}
			switch {
			case !lf.trackable(o):
				s = s.Del(key)
			case ok && cur.Kind == 'c':
				cur.C += d
				s = s.Set(key, cur.repr())
			case ok && cur.Kind == 'l':
				cur.K += d
				s = s.Set(key, cur.repr())
			case s.Get(key) != "":
				s = s.Set(key, "?")
			}
		}
	case *ast.ValueSpec:
		for i, nm := range y.Names {
			o := lf.info.Defs[nm]
			if o == nil {
				continue
			}
			switch {
			case len(y.Values) == len(y.Names):
				s = lf.bind(s, nm, y.Values[i], token.DEFINE)
			case len(y.Values) == 0 && lf.trackable(o):
				s = s.Set("n:"+VarID(o), "c:0")
			default:
				s = lf.bind(s, nm, nil, token.DEFINE)
			}
		}
	}
	return []S{s}
}

type lenSV struct {
	s S
	v bool
}

// condDef returns the expression a boolean local stands for when the local is
// defined exactly once and every variable of that expression keeps its value
// from the definition to the end of the function (`b := len(x) < 2; if b {`).
func (lf *LenFlow) condDef(id *ast.Ident) ast.Expr {
	o := ObjOf(lf.info, id)
	v, ok := o.(*types.Var)
	if !ok || v.IsField() || v.Pkg() == nil || v.Parent() == nil || v.Parent() == v.Pkg().Scope() {
		return nil
	}
	if def, ok := lf.boolDef[o]; ok {
		return def
	}
	var def ast.Expr
	defer func() { lf.boolDef[o] = def }()
	if b, ok := v.Type().Underlying().(*types.Basic); !ok || b.Kind() != types.Bool {
		return nil
	}
	if lf.nassign[o] != 1 || lf.untrack[o] {
		return nil
	}
	var cand ast.Expr
	ast.Inspect(lf.F.Body, func(x ast.Node) bool {
		switch y := x.(type) {
		case *ast.AssignStmt:
			if len(y.Lhs) == len(y.Rhs) {
				for i, l := range y.Lhs {
					if li, ok := ast.Unparen(l).(*ast.Ident); ok && ObjOf(lf.info, li) == o {
						cand = y.Rhs[i]
					}
				}
			}
		case *ast.ValueSpec:
			for i, nm := range y.Names {
				if lf.info.Defs[nm] == o && i < len(y.Values) {
					cand = y.Values[i]
				}
			}
		}
		return true
	})
	if cand == nil {
		return nil
	}
	stable := true
	ast.Inspect(cand, func(x ast.Node) bool {
		switch y := x.(type) {
		case *ast.FuncLit:
			stable = false
		case *ast.Ident:
			if w, ok := ObjOf(lf.info, y).(*types.Var); ok && !w.IsField() {
				if w.Pkg() == nil || w.Parent() == w.Pkg().Scope() {
					stable = false // package-level variable
				} else if lf.nassign[w] > 1 || lf.untrack[w] || lf.varying[w] || w == o {
					stable = false
				}
			}
		}
		return stable
	})
	if !stable {
		return nil
	}
	def = cand
	return def
}

func (lf *LenFlow) evalCond(e ast.Expr, s S) []lenSV {
	e = ast.Unparen(e)
	if tv, ok := lf.info.Types[e]; ok && tv.Value != nil && tv.Value.Kind() == constant.Bool {
		return []lenSV{{s, constant.BoolVal(tv.Value)}}
	}
	if id, ok := e.(*ast.Ident); ok {
		if def := lf.condDef(id); def != nil {
			lf.noSites++ // the sites of the definition were checked where it is evaluated
			r := lf.evalCond(def, s)
			lf.noSites--
			return r
		}
	}
	switch x := e.(type) {
	case *ast.UnaryExpr:
		if x.Op == token.NOT {
			rs := lf.evalCond(x.X, s)
			for i := range rs {
				rs[i].v = !rs[i].v
			}
			return rs
		}
	case *ast.BinaryExpr:
		switch x.Op {
		case token.LAND, token.LOR:
			var out []lenSV
			for _, r := range lf.evalCond(x.X, s) {
				if r.v == (x.Op == token.LOR) {
					out = append(out, r)
				} else {
					out = append(out, lf.evalCond(x.Y, r.s)...)
				}
			}
			return out
		}
	}
	// leaf
	lf.sitesIn(e, s)
	if lf.ErrVar != nil && s.Has("L") {
		if x, trueIsErr, ok := ErrCheck(lf.info, e); ok && ObjOf(lf.info, x) == lf.ErrVar {
			dom := parseLenDom(s.Get("L"))
			var out []lenSV
			if d := dom.meet(parseLenDom(lf.DomErr)); len(d) > 0 {
				out = append(out, lenSV{s.Set("L", d.String()), trueIsErr})
			}
			if d := dom.meet(parseLenDom(lf.DomOK)); len(d) > 0 {
				out = append(out, lenSV{s.Set("L", d.String()), !trueIsErr})
			}
			return out
		}
	}
	if a, b, op, ok := CmpAtom(e); ok {
		if r, ok := lf.cmpLeaf(a, b, op, s); ok {
			return r
		}
	}
	if lf.loopCnd[e] {
		return []lenSV{{s, true}, {s, false}}
	}
	if lf.Leaf != nil {
		if t, f, ok := lf.Leaf(e, s); ok {
			var out []lenSV
			for _, x := range t {
				out = append(out, lenSV{x, true})
			}
			for _, x := range f {
				out = append(out, lenSV{x, false})
			}
			return out
		}
	}
	if lf.mentionsLen(e, s) {
		s = s.Set("u", "1")
		return []lenSV{{s, true}, {s, false}}
	}
	return []lenSV{{s, true}, {s, false}}
}

// cmpLeaf interprets a comparison between two symbolic integers.
func (lf *LenFlow) cmpLeaf(a, b ast.Expr, op token.Token, s S) ([]lenSV, bool) {
	if !lenIsInt(lf.info.TypeOf(a)) || !lenIsInt(lf.info.TypeOf(b)) {
		return nil, false
	}
	va, ok1 := lf.EvalSym(a, s)
	vb, ok2 := lf.EvalSym(b, s)
	if !ok1 || !ok2 || va.Kind == 'd' || vb.Kind == 'd' {
		return nil, false
	}
	cmpConst := func(x, y int64) bool {
		switch op {
		case token.LSS:
			return x < y
		case token.LEQ:
			return x <= y
		case token.GTR:
			return x > y
		case token.GEQ:
			return x >= y
		case token.EQL:
			return x == y
		}
		return x != y
	}
	switch {
	case va.Kind == 'c' && vb.Kind == 'c':
		return []lenSV{{s, cmpConst(va.C, vb.C)}}, true
	case va.Kind == 'l' && vb.Kind == 'l':
		return []lenSV{{s, cmpConst(va.K, vb.K)}}, true
	}
	// L + k  op  c   <=>   L  op  c-k
	var c int64
	o := op
	if va.Kind == 'l' {
		c = vb.C - va.K
	} else {
		c = va.C - vb.K
		o = lenFlipOp(op)
	}
	dom := parseLenDom(s.Get("L"))
	var out []lenSV
	if t := dom.sat(o, c); len(t) > 0 {
		out = append(out, lenSV{s.Set("L", t.String()), true})
	}
	if f := dom.sat(lenNegOp(o), c); len(f) > 0 {
		out = append(out, lenSV{s.Set("L", f.String()), false})
	}
	return out, true
}

// Run executes the analysis.
func (lf *LenFlow) Run() {
	lf.prepare()
	if lf.Problem != "" {
		for _, st := range lf.Sites {
			st.set("undecided", "", lf.Problem)
		}
		return
	}
	g := lf.F.Prog.Graph(lf.F)
	lf.Graph = g
	// short-circuit positions in non-branch nodes
	for _, b := range g.G.Blocks {
		br := g.BranchOf(b)
		for i, n := range b.Nodes {
			if i == len(b.Nodes)-1 && (br.Kind == BrCond || br.Kind == BrCase) {
				continue
			}
			lf.markRhs(n)
		}
	}
	init := lf.Init
	if lf.Def == nil {
		if lf.DefDom != "" {
			init = init.Set("L", lf.DefDom)
		} else {
			init = init.Set("L", lenDom{{lf.MinLen, lenInf}}.String())
		}
	}
	split := func(rs []lenSV) (t, f []S) {
		for _, r := range rs {
			if r.v {
				t = append(t, r.s)
			} else {
				f = append(f, r.s)
			}
		}
		return
	}
	cl := Client{
		Node: lf.node,
		Cond: func(c ast.Expr, s S) (t, f []S) { return split(lf.evalCond(c, s)) },
		Other: func(br Branch, s S) (t, f []S) {
			if br.Kind == BrCase && br.Tag != nil {
				lf.sitesIn(br.Case, s)
				if lenIsInt(lf.info.TypeOf(br.Tag)) {
					if r, ok := lf.cmpLeaf(br.Tag, br.Case, token.EQL, s); ok {
						return split(r)
					}
					if lf.mentionsLen(br.Tag, s) {
						s = s.Set("u", "1")
					}
				}
				if lf.Leaf != nil {
					eq := &ast.BinaryExpr{X: br.Tag, Op: token.EQL, Y: br.Case}
					if t, f, ok := lf.Leaf(eq, s); ok {
						return t, f
					}
				}
			}
			return []S{s}, []S{s}
		},
	}
	lf.Result = g.Run(init, cl)
	if lf.Result.Overflow {
		for _, st := range lf.Sites {
			st.Verdict, st.Msg = "undecided", "state space overflow"
		}
		return
	}
	for _, st := range lf.Sites {
		if st.Verdict == "" {
			st.Verdict, st.Msg = "undecided", "site not reached by the path engine"
		}
	}
}
