package kit

import (
	"fmt"
	"go/ast"
	"go/token"
	"go/types"
	"os"
	"reflect"
	"strconv"
	"strings"
)

// RSummary is what callers may assume about the reflect-typed results of a
// function of the analysed package.
type RSummary struct {
	CoBound    bool // all reflect-typed results describe the same entity
	MayInvalid bool // a reflect.Value result may be the zero Value
}

// RSummaries computes summaries on demand.
type RSummaries struct {
	P    *Prog
	memo map[*Func]*RSummary
	busy map[*Func]bool
	rec  map[*Func]bool
}

// Recursive reports whether f can reach itself through calls inside its package.
func (rs *RSummaries) Recursive(f *Func) bool {
	if rs.rec == nil {
		rs.rec = map[*Func]bool{}
	}
	if v, ok := rs.rec[f]; ok {
		return v
	}
	seen := map[*Func]bool{}
	var visit func(g *Func) bool
	visit = func(g *Func) bool {
		for _, call := range g.AllCalls(true) {
			h := g.CalleeFunc(call)
			if h == nil || h.Pkg != f.Pkg {
				continue
			}
			if h == f {
				return true
			}
			if !seen[h] {
				seen[h] = true
				if visit(h) {
					return true
				}
			}
		}
		return false
	}
	rs.rec[f] = visit(f)
	return rs.rec[f]
}

// NewRSummaries returns an empty summary table.
func NewRSummaries(p *Prog) *RSummaries {
	return &RSummaries{P: p, memo: map[*Func]*RSummary{}, busy: map[*Func]bool{}}
}

// Of summarises f (nil while f is being summarised: recursion is pessimistic).
func (rs *RSummaries) Of(f *Func) *RSummary {
	if s, ok := rs.memo[f]; ok {
		return s
	}
	if rs.busy[f] || f.Body == nil {
		return nil
	}
	rs.busy[f] = true
	defer delete(rs.busy, f)
	ri := &RInterp{F: f, Sums: rs}
	res := ri.Run()
	sum := &RSummary{CoBound: true}
	if res.Overflow {
		sum = &RSummary{MayInvalid: true}
		rs.memo[f] = sum
		return sum
	}
	info := f.Info()
	var results []*types.Var
	if f.Type.Results != nil {
		for _, fl := range f.Type.Results.List {
			for _, nm := range fl.Names {
				if v, ok := info.Defs[nm].(*types.Var); ok {
					results = append(results, v)
				}
			}
		}
	}
	nret := 0
	for _, e := range res.Exits {
		if e.Return == nil {
			continue // panic / no-return: nothing flows back
		}
		nret++
		var entsOut []string
		var kinds []string
		if len(e.Return.Results) == 0 {
			for _, v := range results {
				if k := RType(v.Type()); k != "" {
					b := e.State.Get("b:" + VarID(v))
					if b == "" {
						b = "z:" + VarID(v)
					}
					entsOut, kinds = append(entsOut, b), append(kinds, k)
				}
			}
		} else {
			ents := map[ast.Expr]string{}
			s := e.State
			for _, r := range e.Return.Results {
				k := RType(info.TypeOf(r))
				if k == "" {
					continue
				}
				for _, c := range CallsIn(r) {
					s = ri.exec(c, s, ents)
				}
				if cl, ok := ast.Unparen(r).(*ast.CompositeLit); ok && k == "Value" && len(cl.Elts) == 0 {
					entsOut, kinds = append(entsOut, "zv@"+ri.at(cl)), append(kinds, k)
					continue
				}
				entsOut, kinds = append(entsOut, ri.entOf(r, s, ents)), append(kinds, k)
			}
			for i, en := range entsOut {
				if kinds[i] == "Value" && ri.Mask(en, s)&RInvalid != 0 {
					sum.MayInvalid = true
				}
			}
			for i := 1; i < len(entsOut); i++ {
				if entsOut[i] != entsOut[0] {
					sum.CoBound = false
				}
			}
			continue
		}
		for i, en := range entsOut {
			if kinds[i] == "Value" && ri.Mask(en, e.State)&RInvalid != 0 {
				sum.MayInvalid = true
			}
			if en != entsOut[0] {
				sum.CoBound = false
			}
		}
	}
	if nret == 0 {
		sum = &RSummary{MayInvalid: true}
	}
	rs.memo[f] = sum
	return sum
}

// Run interprets the function from its entry.
func (ri *RInterp) Run() *Result {
	ri.prepare()
	g := ri.F.Prog.Graph(ri.F)
	init := NewS()
	// named results start as zero values
	if ri.F.Type.Results != nil {
		for _, fl := range ri.F.Type.Results.List {
			for _, nm := range fl.Names {
				if v, ok := ri.info().Defs[nm].(*types.Var); ok && RType(v.Type()) != "" {
					init = init.Set("b:"+VarID(v), "z:"+VarID(v))
				}
			}
		}
	}
	return g.Run(init, ri.Client())
}

// RDebug names a function whose visited (node, state) pairs are printed.
var RDebug = os.Getenv("SIOT_RDEBUG")
var rDebugN, rDebugSkip = 0, func() int { n, _ := strconv.Atoi(os.Getenv("SIOT_RDEBUG_SKIP")); return n }()
var rDebugMax = func() int {
	if n, err := strconv.Atoi(os.Getenv("SIOT_RDEBUG_N")); err == nil {
		return n
	}
	return 400
}()

type rSV struct {
	s S
	v bool
}

// Client builds the flow client.
func (ri *RInterp) Client() Client {
	ri.prepare()
	return Client{
		Node:      ri.node,
		Cond:      ri.cond,
		Other:     ri.other,
		MaxStates: 400000,
	}
}

// rState is a state together with the entities named while executing the
// calls of the current node.
type rState struct {
	s    S
	ents map[ast.Expr]string
}

// execAll executes the calls of n in evaluation order.  Calls of unexported,
// non-recursive functions of the same package are interpreted in place, so
// that what the caller established (kind sets, bounds, validity) holds inside
// the helper and what the helper establishes holds after the call.
func (ri *RInterp) execAll(n ast.Node, s S, ents map[ast.Expr]string) []rState {
	states := []rState{{s, ents}}
	for _, c := range CallsIn(n) {
		var next []rState
		for _, st := range states {
			if callee := ri.inlinable(c); callee != nil {
				rs := ri.inline(c, callee, st.s, st.ents)
				for i, r := range rs {
					e := st.ents
					if i > 0 {
						e = make(map[ast.Expr]string, len(st.ents))
						for k, v := range st.ents {
							e[k] = v
						}
					}
					next = append(next, rState{r, e})
				}
				continue
			}
			next = append(next, rState{ri.exec(c, st.s, st.ents), st.ents})
		}
		states = next
	}
	return states
}

// inlinable returns the callee when the call is interpreted in place.
func (ri *RInterp) inlinable(call *ast.CallExpr) *Func {
	if ri.NoInline {
		return nil
	}
	callee := ri.F.CalleeFunc(call)
	if callee == nil || callee.Decl == nil || callee.Body == nil || callee.Pkg != ri.F.Pkg || ast.IsExported(callee.Decl.Name.Name) {
		return nil
	}
	if ri.depth >= 5 || callee == ri.F {
		return nil
	}
	for _, f := range ri.stack {
		if f == callee {
			return nil
		}
	}
	if ri.Sums != nil && ri.Sums.Recursive(callee) {
		return nil
	}
	sig, ok := callee.Obj.Type().(*types.Signature)
	if !ok || sig.Variadic() || sig.Params().Len() != len(call.Args) || call.Ellipsis.IsValid() {
		return nil
	}
	return callee
}

// inline interprets callee for this call and returns the caller states after it.
func (ri *RInterp) inline(call *ast.CallExpr, callee *Func, s S, ents map[ast.Expr]string) []S {
	info := ri.info()
	sub := &RInterp{F: callee, OnEvent: ri.OnEvent, Sums: ri.Sums, depth: ri.depth + 1, root: ri.rootI()}
	sub.stack = append(append([]*Func{}, ri.stack...), ri.F)
	sub.prepare()
	// reflect.Values handed over are judged inside the callee
	if ri.OnEvent != nil {
		for _, a := range call.Args {
			if RType(info.TypeOf(a)) == "Value" {
				ri.OnEvent(&REvent{I: ri, S: s, ents: ents, Call: call, Name: "arg", Recv: ri.entOf(a, s, ents), Callee: callee, Arg: a, Inlined: true})
			}
		}
	}
	init := s
	bindParam := func(p *types.Var, arg ast.Expr) {
		if p == nil || p.Name() == "_" || p.Name() == "" {
			return
		}
		id := VarID(p)
		switch {
		case RType(p.Type()) != "":
			ent := ri.entOf(arg, s, ents)
			if cl, ok := ast.Unparen(arg).(*ast.CompositeLit); ok && len(cl.Elts) == 0 && RType(p.Type()) == "Value" {
				ent = "zv@" + ri.at(cl)
			}
			init = init.Set("b:"+id, ent)
		case rIsInt(p.Type()):
			init = sub.store(init, id, ri.bounds(arg, s, ents))
		default:
			if bt, ok := p.Type().Underlying().(*types.Basic); ok && bt.Info()&types.IsBoolean != 0 {
				if v := ri.localVar(arg); v != nil && s.Get("bv:"+VarID(v)) != "" {
					init = init.Set("bv:"+id, s.Get("bv:"+VarID(v)))
				}
				return
			}
			if v := ri.localVar(arg); v != nil {
				if ae := s.Get("ae:" + VarID(v)); ae == "T" {
					init = init.Set("ae:"+id, "T")
				}
			}
			// facts about fields of a struct value travel with it
			if at := ri.term(arg); at != "" {
				for k := range s.m {
					for _, tag := range []string{"lb:", "ub:", "rl:", "rc:"} {
						if strings.HasPrefix(k, tag+at+".") {
							init = init.Set(tag+id+k[len(tag+at):], s.Get(k))
						}
					}
				}
			}
		}
	}
	params := callee.Params()
	for i, p := range params {
		if i < len(call.Args) {
			bindParam(p, call.Args[i])
		}
	}
	if callee.Decl.Recv != nil && len(callee.Decl.Recv.List) == 1 && len(callee.Decl.Recv.List[0].Names) == 1 {
		if sel, ok := ast.Unparen(call.Fun).(*ast.SelectorExpr); ok {
			if rv, ok := callee.Info().Defs[callee.Decl.Recv.List[0].Names[0]].(*types.Var); ok {
				bindParam(rv, sel.X)
			}
		}
	}
	if callee.Type.Results != nil {
		for _, fl := range callee.Type.Results.List {
			for _, nm := range fl.Names {
				if v, ok := callee.Info().Defs[nm].(*types.Var); ok && RType(v.Type()) != "" {
					init = init.Set("b:"+VarID(v), "z:"+VarID(v))
				}
			}
		}
	}
	res := callee.Prog.Graph(callee).Run(init, sub.Client())
	if res.Overflow {
		ri.rootI().Overflowed = true
		return nil
	}
	pos := ri.at(call)
	lo, hi := int(callee.Node().Pos()), int(callee.Node().End())
	isLocal := func(id string) bool {
		// VarID = name@pos
		if j := strings.LastIndexByte(id, '@'); j >= 0 {
			num := id[j+1:]
			if k := strings.IndexAny(num, ".|["); k >= 0 {
				num = num[:k]
			}
			if p, err := strconv.Atoi(num); err == nil {
				return p >= lo && p <= hi
			}
		}
		return false
	}
	pre := fmt.Sprintf("rv%d#", sub.depth)
	var out []S
	seen := map[string]bool{}
	for _, e := range res.Exits {
		if e.Return == nil {
			continue // panic / no-return call: nothing comes back
		}
		st := e.State
		// results
		for k := range st.m {
			switch {
			case strings.HasPrefix(k, pre):
				st = st.Set("re:"+pos+"#"+k[len(pre):], st.Get(k)).Del(k)
			default:
				for _, tag := range []string{"lb:", "ub:", "rl:", "rc:", "rg:"} {
					if strings.HasPrefix(k, tag+pre) {
						st = st.Set(tag+"ret@"+pos+"#"+k[len(tag+pre):], st.Get(k)).Del(k)
					}
				}
			}
		}
		// forget the callee's locals
		st = rFilterKeys(st, func(tag, a, b string) bool {
			switch tag {
			case "b", "lb", "ub", "rl", "rc", "rg", "ae", "mK", "bv", "al":
				return isLocal(a)
			}
			return false
		})
		if k := st.Key(); !seen[k] {
			seen[k] = true
			out = append(out, st)
		}
	}
	return out
}

// bindVar assigns variable v (of a reflect type) the entity of rhs.
func (ri *RInterp) bind(s S, lhs ast.Expr, ent string) S {
	v := ri.localVar(lhs)
	if v == nil || RType(v.Type()) == "" {
		return s
	}
	return s.Set("b:"+VarID(v), ent)
}

func (ri *RInterp) assign(s S, lhs, rhs ast.Expr, ents map[ast.Expr]string) S {
	info := ri.info()
	lv := ri.localVar(lhs)
	if lv == nil {
		// store into a tracked container: m[k] = <Value>
		if ix, ok := ast.Unparen(lhs).(*ast.IndexExpr); ok && rhs != nil {
			if mv := ri.localVar(ix.X); mv != nil && s.Has("mK:"+VarID(mv)) && RType(info.TypeOf(rhs)) == "Value" {
				cur := rGetInt(s, "mK:"+VarID(mv))
				m := uint32(*cur) | ri.Mask(ri.entOf(rhs, s, ents), s)
				s = rSetInt(s, "mK:"+VarID(mv), int64(m))
			}
		}
		// assignment to a field path kills facts about it
		if t := ri.term(lhs); t != "" {
			s = ri.killTerm(s, t)
		}
		return s
	}
	id := VarID(lv)
	if RType(lv.Type()) != "" {
		ent := "u:" + id
		if rhs != nil {
			if cl, ok := ast.Unparen(rhs).(*ast.CompositeLit); ok && len(cl.Elts) == 0 && RType(lv.Type()) == "Value" {
				ent = "zv@" + ri.at(cl)
			} else {
				ent = ri.entOf(rhs, s, ents)
			}
		}
		s = ri.killTerm(s, id)
		return s.Set("b:"+id, ent)
	}
	// integers
	if b, ok := lv.Type().Underlying().(*types.Basic); ok && b.Info()&types.IsInteger != 0 {
		return ri.assignInt(s, lhs, rhs, ents)
	}
	s = ri.killTerm(s, id)
	if rhs == nil {
		return s
	}
	// local []int literal / append
	if sl, ok := lv.Type().Underlying().(*types.Slice); ok {
		if eb, ok := sl.Elem().Underlying().(*types.Basic); ok && eb.Info()&types.IsInteger != 0 {
			switch x := ast.Unparen(rhs).(type) {
			case *ast.CompositeLit:
				all := true
				for _, el := range x.Elts {
					if c, ok := ri.constOf(el); !ok || c < 0 {
						all = false
					}
				}
				if all {
					s = s.Set("ae:"+id, "T")
				}
			case *ast.CallExpr:
				// make([]int, 0[, n]) is as empty as the literal []int{}
				if b, ok := Callee(info, x).(*types.Builtin); ok && b.Name() == "make" && len(x.Args) >= 2 {
					if c, ok := ri.constOf(x.Args[1]); ok && c == 0 {
						s = s.Set("ae:"+id, "T")
					}
				}
			}
		}
	}
	// local map[string]reflect.Value / []reflect.Value created empty
	if call, ok := ast.Unparen(rhs).(*ast.CallExpr); ok {
		if b, ok := Callee(info, call).(*types.Builtin); ok && b.Name() == "make" {
			var el types.Type
			switch t := lv.Type().Underlying().(type) {
			case *types.Map:
				el = t.Elem()
			}
			if el != nil && RType(el) == "Value" {
				s = rSetInt(s, "mK:"+id, 0)
			}
		}
	}
	return s
}

// appendFact handles `d = append(d, x…)` for the all-elements fact; pre is the
// state before the assignment killed d's facts.
func (ri *RInterp) appendFact(pre, s S, lhs, rhs ast.Expr, ents map[ast.Expr]string) S {
	lv := ri.localVar(lhs)
	call, ok := ast.Unparen(rhs).(*ast.CallExpr)
	if lv == nil || !ok {
		return s
	}
	if b, ok := Callee(ri.info(), call).(*types.Builtin); !ok || b.Name() != "append" || len(call.Args) < 1 || call.Ellipsis.IsValid() {
		return s
	}
	if ri.localVar(call.Args[0]) != lv {
		return s
	}
	cur := pre.Get("ae:" + VarID(lv))
	if cur == "" {
		return s
	}
	for _, a := range call.Args[1:] {
		if b := ri.bounds(a, pre, ents); b.Lb != nil && *b.Lb >= 0 {
			continue
		}
		t := ri.term(a)
		switch {
		case t == "":
			return s
		case cur == "T":
			cur = "if:" + t
		case cur == "if:"+t:
		default:
			return s
		}
	}
	return s.Set("ae:"+VarID(lv), cur)
}

// node interprets one CFG node; inlined callees and boolean definitions fork
// the state.
func (ri *RInterp) node(n ast.Node, s S) []S {
	if RDebug != "" && RDebug == ri.F.Name {
		rDebugN++
		if rDebugN > rDebugSkip && rDebugN < rDebugSkip+rDebugMax {
			println(ri.at(n), s.Key())
		}
	}
	// b := <condition>  is  if <condition> { b = true } else { b = false }
	if as, ok := n.(*ast.AssignStmt); ok && len(as.Lhs) == 1 && len(as.Rhs) == 1 && (as.Tok == token.ASSIGN || as.Tok == token.DEFINE) {
		if lv := ri.localVar(as.Lhs[0]); lv != nil {
			if bt, ok := lv.Type().Underlying().(*types.Basic); ok && bt.Info()&types.IsBoolean != 0 {
				var out []S
				for _, r := range ri.evalCond(as.Rhs[0], s) {
					st := ri.killTerm(r.s, VarID(lv))
					if r.v {
						st = st.Set("bv:"+VarID(lv), "T")
					} else {
						st = st.Set("bv:"+VarID(lv), "F")
					}
					out = append(out, st)
				}
				return out
			}
		}
	}
	var out []S
	switch n.(type) {
	case *ast.AssignStmt, *ast.ValueSpec, *ast.ReturnStmt:
		for _, st := range ri.execAll(n, s, map[ast.Expr]string{}) {
			out = append(out, ri.node1(n, st.s, st.ents))
		}
	case *ast.IncDecStmt, *ast.Ident:
		out = append(out, ri.node1(n, s, map[ast.Expr]string{}))
	default:
		for _, st := range ri.execAll(n, s, map[ast.Expr]string{}) {
			out = append(out, st.s)
		}
	}
	return out
}

// node1 applies the effect of a statement whose calls have been executed.
func (ri *RInterp) node1(n ast.Node, s S, ents map[ast.Expr]string) S {
	info := ri.info()
	switch y := n.(type) {
	case *ast.ReturnStmt:
		// remember what is returned (read by the inlining caller)
		pre := fmt.Sprintf("rv%d#", ri.depth)
		put := func(i int, t types.Type, e ast.Expr, v *types.Var) {
			switch {
			case RType(t) != "":
				ent := ""
				if e != nil {
					if cl, ok := ast.Unparen(e).(*ast.CompositeLit); ok && len(cl.Elts) == 0 && RType(t) == "Value" {
						ent = "zv@" + ri.at(cl)
					} else {
						ent = ri.entOf(e, s, ents)
					}
				} else {
					ent = ri.entOf(ast.NewIdent(v.Name()), s, ents)
					if b := s.Get("b:" + VarID(v)); b != "" {
						ent = b
					} else {
						ent = "z:" + VarID(v)
					}
				}
				s = s.Set(pre+strconv.Itoa(i), ent)
			case rIsInt(t):
				var b IBound
				if e != nil {
					b = ri.bounds(e, s, ents)
				} else {
					b = ri.termFacts(VarID(v), s)
				}
				s = ri.store(s, pre+strconv.Itoa(i), b)
			}
		}
		if len(y.Results) > 0 {
			for i, e := range y.Results {
				if t := info.TypeOf(e); t != nil {
					if _, isTuple := t.(*types.Tuple); !isTuple {
						put(i, t, e, nil)
					}
				}
			}
		} else if ri.F.Type.Results != nil {
			i := 0
			for _, fl := range ri.F.Type.Results.List {
				for _, nm := range fl.Names {
					if v, ok := info.Defs[nm].(*types.Var); ok {
						put(i, v.Type(), nil, v)
					}
					i++
				}
			}
		}
	case *ast.AssignStmt:
		switch {
		case len(y.Rhs) == 1 && len(y.Lhs) > 1:
			call, _ := ast.Unparen(y.Rhs[0]).(*ast.CallExpr)
			for i, l := range y.Lhs {
				var rhs ast.Expr
				if call != nil {
					e, ok := ents[rTupleKey{call, i}.expr()]
					if !ok {
						if v := s.Get(fmt.Sprintf("re:%s#%d", ri.at(call), i)); v != "" {
							e, ok = v, true
						}
					}
					if ok {
						if lv := ri.localVar(l); lv != nil && RType(lv.Type()) != "" {
							s = ri.killTerm(s, VarID(lv))
							s = s.Set("b:"+VarID(lv), e)
							continue
						}
					}
					if lv := ri.localVar(l); lv != nil && rIsInt(lv.Type()) {
						if t := fmt.Sprintf("ret@%s#%d", ri.at(call), i); rHasTerm(s, t) {
							s = ri.store(s, VarID(lv), ri.termFacts(t, s))
							continue
						}
					}
				}
				s = ri.assign(s, l, rhs, ents)
			}
		case len(y.Lhs) == len(y.Rhs) && (y.Tok == token.ASSIGN || y.Tok == token.DEFINE):
			// evaluate all right-hand sides in the pre-state
			pre := s
			type pend struct {
				l, r ast.Expr
				ent  string
			}
			var ps []pend
			for i, l := range y.Lhs {
				p := pend{l: l, r: y.Rhs[i]}
				if lv := ri.localVar(l); lv != nil && RType(lv.Type()) != "" {
					p.ent = ri.entOf(y.Rhs[i], pre, ents)
					if cl, ok := ast.Unparen(y.Rhs[i]).(*ast.CompositeLit); ok && len(cl.Elts) == 0 && RType(lv.Type()) == "Value" {
						p.ent = "zv@" + ri.at(cl)
					}
				}
				ps = append(ps, p)
			}
			for _, p := range ps {
				if p.ent != "" {
					lv := ri.localVar(p.l)
					s = ri.killTerm(s, VarID(lv))
					s = s.Set("b:"+VarID(lv), p.ent)
					continue
				}
				s = ri.assign(s, p.l, p.r, ents)
				s = ri.appendFact(pre, s, p.l, p.r, ents)
			}
		default:
			for _, l := range y.Lhs {
				s = ri.assign(s, l, nil, ents)
			}
		}
	case *ast.IncDecStmt:
		if y.Tok == token.INC {
			s = ri.incInt(s, y.X, 1)
		} else {
			s = ri.incInt(s, y.X, -1)
		}
	case *ast.ValueSpec:
		for i, nm := range y.Names {
			v, _ := info.Defs[nm].(*types.Var)
			if v == nil {
				continue
			}
			switch {
			case len(y.Values) == len(y.Names):
				s = ri.assign(s, nm, y.Values[i], ents)
			case len(y.Values) == 0 && RType(v.Type()) != "":
				s = ri.killTerm(s, VarID(v))
				s = s.Set("b:"+VarID(v), "z:"+VarID(v))
			case len(y.Values) == 0:
				s = ri.killTerm(s, VarID(v))
				if rIsInt(v.Type()) && ri.localVar(nm) != nil {
					s = rSetInt(rSetInt(s, "lb:"+VarID(v), 0), "ub:"+VarID(v), 0)
				}
			default:
				s = ri.assign(s, nm, nil, ents)
			}
		}
	case *ast.Ident:
		// range key/value placeholder emitted before the loop head
		if rs, ok := ri.F.Prog.Parent(ri.F.File, y).(*ast.RangeStmt); ok && (rs.Key == ast.Expr(y) || rs.Value == ast.Expr(y)) {
			if v, ok := ObjOf(info, y).(*types.Var); ok {
				s = ri.killTerm(s, VarID(v))
			}
		}
	}
	return s
}

func rIsInt(t types.Type) bool {
	b, ok := t.Underlying().(*types.Basic)
	return ok && b.Info()&types.IsInteger != 0
}

// rHasTerm reports whether any integer fact about term t is present.
func rHasTerm(s S, t string) bool {
	for k := range s.m {
		for _, tag := range []string{"lb:", "ub:", "rl:", "rc:", "rg:"} {
			if strings.HasPrefix(k, tag+t) {
				return true
			}
		}
	}
	return false
}

// cond evaluates a condition, executing its calls in short-circuit order and
// refining the state on each edge.
func (ri *RInterp) cond(c ast.Expr, s S) (t, f []S) {
	if fs, ok := ri.F.Prog.Parent(ri.F.File, c).(*ast.ForStmt); ok && fs.Cond == c {
		s = rScopeKill(s, int(fs.Body.Pos()), int(fs.Body.End()))
	}
	for _, r := range ri.evalCond(c, s) {
		if r.v {
			t = append(t, r.s)
		} else {
			f = append(f, r.s)
		}
	}
	return
}

func (ri *RInterp) evalCond(e ast.Expr, s S) []rSV {
	e = ast.Unparen(e)
	info := ri.info()
	if v, ok := ConstBool(info, e); ok {
		return []rSV{{s, v}}
	}
	switch x := e.(type) {
	case *ast.UnaryExpr:
		if x.Op == token.NOT {
			rs := ri.evalCond(x.X, s)
			for i := range rs {
				rs[i].v = !rs[i].v
			}
			return rs
		}
	case *ast.BinaryExpr:
		switch x.Op {
		case token.LAND, token.LOR:
			var out []rSV
			for _, r := range ri.evalCond(x.X, s) {
				if r.v == (x.Op == token.LOR) {
					out = append(out, r)
				} else {
					out = append(out, ri.evalCond(x.Y, r.s)...)
				}
			}
			return out
		}
	}
	// leaf
	var out []rSV
	for _, st := range ri.execAll(e, s, map[ast.Expr]string{}) {
		out = append(out, ri.leaf(e, st.s, st.ents)...)
	}
	return out
}

// ConstBool returns the constant boolean value of e.
func ConstBool(info *types.Info, e ast.Expr) (bool, bool) {
	if tv, ok := info.Types[e]; ok && tv.Value != nil && tv.Value.Kind().String() == "Bool" {
		return tv.Value.String() == "true", true
	}
	return false, false
}

// kindConst returns the reflect.Kind constant an expression denotes.
func (ri *RInterp) kindConst(e ast.Expr) (reflect.Kind, bool) {
	if RType(ri.info().TypeOf(e)) != "Kind" {
		return 0, false
	}
	c, ok := ConstInt(ri.info(), ast.Unparen(e))
	if !ok || c < 0 || c > 26 {
		return 0, false
	}
	return reflect.Kind(c), true
}

func rBoth(t, f *S) []rSV {
	var out []rSV
	if t != nil {
		out = append(out, rSV{*t, true})
	}
	if f != nil {
		out = append(out, rSV{*f, false})
	}
	return out
}

// kindSplit refines entity X against kind k.
func (ri *RInterp) kindSplit(s S, X string, k reflect.Kind) (eq, ne *S) {
	m := ri.Mask(X, s)
	bit := RK(k)
	if m&bit != 0 {
		a := rSetMask(s, X, bit)
		eq = &a
	}
	if m&^bit != 0 {
		b := rSetMask(s, X, m&^bit)
		ne = &b
	}
	return
}

func (ri *RInterp) leaf(e ast.Expr, s S, ents map[ast.Expr]string) []rSV {
	info := ri.info()
	switch x := e.(type) {
	case *ast.Ident:
		if v := ri.localVar(x); v != nil {
			switch s.Get("bv:" + VarID(v)) {
			case "T":
				return []rSV{{s, true}}
			case "F":
				return []rSV{{s, false}}
			}
		}
	case *ast.BinaryExpr:
		a, b, op := x.X, x.Y, x.Op
		// kind comparison
		if op == token.EQL || op == token.NEQ {
			if _, isK := ri.kindConst(a); isK {
				a, b = b, a
			}
			if k, ok := ri.kindConst(b); ok && RType(info.TypeOf(a)) == "Kind" {
				if _, aConst := ri.kindConst(a); !aConst {
					eq, ne := ri.kindSplit(s, ri.entOf(a, s, ents), k)
					if op == token.NEQ {
						eq, ne = ne, eq
					}
					return rBoth(eq, ne)
				}
			}
		}
		// integer comparison
		if bt, ok := info.TypeOf(a).Underlying().(*types.Basic); ok && bt.Info()&types.IsInteger != 0 {
			switch op {
			case token.LSS, token.LEQ, token.GTR, token.GEQ, token.EQL, token.NEQ:
				var out []rSV
				if st, ok := ri.cmpRefine(s, a, b, op, ents); ok {
					out = append(out, rSV{st, true})
				}
				if sf, ok := ri.cmpRefine(s, a, b, rNegOp(op), ents); ok {
					out = append(out, rSV{sf, false})
				}
				return out
			}
		}
	case *ast.CallExpr:
		switch RCallName(info, x) {
		case "Value.IsNil":
			X := ri.entOf(x.Fun.(*ast.SelectorExpr).X, s, ents)
			if s.Get("nn:"+X) == "T" {
				return []rSV{{s, false}}
			}
			return []rSV{{s, true}, {s.Set("nn:"+X, "T"), false}}
		case "Value.IsValid":
			X := ri.entOf(x.Fun.(*ast.SelectorExpr).X, s, ents)
			m := ri.Mask(X, s)
			var out []rSV
			if m&^RInvalid != 0 {
				out = append(out, rSV{rSetMask(s, X, m&^RInvalid), true})
			}
			if m&RInvalid != 0 {
				out = append(out, rSV{rSetMask(s, X, RInvalid), false})
			}
			return out
		case "Value.CanSet":
			X := ri.entOf(x.Fun.(*ast.SelectorExpr).X, s, ents)
			if s.Get("cs:"+X) == "T" {
				return []rSV{{s, true}}
			}
			return []rSV{{s.Set("cs:"+X, "T"), true}, {s, false}}
		}
	}
	ri.Forks++
	return []rSV{{s, true}, {s, false}}
}

// other handles tagged switches on a kind and range loops.
func (ri *RInterp) other(br Branch, s S) (t, f []S) {
	info := ri.info()
	switch br.Kind {
	case BrCase:
		if br.Tag != nil {
			if k, ok := ri.kindConst(br.Case); ok && RType(info.TypeOf(br.Tag)) == "Kind" {
				ents := map[ast.Expr]string{}
				// the tag was evaluated when the switch was entered; a tag that
				// is a call names the same entity again (Kind() has no effect)
				st := s
				for _, c := range CallsIn(br.Tag) {
					oe := ri.OnEvent
					ri.OnEvent = nil
					st = ri.exec(c, st, ents)
					ri.OnEvent = oe
				}
				eq, ne := ri.kindSplit(s, ri.entOf(br.Tag, st, ents), k)
				if eq != nil {
					t = []S{*eq}
				}
				if ne != nil {
					f = []S{*ne}
				}
				return
			}
		}
	case BrRange:
		rs := br.Range
		s = rScopeKill(s, int(rs.Body.Pos()), int(rs.Body.End()))
		ts := s
		kill := func(e ast.Expr) *types.Var {
			if e == nil {
				return nil
			}
			v, _ := ObjOf(info, e).(*types.Var)
			if v != nil {
				ts = ri.killTerm(ts, VarID(v))
			}
			return v
		}
		kv := kill(rs.Key)
		vv := kill(rs.Value)
		xt := info.TypeOf(rs.X)
		if xt != nil {
			switch u := xt.Underlying().(type) {
			case *types.Slice, *types.Array:
				if kv != nil && ri.localVar(rs.Key) != nil {
					if lk := ri.lenKey(rs.X); lk != "" {
						if _, isArr := u.(*types.Array); !isArr {
							ts = ts.Set("rg:"+VarID(kv), lk)
						}
					}
					ts = rSetLb(ts, VarID(kv), 0)
				}
			case *types.Map:
				if vv != nil && RType(u.Elem()) == "Value" {
					ent := "rv:" + VarID(vv)
					ts = rResetEnt(ts, ent)
					mask := RAllKinds
					if mv := ri.localVar(rs.X); mv != nil {
						if m := rGetInt(s, "mK:"+VarID(mv)); m != nil {
							mask = uint32(*m)
						}
					}
					if mask == 0 {
						return nil, []S{s} // nothing was ever stored: no iteration
					}
					ts = rSetMask(ts, ent, mask)
					ts = ts.Set("b:"+VarID(vv), ent)
				}
			}
		}
		if vv != nil && RType(vv.Type()) != "" && ts.Get("b:"+VarID(vv)) == "" {
			ts = ts.Set("b:"+VarID(vv), "u:"+VarID(vv))
		}
		return []S{ts}, []S{s}
	}
	return []S{s}, []S{s}
}
