package kit

import (
	"strconv"
	"strings"
)

// SQLCmp is one comparison `[qual.]col <op> <operand>` found in the condition
// part (WHERE / ON / HAVING) of a statement template.
type SQLCmp struct {
	Qual string // table qualifier of the column, lower case ("" = none)
	Col  string // column, lower case
	// Op is the upper-case operator: = != <> < > <= >= LIKE GLOB REGEXP MATCH IN
	// IS, prefixed with "NOT " when negated (NOT LIKE, IS NOT, NOT IN), and
	// followed by " COLLATE <name>" when the operand carries a collation.
	Op string
	// Bind is the 0-based position of the bind argument the column is compared
	// with (-1 = the operand is not a placeholder).
	Bind int
	// Lit is the text of a string literal operand ('…' without the quotes);
	// HasLit tells it apart from an empty literal.
	Lit    string
	HasLit bool
	// Interp: the operand is a part of the statement text that is not constant (§).
	Interp bool
}

// SQLConds describes the condition part of a statement.
type SQLConds struct {
	Cmps []SQLCmp
	// Conjunctive is false when the condition contains OR, NOT in front of a
	// parenthesis, CASE, or a nested SELECT: a comparison found in it then
	// need not hold for every selected row.
	Conjunctive bool
	// Loose lists the bind positions that occur in the statement but not as the
	// plain right (or left) operand of a comparison with a column (function
	// arguments, arithmetic, LIMIT ?, …).
	Loose []int
}

var sqlCmpOps = map[string]bool{"=": true, "==": true, "!=": true, "<>": true, "<": true, ">": true, "<=": true, ">=": true,
	"LIKE": true, "GLOB": true, "REGEXP": true, "MATCH": true, "IN": true, "IS": true}

// SQLCondsOf extracts the comparisons of a statement template (SQLStmt.Raw).
// ok is false when the text cannot be tokenized.
func SQLCondsOf(raw string) (SQLConds, bool) {
	out := SQLConds{Conjunctive: true}
	toks, ok := sqlTokens(raw)
	if !ok {
		return out, false
	}
	up := func(i int) string {
		if i >= 0 && i < len(toks) {
			return strings.ToUpper(toks[i])
		}
		return ""
	}
	// bind positions: `?` takes the next free position, `?N` names position N
	bindAt := map[int]int{}
	next := 0
	for i, t := range toks {
		if !strings.HasPrefix(t, "?") {
			continue
		}
		if len(t) > 1 {
			if n, err := strconv.Atoi(t[1:]); err == nil && n > 0 {
				bindAt[i] = n - 1
				if n > next {
					next = n
				}
				continue
			}
		}
		bindAt[i] = next
		next++
	}
	used := map[int]bool{}
	// a column reference that ends at token i: ident or ident . ident, not a
	// function call result
	colEndingAt := func(i int) (qual, col string, start int, ok bool) {
		if i < 0 || !isIdent(toks[i]) || sqlKeyword(up(i)) {
			return "", "", 0, false
		}
		col, start = strings.ToLower(toks[i]), i
		if i >= 2 && toks[i-1] == "." && isIdent(toks[i-2]) {
			qual, start = strings.ToLower(toks[i-2]), i-2
		}
		return qual, col, start, true
	}
	colStartingAt := func(i int) (qual, col string, end int, ok bool) {
		if i >= len(toks) || !isIdent(toks[i]) || sqlKeyword(up(i)) {
			return "", "", 0, false
		}
		if i+2 < len(toks) && toks[i+1] == "." && isIdent(toks[i+2]) {
			return strings.ToLower(toks[i]), strings.ToLower(toks[i+2]), i + 2, true
		}
		if i+1 < len(toks) && toks[i+1] == "(" {
			return "", "", 0, false // function call
		}
		return "", strings.ToLower(toks[i]), i, true
	}
	inCond := false
	for i := 0; i < len(toks); i++ {
		u := up(i)
		switch u {
		case "WHERE", "ON", "HAVING":
			inCond = true
		case "OR", "CASE":
			out.Conjunctive = false
		case "SELECT":
			if i > 0 {
				out.Conjunctive = false
			}
		case "NOT":
			if i+1 < len(toks) && toks[i+1] == "(" {
				out.Conjunctive = false
			}
		}
		if !inCond {
			continue
		}
		op := u
		if toks[i] == "=" && i+1 < len(toks) && toks[i+1] == "=" {
			continue // first half of `==`
		}
		if !sqlCmpOps[op] {
			continue
		}
		opStart, opEnd := i, i
		if i > 0 && toks[i-1] == "=" && toks[i] == "=" {
			opStart = i - 1
		}
		if op == "==" {
			op = "="
		}
		if up(opStart-1) == "NOT" { // NOT LIKE, NOT IN, …
			op = "NOT " + op
			opStart--
		}
		if op == "IS" && up(i+1) == "NOT" {
			op = "IS NOT"
			opEnd = i + 1
		}
		cmp := SQLCmp{Op: op, Bind: -1}
		var okL bool
		cmp.Qual, cmp.Col, _, okL = colEndingAt(opStart - 1)
		// right operand
		r := opEnd + 1
		paren := false
		if r < len(toks) && toks[r] == "(" && (strings.HasSuffix(op, "IN")) && r+2 < len(toks) && toks[r+2] == ")" {
			paren = true
			r++
		}
		rhsEnd := r
		okR := false
		if r < len(toks) {
			t := toks[r]
			switch {
			case strings.HasPrefix(t, "?"):
				cmp.Bind, okR = bindAt[r], true
			case strings.HasPrefix(t, "'"):
				cmp.Lit, cmp.HasLit, okR = strings.Trim(t, "'"), true, true
				if strings.Contains(cmp.Lit, "§") {
					cmp.Interp = true
				}
			case t == "§":
				cmp.Interp, okR = true, true
			}
		}
		if paren {
			rhsEnd = r + 1
		}
		if okL && okR {
			if up(rhsEnd+1) == "COLLATE" && rhsEnd+2 < len(toks) {
				cmp.Op += " COLLATE " + up(rhsEnd+2)
			}
			if up(rhsEnd+1) == "ESCAPE" {
				cmp.Op += " ESCAPE"
			}
			if cmp.Bind >= 0 {
				used[cmp.Bind] = true
			}
			out.Cmps = append(out.Cmps, cmp)
			continue
		}
		// mirrored form `? = col` / `'lit' = col` (symmetric operators only)
		if op == "=" || op == "!=" || op == "<>" {
			l := opStart - 1
			if l >= 0 {
				q, c, _, okC := colStartingAt(opEnd + 1)
				t := toks[l]
				if okC {
					m := SQLCmp{Op: op, Bind: -1, Qual: q, Col: c}
					switch {
					case strings.HasPrefix(t, "?"):
						m.Bind = bindAt[l]
						used[m.Bind] = true
						out.Cmps = append(out.Cmps, m)
					case strings.HasPrefix(t, "'"):
						m.Lit, m.HasLit = strings.Trim(t, "'"), true
						out.Cmps = append(out.Cmps, m)
					}
				}
			}
		}
	}
	for i := range toks {
		if b, isBind := bindAt[i]; isBind && !used[b] {
			out.Loose = append(out.Loose, b)
		}
	}
	return out, true
}

func sqlKeyword(u string) bool {
	switch u {
	case "SELECT", "FROM", "WHERE", "AND", "OR", "NOT", "ON", "JOIN", "INNER", "LEFT", "OUTER", "GROUP", "ORDER", "BY",
		"LIMIT", "HAVING", "AS", "IN", "IS", "LIKE", "GLOB", "REGEXP", "MATCH", "NULL", "DISTINCT", "CASE", "WHEN", "THEN",
		"ELSE", "END", "COLLATE", "ESCAPE", "BETWEEN", "EXISTS", "UNION", "SET", "VALUES":
		return true
	}
	return false
}
