package kit

import (
	"fmt"
	"go/ast"
	"go/token"
	"go/types"
	"os"
	"sort"
	"strings"
	"sync"
)

// Sensitivity sweep (thorough tier, DESIGN.md §2.4c "armed-ness"): generic
// syntactic variants of the functions a property analysed are handed to the
// same rules through a go/packages overlay (nothing in /repo is touched).
// A variant is *detected* when the rules report something they do not report
// on the unchanged tree.  Undetected variants are listed in the evidence —
// many are behaviour-preserving or irrelevant to the property (log lines), so
// the sweep never changes the verdict; it measures what the rules are
// sensitive to.

type variant struct {
	file  string
	start int
	end   int
	repl  string
	desc  string
	pos   string
}

func (rep *Report) signature() map[string]bool {
	sig := map[string]bool{}
	for _, r := range rep.Rules {
		for _, o := range r.Obs {
			if o.Status != "ok" {
				sig[o.Rule+"|"+o.Func+"|"+o.Construct+"|"+o.Status] = true
			}
		}
	}
	for _, e := range rep.Errors {
		sig["err|"+e] = true
	}
	return sig
}

var cmpSwap = map[token.Token][]string{
	token.EQL: {"!="}, token.NEQ: {"=="},
	token.LSS: {"<=", ">="}, token.LEQ: {"<", ">"},
	token.GTR: {">=", "<="}, token.GEQ: {">", "<"},
	token.LAND: {"||"}, token.LOR: {"&&"},
}

func genVariants(p *Prog, fns map[string]bool) []variant {
	var out []variant
	seen := map[string]bool{}
	add := func(f *Func, start, end token.Pos, repl, desc string) {
		ps, pe := p.Fset.Position(start), p.Fset.Position(end)
		k := fmt.Sprintf("%s:%d:%d:%s", ps.Filename, ps.Offset, pe.Offset, repl)
		if seen[k] {
			return
		}
		seen[k] = true
		out = append(out, variant{ps.Filename, ps.Offset, pe.Offset, repl, desc, p.Pos(start)})
	}
	for _, pk := range p.Roots {
		if !strings.HasPrefix(pk.PkgPath, ModPath) || len(pk.Syntax) == 0 {
			continue
		}
		rel := strings.TrimPrefix(strings.TrimPrefix(pk.PkgPath, ModPath), "/")
		for _, f := range p.Funcs(rel) {
			if f.Body == nil || f.Lit != nil || !fns[rel+"."+f.Name] {
				continue
			}
			info := f.Info()
			src := func(n ast.Node) string { return ExprStr(p.Fset, n) }
			ast.Inspect(f.Body, func(n ast.Node) bool {
				switch x := n.(type) {
				case *ast.IfStmt:
					add(f, x.Cond.Pos(), x.Cond.End(), "!("+src(x.Cond)+")", "negate condition `"+trunc(src(x.Cond), 50)+"`")
				case *ast.BinaryExpr:
					for _, op := range cmpSwap[x.Op] {
						add(f, x.OpPos, x.OpPos+token.Pos(len(x.Op.String())), op, "operator "+x.Op.String()+" -> "+op+" in `"+trunc(src(x), 50)+"`")
					}
				case *ast.ExprStmt:
					if _, ok := x.X.(*ast.CallExpr); ok {
						if q := QualName(Callee(info, x.X.(*ast.CallExpr))); strings.HasPrefix(q, "log.") || strings.HasPrefix(q, "fmt.Print") {
							return true
						}
						add(f, x.Pos(), x.End(), "", "delete call `"+trunc(src(x), 50)+"`")
					}
				case *ast.AssignStmt:
					if x.Tok != token.DEFINE {
						add(f, x.Pos(), x.End(), "", "delete assignment `"+trunc(src(x), 50)+"`")
					}
				case *ast.ReturnStmt:
					// only returns nested in an if/for/case body (deleting the last return does not compile)
					if par := p.Parent(f.File, x); par != nil {
						if blk, ok := par.(*ast.BlockStmt); ok && blk != f.Body {
							add(f, x.Pos(), x.End(), "", "delete `"+trunc(src(x), 40)+"`")
						}
					}
				case *ast.BranchStmt:
					switch x.Tok {
					case token.CONTINUE:
						add(f, x.Pos(), x.End(), "", "delete `"+src(x)+"`")
						if x.Label == nil {
							add(f, x.Pos(), x.End(), "break", "continue -> break")
						}
					case token.BREAK:
						add(f, x.Pos(), x.End(), "", "delete `"+src(x)+"`")
					}
				case *ast.DeferStmt:
					add(f, x.Pos(), x.End(), "", "delete `"+trunc(src(x), 50)+"`")
				case *ast.CallExpr:
					for i, a := range x.Args {
						if tv, ok := info.Types[a]; ok && tv.Value != nil {
							switch tv.Value.String() {
							case "true":
								add(f, a.Pos(), a.End(), "false", fmt.Sprintf("argument %d true -> false in `%s`", i+1, trunc(src(x), 50)))
							case "false":
								add(f, a.Pos(), a.End(), "true", fmt.Sprintf("argument %d false -> true in `%s`", i+1, trunc(src(x), 50)))
							}
						}
						if i+1 < len(x.Args) {
							b := x.Args[i+1]
							ta, tb := info.TypeOf(a), info.TypeOf(b)
							_, ida := ast.Unparen(a).(*ast.Ident)
							_, idb := ast.Unparen(b).(*ast.Ident)
							if ta != nil && tb != nil && types.Identical(ta, tb) && ida && idb && src(a) != src(b) {
								add(f, a.Pos(), b.End(), src(b)+", "+src(a), fmt.Sprintf("swap arguments %d,%d of `%s`", i+1, i+2, trunc(src(x), 50)))
							}
						}
					}
				}
				return true
			})
		}
	}
	sort.Slice(out, func(i, j int) bool {
		if out[i].file != out[j].file {
			return out[i].file < out[j].file
		}
		if out[i].start != out[j].start {
			return out[i].start < out[j].start
		}
		return out[i].repl < out[j].repl
	})
	return out
}

func sweep(rep *Report, prop *Prop, tier string) {
	if rep.prog == nil || len(rep.Errors) > 0 {
		return
	}
	base := rep.signature()
	vars := genVariants(rep.prog, rep.Functions)
	max := 300
	if v := os.Getenv("SIOT_SWEEP_MAX"); v != "" {
		fmt.Sscanf(v, "%d", &max)
	}
	if len(vars) > max {
		// deterministic thinning
		step := float64(len(vars)) / float64(max)
		var thin []variant
		for i := 0; i < max; i++ {
			thin = append(thin, vars[int(float64(i)*step)])
		}
		vars = thin
	}
	srcCache := map[string][]byte{}
	for _, v := range vars {
		if _, ok := srcCache[v.file]; !ok {
			b, err := os.ReadFile(v.file)
			if err != nil {
				return
			}
			srcCache[v.file] = b
		}
	}
	type result struct {
		v        variant
		detected bool
		skipped  bool
	}
	results := make([]result, len(vars))
	var wg sync.WaitGroup
	sem := make(chan struct{}, 6)
	for i, v := range vars {
		wg.Add(1)
		sem <- struct{}{}
		go func(i int, v variant) {
			defer wg.Done()
			defer func() { <-sem }()
			src := srcCache[v.file]
			mut := append(append(append([]byte{}, src[:v.start]...), []byte(v.repl)...), src[v.end:]...)
			r2 := newReport(rep.PropID, tier)
			runConfig(r2, prop, tier, LoadConfig{Overlay: map[string][]byte{v.file: mut}}, true)
			if r2.loadFailed {
				results[i] = result{v: v, skipped: true}
				return
			}
			det := false
			for k := range r2.signature() {
				if !base[k] {
					det = true
				}
			}
			results[i] = result{v: v, detected: det}
		}(i, v)
	}
	wg.Wait()
	for _, r := range results {
		switch {
		case r.skipped:
			rep.Variants.Skipped++
		case r.detected:
			rep.Variants.Generated++
			rep.Variants.Detected++
		default:
			rep.Variants.Generated++
			if len(rep.Survivors) < 400 {
				rep.Survivors = append(rep.Survivors, r.v.pos+" "+r.v.desc)
			}
		}
	}
	fmt.Printf("sensitivity sweep: %d compiling variants of %d analysed functions, %d detected, %d not detected, %d did not compile\n",
		rep.Variants.Generated, len(rep.Functions), rep.Variants.Detected, rep.Variants.Generated-rep.Variants.Detected, rep.Variants.Skipped)
}

// SweepAll is a development aid (never a registered command): it generates the
// variants of every function analysed by any property whose package path has
// the given prefix and lists those that NO property reports.
func SweepAll(pkgPrefix string, max int, benign bool) int {
	type base struct {
		prop *Prop
		sig  map[string]bool
	}
	prog, err := Load(LoadConfig{})
	if err != nil {
		fmt.Println(err)
		return 2
	}
	fns := map[string]bool{}
	var bases []base
	only := map[string]bool{}
	for _, id := range strings.Split(os.Getenv("SIOT_SWEEP_PROPS"), ",") {
		if id != "" {
			only[id] = true
		}
	}
	for _, id := range IDs() {
		if len(only) > 0 && !only[id] {
			continue
		}
		p := Lookup(id)
		rep := newReport(id, "quick")
		func() {
			defer func() { recover() }()
			c := &Ctx{Prop: p, Tier: "quick", P: prog, Config: "default", rep: rep}
			p.Run(c)
		}()
		for f := range rep.Functions {
			if strings.HasPrefix(f, pkgPrefix) {
				fns[f] = true
			}
		}
		bases = append(bases, base{p, rep.signature()})
	}
	vars := genVariants(prog, fns)
	if benign {
		vars = genBenignVariants(prog, fns)
	}
	if max > 0 && len(vars) > max {
		step := float64(len(vars)) / float64(max)
		var thin []variant
		for i := 0; i < max; i++ {
			thin = append(thin, vars[int(float64(i)*step)])
		}
		vars = thin
	}
	fmt.Printf("sweep-all: %d functions, %d variants\n", len(fns), len(vars))
	src := map[string][]byte{}
	for _, v := range vars {
		if _, ok := src[v.file]; !ok {
			b, _ := os.ReadFile(v.file)
			src[v.file] = b
		}
	}
	type result struct {
		v    variant
		by   []string
		skip bool
	}
	results := make([]result, len(vars))
	var wg sync.WaitGroup
	sem := make(chan struct{}, 6)
	for i, v := range vars {
		wg.Add(1)
		sem <- struct{}{}
		go func(i int, v variant) {
			defer wg.Done()
			defer func() { <-sem }()
			s := src[v.file]
			mut := append(append(append([]byte{}, s[:v.start]...), []byte(v.repl)...), s[v.end:]...)
			pg, err := Load(LoadConfig{Overlay: map[string][]byte{v.file: mut}})
			if err != nil {
				results[i] = result{v: v, skip: true}
				return
			}
			var by []string
			for _, b := range bases {
				rep := newReport(b.prop.ID, "quick")
				func() {
					defer func() {
						if r := recover(); r != nil {
							rep.Errors = append(rep.Errors, fmt.Sprint(r))
						}
					}()
					c := &Ctx{Prop: b.prop, Tier: "quick", P: pg, Config: "default", rep: rep}
					b.prop.Run(c)
				}()
				viol, undec := false, false
				for k := range rep.signature() {
					if !b.sig[k] {
						if strings.HasSuffix(k, "|violation") {
							viol = true
						} else {
							undec = true
						}
					}
				}
				if viol {
					by = append(by, b.prop.ID)
				} else if undec {
					by = append(by, b.prop.ID+"?")
				}
			}
			results[i] = result{v: v, by: by}
		}(i, v)
	}
	wg.Wait()
	nd, nu, ns, nk := 0, 0, 0, 0
	for _, r := range results {
		switch {
		case r.skip:
			nk++
		case len(r.by) == 0:
			ns++
			if !benign {
				fmt.Printf("SURVIVES  %s %s\n", r.v.pos, r.v.desc)
			}
		default:
			onlyUndec := true
			for _, b := range r.by {
				if !strings.HasSuffix(b, "?") {
					onlyUndec = false
				}
			}
			if onlyUndec {
				nu++
				fmt.Printf("UNDECIDED %s %s %v\n", r.v.pos, r.v.desc, r.by)
			} else {
				nd++
				if benign {
					fmt.Printf("FALSE-ALARM %s %s %v\n", r.v.pos, r.v.desc, r.by)
				} else {
					fmt.Printf("caught    %s %s %v\n", r.v.pos, r.v.desc, r.by)
				}
			}
		}
	}
	if benign {
		fmt.Printf("benign sweep %s: %d variants silent, %d FALSE ALARMS, %d undecided only, %d do not compile\n", pkgPrefix, ns, nd, nu, nk)
		return 0
	}
	fmt.Printf("sweep-all %s: %d caught, %d undecided only, %d survive, %d do not compile\n", pkgPrefix, nd, nu, ns, nk)
	return 0
}
