package kit

// Witness search: evaluate a function under a small, directed family of
// input valuations and report the panics met on untainted paths.  A witness
// is a concrete input, so a reported crash is real (under the environment
// assumption that interface methods may return any value); absence of a
// witness proves nothing.

import (
	"fmt"
	"go/ast"
	"go/constant"
	"go/token"
	"go/types"
	"sort"
	"strings"
)

// Witness is a concrete crashing input for one expression.
type Witness struct {
	Node   ast.Node
	Msg    string
	Inputs string
}

// WitnessStats summarises a search.
type WitnessStats struct {
	Runs, Steps int
	Exhausted   bool
}

var baseScalars = []int64{0, 1, 2, 3, 4, 5, 7, 8, 9, 10, 15, 16, 17, 31, 32, 33, 63, 64, 100, 126, 127, 128, 129, 199, 200, 201, 250, 251, 252, 253, 254, 255,
	256, 257, 511, 512, 1023, 1024, 2032, 2033, 2039, 2040, 2041, 2047, 2048, 2049, 4095, 4096, 8191, 8192, 16383, 16384, 32766, 32767, 32768, 32769, 65534, 65535}

// enumValues returns the declared constants of a named integer type.
func enumValues(t types.Type) []int64 {
	n, ok := types.Unalias(t).(*types.Named)
	if !ok || n.Obj().Pkg() == nil || basicInt(t) == nil {
		return nil
	}
	seen := map[int64]bool{}
	var out []int64
	sc := n.Obj().Pkg().Scope()
	for _, name := range sc.Names() {
		if c, ok := sc.Lookup(name).(*types.Const); ok && types.Identical(c.Type(), t) {
			if v, exact := constInt64(c); exact && !seen[v] {
				seen[v] = true
				out = append(out, v)
			}
		}
	}
	sort.Slice(out, func(i, j int) bool { return out[i] < out[j] })
	return out
}

// ComparisonConstants collects integer constants compared with something in f.
func ComparisonConstants(f *Func) []int64 {
	seen := map[int64]bool{}
	var out []int64
	add := func(v int64) {
		for _, d := range []int64{-1, 0, 1} {
			if x := v + d; x >= 0 && !seen[x] {
				seen[x] = true
				out = append(out, x)
			}
		}
	}
	ast.Inspect(f.Body, func(n ast.Node) bool {
		be, ok := n.(*ast.BinaryExpr)
		if !ok {
			return true
		}
		switch be.Op {
		case token.EQL, token.NEQ, token.LSS, token.LEQ, token.GTR, token.GEQ:
			for _, e := range []ast.Expr{be.X, be.Y} {
				if v, ok := ConstInt(f.Info(), e); ok {
					add(v)
				}
			}
		}
		return true
	})
	return out
}

// FindCrashes searches for crashing inputs of f.  When want is given the
// search stops as soon as each of those expressions has a witness.
func FindCrashes(p *Prog, f *Func, budget int, want []ast.Node) (map[ast.Node]*Witness, WitnessStats) {
	found := map[ast.Node]*Witness{}
	allFound := func() bool {
		if len(want) == 0 {
			return false
		}
		for _, n := range want {
			if found[n] == nil {
				return false
			}
		}
		return true
	}
	var stats WitnessStats
	if budget == 0 {
		budget = 6000000
	}
	type inputKind struct {
		t    types.Type
		kind byte // 'e' enum, 'i' scalar, 's' slice, 'o' other
	}
	inputs := map[string]inputKind{}
	classify := func(key string, t types.Type) {
		if _, ok := inputs[key]; ok || t == nil {
			return
		}
		k := inputKind{t: t, kind: 'o'}
		switch {
		case len(enumValues(t)) > 1 && !strings.HasPrefix(key, "elem:") && !strings.HasPrefix(key, "call:"):
			k.kind = 'e'
		case basicInt(t) != nil:
			k.kind = 'i'
		default:
			if _, isSlice := t.Underlying().(*types.Slice); isSlice {
				k.kind = 's'
			}
		}
		inputs[key] = k
	}
	var sums func(cf *Func) *Summary
	sums = func(cf *Func) *Summary {
		if s, ok := summaryGet(cf); ok {
			return s
		}
		summaryPut(cf, nil)
		s := NilReturnSummary(p, cf, sums)
		summaryPut(cf, s)
		return s
	}
	run := func(enum, scalar, ln int64, lenKnown bool) *IResult {
		ip := &Interp{P: p, F: f, Sums: sums, MaxSteps: 50000}
		ip.Input = func(key string, t types.Type) (IVal, bool) {
			classify(key, t)
			switch inputs[key].kind {
			case 'e':
				return IVal{K: 'i', I: enum}, true
			case 'i':
				return IVal{K: 'i', I: scalar}, true
			case 's':
				if lenKnown {
					return IVal{K: 's', L: ln, C: ln, Env: true}, true
				}
			}
			return IVal{}, false
		}
		res := ip.Run()
		stats.Runs++
		stats.Steps += res.Steps
		for _, c := range res.Crashes {
			if _, dup := found[c.Node]; dup {
				continue
			}
			var ins []string
			for key := range res.Consumed {
				switch inputs[key].kind {
				case 'e':
					ins = append(ins, fmt.Sprintf("%s=%d", key, enum))
				case 'i':
					name := key
					if strings.HasPrefix(key, "call:") {
						name = "value read at " + p.Pos(token.Pos(atoi(key[5:])))
					}
					ins = append(ins, fmt.Sprintf("%s=%d", name, wrapFor(scalar, inputs[key].t, f)))
				case 's':
					if lenKnown {
						ins = append(ins, fmt.Sprintf("len(%s)=%d", key, ln))
					}
				}
			}
			sort.Strings(ins)
			found[c.Node] = &Witness{Node: c.Node, Msg: c.Msg, Inputs: strings.Join(ins, ", ")}
		}
		return res
	}
	// discovery run
	first := run(0, 0, 0, false)
	_ = first
	var enums []int64
	for _, k := range inputs {
		if k.kind == 'e' {
			vals := enumValues(k.t)
			// values outside the declared set first (they usually leave the
			// function early): the smallest one, the one just above the
			// largest declared constant, and the ends of the type's range
			declared := map[int64]bool{}
			for _, v := range vals {
				declared[v] = true
			}
			tr := TypeRange(basicInt(k.t), f.Pkg.TypesSizes)
			var extra []int64
			for c := int64(0); c < 256; c++ {
				if !declared[c] {
					extra = append(extra, c)
					break
				}
			}
			if len(vals) > 0 {
				extra = append(extra, vals[len(vals)-1]+1)
			}
			extra = append(extra, 127, 128, 255, tr.Hi)
			seenE := map[int64]bool{}
			for _, c := range extra {
				if c >= tr.Lo && c <= tr.Hi && !declared[c] && !seenE[c] {
					seenE[c] = true
					enums = append(enums, c)
				}
			}
			enums = append(enums, vals...)
			break
		}
	}
	if len(enums) == 0 {
		enums = []int64{0}
	}
	scalars := append([]int64(nil), baseScalars...)
	seen := map[int64]bool{}
	for _, v := range scalars {
		seen[v] = true
	}
	for _, v := range ComparisonConstants(f) {
		if !seen[v] {
			seen[v] = true
			scalars = append(scalars, v)
		}
	}
	sort.Slice(scalars, func(i, j int) bool { return scalars[i] < scalars[j] })
	hasKind := func(res *IResult, kind byte) bool {
		for key := range res.Consumed {
			if inputs[key].kind == kind {
				return true
			}
		}
		return false
	}
	// small values first, for every enumerated code: long loops (large
	// quantities) are expensive and rarely needed for a witness
	skip := map[int64]bool{} // codes whose evaluation never read a scalar input
	for si, sc := range scalars {
		for _, en := range enums {
			if skip[en] && si > 0 {
				continue
			}
			if stats.Steps > budget {
				stats.Exhausted = true
				return found, stats
			}
			if allFound() {
				return found, stats
			}
			a := run(en, sc, 0, false)
			lens := map[int64]bool{}
			for n := int64(0); n <= 9; n++ {
				lens[n] = true
			}
			for _, vs := range a.LenCmp {
				for _, v := range vs {
					for _, d := range []int64{-1, 0, 1} {
						if v+d >= 0 && v+d < 1<<20 {
							lens[v+d] = true
						}
					}
				}
			}
			var ls []int64
			for n := range lens {
				ls = append(ls, n)
			}
			sort.Slice(ls, func(i, j int) bool { return ls[i] < ls[j] })
			usedScalar := hasKind(a, 'i')
			if hasKind(a, 's') {
				for _, n := range ls {
					r := run(en, sc, n, true)
					if hasKind(r, 'i') {
						usedScalar = true
					}
					if stats.Steps > budget {
						stats.Exhausted = true
						return found, stats
					}
					if allFound() {
						return found, stats
					}
				}
			}
			if !usedScalar {
				skip[en] = true
			}
		}
	}
	return found, stats
}

func atoi(s string) int {
	n := 0
	for _, c := range s {
		if c < '0' || c > '9' {
			break
		}
		n = n*10 + int(c-'0')
	}
	return n
}

func wrapFor(v int64, t types.Type, f *Func) int64 {
	return wrap(v, basicInt(t), f.Pkg.TypesSizes)
}

func constInt64(c *types.Const) (int64, bool) {
	return ConstIntVal(c)
}

// ConstIntVal returns the int64 value of a declared constant.
func ConstIntVal(c *types.Const) (int64, bool) {
	v := constant.ToInt(c.Val())
	if v.Kind() != constant.Int {
		return 0, false
	}
	return constant.Int64Val(v)
}
