package kit

import (
	"fmt"
	"go/ast"
	"go/token"
	"go/types"
	"sort"
	"strings"
)

// genBenignVariants generates behaviour-preserving syntactic variants of the
// analysed functions (development aid, -benignsweep): a check that reports a
// violation on one of them raises a false alarm.
//
//	B1  for i, v := range xs {…}        -> for i := 0; i < len(xs); i++ { v := xs[i]; … }
//	B2  if c { A } else { B }           -> if !(c) { B } else { A }
//	B3  a == b / a != b                 -> b == a / b != a      (operands without calls)
//	B4  a < b, a <= b, a > b, a >= b    -> b > a, b >= a, b < a, b <= a
//	B5  x == ""                         -> len(x) == 0
//	B6  if c {…}                        -> b := c; if b {…}
//	B7  if/else-if chain                -> tagless switch
//	B8  switch tag {case a:}            -> switch {case tag == a:}
//	B9  tagless switch                  -> if/else-if chain
func genBenignVariants(p *Prog, fns map[string]bool) []variant {
	var out []variant
	seen := map[string]bool{}
	add := func(start, end token.Pos, repl, desc string) {
		ps, pe := p.Fset.Position(start), p.Fset.Position(end)
		k := fmt.Sprintf("%s:%d:%d:%s", ps.Filename, ps.Offset, pe.Offset, repl)
		if seen[k] {
			return
		}
		seen[k] = true
		out = append(out, variant{ps.Filename, ps.Offset, pe.Offset, repl, desc, p.Pos(start)})
	}
	pure := func(e ast.Expr) bool {
		ok := true
		ast.Inspect(e, func(n ast.Node) bool {
			switch n.(type) {
			case *ast.CallExpr, *ast.FuncLit, *ast.UnaryExpr:
				if u, isU := n.(*ast.UnaryExpr); isU && (u.Op == token.SUB || u.Op == token.NOT) {
					return true
				}
				ok = false
			}
			return true
		})
		return ok
	}
	flip := map[token.Token]string{token.LSS: ">", token.LEQ: ">=", token.GTR: "<", token.GEQ: "<=", token.EQL: "==", token.NEQ: "!="}
	for _, pk := range p.Roots {
		if !strings.HasPrefix(pk.PkgPath, ModPath) || len(pk.Syntax) == 0 {
			continue
		}
		rel := strings.TrimPrefix(strings.TrimPrefix(pk.PkgPath, ModPath), "/")
		for _, f := range p.Funcs(rel) {
			if f.Body == nil || f.Lit != nil || !fns[rel+"."+f.Name] {
				continue
			}
			info := f.Info()
			src := func(n ast.Node) string { return ExprStr(p.Fset, n) }
			ast.Inspect(f.Body, func(n ast.Node) bool {
				switch x := n.(type) {
				case *ast.RangeStmt:
					// B1: only slices/arrays named by a plain variable or field, element
					// variable not captured by a closure, collection not assigned in the body
					t := info.TypeOf(x.X)
					if t == nil {
						return true
					}
					switch t.Underlying().(type) {
					case *types.Slice:
					default:
						return true
					}
					if !pure(x.X) || x.Tok != token.DEFINE {
						return true
					}
					switch ast.Unparen(x.X).(type) {
					case *ast.Ident, *ast.SelectorExpr:
					default:
						return true
					}
					bad := false
					xo := ObjOf(info, x.X)
					ast.Inspect(x.Body, func(m ast.Node) bool {
						switch y := m.(type) {
						case *ast.FuncLit:
							bad = true
						case *ast.AssignStmt:
							for _, l := range y.Lhs {
								if xo != nil && ObjOf(info, l) == xo {
									bad = true
								}
							}
						case *ast.BranchStmt:
							if y.Label != nil {
								// labelled continue/break keep their meaning; fine
							}
						}
						return true
					})
					if bad {
						return true
					}
					key := "ix_"
					if id, ok := x.Key.(*ast.Ident); ok && id.Name != "_" {
						key = id.Name
					}
					head := fmt.Sprintf("for %s := 0; %s < len(%s); %s++ {", key, key, src(x.X), key)
					if id, ok := x.Value.(*ast.Ident); ok && id.Name != "_" {
						head += fmt.Sprintf("\n%s := %s[%s]\n_ = %s", id.Name, src(x.X), key, id.Name)
					}
					if x.Key != nil {
						if id, ok := x.Key.(*ast.Ident); ok && id.Name != "_" {
							head += fmt.Sprintf("\n_ = %s", id.Name)
						}
					}
					add(x.Pos(), x.Body.Lbrace+1, head, "range -> counting loop over `"+trunc(src(x.X), 40)+"`")
				case *ast.IfStmt:
					// B6: the condition moved into a boolean local (not for `else if`, not with an init statement)
					if blk, ok := p.Parent(f.File, x).(*ast.BlockStmt); ok && blk != nil && x.Init == nil {
						if _, isBin := ast.Unparen(x.Cond).(*ast.BinaryExpr); isBin {
							nm := fmt.Sprintf("cnd%d", p.Fset.Position(x.Pos()).Line)
							add(x.Pos(), x.Cond.End(), nm+" := "+src(x.Cond)+"\nif "+nm, "condition `"+trunc(src(x.Cond), 40)+"` moved into a local")
						}
					}
					// B7: an if / else-if chain (not itself an else-if) -> tagless switch
					if _, isElseIf := p.Parent(f.File, x).(*ast.IfStmt); !isElseIf && x.Init == nil {
						if _, chained := x.Else.(*ast.IfStmt); chained {
							hasBreak := false
							ast.Inspect(x, func(m ast.Node) bool {
								if b, ok := m.(*ast.BranchStmt); ok && b.Tok == token.BREAK && b.Label == nil {
									hasBreak = true
								}
								return true
							})
							inner := func(b *ast.BlockStmt) string {
								var sb strings.Builder
								for _, st := range b.List {
									sb.WriteString(src(st))
									sb.WriteString("\n")
								}
								return sb.String()
							}
							var sb strings.Builder
							sb.WriteString("switch {\n")
							okChain := !hasBreak
							var cur ast.Stmt = x
							for cur != nil && okChain {
								switch y := cur.(type) {
								case *ast.IfStmt:
									if y.Init != nil {
										okChain = false
										break
									}
									sb.WriteString("case " + src(y.Cond) + ":\n" + inner(y.Body))
									cur = y.Else
								case *ast.BlockStmt:
									sb.WriteString("default:\n" + inner(y))
									cur = nil
								default:
									okChain = false
								}
							}
							sb.WriteString("}")
							if okChain {
								add(x.Pos(), x.End(), sb.String(), "if chain on `"+trunc(src(x.Cond), 30)+"` -> tagless switch")
							}
						}
					}
					if x.Else == nil || x.Init != nil {
						return true
					}
					eb, ok := x.Else.(*ast.BlockStmt)
					if !ok {
						return true
					}
					repl := "if !(" + src(x.Cond) + ") " + src(eb) + " else " + src(x.Body)
					add(x.Pos(), x.End(), repl, "swap if/else branches of `"+trunc(src(x.Cond), 40)+"`")
				case *ast.SwitchStmt:
					// B8: tagged switch over a pure tag -> tagless switch with equality cases;
					// B9: tagless switch -> if / else-if chain (no fallthrough, no break inside)
					if x.Init != nil {
						return true
					}
					hasBreak := false
					ast.Inspect(x.Body, func(m ast.Node) bool {
						if b, ok := m.(*ast.BranchStmt); ok && (b.Tok == token.FALLTHROUGH || (b.Tok == token.BREAK && b.Label == nil)) {
							hasBreak = true
						}
						return true
					})
					if hasBreak {
						return true
					}
					body := func(cc *ast.CaseClause) string {
						if len(cc.Body) == 0 {
							return ""
						}
						var sb strings.Builder
						for _, st := range cc.Body {
							sb.WriteString(src(st))
							sb.WriteString("\n")
						}
						return sb.String()
					}
					if x.Tag != nil && pure(x.Tag) {
						var sb strings.Builder
						sb.WriteString("switch {\n")
						for _, c := range x.Body.List {
							cc := c.(*ast.CaseClause)
							if cc.List == nil {
								sb.WriteString("default:\n")
							} else {
								var conds []string
								for _, e := range cc.List {
									conds = append(conds, src(x.Tag)+" == "+src(e))
								}
								sb.WriteString("case " + strings.Join(conds, ", ") + ":\n")
							}
							sb.WriteString(body(cc))
						}
						sb.WriteString("}")
						add(x.Pos(), x.End(), sb.String(), "tagged switch on `"+trunc(src(x.Tag), 30)+"` -> tagless switch")
					}
					if x.Tag == nil && len(x.Body.List) >= 1 {
						var sb strings.Builder
						var def *ast.CaseClause
						first := true
						okAll := true
						for _, c := range x.Body.List {
							cc := c.(*ast.CaseClause)
							if cc.List == nil {
								def = cc
								continue
							}
							var conds []string
							for _, e := range cc.List {
								conds = append(conds, "("+src(e)+")")
							}
							if !first {
								sb.WriteString(" else ")
							}
							first = false
							sb.WriteString("if " + strings.Join(conds, " || ") + " {\n" + body(cc) + "}")
						}
						// a default that is not the last clause keeps its meaning as the final else
						if def != nil {
							if first {
								okAll = false
							} else {
								sb.WriteString(" else {\n" + body(def) + "}")
							}
						}
						if okAll && !first {
							add(x.Pos(), x.End(), sb.String(), "tagless switch -> if chain")
						}
					}
				case *ast.BinaryExpr:
					op, ok := flip[x.Op]
					if !ok || !pure(x.X) || !pure(x.Y) {
						return true
					}
					add(x.Pos(), x.End(), src(x.Y)+" "+op+" "+src(x.X), "flip operands of `"+trunc(src(x), 50)+"`")
					if x.Op == token.EQL || x.Op == token.NEQ {
						if tv, ok := info.Types[x.Y]; ok && tv.Value != nil && tv.Value.ExactString() == `""` {
							if b, ok := info.TypeOf(x.X).Underlying().(*types.Basic); ok && b.Kind() == types.String {
								add(x.Pos(), x.End(), "len("+src(x.X)+") "+x.Op.String()+" 0", "`"+trunc(src(x), 40)+"` -> len() form")
							}
						}
					}
				}
				return true
			})
		}
	}
	sort.Slice(out, func(i, j int) bool {
		if out[i].file != out[j].file {
			return out[i].file < out[j].file
		}
		if out[i].start != out[j].start {
			return out[i].start < out[j].start
		}
		return out[i].repl < out[j].repl
	})
	return out
}
