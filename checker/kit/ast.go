package kit

import (
	"bytes"
	"fmt"
	"go/ast"
	"go/constant"
	"go/printer"
	"go/token"
	"go/types"
	"sort"
	"strings"

	"golang.org/x/tools/go/packages"
)

// Func is a function declaration or function literal with a body.
type Func struct {
	Prog  *Prog
	Pkg   *packages.Package
	File  *ast.File
	Decl  *ast.FuncDecl // nil for literals
	Lit   *ast.FuncLit  // nil for declarations
	Outer *Func         // enclosing function of a literal
	Obj   *types.Func   // nil for literals
	Name  string        // "(*DbSqlite).edgePoints", "NewStore", "(*DbSqlite).edgePoints$1"
	Body  *ast.BlockStmt
	Type  *ast.FuncType
	nlit  int
}

func (f *Func) Pos() token.Pos {
	if f.Decl != nil {
		return f.Decl.Pos()
	}
	return f.Lit.Pos()
}

// Node returns the declaring AST node.
func (f *Func) Node() ast.Node {
	if f.Decl != nil {
		return f.Decl
	}
	return f.Lit
}

// Info is the package's types.Info.
func (f *Func) Info() *types.Info { return f.Pkg.TypesInfo }

// Root returns the outermost enclosing declared function.
func (f *Func) Root() *Func {
	for f.Outer != nil {
		f = f.Outer
	}
	return f
}

func recvName(fd *ast.FuncDecl) string {
	if fd.Recv == nil || len(fd.Recv.List) == 0 {
		return ""
	}
	t := fd.Recv.List[0].Type
	star := ""
	if s, ok := t.(*ast.StarExpr); ok {
		star = "*"
		t = s.X
	}
	// strip type parameters
	switch x := t.(type) {
	case *ast.IndexExpr:
		t = x.X
	case *ast.IndexListExpr:
		t = x.X
	}
	if id, ok := t.(*ast.Ident); ok {
		return "(" + star + id.Name + ")."
	}
	return "(?)."
}

// Funcs lists every function declaration and literal of the package (module
// relative path), in source order.
func (p *Prog) Funcs(rel string) []*Func {
	pk := p.MustPkg(rel)
	if fs, ok := p.funcs[pk.PkgPath]; ok {
		return fs
	}
	var out []*Func
	files := append([]*ast.File(nil), pk.Syntax...)
	sort.Slice(files, func(i, j int) bool {
		return p.Fset.Position(files[i].Pos()).Filename < p.Fset.Position(files[j].Pos()).Filename
	})
	for _, file := range files {
		for _, d := range file.Decls {
			fd, ok := d.(*ast.FuncDecl)
			if !ok || fd.Body == nil {
				continue
			}
			obj, _ := pk.TypesInfo.Defs[fd.Name].(*types.Func)
			f := &Func{Prog: p, Pkg: pk, File: file, Decl: fd, Obj: obj, Name: recvName(fd) + fd.Name.Name, Body: fd.Body, Type: fd.Type}
			out = append(out, f)
			if obj != nil {
				p.byObj[obj] = f
			}
			out = append(out, p.collectLits(f, fd.Body)...)
		}
		// function literals in package-level var initialisers
		for _, d := range file.Decls {
			gd, ok := d.(*ast.GenDecl)
			if !ok {
				continue
			}
			holder := &Func{Prog: p, Pkg: pk, File: file, Name: "init"}
			out = append(out, p.collectLits(holder, gd)...)
		}
	}
	p.funcs[pk.PkgPath] = out
	return out
}

func (p *Prog) collectLits(outer *Func, root ast.Node) []*Func {
	var out []*Func
	ast.Inspect(root, func(n ast.Node) bool {
		lit, ok := n.(*ast.FuncLit)
		if !ok {
			return true
		}
		outer.nlit++
		f := &Func{Prog: p, Pkg: outer.Pkg, File: outer.File, Lit: lit, Outer: outer,
			Name: fmt.Sprintf("%s$%d", outer.Name, outer.nlit), Body: lit.Body, Type: lit.Type}
		if outer.Decl == nil && outer.Lit == nil {
			f.Outer = nil
		}
		p.byLit[lit] = f
		out = append(out, f)
		out = append(out, p.collectLits(f, lit.Body)...)
		return false
	})
	return out
}

// FuncNamed finds a declared function by display name in a package; nil if
// absent.  Rules should prefer discovery by effect; this is for reports and
// for locating callees already resolved through types.
func (p *Prog) FuncNamed(rel, name string) *Func {
	for _, f := range p.Funcs(rel) {
		if f.Name == name {
			return f
		}
	}
	return nil
}

// FuncOf returns the Func for a resolved *types.Func declared in the module.
func (p *Prog) FuncOf(obj types.Object) *Func {
	fn, ok := obj.(*types.Func)
	if !ok || fn.Pkg() == nil {
		return nil
	}
	fn = fn.Origin()
	if !strings.HasPrefix(fn.Pkg().Path(), ModPath) {
		return nil
	}
	rel := strings.TrimPrefix(strings.TrimPrefix(fn.Pkg().Path(), ModPath), "/")
	if p.Pkg(rel) == nil {
		return nil
	}
	p.Funcs(rel)
	return p.byObj[fn]
}

// LitFunc returns the Func of a function literal.
func (p *Prog) LitFunc(pkgRel string, lit *ast.FuncLit) *Func {
	p.Funcs(pkgRel)
	return p.byLit[lit]
}

// Parent returns the parent of n within its file.
func (p *Prog) Parent(file *ast.File, n ast.Node) ast.Node {
	m, ok := p.parents[file]
	if !ok {
		m = map[ast.Node]ast.Node{}
		var stack []ast.Node
		ast.Inspect(file, func(x ast.Node) bool {
			if x == nil {
				stack = stack[:len(stack)-1]
				return true
			}
			if len(stack) > 0 {
				m[x] = stack[len(stack)-1]
			}
			stack = append(stack, x)
			return true
		})
		p.parents[file] = m
	}
	return m[n]
}

// Enclosing walks up from n to the first ancestor for which pred holds.
func (f *Func) Enclosing(n ast.Node, pred func(ast.Node) bool) ast.Node {
	for x := f.Prog.Parent(f.File, n); x != nil; x = f.Prog.Parent(f.File, x) {
		if pred(x) {
			return x
		}
	}
	return nil
}

// Callee resolves the called object of a call: *types.Func (function or
// method, generic origin), *types.Var (closure variable, func-typed field or
// parameter), *types.Builtin, or nil (conversion, call of a call result).
func Callee(info *types.Info, call *ast.CallExpr) types.Object {
	fun := ast.Unparen(call.Fun)
	switch x := fun.(type) {
	case *ast.IndexExpr:
		fun = ast.Unparen(x.X)
	case *ast.IndexListExpr:
		fun = ast.Unparen(x.X)
	}
	var obj types.Object
	switch x := fun.(type) {
	case *ast.Ident:
		obj = info.Uses[x]
	case *ast.SelectorExpr:
		if sel, ok := info.Selections[x]; ok {
			obj = sel.Obj()
		} else {
			obj = info.Uses[x.Sel]
		}
	}
	if fn, ok := obj.(*types.Func); ok {
		return fn.Origin()
	}
	if _, ok := obj.(*types.TypeName); ok {
		return nil
	}
	return obj
}

// QualName renders a function object as "pkgpath.Name" or
// "pkgpath.(*T).Name" / "pkgpath.(T).Name" / "pkgpath.(I).Name" for methods.
func QualName(obj types.Object) string {
	fn, ok := obj.(*types.Func)
	if !ok || fn == nil {
		if obj == nil {
			return ""
		}
		if obj.Pkg() != nil {
			return obj.Pkg().Path() + "." + obj.Name()
		}
		return obj.Name()
	}
	sig := fn.Type().(*types.Signature)
	pkg := ""
	if fn.Pkg() != nil {
		pkg = fn.Pkg().Path()
	}
	if r := sig.Recv(); r != nil {
		t := r.Type()
		star := ""
		if pt, ok := t.(*types.Pointer); ok {
			t = pt.Elem()
			star = "*"
		}
		name := "?"
		switch n := t.(type) {
		case *types.Named:
			name = n.Obj().Name()
			if n.Obj().Pkg() != nil {
				pkg = n.Obj().Pkg().Path()
			}
		case *types.Alias:
			name = n.Obj().Name()
		}
		return fmt.Sprintf("%s.(%s%s).%s", pkg, star, name, fn.Name())
	}
	return pkg + "." + fn.Name()
}

// IsFunc reports whether obj is the function/method with the given qualified
// name as produced by QualName.  Several names may be given.
func IsFunc(obj types.Object, names ...string) bool {
	q := QualName(obj)
	for _, n := range names {
		if q == n {
			return true
		}
	}
	return false
}

// CallIs reports whether call resolves to one of the qualified names.
func CallIs(info *types.Info, call *ast.CallExpr, names ...string) bool {
	return IsFunc(Callee(info, call), names...)
}

// Repo qualifies a name inside the analysed module: Repo("store", "(*DbSqlite).edges").
func Repo(rel, name string) string {
	if rel == "" {
		return ModPath + "." + name
	}
	return ModPath + "/" + rel + "." + name
}

// CallsIn returns the calls contained in node n in evaluation (post) order,
// not descending into function literals (their bodies do not run here).
// For defer/go statements the deferred call itself is NOT included (its
// arguments' nested calls are).
func CallsIn(n ast.Node) []*ast.CallExpr {
	var out []*ast.CallExpr
	var skip *ast.CallExpr
	switch s := n.(type) {
	case *ast.DeferStmt:
		skip = s.Call
	case *ast.GoStmt:
		skip = s.Call
	}
	var visit func(x ast.Node)
	visit = func(x ast.Node) {
		if x == nil {
			return
		}
		switch y := x.(type) {
		case *ast.FuncLit:
			return
		case *ast.CallExpr:
			visit(y.Fun)
			for _, a := range y.Args {
				visit(a)
			}
			if y != skip {
				out = append(out, y)
			}
			return
		}
		// generic children traversal
		first := true
		ast.Inspect(x, func(c ast.Node) bool {
			if first {
				first = false
				return true
			}
			if c == nil {
				return false
			}
			visit(c)
			return false
		})
	}
	visit(n)
	return out
}

// AllCalls returns every call in the body of f, optionally descending into
// nested function literals.
func (f *Func) AllCalls(intoLits bool) []*ast.CallExpr {
	var out []*ast.CallExpr
	ast.Inspect(f.Body, func(n ast.Node) bool {
		switch x := n.(type) {
		case *ast.FuncLit:
			return intoLits
		case *ast.CallExpr:
			out = append(out, x)
		}
		return true
	})
	return out
}

// ExprStr prints an expression compactly.
func ExprStr(fset *token.FileSet, n ast.Node) string {
	if n == nil {
		return "<nil>"
	}
	var b bytes.Buffer
	printer.Fprint(&b, fset, n)
	s := b.String()
	s = strings.Join(strings.Fields(s), " ")
	if len(s) > 160 {
		s = s[:157] + "..."
	}
	return s
}

// Str prints a node of f.
func (f *Func) Str(n ast.Node) string { return ExprStr(f.Prog.Fset, n) }

// At renders the position of n.
func (f *Func) At(n ast.Node) string { return f.Prog.Pos(n.Pos()) }

// ObjOf returns the object an identifier expression denotes (use or def).
func ObjOf(info *types.Info, e ast.Expr) types.Object {
	switch x := ast.Unparen(e).(type) {
	case *ast.Ident:
		if o := info.Uses[x]; o != nil {
			return o
		}
		return info.Defs[x]
	case *ast.SelectorExpr:
		if sel, ok := info.Selections[x]; ok {
			return sel.Obj()
		}
		return info.Uses[x.Sel]
	}
	return nil
}

// SameExpr reports structural equality of two side-effect-free expressions
// with identifiers compared by the object they denote.
func SameExpr(info *types.Info, a, b ast.Expr) bool {
	a, b = ast.Unparen(a), ast.Unparen(b)
	switch x := a.(type) {
	case *ast.Ident:
		y, ok := b.(*ast.Ident)
		if !ok {
			return false
		}
		ox, oy := ObjOf(info, x), ObjOf(info, y)
		if ox == nil || oy == nil {
			return x.Name == y.Name
		}
		return ox == oy
	case *ast.SelectorExpr:
		y, ok := b.(*ast.SelectorExpr)
		return ok && x.Sel.Name == y.Sel.Name && SameExpr(info, x.X, y.X)
	case *ast.BasicLit:
		y, ok := b.(*ast.BasicLit)
		if !ok {
			return false
		}
		tx, ty := info.Types[x], info.Types[y]
		if tx.Value != nil && ty.Value != nil {
			return constant.Compare(tx.Value, token.EQL, ty.Value)
		}
		return x.Value == y.Value
	case *ast.IndexExpr:
		y, ok := b.(*ast.IndexExpr)
		return ok && SameExpr(info, x.X, y.X) && SameExpr(info, x.Index, y.Index)
	case *ast.StarExpr:
		y, ok := b.(*ast.StarExpr)
		return ok && SameExpr(info, x.X, y.X)
	case *ast.UnaryExpr:
		y, ok := b.(*ast.UnaryExpr)
		return ok && x.Op == y.Op && SameExpr(info, x.X, y.X)
	case *ast.BinaryExpr:
		y, ok := b.(*ast.BinaryExpr)
		return ok && x.Op == y.Op && SameExpr(info, x.X, y.X) && SameExpr(info, x.Y, y.Y)
	case *ast.CallExpr:
		y, ok := b.(*ast.CallExpr)
		if !ok || len(x.Args) != len(y.Args) || !SameExpr(info, x.Fun, y.Fun) {
			return false
		}
		for i := range x.Args {
			if !SameExpr(info, x.Args[i], y.Args[i]) {
				return false
			}
		}
		return true
	case *ast.SliceExpr:
		y, ok := b.(*ast.SliceExpr)
		if !ok {
			return false
		}
		eq := func(p, q ast.Expr) bool {
			if p == nil || q == nil {
				return p == nil && q == nil
			}
			return SameExpr(info, p, q)
		}
		return SameExpr(info, x.X, y.X) && eq(x.Low, y.Low) && eq(x.High, y.High) && eq(x.Max, y.Max)
	}
	return false
}

// ConstString returns the constant string value of e, if any.
func ConstString(info *types.Info, e ast.Expr) (string, bool) {
	if e == ast.Expr(EmptyStringLit) {
		return "", true
	}
	tv, ok := info.Types[e]
	if !ok || tv.Value == nil || tv.Value.Kind() != constant.String {
		return "", false
	}
	return constant.StringVal(tv.Value), true
}

// ConstInt returns the constant integer value of e, if any.
func ConstInt(info *types.Info, e ast.Expr) (int64, bool) {
	tv, ok := info.Types[e]
	if !ok || tv.Value == nil {
		return 0, false
	}
	v := constant.ToInt(tv.Value)
	if v.Kind() != constant.Int {
		return 0, false
	}
	i, exact := constant.Int64Val(v)
	return i, exact
}

// LocalClosure resolves a variable to the unique function literal assigned to
// it inside f's root function (`rollback := func(){…}` or `var v func(); v =
// func(){…}`), or nil.
func (f *Func) LocalClosure(v types.Object) *Func {
	if v == nil {
		return nil
	}
	root := f.Root()
	var found *ast.FuncLit
	n := 0
	ast.Inspect(root.Body, func(x ast.Node) bool {
		switch s := x.(type) {
		case *ast.AssignStmt:
			for i, l := range s.Lhs {
				if i < len(s.Rhs) && ObjOf(f.Info(), l) == v {
					n++
					if lit, ok := ast.Unparen(s.Rhs[i]).(*ast.FuncLit); ok {
						found = lit
					}
				}
			}
		case *ast.ValueSpec:
			for i, nm := range s.Names {
				if f.Info().Defs[nm] == v && i < len(s.Values) {
					n++
					if lit, ok := ast.Unparen(s.Values[i]).(*ast.FuncLit); ok {
						found = lit
					}
				}
			}
		}
		return true
	})
	if n != 1 || found == nil {
		return nil
	}
	f.Prog.Funcs(strings.TrimPrefix(strings.TrimPrefix(f.Pkg.PkgPath, ModPath), "/"))
	return f.Prog.byLit[found]
}

// CalleeFunc resolves a call to a Func of the analysed module: a declared
// function/method, or a local closure variable.  nil otherwise.
func (f *Func) CalleeFunc(call *ast.CallExpr) *Func {
	if lit, ok := ast.Unparen(call.Fun).(*ast.FuncLit); ok {
		return f.Prog.byLit[lit]
	}
	obj := Callee(f.Info(), call)
	switch o := obj.(type) {
	case *types.Func:
		return f.Prog.FuncOf(o)
	case *types.Var:
		return f.LocalClosure(o)
	}
	return nil
}

// PkgRel returns the module-relative path of f's package.
func (f *Func) PkgRel() string {
	return strings.TrimPrefix(strings.TrimPrefix(f.Pkg.PkgPath, ModPath), "/")
}

// Params returns the parameter objects of f in order.
func (f *Func) Params() []*types.Var {
	var out []*types.Var
	if f.Type.Params == nil {
		return nil
	}
	for _, fl := range f.Type.Params.List {
		for _, nm := range fl.Names {
			if v, ok := f.Info().Defs[nm].(*types.Var); ok {
				out = append(out, v)
			}
		}
	}
	return out
}

// IsNamedType reports whether t (after pointer indirection) is the named type
// pkgpath.name.
func IsNamedType(t types.Type, pkgpath, name string) bool {
	if t == nil {
		return false
	}
	if p, ok := t.(*types.Pointer); ok {
		t = p.Elem()
	}
	t = types.Unalias(t)
	n, ok := t.(*types.Named)
	if !ok {
		return false
	}
	o := n.Obj()
	return o.Name() == name && o.Pkg() != nil && o.Pkg().Path() == pkgpath
}
