package kit

import (
	"go/ast"
	"go/token"
	"go/types"
	"sync"
)

// Loops over a slice come in two spellings: `for i, v := range xs` and the
// canonical `for i := 0; i < len(xs); i++`.  Rules that drive one iteration of
// such a loop (Std.OnBranch with BrRange) see both: a canonical counting loop
// is presented as a synthetic *ast.RangeStmt{Key: i, X: xs, Body: body} (no
// Value), stable per ForStmt.

type canonCache struct {
	mu sync.Mutex
	m  map[*ast.ForStmt]*ast.RangeStmt
}

// CanonLoop returns the synthetic range statement of a canonical counting loop
// over a slice/array/string, or nil.
func (f *Func) CanonLoop(fs *ast.ForStmt) *ast.RangeStmt {
	if fs == nil || fs.Init == nil || fs.Cond == nil || fs.Post == nil {
		return nil
	}
	info := f.Info()
	cc := f.Prog.Aux("kit.canonLoops", func() any { return &canonCache{m: map[*ast.ForStmt]*ast.RangeStmt{}} }).(*canonCache)
	cc.mu.Lock()
	defer cc.mu.Unlock()
	canonLoops := cc.m
	if r, ok := canonLoops[fs]; ok {
		return r
	}
	var synth *ast.RangeStmt
	defer func() { canonLoops[fs] = synth }()
	init, ok := fs.Init.(*ast.AssignStmt)
	if !ok || init.Tok != token.DEFINE || len(init.Lhs) != 1 || len(init.Rhs) != 1 {
		return nil
	}
	iv, ok := init.Lhs[0].(*ast.Ident)
	if !ok {
		return nil
	}
	if v, ok := ConstInt(info, init.Rhs[0]); !ok || v != 0 {
		return nil
	}
	io := info.Defs[iv]
	if io == nil {
		return nil
	}
	post, ok := fs.Post.(*ast.IncDecStmt)
	if !ok || post.Tok != token.INC || ObjOf(info, post.X) != io {
		return nil
	}
	cond, ok := ast.Unparen(fs.Cond).(*ast.BinaryExpr)
	if !ok {
		return nil
	}
	var lenCall ast.Expr
	switch {
	case cond.Op == token.LSS && ObjOf(info, cond.X) == io:
		lenCall = cond.Y
	case cond.Op == token.GTR && ObjOf(info, cond.Y) == io:
		lenCall = cond.X
	case cond.Op == token.NEQ && ObjOf(info, cond.X) == io:
		lenCall = cond.Y
	default:
		return nil
	}
	call, ok := ast.Unparen(lenCall).(*ast.CallExpr)
	if !ok || len(call.Args) != 1 {
		return nil
	}
	if b, ok := Callee(info, call).(*types.Builtin); !ok || b.Name() != "len" {
		return nil
	}
	// the counter is not written in the body
	written := false
	ast.Inspect(fs.Body, func(n ast.Node) bool {
		switch x := n.(type) {
		case *ast.AssignStmt:
			for _, l := range x.Lhs {
				if ObjOf(info, l) == io {
					written = true
				}
			}
		case *ast.IncDecStmt:
			if ObjOf(info, x.X) == io {
				written = true
			}
		case *ast.UnaryExpr:
			if x.Op == token.AND && ObjOf(info, x.X) == io {
				written = true
			}
		}
		return true
	})
	if written {
		return nil
	}
	synth = &ast.RangeStmt{For: fs.For, Key: iv, Tok: token.DEFINE, X: call.Args[0], Body: fs.Body}
	return synth
}

// SliceLoops lists the loops over a slice under root in source order: range
// statements as they are, canonical counting loops as synthetic range statements.
func (f *Func) SliceLoops(root ast.Node) []*ast.RangeStmt {
	var out []*ast.RangeStmt
	if root == nil {
		return nil
	}
	ast.Inspect(root, func(n ast.Node) bool {
		switch x := n.(type) {
		case *ast.RangeStmt:
			out = append(out, x)
		case *ast.ForStmt:
			if r := f.CanonLoop(x); r != nil {
				out = append(out, r)
			}
		}
		return true
	})
	return out
}

// LoopElem reports whether e denotes the element of the current iteration of
// loop: the value variable, or X[key] for the loop's own X and key.
func LoopElem(info *types.Info, loop *ast.RangeStmt, e ast.Expr) bool {
	e = ast.Unparen(e)
	// &xs[i] names the same element
	if u, ok := e.(*ast.UnaryExpr); ok && u.Op == token.AND {
		e = ast.Unparen(u.X)
	}
	if loop.Value != nil {
		if o := ObjOf(info, loop.Value); o != nil && ObjOf(info, e) == o {
			return true
		}
	}
	if ix, ok := e.(*ast.IndexExpr); ok && loop.Key != nil {
		ko := ObjOf(info, loop.Key)
		if ko != nil && ObjOf(info, ix.Index) == ko {
			if xo := ObjOf(info, loop.X); xo != nil && ObjOf(info, ix.X) == xo {
				return true
			}
			if SameExpr(info, ix.X, loop.X) {
				return true
			}
		}
	}
	return false
}

// ElemAliases returns the locals of loop's body defined once as the element
// (`e := xs[i]`, `e := v`), in addition to the value variable.
func ElemAliases(info *types.Info, loop *ast.RangeStmt) map[types.Object]bool {
	out := map[types.Object]bool{}
	if loop.Value != nil {
		if o := ObjOf(info, loop.Value); o != nil {
			out[o] = true
		}
	}
	defs := map[types.Object]int{}
	isElem := map[types.Object]bool{}
	ast.Inspect(loop.Body, func(n ast.Node) bool {
		as, ok := n.(*ast.AssignStmt)
		if !ok || len(as.Lhs) != len(as.Rhs) {
			if ok {
				for _, l := range as.Lhs {
					if o := ObjOf(info, l); o != nil {
						defs[o] += 2
					}
				}
			}
			return true
		}
		for i, l := range as.Lhs {
			o := ObjOf(info, l)
			if o == nil {
				continue
			}
			defs[o]++
			if LoopElem(info, loop, as.Rhs[i]) {
				isElem[o] = true
			}
		}
		return true
	})
	for o := range isElem {
		if defs[o] == 1 {
			out[o] = true
		}
	}
	return out
}

// EnclosingLoop returns the innermost loop over a slice (range or canonical
// counting form) of f whose body contains n.
func (f *Func) EnclosingLoop(n ast.Node) *ast.RangeStmt {
	var best *ast.RangeStmt
	for _, l := range f.SliceLoops(f.Node()) {
		if l.Body.Pos() <= n.Pos() && n.End() <= l.Body.End() {
			if best == nil || l.Body.Pos() >= best.Body.Pos() {
				best = l
			}
		}
	}
	return best
}

// LoopElemVar returns the variable that names the element of loop in its body:
// the value variable, or the single local defined as X[key]; nil if there is none.
func LoopElemVar(info *types.Info, loop *ast.RangeStmt) types.Object {
	if loop.Value != nil {
		return ObjOf(info, loop.Value)
	}
	var out types.Object
	n := 0
	for o := range ElemAliases(info, loop) {
		out = o
		n++
	}
	if n == 1 {
		return out
	}
	return nil
}
