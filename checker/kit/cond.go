package kit

import (
	"go/ast"
	"go/constant"
	"go/token"
	"go/types"
)

// Atomizer maps a leaf boolean expression to an atom id and polarity.
// ok=false means the leaf is not an atom of the rule (it is then treated as
// nondeterministic and reported through OnUnknown).
type Atomizer func(e ast.Expr) (id string, neg bool, ok bool)

// CondEval evaluates boolean conditions over atom valuations kept in S under
// keys "a:<id>" (K4).
type CondEval struct {
	Info       *types.Info
	Atom       Atomizer
	Consistent func(S) bool     // prunes impossible valuations; may be nil
	OnUnknown  func(e ast.Expr) // called for each non-atom leaf forked
	// Fold evaluates a leaf from the state alone (tracked constants …).
	Fold func(e ast.Expr, s S) (val, ok bool)
	// Leaf lets the client decide a leaf and refine the state on each edge
	// (tried first).
	Leaf func(e ast.Expr, s S) (t, f []S, handled bool)
	// LeafLate is like Leaf but tried after Fold and Atom (generic refinements
	// that must not pre-empt a rule's own atoms).
	LeafLate func(e ast.Expr, s S) (t, f []S, handled bool)
}

type sv struct {
	s S
	v bool
}

// Eval returns the states in which cond is true and those in which it is
// false, forking undetermined atoms lazily in short-circuit order.
func (ce *CondEval) Eval(cond ast.Expr, s S) (t, f []S) {
	for _, r := range ce.eval(cond, s) {
		if r.v {
			t = append(t, r.s)
		} else {
			f = append(f, r.s)
		}
	}
	return
}

func (ce *CondEval) eval(e ast.Expr, s S) []sv {
	e = ast.Unparen(e)
	if tv, ok := ce.Info.Types[e]; ok && tv.Value != nil && tv.Value.Kind() == constant.Bool {
		return []sv{{s, constant.BoolVal(tv.Value)}}
	}
	switch x := e.(type) {
	case *ast.UnaryExpr:
		if x.Op == token.NOT {
			rs := ce.eval(x.X, s)
			for i := range rs {
				rs[i].v = !rs[i].v
			}
			return rs
		}
	case *ast.BinaryExpr:
		switch x.Op {
		case token.LAND:
			var out []sv
			for _, r := range ce.eval(x.X, s) {
				if !r.v {
					out = append(out, r)
				} else {
					out = append(out, ce.eval(x.Y, r.s)...)
				}
			}
			return out
		case token.LOR:
			var out []sv
			for _, r := range ce.eval(x.X, s) {
				if r.v {
					out = append(out, r)
				} else {
					out = append(out, ce.eval(x.Y, r.s)...)
				}
			}
			return out
		}
	}
	// `len(x) == 0` on a string is the same test as `x == ""`: rules see one spelling
	e = NormaliseEmptyTest(ce.Info, e)
	if ce.Leaf != nil {
		if t, f, ok := ce.Leaf(e, s); ok {
			var out []sv
			for _, x := range t {
				out = append(out, sv{x, true})
			}
			for _, x := range f {
				out = append(out, sv{x, false})
			}
			return out
		}
	}
	if ce.Fold != nil {
		if v, ok := ce.Fold(e, s); ok {
			return []sv{{s, v}}
		}
	}
	if ce.Atom != nil {
		if id, neg, ok := ce.Atom(e); ok {
			k := "a:" + id
			if s.Has(k) {
				return []sv{{s, (s.Get(k) == "T") != neg}}
			}
			var out []sv
			for _, val := range []string{"T", "F"} {
				s2 := s.Set(k, val)
				if ce.Consistent != nil && !ce.Consistent(s2) {
					continue
				}
				out = append(out, sv{s2, (val == "T") != neg})
			}
			return out
		}
	}
	if ce.LeafLate != nil {
		if t, f, ok := ce.LeafLate(e, s); ok {
			var out []sv
			for _, x := range t {
				out = append(out, sv{x, true})
			}
			for _, x := range f {
				out = append(out, sv{x, false})
			}
			return out
		}
	}
	if ce.OnUnknown != nil {
		ce.OnUnknown(e)
	}
	return []sv{{s, true}, {s, false}}
}

// EmptyStringLit is the literal "" of synthesised comparisons (ConstString knows it).
var EmptyStringLit = &ast.BasicLit{Kind: token.STRING, Value: `""`}

// NormaliseEmptyTest rewrites `len(x) OP k` (k in {0,1}, x of string type) that
// tests emptiness into `x == ""` / `x != ""`; other expressions are returned as is.
func NormaliseEmptyTest(info *types.Info, e ast.Expr) ast.Expr {
	be, ok := ast.Unparen(e).(*ast.BinaryExpr)
	if !ok || info == nil {
		return e
	}
	lenArg := func(x ast.Expr) ast.Expr {
		call, ok := ast.Unparen(x).(*ast.CallExpr)
		if !ok || len(call.Args) != 1 {
			return nil
		}
		if b, ok := Callee(info, call).(*types.Builtin); !ok || b.Name() != "len" {
			return nil
		}
		if t := info.TypeOf(call.Args[0]); t != nil {
			if bt, ok := t.Underlying().(*types.Basic); ok && bt.Info()&types.IsString != 0 {
				return call.Args[0]
			}
		}
		return nil
	}
	x, k, op := lenArg(be.X), be.Y, be.Op
	if x == nil {
		// k OP len(x): mirror
		x, k = lenArg(be.Y), be.X
		switch op {
		case token.LSS:
			op = token.GTR
		case token.LEQ:
			op = token.GEQ
		case token.GTR:
			op = token.LSS
		case token.GEQ:
			op = token.LEQ
		}
	}
	if x == nil {
		return e
	}
	kv, ok := ConstInt(info, k)
	if !ok {
		return e
	}
	var res token.Token
	switch {
	case kv == 0 && (op == token.EQL || op == token.LEQ), kv == 1 && op == token.LSS:
		res = token.EQL
	case kv == 0 && (op == token.NEQ || op == token.GTR), kv == 1 && op == token.GEQ:
		res = token.NEQ
	default:
		return e
	}
	return &ast.BinaryExpr{X: x, OpPos: be.OpPos, Op: res, Y: EmptyStringLit}
}

// CmpAtom decomposes a comparison leaf `a OP b` (==, !=, <, <=, >, >=).
func CmpAtom(e ast.Expr) (a, b ast.Expr, op token.Token, ok bool) {
	be, isBin := ast.Unparen(e).(*ast.BinaryExpr)
	if !isBin {
		return nil, nil, 0, false
	}
	switch be.Op {
	case token.EQL, token.NEQ, token.LSS, token.LEQ, token.GTR, token.GEQ:
		return be.X, be.Y, be.Op, true
	}
	return nil, nil, 0, false
}

// IsNilIdent reports whether e is the predeclared nil.
func IsNilIdent(info *types.Info, e ast.Expr) bool {
	id, ok := ast.Unparen(e).(*ast.Ident)
	if !ok {
		return false
	}
	_, isNil := info.Uses[id].(*types.Nil)
	return isNil
}

// ErrCheck recognises `x != nil` / `x == nil` where x has type error.
// It returns the checked expression and whether the true edge means "error".
func ErrCheck(info *types.Info, e ast.Expr) (x ast.Expr, trueIsErr bool, ok bool) {
	a, b, op, isCmp := CmpAtom(e)
	if !isCmp || (op != token.NEQ && op != token.EQL) {
		return nil, false, false
	}
	if IsNilIdent(info, a) {
		a, b = b, a
	}
	if !IsNilIdent(info, b) {
		return nil, false, false
	}
	t := info.TypeOf(a)
	if t == nil || !types.Identical(t, types.Universe.Lookup("error").Type()) {
		return nil, false, false
	}
	return a, op == token.NEQ, true
}
