package kit

// Integer facts of the reflect-surface interpreter.  Terms are trackable
// local integer variables and field paths on local struct values
// ("g.KeyMaxInt").  Facts:
//
//	lb:<term> = c        term >= c
//	ub:<term> = c        term <= c
//	rl:<term>|<ent> = d  term <= ent.Len() + d
//	rc:<term>|<ent> = d  term <= ent.Cap() + d
//	rg:<term> = <lenkey> 0 <= term < len(x)   (lenkey names the native slice x)
//	ae:<var> = T | if:<term>   every element of the local []int is >= 0
//	                           (if:<term>: provided term >= 0)

import (
	"go/ast"
	"go/token"
	"go/types"
	"math"
	"strconv"
	"strings"
)

// IBound is what is known about an integer expression.
type IBound struct {
	Lb, Ub *int64
	Rl, Rc map[string]int64
	Rg     string // 0 <= e < len(Rg)
	LenOf  string // e == len(LenOf's slice)
}

func rI64(v int64) *int64 { return &v }

// term canonicalises an integer-valued (or any) pure path expression.
func (ri *RInterp) term(e ast.Expr) string {
	e = ast.Unparen(e)
	switch x := e.(type) {
	case *ast.Ident:
		if v := ri.localVar(x); v != nil {
			return VarID(v)
		}
	case *ast.SelectorExpr:
		if sel, ok := ri.info().Selections[x]; ok && sel.Kind() == types.FieldVal && !sel.Indirect() {
			if b := ri.term(x.X); b != "" {
				return b + "." + x.Sel.Name
			}
		}
	}
	return ""
}

// lenKey names `len(x)` of a native slice/map/string path.
func (ri *RInterp) lenKey(x ast.Expr) string {
	if t := ri.term(x); t != "" {
		return "len:" + t
	}
	return ""
}

func rGetInt(s S, k string) *int64 {
	v := s.Get(k)
	if v == "" {
		return nil
	}
	n, err := strconv.ParseInt(v, 10, 64)
	if err != nil {
		return nil
	}
	return &n
}

func rSetInt(s S, k string, v int64) S { return s.Set(k, strconv.FormatInt(v, 10)) }

func (ri *RInterp) termFacts(t string, s S) IBound {
	b := IBound{Lb: rGetInt(s, "lb:"+t), Ub: rGetInt(s, "ub:"+t), Rg: s.Get("rg:" + t)}
	if b.Rg != "" && (b.Lb == nil || *b.Lb < 0) {
		b.Lb = rI64(0)
	}
	for k := range s.m {
		if strings.HasPrefix(k, "rl:"+t+"|") {
			if b.Rl == nil {
				b.Rl = map[string]int64{}
			}
			b.Rl[k[len("rl:"+t+"|"):]] = *rGetInt(s, k)
		} else if strings.HasPrefix(k, "rc:"+t+"|") {
			if b.Rc == nil {
				b.Rc = map[string]int64{}
			}
			b.Rc[k[len("rc:"+t+"|"):]] = *rGetInt(s, k)
		}
	}
	return b
}

// addOverflows reports whether a+b leaves int64 (the analysed int is at most
// 64 bits; 32-bit builds only make bounds tighter).
func rAddOK(a, b int64) bool {
	if b > 0 {
		return a <= math.MaxInt64-b
	}
	return a >= math.MinInt64-b
}

func rShift(b IBound, c int64) IBound {
	// b + c, evaluated by Go with wrap-around: a lower bound survives an
	// addition only when an upper bound excludes wrapping, and vice versa.
	hasUp := b.Ub != nil || len(b.Rl) > 0 || len(b.Rc) > 0 || b.Rg != "" || b.LenOf != ""
	hasLo := b.Lb != nil
	out := IBound{}
	if c == 0 {
		return b
	}
	if c > 0 && !hasUp || c < 0 && !hasLo {
		// may wrap: only facts on the far side survive when that side is
		// bounded, which it is not — nothing is known
		return out
	}
	if b.Lb != nil && rAddOK(*b.Lb, c) {
		out.Lb = rI64(*b.Lb + c)
	}
	if b.Ub != nil && rAddOK(*b.Ub, c) {
		out.Ub = rI64(*b.Ub + c)
	}
	for e, d := range b.Rl {
		if out.Rl == nil {
			out.Rl = map[string]int64{}
		}
		out.Rl[e] = d + c
	}
	for e, d := range b.Rc {
		if out.Rc == nil {
			out.Rc = map[string]int64{}
		}
		out.Rc[e] = d + c
	}
	return out
}

// constOf returns the integer constant value of e.
func (ri *RInterp) constOf(e ast.Expr) (int64, bool) { return ConstInt(ri.info(), ast.Unparen(e)) }

// split decomposes e into term + offset.
func (ri *RInterp) split(e ast.Expr) (string, int64) {
	e = ast.Unparen(e)
	if t := ri.term(e); t != "" {
		return t, 0
	}
	if be, ok := e.(*ast.BinaryExpr); ok && (be.Op == token.ADD || be.Op == token.SUB) {
		if c, ok := ri.constOf(be.Y); ok {
			if t := ri.term(be.X); t != "" {
				if be.Op == token.SUB {
					c = -c
				}
				return t, c
			}
		}
	}
	return "", 0
}

func (ri *RInterp) bounds(e ast.Expr, s S, ents map[ast.Expr]string) IBound {
	e = ast.Unparen(e)
	if c, ok := ri.constOf(e); ok {
		return IBound{Lb: rI64(c), Ub: rI64(c)}
	}
	if t := ri.term(e); t != "" {
		return ri.termFacts(t, s)
	}
	info := ri.info()
	switch x := e.(type) {
	case *ast.BinaryExpr:
		if x.Op == token.ADD || x.Op == token.SUB {
			if c, ok := ri.constOf(x.Y); ok {
				if x.Op == token.SUB {
					c = -c
				}
				return rShift(ri.bounds(x.X, s, ents), c)
			}
		}
	case *ast.CallExpr:
		if t := "ret@" + ri.at(x) + "#0"; rHasTerm(s, t) {
			return ri.termFacts(t, s)
		}
		switch RCallName(info, x) {
		case "Value.Len":
			X := ri.entOf(x.Fun.(*ast.SelectorExpr).X, s, ents)
			return IBound{Lb: rI64(0), Rl: map[string]int64{X: 0}, Rc: map[string]int64{X: 0}, LenOf: s.Get("mk:" + X)}
		case "Value.Cap":
			X := ri.entOf(x.Fun.(*ast.SelectorExpr).X, s, ents)
			return IBound{Lb: rI64(0), Rc: map[string]int64{X: 0}}
		case "Type.Len", "Value.NumField", "Type.NumField":
			return IBound{Lb: rI64(0), Ub: rI64(math.MaxInt32)}
		}
		if b, ok := Callee(info, x).(*types.Builtin); ok && (b.Name() == "len" || b.Name() == "cap") && len(x.Args) == 1 {
			out := IBound{Lb: rI64(0), Ub: rI64(math.MaxInt64 - 1)}
			if b.Name() == "len" {
				out.LenOf = ri.lenKey(x.Args[0])
			}
			return out
		}
	case *ast.IndexExpr:
		if v := ri.localVar(x.X); v != nil && s.Get("ae:"+VarID(v)) == "T" {
			return IBound{Lb: rI64(0)}
		}
	}
	return IBound{}
}

// rSetLb raises the lower bound of a term and resolves pending element facts.
func rSetLb(s S, t string, v int64) S {
	if cur := rGetInt(s, "lb:"+t); cur == nil || *cur < v {
		s = rSetInt(s, "lb:"+t, v)
		// t == u + off  (recorded at `t := u + off`): u >= v - off
		if al := s.Get("al:" + t); al != "" {
			if j := strings.LastIndexByte(al, '|'); j > 0 {
				if off, err := strconv.ParseInt(al[j+1:], 10, 64); err == nil && rAddOK(v, -off) {
					s = rSetLb(s, al[:j], v-off)
				}
			}
		}
	}
	if v >= 0 {
		for k := range s.m {
			if strings.HasPrefix(k, "ae:") && s.Get(k) == "if:"+t {
				s = s.Set(k, "T")
			}
		}
	}
	return s
}

// rSetMin lowers an upper-bound fact.  Length-relative offsets are kept in
// [-2, 2] and constant upper bounds above -2 (weaker facts are sound), so that
// infeasible loop paths cannot ratchet facts down for ever.
func rSetMin(s S, k string, v int64) S {
	if strings.HasPrefix(k, "rl:") || strings.HasPrefix(k, "rc:") {
		if v > 2 {
			return s
		}
		if v < -2 {
			v = -2
		}
	} else if v < -2 {
		v = -2
	}
	if cur := rGetInt(s, k); cur == nil || *cur > v {
		s = rSetInt(s, k, v)
	}
	return s
}

// applyLE refines s with the fact A <= B + c; ok=false when the fact
// contradicts what is known (infeasible edge).
func (ri *RInterp) applyLE(s S, A, B ast.Expr, c int64, ents map[ast.Expr]string) (S, bool) {
	bA, bB := ri.bounds(A, s, ents), ri.bounds(B, s, ents)
	// contradiction on constants only (keeps the engine from exploring
	// impossible loop exits)
	if bA.Lb != nil && bB.Ub != nil && rAddOK(*bB.Ub, c) && *bA.Lb > *bB.Ub+c {
		return s, false
	}
	tA, oA := ri.split(A)
	tB, oB := ri.split(B)
	noWrap := func(t string, o int64) bool {
		if o == 0 {
			return true
		}
		f := ri.termFacts(t, s)
		if o > 0 {
			return f.Ub != nil && rAddOK(*f.Ub, o) || len(f.Rl) > 0 || len(f.Rc) > 0 || f.Rg != ""
		}
		return f.Lb != nil && rAddOK(*f.Lb, o)
	}
	if tA != "" && noWrap(tA, oA) {
		k := c - oA // tA <= B + k
		if bB.Ub != nil && rAddOK(*bB.Ub, k) {
			s = rSetMin(s, "ub:"+tA, *bB.Ub+k)
		}
		for _, e := range rSortedKeys(bB.Rl) {
			s = rSetMin(s, "rl:"+tA+"|"+e, bB.Rl[e]+k)
		}
		for _, e := range rSortedKeys(bB.Rc) {
			s = rSetMin(s, "rc:"+tA+"|"+e, bB.Rc[e]+k)
		}
		if bB.LenOf != "" && k <= -1 {
			if f := ri.termFacts(tA, s); f.Lb != nil && *f.Lb >= 0 {
				s = s.Set("rg:"+tA, bB.LenOf)
			}
		}
		if bB.Rg != "" && k <= 0 { // tA <= (something < len) → tA < len, needs tA >= 0
			if f := ri.termFacts(tA, s); f.Lb != nil && *f.Lb >= 0 {
				s = s.Set("rg:"+tA, bB.Rg)
			}
		}
	}
	if tB != "" && noWrap(tB, oB) && bA.Lb != nil {
		// A <= tB + oB + c  →  tB >= A - oB - c
		d := -oB - c
		if rAddOK(*bA.Lb, d) {
			v := *bA.Lb + d
			if _, isConst := ri.constOf(A); !isConst && v > 2 {
				v = 2 // widened: a bound learnt from another variable
			}
			s = rSetLb(s, tB, v)
			// a lower bound may complete a pending range fact
		}
	}
	return s, true
}

// cmpRefine refines on `A op B` being true.
func (ri *RInterp) cmpRefine(s S, A, B ast.Expr, op token.Token, ents map[ast.Expr]string) (S, bool) {
	switch op {
	case token.LSS:
		return ri.applyLE(s, A, B, -1, ents)
	case token.LEQ:
		return ri.applyLE(s, A, B, 0, ents)
	case token.GTR:
		return ri.applyLE(s, B, A, -1, ents)
	case token.GEQ:
		return ri.applyLE(s, B, A, 0, ents)
	case token.EQL:
		s, ok := ri.applyLE(s, A, B, 0, ents)
		if !ok {
			return s, false
		}
		return ri.applyLE(s, B, A, 0, ents)
	}
	return s, true
}

func rNegOp(op token.Token) token.Token {
	switch op {
	case token.LSS:
		return token.GEQ
	case token.LEQ:
		return token.GTR
	case token.GTR:
		return token.LEQ
	case token.GEQ:
		return token.LSS
	case token.EQL:
		return token.NEQ
	case token.NEQ:
		return token.EQL
	}
	return token.ILLEGAL
}

// killTerm forgets everything that depends on the variable with id `id`
// (the variable is being assigned).
func (ri *RInterp) killTerm(s S, id string) S {
	covers := func(t string) bool { return t == id || strings.HasPrefix(t, id+".") }
	idx := "[" + id + "]"
	lk := "len:" + id
	var rebind []string
	s = rFilterKeys(s, func(tag, a, b string) bool {
		switch tag {
		case "lb", "ub":
			return covers(a)
		case "rl", "rc":
			return covers(a) || strings.Contains(b, idx)
		case "rg":
			return covers(a) || s.Get("rg:"+a) == lk || strings.HasPrefix(s.Get("rg:"+a), lk+".")
		case "mk":
			v := s.Get("mk:" + a)
			return v == lk || strings.HasPrefix(v, lk+".") || strings.Contains(a, idx)
		case "K", "nn", "cs":
			return strings.Contains(a, idx)
		case "ae":
			return a == id || s.Get("ae:"+a) == "if:"+id || strings.HasPrefix(s.Get("ae:"+a), "if:"+id+".")
		case "mK", "bv":
			return a == id
		case "al":
			v := s.Get("al:" + a)
			return covers(a) || v == id || strings.HasPrefix(v, id+"|") || strings.HasPrefix(v, id+".")
		case "b":
			if strings.Contains(s.Get("b:"+a), idx) {
				rebind = append(rebind, a)
			}
		}
		return false
	})
	for _, v := range rebind {
		s = s.Set("b:"+v, "u:"+v+"/"+id)
	}
	return s
}

// selfShift computes the facts of `t ± c` for storing back into t itself
// (x++ / x = x - 1 in a loop), widened so that the state space stays finite.
func (ri *RInterp) selfShift(s S, t string, off int64) IBound {
	old := ri.termFacts(t, s)
	nb := rShift(old, off)
	if off > 0 {
		nb.Lb = old.Lb // still >= the old bound when the addition cannot wrap
		if nb.Rl == nil && nb.Rc == nil && nb.Ub == nil {
			nb.Lb = nil
		}
		nb.Ub = nil // widened: the loop condition re-establishes it
	} else {
		if old.Lb != nil { // cannot wrap: upper facts survive unchanged (weaker)
			nb.Ub, nb.Rl, nb.Rc = old.Ub, old.Rl, old.Rc
		}
		if nb.Lb != nil && *nb.Lb < -4 {
			nb.Lb = nil
		}
	}
	if nb.Ub != nil && *nb.Ub > 1<<20 {
		nb.Ub = nil
	}
	return nb
}

// IncInt handles x++ / x--.
func (ri *RInterp) incInt(s S, lhs ast.Expr, off int64) S {
	t := ri.term(lhs)
	if t == "" {
		return s
	}
	return ri.store(s, t, ri.selfShift(s, t, off))
}

// assignInt handles `lhs = rhs` for an integer term (rhs may be nil).
func (ri *RInterp) assignInt(s S, lhs ast.Expr, rhs ast.Expr, ents map[ast.Expr]string) S {
	t := ri.term(lhs)
	if t == "" {
		return s
	}
	var nb IBound
	alias := ""
	if rhs != nil {
		rt, off := ri.split(rhs)
		if rt == t && off != 0 {
			nb = ri.selfShift(s, t, off)
		} else {
			nb = ri.bounds(rhs, s, ents)
			if rt != "" && rt != t {
				alias = rt + "|" + strconv.FormatInt(off, 10)
			}
		}
	}
	s = ri.store(s, t, nb)
	if alias != "" {
		s = s.Set("al:"+t, alias)
	}
	return s
}

func (ri *RInterp) store(s S, t string, nb IBound) S {
	s = ri.killTerm(s, t)
	if nb.Lb != nil {
		s = rSetLb(s, t, *nb.Lb)
	}
	if nb.Ub != nil {
		s = rSetInt(s, "ub:"+t, *nb.Ub)
	}
	for _, e := range rSortedKeys(nb.Rl) {
		s = rSetMin(s, "rl:"+t+"|"+e, nb.Rl[e])
	}
	for _, e := range rSortedKeys(nb.Rc) {
		s = rSetMin(s, "rc:"+t+"|"+e, nb.Rc[e])
	}
	if nb.Rg != "" {
		s = s.Set("rg:"+t, nb.Rg)
	}
	return s
}
