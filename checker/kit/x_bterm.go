package kit

// K6 (AST flavour), part 1: integer terms, linear forms with floor-division
// atoms, intervals and a small Fourier–Motzkin style prover.  The prover only
// ever derives lower bounds of a difference from facts that hold on every
// path to the obligation, so a "proved" verdict is sound; everything it cannot
// prove is left to the caller (witness search or "undecided").

import (
	"fmt"
	"go/token"
	"go/types"
	"math"
	"sort"
	"strings"
)

// Term kinds.
const (
	TConst  = iota
	TVar    // local variable or parameter
	TField  // Args[0].Obj (auto-dereferenced)
	TLen    // len(Args[0])
	TBin    // Args[0] Op Args[1], evaluated in Typ (wraps)
	TConv   // Typ(Args[0])
	TElem   // Args[0][Args[1]]
	TLookup // constant table lookup Tab[Args[0]]
	TFDiv   // mathematical floor(Lin / Val) (synthetic)
)

// BTerm is a side-effect free integer (or slice-path) expression.
type BTerm struct {
	K    int
	Op   token.Token
	Val  int64
	Obj  types.Object
	Args []*BTerm
	Typ  *types.Basic // integer type of the value, nil for paths of other types
	Tab  *ConstTable
	Lin  *Lin
	key  string
}

// ConstTable is a package-level map literal with constant integer keys and
// values that is never written after initialisation.
type ConstTable struct {
	Obj  types.Object
	M    map[int64]int64
	Keys []int64
	Def  int64 // value for keys that are not listed (zero for maps and arrays)
}

// At returns the table's value for key k.
func (t *ConstTable) At(k int64) int64 {
	if v, ok := t.M[k]; ok {
		return v
	}
	return t.Def
}

func (t *BTerm) Key() string { return t.key }

func (t *BTerm) String() string { return t.key }

func mkTerm(t *BTerm) *BTerm {
	var b strings.Builder
	switch t.K {
	case TConst:
		fmt.Fprintf(&b, "%d", t.Val)
	case TVar:
		fmt.Fprintf(&b, "%s@%d", t.Obj.Name(), t.Obj.Pos())
	case TField:
		fmt.Fprintf(&b, "%s.%s", t.Args[0].key, t.Obj.Name())
	case TLen:
		fmt.Fprintf(&b, "len(%s)", t.Args[0].key)
	case TBin:
		fmt.Fprintf(&b, "(%s %s %s)%s", t.Args[0].key, t.Op, t.Args[1].key, typName(t.Typ))
	case TConv:
		fmt.Fprintf(&b, "%s(%s)", typName(t.Typ), t.Args[0].key)
	case TElem:
		fmt.Fprintf(&b, "%s[%s]", t.Args[0].key, t.Args[1].key)
	case TLookup:
		fmt.Fprintf(&b, "%s@%d[%s]", t.Tab.Obj.Name(), t.Tab.Obj.Pos(), t.Args[0].key)
	case TFDiv:
		fmt.Fprintf(&b, "fd(%s,%d)", t.Lin.Key(), t.Val)
	}
	t.key = b.String()
	return t
}

func typName(b *types.Basic) string {
	if b == nil {
		return "?"
	}
	return b.Name()
}

// Pretty renders a term without object positions.
func (t *BTerm) Pretty() string {
	switch t.K {
	case TConst:
		return fmt.Sprint(t.Val)
	case TVar:
		return t.Obj.Name()
	case TField:
		return t.Args[0].Pretty() + "." + t.Obj.Name()
	case TLen:
		return "len(" + t.Args[0].Pretty() + ")"
	case TBin:
		return "(" + t.Args[0].Pretty() + t.Op.String() + t.Args[1].Pretty() + ")"
	case TConv:
		return typName(t.Typ) + "(" + t.Args[0].Pretty() + ")"
	case TElem:
		return t.Args[0].Pretty() + "[" + t.Args[1].Pretty() + "]"
	case TLookup:
		return t.Tab.Obj.Name() + "[" + t.Args[0].Pretty() + "]"
	case TFDiv:
		return fmt.Sprintf("⌊(%s)/%d⌋", t.Lin.Pretty(), t.Val)
	}
	return "?"
}

// walk visits t and its sub-terms (including the dividend atoms of TFDiv).
func (t *BTerm) walk(fn func(*BTerm)) {
	fn(t)
	for _, a := range t.Args {
		a.walk(fn)
	}
	if t.Lin != nil {
		for _, a := range t.Lin.A {
			a.walk(fn)
		}
	}
}

// ---------------------------------------------------------------------------
// Intervals (closed, saturating)

const ivInf = int64(1) << 62

// Iv is a closed interval; Lo <= -ivInf / Hi >= ivInf mean unbounded.
type Iv struct{ Lo, Hi int64 }

func (a Iv) String() string {
	lo, hi := fmt.Sprint(a.Lo), fmt.Sprint(a.Hi)
	if a.Lo <= -ivInf {
		lo = "-inf"
	}
	if a.Hi >= ivInf {
		hi = "+inf"
	}
	return "[" + lo + "," + hi + "]"
}

func (a Iv) Within(b Iv) bool { return a.Lo >= b.Lo && a.Hi <= b.Hi }
func (a Iv) Empty() bool      { return a.Lo > a.Hi }

func sat(x int64) int64 {
	if x > ivInf {
		return ivInf
	}
	if x < -ivInf {
		return -ivInf
	}
	return x
}

func satAdd(a, b int64) int64 {
	if a >= ivInf || b >= ivInf {
		if a <= -ivInf || b <= -ivInf {
			return 0 // undefined; callers never mix
		}
		return ivInf
	}
	if a <= -ivInf || b <= -ivInf {
		return -ivInf
	}
	return sat(a + b)
}

func satMul(a, b int64) int64 {
	if a == 0 || b == 0 {
		return 0
	}
	neg := (a < 0) != (b < 0)
	ua, ub := a, b
	if ua < 0 {
		ua = -ua
	}
	if ub < 0 {
		ub = -ub
	}
	if ua >= ivInf || ub >= ivInf || ua > ivInf/ub {
		if neg {
			return -ivInf
		}
		return ivInf
	}
	if neg {
		return -(ua * ub)
	}
	return ua * ub
}

func ivAdd(a, b Iv) Iv { return Iv{satAdd(a.Lo, b.Lo), satAdd(a.Hi, b.Hi)} }

func ivScale(a Iv, c int64) Iv {
	if c >= 0 {
		return Iv{satMul(a.Lo, c), satMul(a.Hi, c)}
	}
	return Iv{satMul(a.Hi, c), satMul(a.Lo, c)}
}

func ivMul(a, b Iv) Iv {
	c := []int64{satMul(a.Lo, b.Lo), satMul(a.Lo, b.Hi), satMul(a.Hi, b.Lo), satMul(a.Hi, b.Hi)}
	r := Iv{c[0], c[0]}
	for _, x := range c[1:] {
		if x < r.Lo {
			r.Lo = x
		}
		if x > r.Hi {
			r.Hi = x
		}
	}
	return r
}

func floorDiv(a, d int64) int64 {
	if a <= -ivInf {
		return -ivInf
	}
	if a >= ivInf {
		return ivInf
	}
	q := a / d
	if (a%d != 0) && ((a < 0) != (d < 0)) {
		q--
	}
	return q
}

func ceilDiv(a, d int64) int64 { return -floorDiv(-a, d) }

// TypeRange is the value range of an integer basic type.
func TypeRange(b *types.Basic, sizes types.Sizes) Iv {
	if b == nil || b.Info()&types.IsInteger == 0 {
		return Iv{-ivInf, ivInf}
	}
	bits := int64(64)
	if sizes != nil {
		bits = sizes.Sizeof(b) * 8
	}
	if b.Info()&types.IsUnsigned != 0 {
		if bits >= 63 {
			return Iv{0, ivInf}
		}
		return Iv{0, (int64(1) << bits) - 1}
	}
	if bits >= 63 {
		return Iv{-ivInf, ivInf}
	}
	return Iv{-(int64(1) << (bits - 1)), (int64(1) << (bits - 1)) - 1}
}

// ---------------------------------------------------------------------------
// Linear forms

// Lin is C + Σ T[k]·A[k] over mathematical integers.
type Lin struct {
	C int64
	T map[string]int64
	A map[string]*BTerm
}

func linConst(c int64) *Lin { return &Lin{C: c} }

func linAtom(t *BTerm) *Lin {
	return &Lin{T: map[string]int64{t.key: 1}, A: map[string]*BTerm{t.key: t}}
}

func (l *Lin) clone() *Lin {
	n := &Lin{C: l.C}
	if len(l.T) > 0 {
		n.T = make(map[string]int64, len(l.T))
		n.A = make(map[string]*BTerm, len(l.T))
		for k, v := range l.T {
			n.T[k] = v
			n.A[k] = l.A[k]
		}
	}
	return n
}

func (l *Lin) addScaled(m *Lin, c int64) *Lin {
	n := l.clone()
	n.C += m.C * c
	for k, v := range m.T {
		if n.T == nil {
			n.T = map[string]int64{}
			n.A = map[string]*BTerm{}
		}
		n.T[k] += v * c
		n.A[k] = m.A[k]
		if n.T[k] == 0 {
			delete(n.T, k)
			delete(n.A, k)
		}
	}
	return n
}

func (l *Lin) add(m *Lin) *Lin    { return l.addScaled(m, 1) }
func (l *Lin) sub(m *Lin) *Lin    { return l.addScaled(m, -1) }
func (l *Lin) scale(c int64) *Lin { return linConst(0).addScaled(l, c) }
func (l *Lin) addC(c int64) *Lin  { n := l.clone(); n.C += c; return n }

func (l *Lin) isConst() bool { return len(l.T) == 0 }

func (l *Lin) keys() []string {
	ks := make([]string, 0, len(l.T))
	for k := range l.T {
		ks = append(ks, k)
	}
	sort.Strings(ks)
	return ks
}

// Key canonically serialises the form.
func (l *Lin) Key() string {
	var b strings.Builder
	for _, k := range l.keys() {
		fmt.Fprintf(&b, "%+d*%s", l.T[k], k)
	}
	fmt.Fprintf(&b, "%+d", l.C)
	return b.String()
}

// Pretty renders the form for reports.
func (l *Lin) Pretty() string {
	var parts []string
	for _, k := range l.keys() {
		c := l.T[k]
		switch c {
		case 1:
			parts = append(parts, "+"+l.A[k].Pretty())
		case -1:
			parts = append(parts, "-"+l.A[k].Pretty())
		default:
			parts = append(parts, fmt.Sprintf("%+d·%s", c, l.A[k].Pretty()))
		}
	}
	if l.C != 0 || len(parts) == 0 {
		parts = append(parts, fmt.Sprintf("%+d", l.C))
	}
	return strings.TrimPrefix(strings.Join(parts, ""), "+")
}

// ---------------------------------------------------------------------------
// Environment: the facts that hold at one program point.

// BFact is a fact of the must-analysis.
type BFact struct {
	Kind byte // 'd' boolean definition (see below); 'c' comparison L Op R; 'e' equation: atom Lhs == Rhs (substitution); 's' Lhs ∈ Set; 'n' pending: facts Cond hold when error variable Obj is nil
	L, R *BTerm
	Op   token.Token // LSS LEQ EQL NEQ GEQ GTR
	RLin *Lin        // 'e' with a mathematical right-hand side (idiom invariants)
	Set  map[int64]bool
	Obj  types.Object
	Cond []*BFact
	// 'd': boolean local Obj was set to a condition; Cond are the facts that
	// hold when it is true, CondF when it is false; NilT / NilF the error
	// variables known to be nil then
	CondF      []*BFact
	NilT, NilF []types.Object
	Src        string // where the fact comes from (for reports)
	key        string
}

func (f *BFact) Key() string { return f.key }

func (f *BFact) Pretty() string {
	switch f.Kind {
	case 'c':
		return f.L.Pretty() + " " + f.Op.String() + " " + f.R.Pretty()
	case 'e':
		if f.RLin != nil {
			return f.L.Pretty() + " == " + f.RLin.Pretty()
		}
		return f.L.Pretty() + " == " + f.R.Pretty()
	case 's':
		var vs []int64
		for v := range f.Set {
			vs = append(vs, v)
		}
		sort.Slice(vs, func(i, j int) bool { return vs[i] < vs[j] })
		return fmt.Sprintf("%s ∈ %v", f.L.Pretty(), vs)
	case 'n':
		var ps []string
		for _, c := range f.Cond {
			ps = append(ps, c.Pretty())
		}
		return fmt.Sprintf("%s == nil ⇒ %s", f.Obj.Name(), strings.Join(ps, " ∧ "))
	case 'd':
		return fmt.Sprintf("%s holds a condition (%s)", f.Obj.Name(), f.Src)
	}
	return "?"
}

func (f *BFact) terms(fn func(*BTerm)) {
	if f.L != nil {
		f.L.walk(fn)
	}
	if f.R != nil {
		f.R.walk(fn)
	}
	if f.RLin != nil {
		for _, a := range f.RLin.A {
			a.walk(fn)
		}
	}
	for _, c := range f.Cond {
		c.terms(fn)
	}
	for _, c := range f.CondF {
		c.terms(fn)
	}
}

// Env evaluates terms under a fact set.
type Env struct {
	Sizes  types.Sizes
	Facts  []*BFact
	eq     map[string]*BFact // atom key -> equation
	sets   map[string]map[int64]bool
	atomIv map[string]Iv
	gs     []*gform
	depth  int
	budget int
	Trace  []string
}

type gform struct {
	g   *Lin // g >= 0
	src *BFact
}

// NewEnv prepares an evaluation environment from facts.
func NewEnv(sizes types.Sizes, facts []*BFact) *Env {
	e := &Env{Sizes: sizes, Facts: facts, eq: map[string]*BFact{}, sets: map[string]map[int64]bool{}, atomIv: map[string]Iv{}}
	for _, f := range facts {
		switch f.Kind {
		case 'e':
			e.eq[f.L.key] = f
		case 's':
			e.sets[e.canon(f.L).key] = f.Set
		}
	}
	for _, f := range facts {
		if f.Kind == 's' {
			e.sets[e.canon(f.L).key] = f.Set
		}
	}
	e.refine()
	return e
}

// canon follows alias equations (v == path).
func (e *Env) canon(t *BTerm) *BTerm {
	for i := 0; i < 8; i++ {
		f, ok := e.eq[t.key]
		if !ok || f.R == nil {
			return t
		}
		switch f.R.K {
		case TVar, TField:
			t = f.R
		default:
			return t
		}
	}
	return t
}

func (e *Env) baseIv(t *BTerm) Iv {
	switch t.K {
	case TConst:
		return Iv{t.Val, t.Val}
	case TLen:
		// with a 32-bit int, lengths are assumed to stay far from the
		// wrap-around point (no Modbus buffer comes near 16 Mi elements)
		if e.Sizes != nil && e.Sizes.Sizeof(types.Typ[types.Int]) < 8 {
			return Iv{0, 1 << 24}
		}
		return Iv{0, ivInf}
	case TLookup:
		var vals []int64
		if s, ok := e.sets[e.canon(t.Args[0]).key]; ok {
			for k := range s {
				vals = append(vals, t.Tab.At(k)) // missing key -> default
			}
		} else {
			kiv := e.IvTerm(t.Args[0])
			all := true
			for _, k := range t.Tab.Keys {
				if k >= kiv.Lo && k <= kiv.Hi {
					vals = append(vals, t.Tab.At(k))
				} else {
					all = false
				}
			}
			_ = all
			vals = append(vals, t.Tab.Def)
		}
		if len(vals) == 0 {
			return Iv{0, 0}
		}
		r := Iv{vals[0], vals[0]}
		for _, v := range vals {
			if v < r.Lo {
				r.Lo = v
			}
			if v > r.Hi {
				r.Hi = v
			}
		}
		return r
	case TFDiv:
		iv := e.IvLin(t.Lin)
		return Iv{floorDiv(iv.Lo, t.Val), floorDiv(iv.Hi, t.Val)}
	case TBin:
		a, b := e.IvTerm(t.Args[0]), e.IvTerm(t.Args[1])
		tr := TypeRange(t.Typ, e.Sizes)
		switch t.Op {
		case token.MUL:
			if r := ivMul(a, b); r.Within(tr) {
				return r
			}
		case token.AND:
			// x & m with m >= 0 constant: result in [0, m]
			if b.Lo == b.Hi && b.Lo >= 0 {
				return Iv{0, b.Lo}
			}
			if a.Lo == a.Hi && a.Lo >= 0 {
				return Iv{0, a.Lo}
			}
		case token.REM:
			if b.Lo == b.Hi && b.Lo > 0 {
				if a.Lo >= 0 {
					return Iv{0, b.Lo - 1}
				}
				return Iv{-(b.Lo - 1), b.Lo - 1}
			}
		case token.QUO:
			if b.Lo == b.Hi && b.Lo > 0 && a.Lo >= 0 {
				return Iv{a.Lo / b.Lo, floorDiv(a.Hi, b.Lo)}
			}
		case token.SHR:
			if a.Lo >= 0 {
				return Iv{0, a.Hi}
			}
		}
		return tr
	}
	return TypeRange(t.Typ, e.Sizes)
}

func (e *Env) atomInterval(t *BTerm) Iv {
	b := e.baseIv(t)
	if r, ok := e.atomIv[t.key]; ok {
		if r.Lo > b.Lo {
			b.Lo = r.Lo
		}
		if r.Hi < b.Hi {
			b.Hi = r.Hi
		}
	}
	if s, ok := e.sets[e.canon(t).key]; ok && len(s) > 0 {
		lo, hi := int64(math.MaxInt64), int64(math.MinInt64)
		for v := range s {
			if v < lo {
				lo = v
			}
			if v > hi {
				hi = v
			}
		}
		if lo > b.Lo {
			b.Lo = lo
		}
		if hi < b.Hi {
			b.Hi = hi
		}
	}
	return b
}

// IvLin is the interval of a linear form from the intervals of its atoms.
func (e *Env) IvLin(l *Lin) Iv {
	r := Iv{l.C, l.C}
	for k, c := range l.T {
		r = ivAdd(r, ivScale(e.atomInterval(l.A[k]), c))
	}
	return r
}

// IvTerm is the interval of the Go value of t.
func (e *Env) IvTerm(t *BTerm) Iv {
	if t.Typ == nil && t.K != TConst && t.K != TFDiv && t.K != TLen {
		return Iv{-ivInf, ivInf}
	}
	return e.IvLin(e.LinOf(t))
}

// LinOf converts the Go value of an integer term to a linear form over
// atoms.  Arithmetic that may wrap in its Go type, lossy conversions and
// non-linear operations become atoms of their own.
func (e *Env) LinOf(t *BTerm) *Lin {
	e.depth++
	defer func() { e.depth-- }()
	if e.depth > 40 {
		return linAtom(t)
	}
	switch t.K {
	case TConst:
		return linConst(t.Val)
	case TVar, TField, TLen:
		if f, ok := e.eq[t.key]; ok {
			if f.RLin != nil {
				return f.RLin
			}
			if !mentions(f.R, t.key) {
				return e.LinOf(f.R)
			}
		}
		return linAtom(t)
	case TConv:
		la := e.LinOf(t.Args[0])
		if e.IvLin(la).Within(TypeRange(t.Typ, e.Sizes)) {
			return la
		}
		return linAtom(t)
	case TBin:
		tr := TypeRange(t.Typ, e.Sizes)
		la, lb := e.LinOf(t.Args[0]), e.LinOf(t.Args[1])
		fits := func(l *Lin) *Lin {
			if e.IvLin(l).Within(tr) {
				return l
			}
			return linAtom(t)
		}
		switch t.Op {
		case token.ADD:
			return fits(la.add(lb))
		case token.SUB:
			return fits(la.sub(lb))
		case token.MUL:
			if lb.isConst() {
				return fits(la.scale(lb.C))
			}
			if la.isConst() {
				return fits(lb.scale(la.C))
			}
		case token.QUO:
			if lb.isConst() && lb.C > 0 && e.IvLin(la).Lo >= 0 {
				return e.fdiv(la, lb.C)
			}
		case token.REM:
			if lb.isConst() && lb.C > 0 && e.IvLin(la).Lo >= 0 {
				return la.sub(e.fdiv(la, lb.C).scale(lb.C))
			}
		case token.SHR:
			if lb.isConst() && lb.C >= 0 && lb.C < 62 && e.IvLin(la).Lo >= 0 {
				return e.fdiv(la, int64(1)<<lb.C)
			}
		case token.SHL:
			if lb.isConst() && lb.C >= 0 && lb.C < 62 {
				return fits(la.scale(int64(1) << lb.C))
			}
		case token.AND:
			m, x := lb, la
			if !m.isConst() {
				m, x = la, lb
			}
			if m.isConst() && m.C >= 0 && (m.C+1)&m.C == 0 && e.IvLin(x).Lo >= 0 {
				d := m.C + 1
				return x.sub(e.fdiv(x, d).scale(d))
			}
		}
		return linAtom(t)
	}
	return linAtom(t)
}

func mentions(t *BTerm, key string) bool {
	found := false
	t.walk(func(x *BTerm) {
		if x.key == key {
			found = true
		}
	})
	return found
}

// fdiv returns floor(l/d) in normal form: multiples of d are pulled out of
// the floor, the remaining dividend has coefficients in [0,d).
func (e *Env) fdiv(l *Lin, d int64) *Lin {
	q, r := linConst(0), linConst(0)
	qc := floorDiv(l.C, d)
	q.C = qc
	r.C = l.C - qc*d
	for _, k := range l.keys() {
		c := l.T[k]
		qk := floorDiv(c, d)
		rk := c - qk*d
		one := linAtom(l.A[k])
		if qk != 0 {
			q = q.addScaled(one, qk)
		}
		if rk != 0 {
			r = r.addScaled(one, rk)
		}
	}
	if r.isConst() {
		return q // r.C in [0,d) -> floor is 0
	}
	at := mkTerm(&BTerm{K: TFDiv, Lin: r, Val: d})
	return q.add(linAtom(at))
}

// gOf turns a comparison fact into forms g >= 0.
func (e *Env) gOf(f *BFact) []*Lin {
	if f.Kind != 'c' {
		return nil
	}
	l, r := e.LinOf(f.L), e.LinOf(f.R)
	switch f.Op {
	case token.LSS:
		return []*Lin{r.sub(l).addC(-1)}
	case token.LEQ:
		return []*Lin{r.sub(l)}
	case token.GTR:
		return []*Lin{l.sub(r).addC(-1)}
	case token.GEQ:
		return []*Lin{l.sub(r)}
	case token.EQL:
		return []*Lin{r.sub(l), l.sub(r)}
	}
	return nil
}

// refine propagates bounds from the comparison facts to atom intervals.
func (e *Env) refine() {
	for round := 0; round < 8; round++ {
		changed := false
		e.gs = e.gs[:0]
		for _, f := range e.Facts {
			for _, g := range e.gOf(f) {
				e.gs = append(e.gs, &gform{g, f})
			}
			if f.Kind == 'c' && f.Op == token.NEQ {
				// x != c at an interval end point
				l, r := e.LinOf(f.L), e.LinOf(f.R)
				d := l.sub(r)
				if len(d.T) == 1 {
					for k, c := range d.T {
						if (c == 1 || c == -1) && d.A[k].K != TFDiv {
							v := -d.C * c
							iv := e.atomInterval(d.A[k])
							if iv.Lo == v {
								e.atomIv[k] = Iv{v + 1, iv.Hi}
								changed = true
							} else if iv.Hi == v {
								e.atomIv[k] = Iv{iv.Lo, v - 1}
								changed = true
							}
						}
					}
				}
			}
		}
		for _, gf := range e.gs {
			g := gf.g
			for k, c := range g.T {
				at := g.A[k]
				rest := g.clone()
				delete(rest.T, k)
				delete(rest.A, k)
				rh := e.IvLin(rest).Hi
				if rh >= ivInf {
					continue
				}
				cur := e.atomInterval(at)
				nw := cur
				if c > 0 {
					if lo := ceilDiv(-rh, c); lo > nw.Lo {
						nw.Lo = lo
					}
				} else {
					if hi := floorDiv(rh, -c); hi < nw.Hi {
						nw.Hi = hi
					}
				}
				if nw != cur {
					e.atomIv[k] = nw
					changed = true
				}
			}
		}
		if !changed {
			break
		}
	}
}

// ---------------------------------------------------------------------------
// Prover

// ProveLE proves a <= b + c for the Go values of a and b.
func (e *Env) ProveLE(a, b *Lin, c int64) bool {
	d := b.sub(a).addC(c)
	e.Trace = e.Trace[:0]
	e.budget = 4000
	return e.nonneg(d, 6, map[string]bool{})
}

// nonneg proves d >= 0.
func (e *Env) nonneg(d *Lin, depth int, seen map[string]bool) bool {
	if e.IvLin(d).Lo >= 0 {
		return true
	}
	if depth == 0 || e.budget <= 0 {
		return false
	}
	e.budget--
	k := d.Key()
	if seen[k] {
		return false
	}
	seen[k] = true
	try := func(n *Lin, why string) bool {
		if n == nil {
			return false
		}
		if e.nonneg(n, depth-1, seen) {
			e.Trace = append(e.Trace, why)
			return true
		}
		return false
	}
	for _, x := range d.keys() {
		c := d.T[x]
		at := d.A[x]
		// facts that bound the atom
		for _, gf := range e.gs {
			g := gf.g.T[x]
			if g == 0 || (g > 0) != (c > 0) {
				continue
			}
			ag, ac := g, c
			if ag < 0 {
				ag, ac = -ag, -ac
			}
			if ag > 64 || ac > 1<<20 {
				continue
			}
			// ag·d - ac·G has no x; d >= that/ag
			if try(d.scale(ag).addScaled(gf.g, -ac), gf.src.Pretty()) {
				return true
			}
		}
		if at.K == TFDiv {
			dv := at.Val
			rest := d.clone()
			delete(rest.T, x)
			delete(rest.A, x)
			if c < 0 {
				// d·fd(E) <= E
				if (-c)%dv == 0 {
					if try(rest.addScaled(at.Lin, c/dv), "d·⌊E/d⌋ ≤ E") {
						return true
					}
				}
				// monotonicity: fd(E) <= fd(E') for E' >= E
				for _, e2 := range e.bounds(at.Lin, true) {
					if try(rest.addScaled(e.fdiv(e2, dv), c), "⌊·/d⌋ monotone") {
						return true
					}
				}
			} else {
				// d·fd(E) >= E-(d-1)
				if try(rest.scale(dv).addScaled(at.Lin.addC(-(dv-1)), c), "d·⌊E/d⌋ ≥ E-(d-1)") {
					return true
				}
				for _, e2 := range e.bounds(at.Lin, false) {
					if try(rest.addScaled(e.fdiv(e2, dv), c), "⌊·/d⌋ monotone") {
						return true
					}
				}
			}
		}
	}
	return false
}

// bounds returns forms E' with E' >= E (upper) or E' <= E (lower) obtained by
// eliminating one atom of E with one fact.
func (e *Env) bounds(E *Lin, upper bool) []*Lin {
	var out []*Lin
	for _, y := range E.keys() {
		c := E.T[y]
		for _, gf := range e.gs {
			g := gf.g.T[y]
			if g == 0 {
				continue
			}
			// upper: E' = E + λG, λ>0, c + λg = 0 → g opposite sign of c
			// lower: E' = E - λG, λ>0, c - λg = 0 → g same sign as c
			if upper == ((g > 0) == (c > 0)) {
				continue
			}
			ag := g
			if ag < 0 {
				ag = -ag
			}
			ac := c
			if ac < 0 {
				ac = -ac
			}
			if ac%ag != 0 {
				continue
			}
			lam := ac / ag
			if upper {
				out = append(out, E.addScaled(gf.g, lam))
			} else {
				out = append(out, E.addScaled(gf.g, -lam))
			}
		}
	}
	return out
}

// ---------------------------------------------------------------------------
// Substitution and evaluation of linear forms (used for composing a
// producer's "count -> length field" map with a consumer's "length field ->
// count" map).

// Atoms lists the atoms of l (including those inside floor divisions).
func (l *Lin) Atoms() []*BTerm {
	var out []*BTerm
	seen := map[string]bool{}
	var rec func(x *Lin)
	rec = func(x *Lin) {
		for _, k := range x.keys() {
			a := x.A[k]
			if a.K == TFDiv {
				rec(a.Lin)
				continue
			}
			if !seen[k] {
				seen[k] = true
				out = append(out, a)
			}
		}
	}
	rec(l)
	return out
}

// Subst replaces the atom with the given key by repl (also inside floor
// divisions, which are re-normalised).
func (e *Env) Subst(l *Lin, key string, repl *Lin) *Lin {
	out := linConst(l.C)
	for _, k := range l.keys() {
		c := l.T[k]
		a := l.A[k]
		switch {
		case k == key:
			out = out.addScaled(repl, c)
		case a.K == TFDiv:
			out = out.addScaled(e.fdiv(e.Subst(a.Lin, key, repl), a.Val), c)
		default:
			out = out.addScaled(linAtom(a), c)
		}
	}
	return out
}

// Eval evaluates l with the given atom values; ok=false if an atom is unbound.
func (l *Lin) Eval(val map[string]int64) (int64, bool) {
	r := l.C
	for k, c := range l.T {
		a := l.A[k]
		if a.K == TFDiv {
			v, ok := a.Lin.Eval(val)
			if !ok {
				return 0, false
			}
			r += c * floorDiv(v, a.Val)
			continue
		}
		v, ok := val[k]
		if !ok {
			return 0, false
		}
		r += c * v
	}
	return r, true
}

// IsConst reports whether l has no atoms, and its value.
func (l *Lin) IsConst() (int64, bool) { return l.C, len(l.T) == 0 }

// LinAtom exposes linAtom.
func LinAtom(t *BTerm) *Lin { return linAtom(t) }

// Sub returns l - m.
func (l *Lin) Sub(m *Lin) *Lin { return l.sub(m) }

// LenTerm builds len(path).
func LenTerm(path *BTerm) *BTerm {
	return mkTerm(&BTerm{K: TLen, Args: []*BTerm{path}, Typ: types.Typ[types.Int]})
}

// FDiv exposes the normalised floor division.
func (e *Env) FDiv(l *Lin, d int64) *Lin { return e.fdiv(l, d) }
