package kit

import (
	"fmt"
	"go/ast"
	"go/constant"
	"go/token"
	"go/types"
	"reflect"
)

// BoolFlow layers three things over Std for finite-domain (K4) rules that
// must know the *value* a boolean variable holds at a sink:
//
//   - boolean assignments are evaluated on the pre-state through CondEval
//     (atoms, tracked constants, `!`, `&&`, `||`, `==`/`!=` between booleans),
//     so `active = p.Value > c.Value` under a fixed valuation, or
//     `all = all && c.Active` with a lazily valued atom, leave a concrete
//     "v:<id>" behind; an assignment whose value cannot be determined leaves
//     the variable unknown (never guessed);
//   - a variable can be bound to an atom ("sy:<id>" = atom id) when it
//     receives a call result (SymResult); reading it reads the atom, which
//     must be valued by the initial valuation;
//   - OnCond lets the client observe a condition node before it is decided.
type BoolFlow struct {
	Std *Std
	// Atom recognises syntactic atoms (forwarded to CondEval).
	Atom Atomizer
	// Fold decides a leaf from the state (valuation-dependent comparisons).
	Fold func(e ast.Expr, s S) (val, ok bool)
	// SymResult binds result i of a call to an atom id ("" = no binding).
	SymResult func(call *ast.CallExpr, i int, s S) string
	// OnCond is called with every if/for/tagless-case condition before it is
	// decided and may refine the state.
	OnCond func(cond ast.Expr, s S) S

	// ForkUnknown: a boolean local assigned a value the flow cannot determine
	// takes both values from there on (consistently), instead of staying
	// unknown and being re-forked at every use.  Only for clients that do not
	// observe the variable's value itself.
	ForkUnknown bool

	local map[types.Object]bool
	done  map[*Func]bool
}

// IsBoolType reports whether t's underlying type is boolean.
func IsBoolType(t types.Type) bool {
	if t == nil {
		return false
	}
	b, ok := t.Underlying().(*types.Basic)
	return ok && b.Info()&types.IsBoolean != 0
}

// computeLocals finds the variables whose value the flow may track: declared
// inside the function, address never taken, never assigned inside a nested
// function literal.
func (bf *BoolFlow) computeLocals() { bf.ensure(bf.Std.F) }

// ensure adds the trackable locals of fn (the root function or a callee that
// Std evaluates inline).
func (bf *BoolFlow) ensure(f *Func) {
	if bf.done == nil {
		bf.done = map[*Func]bool{}
	}
	if f == nil || f.Body == nil || bf.done[f] {
		return
	}
	bf.done[f] = true
	info := f.Info()
	bad := map[types.Object]bool{}
	all := map[types.Object]bool{}
	var walk func(n ast.Node, inLit bool)
	walk = func(n ast.Node, inLit bool) {
		ast.Inspect(n, func(x ast.Node) bool {
			switch y := x.(type) {
			case *ast.FuncLit:
				if x != n {
					walk(y.Body, true)
					return false
				}
			case *ast.Ident:
				if o, ok := info.Defs[y].(*types.Var); ok && !o.IsField() && !inLit {
					all[o] = true
				}
			case *ast.UnaryExpr:
				if y.Op == token.AND {
					if o := ObjOf(info, y.X); o != nil {
						bad[o] = true
					}
				}
			case *ast.AssignStmt:
				if inLit {
					for _, l := range y.Lhs {
						if o := ObjOf(info, l); o != nil {
							bad[o] = true
						}
					}
				}
			case *ast.IncDecStmt:
				if inLit {
					if o := ObjOf(info, y.X); o != nil {
						bad[o] = true
					}
				}
			}
			return true
		})
	}
	walk(f.Body, false)
	if bf.local == nil {
		bf.local = map[types.Object]bool{}
	}
	for o := range all {
		if !bad[o] {
			bf.local[o] = true
		}
	}
	// named results and parameters are locals too (parameters hold unknown
	// values until assigned)
	for _, p := range f.Params() {
		if !bad[p] {
			bf.local[p] = true
		}
	}
	for _, r := range namedResults(f) {
		if !bad[r] {
			bf.local[r] = true
		}
	}
}

func namedResults(f *Func) []*types.Var {
	var out []*types.Var
	if f.Type == nil || f.Type.Results == nil {
		return nil
	}
	for _, fl := range f.Type.Results.List {
		for _, nm := range fl.Names {
			if v, ok := f.Info().Defs[nm].(*types.Var); ok {
				out = append(out, v)
			}
		}
	}
	return out
}

// ZeroResults adds the zero value of the root function's named boolean
// results to an initial state.
func (bf *BoolFlow) ZeroResults(s S) S {
	for _, r := range namedResults(bf.Std.F) {
		if IsBoolType(r.Type()) {
			s = s.Set("v:"+VarID(r), "false")
		}
	}
	return s
}

// Local reports whether o is a trackable local of the function.
func (bf *BoolFlow) Local(o types.Object) bool {
	bf.ensure(bf.Std.Cur())
	return bf.local[o]
}

// DetEval evaluates a boolean expression deterministically under s: every
// atom it meets must already be valued.  ok=false means "not determined".
func (bf *BoolFlow) DetEval(e ast.Expr, s S) (val, ok bool) {
	info := bf.Std.F.Info()
	e = ast.Unparen(e)
	if tv, has := info.Types[e]; has && tv.Value != nil && tv.Value.Kind() == constant.Bool {
		return constant.BoolVal(tv.Value), true
	}
	switch x := e.(type) {
	case *ast.UnaryExpr:
		if x.Op == token.NOT {
			v, ok := bf.DetEval(x.X, s)
			return !v, ok
		}
	case *ast.BinaryExpr:
		switch x.Op {
		case token.LAND:
			a, okA := bf.DetEval(x.X, s)
			b, okB := bf.DetEval(x.Y, s)
			switch {
			case okA && !a, okB && !b:
				return false, true
			case okA && okB:
				return true, true
			}
			return false, false
		case token.LOR:
			a, okA := bf.DetEval(x.X, s)
			b, okB := bf.DetEval(x.Y, s)
			switch {
			case okA && a, okB && b:
				return true, true
			case okA && okB:
				return false, true
			}
			return false, false
		case token.EQL, token.NEQ:
			if IsBoolType(info.TypeOf(x.X)) && IsBoolType(info.TypeOf(x.Y)) {
				a, okA := bf.DetEval(x.X, s)
				b, okB := bf.DetEval(x.Y, s)
				if okA && okB {
					return (a == b) == (x.Op == token.EQL), true
				}
				return false, false
			}
		}
	case *ast.Ident:
		if r := ast.Unparen(bf.Std.Resolve(x)); r != ast.Expr(x) {
			// a parameter of a helper evaluated inline: the argument it is bound to
			return bf.DetEval(r, s)
		}
		bf.ensure(bf.Std.Cur())
		if o := ObjOf(info, x); o != nil && bf.local[o] {
			id := VarID(o)
			if a := s.Get("sy:" + id); a != "" {
				if s.Has("a:" + a) {
					return s.Get("a:"+a) == "T", true
				}
				return false, false
			}
			switch s.Get("v:" + id) {
			case "true":
				return true, true
			case "false":
				return false, true
			}
		}
		return false, false
	}
	if bf.Fold != nil {
		if v, ok := bf.Fold(e, s); ok {
			return v, true
		}
	}
	if bf.Atom != nil {
		if id, neg, ok := bf.Atom(e); ok {
			if s.Has("a:" + id) {
				return (s.Get("a:"+id) == "T") != neg, true
			}
			return false, false
		}
	}
	if v, ok := bf.Std.FoldExpr(e, s); ok && v.Kind() == constant.Bool {
		return constant.BoolVal(v), true
	}
	return false, false
}

// foldLeaf is installed as Std.Fold: it decides the leaves CondEval cannot
// (bound variables, boolean equalities) and then asks the client.
func (bf *BoolFlow) foldLeaf(e ast.Expr, s S) (bool, bool) {
	info := bf.Std.F.Info()
	e = ast.Unparen(e)
	switch x := e.(type) {
	case *ast.Ident:
		if r := ast.Unparen(bf.Std.Resolve(x)); r != ast.Expr(x) {
			if v, ok := bf.DetEval(r, s); ok {
				return v, true
			}
			break
		}
		bf.ensure(bf.Std.Cur())
		if o := ObjOf(info, x); o != nil && bf.local[o] {
			if s.Get("sy:"+VarID(o)) != "" {
				return bf.DetEval(x, s)
			}
		}
	case *ast.BinaryExpr:
		if (x.Op == token.EQL || x.Op == token.NEQ) && IsBoolType(info.TypeOf(x.X)) && IsBoolType(info.TypeOf(x.Y)) {
			if v, ok := bf.DetEval(x, s); ok {
				return v, true
			}
		}
	}
	if bf.Fold != nil {
		return bf.Fold(e, s)
	}
	return false, false
}

type bfAlt struct {
	s   S
	set map[string]string // key -> value ("" = delete), applied after the built-in handling
}

func (a bfAlt) with(s S, k, v string) bfAlt {
	m := make(map[string]string, len(a.set)+1)
	for x, y := range a.set {
		m[x] = y
	}
	m[k] = v
	return bfAlt{s, m}
}

// Client builds the flow client.  Std hooks (OnCall, OnNode, OnBranch,
// ErrTag, OnErrEdge) keep working; Std.Fold and Std.Eval.Atom are owned by
// BoolFlow.
func (bf *BoolFlow) Client() Client {
	st := bf.Std
	st.Fold = bf.foldLeaf
	st.Eval.Atom = bf.Atom
	bf.computeLocals()
	// Std evaluates helpers inline with its own client, so the wrappers below
	// only see the root function; inside a helper the boolean assignments and
	// the returned booleans are handled through the OnNode hook (post-state).
	userOnNode := st.OnNode
	st.OnNode = func(n ast.Node, s S) []S {
		states := []S{s}
		if st.Cur() != st.F {
			states = bf.inlineNode(n, s)
		}
		if userOnNode == nil {
			return states
		}
		var out []S
		for _, x := range states {
			out = append(out, userOnNode(n, x)...)
		}
		return out
	}
	cl := st.Client()
	orig := cl.Node
	cl.Node = func(n ast.Node, s S) []S { return bf.node(orig, n, s) }
	origCond := cl.Cond
	cl.Cond = func(c ast.Expr, s S) (t, f []S) {
		if bf.OnCond != nil {
			s = bf.OnCond(c, s)
		}
		return origCond(c, s)
	}
	return cl
}

func (bf *BoolFlow) node(orig func(ast.Node, S) []S, n ast.Node, s S) []S {
	info := bf.Std.F.Info()
	var lhs []ast.Expr
	var rhs []ast.Expr
	var multi *ast.CallExpr
	switch y := n.(type) {
	case *ast.AssignStmt:
		if y.Tok != token.ASSIGN && y.Tok != token.DEFINE {
			// compound assignment: the variable becomes unknown (Std forgets v:)
			alts := bfAlt{s, map[string]string{}}
			for _, l := range y.Lhs {
				if o := ObjOf(info, l); o != nil {
					alts.set["sy:"+VarID(o)] = ""
				}
			}
			return bf.finish(orig, n, []bfAlt{alts})
		}
		lhs = y.Lhs
		if len(y.Rhs) == 1 && len(y.Lhs) > 1 {
			multi, _ = ast.Unparen(y.Rhs[0]).(*ast.CallExpr)
			rhs = nil
		} else if len(y.Lhs) == len(y.Rhs) {
			rhs = y.Rhs
		}
	case *ast.ValueSpec:
		for _, nm := range y.Names {
			lhs = append(lhs, nm)
		}
		if len(y.Values) == 1 && len(y.Names) > 1 {
			multi, _ = ast.Unparen(y.Values[0]).(*ast.CallExpr)
		} else if len(y.Values) == len(y.Names) {
			rhs = y.Values
		}
	case *ast.IncDecStmt:
		lhs = []ast.Expr{y.X}
	case *ast.Ident:
		lhs = []ast.Expr{y} // range key / value definition
	default:
		return orig(n, s)
	}
	alts := []bfAlt{{s, map[string]string{}}}
	for i, l := range lhs {
		o := ObjOf(info, l)
		if o == nil {
			continue
		}
		if _, isIdent := ast.Unparen(l).(*ast.Ident); !isIdent {
			continue
		}
		id := VarID(o)
		for k := range alts {
			alts[k].set["sy:"+id] = ""
		}
		if !bf.local[o] {
			continue
		}
		if multi != nil {
			if bf.SymResult != nil {
				for k := range alts {
					if a := bf.SymResult(multi, i, alts[k].s); a != "" {
						alts[k].set["sy:"+id] = a
						alts[k].set["v:"+id] = ""
					}
				}
			}
			continue
		}
		if rhs == nil || i >= len(rhs) || !IsBoolType(o.Type()) {
			continue
		}
		r := rhs[i]
		if call, ok := ast.Unparen(r).(*ast.CallExpr); ok && bf.SymResult != nil {
			bound := false
			for k := range alts {
				if a := bf.SymResult(call, 0, alts[k].s); a != "" {
					alts[k].set["sy:"+id] = a
					alts[k].set["v:"+id] = ""
					bound = true
				}
			}
			if bound {
				continue
			}
		}
		var next []bfAlt
		for _, a := range alts {
			if v, ok := bf.DetEval(r, a.s); ok {
				next = append(next, a.with(a.s, "v:"+id, boolRepr(v)))
				continue
			}
			unknown := false
			save := bf.Std.Eval.OnUnknown
			bf.Std.Eval.OnUnknown = func(ast.Expr) { unknown = true }
			ts, fs := bf.Std.Eval.Eval(r, a.s)
			bf.Std.Eval.OnUnknown = save
			if unknown {
				if bf.ForkUnknown {
					next = append(next, a.with(a.s, "v:"+id, "true"), a.with(a.s, "v:"+id, "false"))
				} else {
					next = append(next, a.with(a.s, "v:"+id, ""))
				}
				continue
			}
			for _, x := range ts {
				next = append(next, a.with(x, "v:"+id, "true"))
			}
			for _, x := range fs {
				next = append(next, a.with(x, "v:"+id, "false"))
			}
		}
		alts = next
	}
	return bf.finish(orig, n, alts)
}

func boolRepr(v bool) string {
	if v {
		return "true"
	}
	return "false"
}

func (bf *BoolFlow) finish(orig func(ast.Node, S) []S, n ast.Node, alts []bfAlt) []S {
	var out []S
	for _, a := range alts {
		for _, o := range orig(n, a.s) {
			for k, v := range a.set {
				if v == "" {
					o = o.Del(k)
				} else {
					o = o.Set(k, v)
				}
			}
			out = append(out, bf.applyCallResults(n, o))
		}
	}
	return out
}

func rvKey(cf *Func, i int) string { return fmt.Sprintf("rv:%d:%d", cf.Pos(), i) }

// applyCallResults: after a statement `x, … = helper(…)` whose callee was
// evaluated inline, the boolean results recorded at the helper's return
// statement become the values of the assigned locals.
func (bf *BoolFlow) applyCallResults(n ast.Node, s S) S {
	var lhs []ast.Expr
	var rhs ast.Expr
	switch y := n.(type) {
	case *ast.AssignStmt:
		if len(y.Rhs) != 1 || (y.Tok != token.ASSIGN && y.Tok != token.DEFINE) {
			return s
		}
		lhs, rhs = y.Lhs, y.Rhs[0]
	case *ast.ValueSpec:
		if len(y.Values) != 1 {
			return s
		}
		for _, nm := range y.Names {
			lhs = append(lhs, nm)
		}
		rhs = y.Values[0]
	default:
		return s
	}
	call, ok := ast.Unparen(rhs).(*ast.CallExpr)
	if !ok {
		return s
	}
	cf := bf.Std.Cur().CalleeFunc(call)
	if cf == nil {
		return s
	}
	info := bf.Std.F.Info()
	bf.ensure(bf.Std.Cur())
	for i, l := range lhs {
		k := rvKey(cf, i)
		if !s.Has(k) {
			continue
		}
		if id, isId := ast.Unparen(l).(*ast.Ident); isId {
			if o := ObjOf(info, id); o != nil && bf.local[o] && IsBoolType(o.Type()) {
				s = s.Set("v:"+VarID(o), s.Get(k)).Del("sy:" + VarID(o))
			}
		}
		s = s.Del(k)
	}
	return s
}

// inlineNode handles a node of a helper that Std evaluates inline.
func (bf *BoolFlow) inlineNode(n ast.Node, s S) []S {
	st := bf.Std
	info := st.F.Info()
	cur := st.Cur()
	bf.ensure(cur)
	switch y := n.(type) {
	case *ast.ReturnStmt:
		for i, r := range y.Results {
			if !IsBoolType(info.TypeOf(r)) {
				continue
			}
			if v, ok := bf.DetEval(r, s); ok {
				s = s.Set(rvKey(cur, i), boolRepr(v))
			} else {
				s = s.Del(rvKey(cur, i))
			}
		}
		return []S{s}
	case *ast.AssignStmt:
		if y.Tok != token.ASSIGN && y.Tok != token.DEFINE {
			return []S{s}
		}
		s = bf.applyCallResults(n, s)
		if len(y.Rhs) == 1 && bf.SymResult != nil {
			if call, ok := ast.Unparen(y.Rhs[0]).(*ast.CallExpr); ok {
				for i, l := range y.Lhs {
					id, isId := ast.Unparen(l).(*ast.Ident)
					if !isId {
						continue
					}
					o := ObjOf(info, id)
					if o == nil || !bf.local[o] || !IsBoolType(o.Type()) {
						continue
					}
					if len(y.Lhs) == 1 && i > 0 {
						continue
					}
					if a := bf.SymResult(call, i, s); a != "" {
						s = s.Set("sy:"+VarID(o), a).Del("v:" + VarID(o))
					} else {
						s = s.Del("sy:" + VarID(o))
					}
				}
			}
		}
		if len(y.Lhs) != len(y.Rhs) {
			return []S{s}
		}
		states := []S{s}
		for i, l := range y.Lhs {
			id, isId := ast.Unparen(l).(*ast.Ident)
			if !isId {
				continue
			}
			o := ObjOf(info, id)
			if o == nil || !bf.local[o] || !IsBoolType(o.Type()) {
				continue
			}
			key := "v:" + VarID(o)
			var next []S
			for _, x := range states {
				if x.Has(key) {
					next = append(next, x) // folded by Std
					continue
				}
				if v, ok := bf.DetEval(y.Rhs[i], x); ok {
					next = append(next, x.Set(key, boolRepr(v)))
					continue
				}
				unknown := false
				save := st.Eval.OnUnknown
				st.Eval.OnUnknown = func(ast.Expr) { unknown = true }
				ts, fs := st.Eval.Eval(y.Rhs[i], x)
				st.Eval.OnUnknown = save
				if unknown {
					next = append(next, x)
					continue
				}
				for _, z := range ts {
					next = append(next, z.Set(key, "true"))
				}
				for _, z := range fs {
					next = append(next, z.Set(key, "false"))
				}
			}
			states = next
		}
		return states
	}
	return []S{s}
}

// ---------------------------------------------------------------------------
// struct tags

// FieldByTag returns the field of struct type t whose tag `key` has the given
// value (first component before a comma), or nil.
func FieldByTag(t types.Type, key, value string) *types.Var {
	st, ok := t.Underlying().(*types.Struct)
	if !ok {
		return nil
	}
	for i := 0; i < st.NumFields(); i++ {
		if tagValue(st.Tag(i), key) == value {
			return st.Field(i)
		}
	}
	return nil
}

func tagValue(tag, key string) string {
	v, ok := reflect.StructTag(tag).Lookup(key)
	if !ok {
		return "\x00"
	}
	for i := 0; i < len(v); i++ {
		if v[i] == ',' {
			return v[:i]
		}
	}
	return v
}

// FieldSel matches a field selection `X.f` and returns X and the field.
func FieldSel(info *types.Info, e ast.Expr) (base ast.Expr, field *types.Var, ok bool) {
	sel, isSel := ast.Unparen(e).(*ast.SelectorExpr)
	if !isSel {
		return nil, nil, false
	}
	s, has := info.Selections[sel]
	if !has || s.Kind() != types.FieldVal {
		return nil, nil, false
	}
	v, isVar := s.Obj().(*types.Var)
	if !isVar {
		return nil, nil, false
	}
	return sel.X, v, true
}
