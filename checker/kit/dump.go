package kit

import (
	"encoding/json"
	"fmt"
	"os"
	"strings"
)

// Dump implements the -dump debugging aid.
func Dump(spec string) int {
	parts := strings.SplitN(spec, ":", 3)
	p, err := Load(LoadConfig{})
	if err != nil {
		fmt.Println(err)
		return 2
	}
	switch parts[0] {
	case "funcs":
		for _, f := range p.Funcs(parts[1]) {
			fmt.Printf("%s\t%s\n", p.Pos(f.Pos()), f.Name)
		}
	case "cfg":
		for _, f := range p.Funcs(parts[1]) {
			if f.Name != parts[2] {
				continue
			}
			g := p.Graph(f)
			for _, b := range g.G.Blocks {
				if !b.Live {
					continue
				}
				br := g.BranchOf(b)
				fmt.Printf("b%d %s succs=", b.Index, b.Kind)
				for _, s := range b.Succs {
					fmt.Printf("b%d ", s.Index)
				}
				fmt.Printf(" branch=%d\n", br.Kind)
				for _, n := range b.Nodes {
					fmt.Printf("    %T %s  @%s\n", n, trunc(f.Str(n), 90), p.Pos(n.Pos()))
				}
			}
		}
	case "sql":
		m := p.SQLModelOf(parts[1])
		for _, s := range m.Sites {
			fmt.Printf("%s %s %s.%s args=%d qparam=%v\n", s.F.At(s.Call), s.F.Name, s.Recv, s.Method, len(s.Args), s.QueryParam)
			for _, st := range s.Stmts {
				fmt.Printf("     %s %s cols=%v where=%v upsert=%v params=%d\n", st.Verb, st.Table, st.Cols, st.Where, st.Upsert, st.Params)
			}
		}
		fmt.Println("tables:", m.Tables)
		fmt.Println("unparsed:", m.Unparsed)
	}
	return 0
}

// Explain prints a replay file.
func Explain(path string) int {
	b, err := os.ReadFile(path)
	if err != nil {
		fmt.Println(err)
		return 2
	}
	var m map[string]any
	if err := json.Unmarshal(b, &m); err != nil {
		fmt.Println(err)
		return 2
	}
	fmt.Printf("property %v rule %v (%v)\n  function   %v\n  site       %v\n  construct  %v\n  obligation %v\n  finding    %v\n",
		m["property"], m["rule"], m["rule_title"], m["func"], m["site"], m["construct"], m["obligation"], m["message"])
	if ps, ok := m["path"].([]any); ok {
		for i, s := range ps {
			fmt.Printf("  path[%d] %v\n", i, s)
		}
	}
	fmt.Printf("re-run: /verif/bin/siotcheck -prop %v -tier quick\n", m["property"])
	return 0
}
