package kit

import (
	"fmt"
	"go/ast"
	"go/constant"
	"go/token"
	"go/types"
	"sort"
	"strings"
)

// Affine is a linear form  Σ coeff·term + K  over opaque integer terms: the
// *current value* of a local integer variable, len(<variable>), or a field
// selector chain rooted at a variable.  Rules use it to compare index and
// slice-bound expressions exactly ("low is terminator+1", "high is cur+c")
// without depending on how the expression is spelt (`cur+i+1`, `1+i+cur`,
// `(cur+i)+1`).  A fact stated over an Affine is valid only until one of the
// variables it mentions is assigned; Mentions/VarToken support that
// invalidation.
type Affine struct {
	Terms map[string]int64
	K     int64
}

// VarToken is the delimiter-wrapped identity of a variable as it appears in
// term keys (and therefore in Affine.Key()); "[name@pos]".
func VarToken(o types.Object) string { return "[" + VarID(o) + "]" }

// AffConst returns the constant form k.
func AffConst(k int64) Affine { return Affine{K: k} }

// AffVar returns the form 1·v.
func AffVar(o types.Object) Affine {
	return Affine{Terms: map[string]int64{"v" + VarToken(o): 1}}
}

// AffLen returns the form 1·len(v).
func AffLen(o types.Object) Affine {
	return Affine{Terms: map[string]int64{"len" + VarToken(o): 1}}
}

func (a Affine) clone() Affine {
	m := make(map[string]int64, len(a.Terms))
	for k, v := range a.Terms {
		m[k] = v
	}
	return Affine{Terms: m, K: a.K}
}

// Add returns a + s·b.
func (a Affine) addScaled(b Affine, s int64) Affine {
	r := a.clone()
	for k, v := range b.Terms {
		r.Terms[k] += s * v
		if r.Terms[k] == 0 {
			delete(r.Terms, k)
		}
	}
	r.K += s * b.K
	return r
}

// Add returns a + b.
func (a Affine) Add(b Affine) Affine { return a.addScaled(b, 1) }

// Sub returns a - b.
func (a Affine) Sub(b Affine) Affine { return a.addScaled(b, -1) }

// AddK returns a + k.
func (a Affine) AddK(k int64) Affine { r := a.clone(); r.K += k; return r }

// Neg returns -a.
func (a Affine) Neg() Affine { return Affine{}.addScaled(a, -1) }

// Const reports whether a is a constant and returns it.
func (a Affine) Const() (int64, bool) { return a.K, len(a.Terms) == 0 }

// Key renders a canonically ("1*v[cur@12]+1*v[i@40]+1").
func (a Affine) Key() string {
	ks := make([]string, 0, len(a.Terms))
	for k := range a.Terms {
		ks = append(ks, k)
	}
	sort.Strings(ks)
	var b strings.Builder
	for _, k := range ks {
		fmt.Fprintf(&b, "%d*%s+", a.Terms[k], k)
	}
	fmt.Fprintf(&b, "%d", a.K)
	return b.String()
}

// String renders a for messages ("cur + i + 1").
func (a Affine) String() string {
	ks := make([]string, 0, len(a.Terms))
	for k := range a.Terms {
		ks = append(ks, k)
	}
	sort.Strings(ks)
	var parts []string
	for _, k := range ks {
		name := k
		if i := strings.Index(k, "["); i >= 0 {
			inner := k[i+1:]
			if j := strings.Index(inner, "@"); j >= 0 {
				inner = inner[:j]
			}
			switch {
			case strings.HasPrefix(k, "len["):
				name = "len(" + inner + ")"
			case strings.HasPrefix(k, "v["):
				name = inner
			default:
				name = inner + strings.TrimPrefix(k[strings.Index(k, "]")+1:], "")
			}
		}
		c := a.Terms[k]
		switch c {
		case 1:
			parts = append(parts, name)
		case -1:
			parts = append(parts, "-"+name)
		default:
			parts = append(parts, fmt.Sprintf("%d*%s", c, name))
		}
	}
	if a.K != 0 || len(parts) == 0 {
		parts = append(parts, fmt.Sprintf("%d", a.K))
	}
	return strings.ReplaceAll(strings.Join(parts, " + "), "+ -", "- ")
}

// Mentions reports whether a depends on variable o.
func (a Affine) Mentions(o types.Object) bool {
	tok := VarToken(o)
	for k := range a.Terms {
		if strings.Contains(k, tok) {
			return true
		}
	}
	return false
}

// Subst replaces the term 1·v (variable o) by the form b.
func (a Affine) Subst(o types.Object, b Affine) Affine {
	k := "v" + VarToken(o)
	c, ok := a.Terms[k]
	if !ok {
		return a
	}
	r := a.clone()
	delete(r.Terms, k)
	return r.addScaled(b, c)
}

// VarTerms lists the keys of plain variable terms ("v[…]") of a.
func (a Affine) VarTerms() []string {
	var out []string
	for k := range a.Terms {
		if strings.HasPrefix(k, "v[") {
			out = append(out, k)
		}
	}
	sort.Strings(out)
	return out
}

func affIsInt(t types.Type) bool {
	if t == nil {
		return false
	}
	b, ok := t.Underlying().(*types.Basic)
	return ok && b.Info()&types.IsInteger != 0
}

// AffineOf normalises an integer expression.  ok=false when e is not affine
// over variables, len(<variable>) and field chains (calls, indexing, division,
// non-constant products …).
func AffineOf(info *types.Info, e ast.Expr) (Affine, bool) {
	e = ast.Unparen(e)
	if tv, ok := info.Types[e]; ok && tv.Value != nil {
		v := constant.ToInt(tv.Value)
		if v.Kind() == constant.Int {
			if i, exact := constant.Int64Val(v); exact {
				return AffConst(i), true
			}
		}
		return Affine{}, false
	}
	switch x := e.(type) {
	case *ast.Ident:
		o := ObjOf(info, x)
		if v, ok := o.(*types.Var); ok && affIsInt(v.Type()) {
			return AffVar(v), true
		}
	case *ast.SelectorExpr:
		// field chain rooted at a variable: cw.maxMessageLength (the type is taken
		// from the field, so that nodes rebuilt by a rule are accepted too)
		if fo, ok := ObjOf(info, x).(*types.Var); !ok || !fo.IsField() || !affIsInt(fo.Type()) {
			return Affine{}, false
		}
		path := ""
		var cur ast.Expr = x
		for {
			switch y := ast.Unparen(cur).(type) {
			case *ast.SelectorExpr:
				fo, _ := ObjOf(info, y).(*types.Var)
				if fo == nil || !fo.IsField() {
					return Affine{}, false
				}
				path = "." + fo.Name() + path
				cur = y.X
				continue
			case *ast.Ident:
				o, _ := ObjOf(info, y).(*types.Var)
				if o == nil {
					return Affine{}, false
				}
				return Affine{Terms: map[string]int64{"f" + VarToken(o) + path: 1}}, true
			}
			return Affine{}, false
		}
	case *ast.UnaryExpr:
		if x.Op == token.SUB || x.Op == token.ADD {
			a, ok := AffineOf(info, x.X)
			if !ok {
				return Affine{}, false
			}
			if x.Op == token.SUB {
				return a.Neg(), true
			}
			return a, true
		}
	case *ast.BinaryExpr:
		a, ok1 := AffineOf(info, x.X)
		b, ok2 := AffineOf(info, x.Y)
		if !ok1 || !ok2 {
			return Affine{}, false
		}
		switch x.Op {
		case token.ADD:
			return a.Add(b), true
		case token.SUB:
			return a.Sub(b), true
		case token.MUL:
			if k, ok := a.Const(); ok {
				return Affine{}.addScaled(b, k), true
			}
			if k, ok := b.Const(); ok {
				return Affine{}.addScaled(a, k), true
			}
		}
	case *ast.CallExpr:
		if bi, ok := Callee(info, x).(*types.Builtin); ok && bi.Name() == "len" && len(x.Args) == 1 {
			if id, ok := ast.Unparen(x.Args[0]).(*ast.Ident); ok {
				if o, ok := ObjOf(info, id).(*types.Var); ok {
					return AffLen(o), true
				}
			}
		}
		// integer conversion of an integer expression: int(x)
		if tv, ok := info.Types[x.Fun]; ok && tv.IsType() && len(x.Args) == 1 && affIsInt(tv.Type) && affIsInt(info.TypeOf(x.Args[0])) {
			// only widening-or-same conversions between signed ints are transparent
			from, _ := info.TypeOf(x.Args[0]).Underlying().(*types.Basic)
			to, _ := tv.Type.Underlying().(*types.Basic)
			if from != nil && to != nil && from.Kind() == to.Kind() {
				return AffineOf(info, x.Args[0])
			}
		}
	}
	return Affine{}, false
}

// SliceBounds decomposes e as a view of the slice variable base: `base`,
// `base[lo:hi]`, `base[lo:]`, `base[:hi]`, `base[:]`.  A missing low bound is
// 0, a missing high bound is len(base).  ok=false when e is not such a view
// or a bound is not affine.  (3-index slices are not accepted.)
func SliceBounds(info *types.Info, e ast.Expr, base types.Object) (lo, hi Affine, ok bool) {
	e = ast.Unparen(e)
	if id, isID := e.(*ast.Ident); isID {
		if ObjOf(info, id) == base {
			return AffConst(0), AffLen(base), true
		}
		return Affine{}, Affine{}, false
	}
	se, isSlice := e.(*ast.SliceExpr)
	if !isSlice || se.Slice3 {
		return Affine{}, Affine{}, false
	}
	id, isID := ast.Unparen(se.X).(*ast.Ident)
	if !isID || ObjOf(info, id) != base {
		return Affine{}, Affine{}, false
	}
	lo, hi = AffConst(0), AffLen(base)
	if se.Low != nil {
		if lo, ok = AffineOf(info, se.Low); !ok {
			return Affine{}, Affine{}, false
		}
	}
	if se.High != nil {
		if hi, ok = AffineOf(info, se.High); !ok {
			return Affine{}, Affine{}, false
		}
	}
	return lo, hi, true
}

// IsViewOf reports whether e is base or a (2-index) slice expression of base,
// whatever its bounds.
func IsViewOf(info *types.Info, e ast.Expr, base types.Object) bool {
	e = ast.Unparen(e)
	if se, ok := e.(*ast.SliceExpr); ok {
		e = ast.Unparen(se.X)
	}
	id, ok := e.(*ast.Ident)
	return ok && ObjOf(info, id) == base
}

// IntCmp normalises an integer comparison leaf `X op Y` (both sides affine)
// to D = X - Y and op.  ok=false otherwise.
func IntCmp(info *types.Info, e ast.Expr) (d Affine, op token.Token, ok bool) {
	a, b, op, isCmp := CmpAtom(e)
	if !isCmp {
		return Affine{}, 0, false
	}
	// (operands rebuilt by a rule have no recorded type: AffineOf decides then)
	if ta, tb := info.TypeOf(a), info.TypeOf(b); (ta != nil && !affIsInt(ta)) || (tb != nil && !affIsInt(tb)) {
		return Affine{}, 0, false
	}
	x, ok1 := AffineOf(info, a)
	y, ok2 := AffineOf(info, b)
	if !ok1 || !ok2 {
		return Affine{}, 0, false
	}
	return x.Sub(y), op, true
}

// Bound is a half-line fact about an affine form D:  D <= M (Upper) or
// D >= M (!Upper), or D != 0 (NonZero).
type Bound struct {
	D       Affine
	M       int64
	Upper   bool
	NonZero bool
}

// CmpBounds returns what `D op 0` tells on its true (val=true) or false edge.
func CmpBounds(d Affine, op token.Token, val bool) []Bound {
	if !val {
		switch op {
		case token.LSS:
			op = token.GEQ
		case token.LEQ:
			op = token.GTR
		case token.GTR:
			op = token.LEQ
		case token.GEQ:
			op = token.LSS
		case token.EQL:
			op = token.NEQ
		case token.NEQ:
			op = token.EQL
		}
	}
	switch op {
	case token.LSS:
		return []Bound{{D: d, M: -1, Upper: true}}
	case token.LEQ:
		return []Bound{{D: d, M: 0, Upper: true}}
	case token.GTR:
		return []Bound{{D: d, M: 1}}
	case token.GEQ:
		return []Bound{{D: d, M: 0}}
	case token.EQL:
		return []Bound{{D: d, M: 0, Upper: true}, {D: d, M: 0}}
	case token.NEQ:
		return []Bound{{D: d, NonZero: true}}
	}
	return nil
}

// ImpliesLE reports whether the bound proves  target <= limit.
func (b Bound) ImpliesLE(target Affine, limit int64) bool {
	if b.NonZero {
		return false
	}
	if b.Upper {
		// D <= M with D = target + k  =>  target <= M - k
		if k, ok := b.D.Sub(target).Const(); ok {
			return b.M-k <= limit
		}
		return false
	}
	// D >= M with D = -target + k  =>  target <= k - M
	if k, ok := b.D.Add(target).Const(); ok {
		return k-b.M <= limit
	}
	return false
}

// ImpliesNE reports whether the bound proves target != 0.
func (b Bound) ImpliesNE(target Affine) bool {
	if !b.NonZero {
		return false
	}
	if k, ok := b.D.Sub(target).Const(); ok && k == 0 {
		return true
	}
	if k, ok := b.D.Add(target).Const(); ok && k == 0 {
		return true
	}
	return false
}
