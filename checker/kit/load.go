// Package kit holds the analysis kernels shared by all property checkers:
// loader (K1), SQL model (K2), path engine over go/cfg (K3), finite-domain
// condition evaluation (K4), reporting/evidence/known-findings plumbing.
package kit

import (
	"encoding/json"
	"fmt"
	"go/ast"
	"go/token"
	"go/types"
	"os"
	"sort"
	"strings"
	"sync"

	"golang.org/x/tools/go/packages"
)

// RepoDir is the tree under analysis.  Overridable for self-tests through
// SIOT_REPO (never used by a registered command).
func RepoDir() string {
	if d := os.Getenv("SIOT_REPO"); d != "" {
		return d
	}
	return "/repo"
}

// ModPath is the module path of the analysed repository.
const ModPath = "github.com/simpleiot/simpleiot"

// LoadConfig selects what to load.
type LoadConfig struct {
	Dir      string
	GOOS     string
	GOARCH   string
	Tags     []string
	AllDeps  bool              // load syntax of dependencies too (needed for SSA)
	Overlay  map[string][]byte // file path -> replacement content
	Patterns []string          // default ./...
	Tests    bool
}

// Prog is a loaded, type-checked program.
type Prog struct {
	Fset   *token.FileSet
	Roots  []*packages.Package
	ByPath map[string]*packages.Package
	Cfg    LoadConfig

	funcs   map[string][]*Func // per package path
	byObj   map[types.Object]*Func
	byLit   map[*ast.FuncLit]*Func
	parents map[*ast.File]map[ast.Node]ast.Node
	graphs  map[*Func]*Graph

	auxMu sync.Mutex
	aux   map[string]any
}

// Aux returns the per-program value stored under key, creating it with mk on
// first use.  Caches that hold AST nodes, functions or types of a program live
// here so that they are released together with the program (the sensitivity
// sweep loads hundreds of variants in one process).
func (p *Prog) Aux(key string, mk func() any) any {
	p.auxMu.Lock()
	defer p.auxMu.Unlock()
	if p.aux == nil {
		p.aux = map[string]any{}
	}
	v, ok := p.aux[key]
	if !ok {
		v = mk()
		p.aux[key] = v
	}
	return v
}

// Load type-checks the repository.  Any error in a root package that belongs
// to the module is returned (fail closed).
func Load(lc LoadConfig) (*Prog, error) {
	if lc.Dir == "" {
		lc.Dir = RepoDir()
	}
	if len(lc.Patterns) == 0 {
		lc.Patterns = []string{"./..."}
	}
	mode := packages.NeedName | packages.NeedFiles | packages.NeedCompiledGoFiles |
		packages.NeedImports | packages.NeedTypes | packages.NeedTypesSizes |
		packages.NeedSyntax | packages.NeedTypesInfo | packages.NeedModule
	if lc.AllDeps {
		mode |= packages.NeedDeps
	}
	env := append(os.Environ(),
		"GOFLAGS=-mod=mod", "GOPROXY=off", "GOSUMDB=off", "GOTOOLCHAIN=local", "GOWORK=off")
	if lc.GOOS != "" {
		env = append(env, "GOOS="+lc.GOOS)
	}
	if lc.GOARCH != "" {
		env = append(env, "GOARCH="+lc.GOARCH, "CGO_ENABLED=0")
	}
	if ov := os.Getenv("SIOT_OVERLAY"); ov != "" && lc.Overlay == nil {
		// self-test only: JSON object {"<abs path>": "<file with replacement content>"}
		b, err := os.ReadFile(ov)
		if err != nil {
			return nil, err
		}
		var m map[string]string
		if err := json.Unmarshal(b, &m); err != nil {
			return nil, err
		}
		lc.Overlay = map[string][]byte{}
		for k, v := range m {
			c, err := os.ReadFile(v)
			if err != nil {
				return nil, err
			}
			lc.Overlay[k] = c
		}
	}
	cfg := &packages.Config{
		Mode:    mode,
		Dir:     lc.Dir,
		Env:     env,
		Fset:    token.NewFileSet(),
		Overlay: lc.Overlay,
		Tests:   lc.Tests,
	}
	if len(lc.Tags) > 0 {
		cfg.BuildFlags = []string{"-tags=" + strings.Join(lc.Tags, ",")}
	}
	pkgs, err := packages.Load(cfg, lc.Patterns...)
	if err != nil {
		return nil, fmt.Errorf("packages.Load: %w", err)
	}
	if len(pkgs) == 0 {
		return nil, fmt.Errorf("packages.Load: zero packages matched %v in %s", lc.Patterns, lc.Dir)
	}
	p := &Prog{Fset: cfg.Fset, Roots: pkgs, ByPath: map[string]*packages.Package{}, Cfg: lc,
		funcs: map[string][]*Func{}, byObj: map[types.Object]*Func{}, byLit: map[*ast.FuncLit]*Func{},
		parents: map[*ast.File]map[ast.Node]ast.Node{}, graphs: map[*Func]*Graph{}}
	var errs []string
	packages.Visit(pkgs, nil, func(pk *packages.Package) {
		p.ByPath[pk.PkgPath] = pk
		if strings.HasPrefix(pk.PkgPath, ModPath) {
			for _, e := range pk.Errors {
				errs = append(errs, pk.PkgPath+": "+e.Error())
			}
		}
	})
	if len(errs) > 0 {
		sort.Strings(errs)
		if len(errs) > 10 {
			errs = errs[:10]
		}
		return nil, fmt.Errorf("type-check errors in analysed packages:\n  %s", strings.Join(errs, "\n  "))
	}
	return p, nil
}

// Pkg returns the root package with the given path relative to the module
// ("store", "client", "" for the module root) or nil.
func (p *Prog) Pkg(rel string) *packages.Package {
	path := ModPath
	if rel != "" {
		path += "/" + rel
	}
	return p.ByPath[path]
}

// MustPkg is Pkg but panics with an anchor error when the package is missing.
func (p *Prog) MustPkg(rel string) *packages.Package {
	pk := p.Pkg(rel)
	if pk == nil || len(pk.Syntax) == 0 {
		panic(AnchorError{fmt.Sprintf("package %s/%s not loaded", ModPath, rel)})
	}
	return pk
}

// AnchorError is raised (panic) when an anchor can no longer be found; main
// turns it into CHECKER-ERROR / exit 2.
type AnchorError struct{ Msg string }

func (a AnchorError) Error() string { return a.Msg }

// Pos renders a position relative to the repository root, "store/sqlite.go:12:3".
func (p *Prog) Pos(pos token.Pos) string {
	if !pos.IsValid() {
		return "-"
	}
	ps := p.Fset.Position(pos)
	f := ps.Filename
	if r := strings.TrimPrefix(f, p.Cfg.Dir+"/"); r != f {
		f = r
	}
	return fmt.Sprintf("%s:%d:%d", f, ps.Line, ps.Column)
}

// Line returns the 1-based line of pos.
func (p *Prog) Line(pos token.Pos) int { return p.Fset.Position(pos).Line }
