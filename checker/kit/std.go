package kit

import (
	"fmt"
	"go/ast"
	"go/constant"
	"go/token"
	"go/types"
	"strings"
)

// Std is the standard abstract interpreter used by most path rules.  On top
// of the flow engine it provides
//
//   - constant tracking of simple local variables (string, bool, integer,
//     nil-able) that are only assigned in the function itself ("v:<id>");
//   - folding of condition leaves over tracked variables and constants;
//   - error-variable tagging: `v, err := call(...)` tags err with the string
//     returned by ErrTag(call) ("ev:<id>"); a later `err != nil` test calls
//     OnErrEdge so the client can move its typestate; the known nil-ness of an
//     error variable is kept in "nn:<id>" = "T" (non-nil) / "F" (nil);
//   - atoms through CondEval (K4);
//   - client hooks for calls and statements.
type Std struct {
	F    *Func
	Eval CondEval
	// ErrTag tags the error result of a call ("" = untagged).
	ErrTag func(call *ast.CallExpr, s S) string
	// OnErrEdge refines the state on the edge where the error variable
	// tagged `tag` is known to be non-nil (isErr) or nil.  Returning ok=false
	// kills the edge.
	OnErrEdge func(tag string, isErr bool, s S) (S, bool)
	// OnCall is invoked for every call in evaluation order; it returns the
	// successor states (nil = unchanged).
	OnCall func(call *ast.CallExpr, n ast.Node, s S) []S
	// OnNode is invoked after the built-in handling of a node.
	OnNode func(n ast.Node, s S) []S
	// OnBranch can override a decision (BrRange, BrSelect, BrCase with tag, …);
	// handled=false falls back to the default (both edges).
	OnBranch func(br Branch, s S) (t, f []S, handled bool)
	// Fold lets the client evaluate a leaf itself (before atoms).
	Fold func(e ast.Expr, s S) (val, ok bool)

	untrackable map[types.Object]bool
	prepared    bool
}

// VarID returns the stable state key suffix of a variable.
func VarID(o types.Object) string {
	if o == nil {
		return "?"
	}
	return fmt.Sprintf("%s@%d", o.Name(), o.Pos())
}

func (st *Std) prepare() {
	if st.prepared {
		return
	}
	st.prepared = true
	st.untrackable = map[types.Object]bool{}
	info := st.F.Info()
	st.Eval.Info = info
	// variables whose address is taken, or that are assigned inside nested
	// function literals, are never tracked.
	var walk func(n ast.Node, inLit bool)
	walk = func(n ast.Node, inLit bool) {
		ast.Inspect(n, func(x ast.Node) bool {
			switch y := x.(type) {
			case *ast.FuncLit:
				if x != n {
					walk(y.Body, true)
					return false
				}
			case *ast.UnaryExpr:
				if y.Op == token.AND {
					if o := ObjOf(info, y.X); o != nil {
						st.untrackable[o] = true
					}
				}
			case *ast.AssignStmt:
				if inLit {
					for _, l := range y.Lhs {
						if o := ObjOf(info, l); o != nil {
							st.untrackable[o] = true
						}
					}
				}
			case *ast.IncDecStmt:
				if inLit {
					if o := ObjOf(info, y.X); o != nil {
						st.untrackable[o] = true
					}
				}
			}
			return true
		})
	}
	walk(st.F.Body, false)
	user := st.Fold
	st.Eval.Fold = func(e ast.Expr, s S) (bool, bool) {
		if user != nil {
			if v, ok := user(e, s); ok {
				return v, true
			}
		}
		// error nil-ness
		if x, trueIsErr, ok := ErrCheck(info, e); ok {
			if o := ObjOf(info, x); o != nil {
				switch s.Get("nn:" + VarID(o)) {
				case "T":
					return trueIsErr, true
				case "F":
					return !trueIsErr, true
				}
			}
		}
		v, ok := st.FoldExpr(e, s)
		if ok && v.Kind() == constant.Bool {
			return constant.BoolVal(v), true
		}
		return false, false
	}
}

func (st *Std) trackable(o types.Object) bool {
	v, ok := o.(*types.Var)
	if !ok || v.IsField() || st.untrackable[o] {
		return false
	}
	// must be declared inside the function (not a package variable)
	if v.Parent() == nil || v.Pkg() == nil || v.Parent() == v.Pkg().Scope() {
		return false
	}
	return true
}

func constRepr(v constant.Value) string { return v.ExactString() }

// FoldExpr evaluates e over constants and tracked variables.
func (st *Std) FoldExpr(e ast.Expr, s S) (constant.Value, bool) {
	info := st.F.Info()
	e = ast.Unparen(e)
	if tv, ok := info.Types[e]; ok && tv.Value != nil {
		return tv.Value, true
	}
	switch x := e.(type) {
	case *ast.Ident:
		o := ObjOf(info, x)
		if o == nil || !st.trackable(o) {
			return nil, false
		}
		if r := s.Get("v:" + VarID(o)); r != "" {
			return parseConstRepr(r)
		}
	case *ast.UnaryExpr:
		v, ok := st.FoldExpr(x.X, s)
		if !ok {
			return nil, false
		}
		switch x.Op {
		case token.NOT:
			if v.Kind() == constant.Bool {
				return constant.MakeBool(!constant.BoolVal(v)), true
			}
		case token.SUB:
			if v.Kind() == constant.Int || v.Kind() == constant.Float {
				return constant.UnaryOp(token.SUB, v, 0), true
			}
		}
	case *ast.BinaryExpr:
		if v, ok := st.foldSaturated(x, s); ok {
			return v, true
		}
		a, ok1 := st.FoldExpr(x.X, s)
		b, ok2 := st.FoldExpr(x.Y, s)
		if !ok1 || !ok2 {
			return nil, false
		}
		return foldBinary(a, b, x.Op)
	case *ast.CallExpr:
		if b, ok := Callee(info, x).(*types.Builtin); ok && b.Name() == "len" && len(x.Args) == 1 {
			if v, ok := st.FoldExpr(x.Args[0], s); ok && v.Kind() == constant.String {
				return constant.MakeInt64(int64(len(constant.StringVal(v)))), true
			}
		}
	}
	return nil, false
}

const (
	satCap  = 3
	satRepr = "3+"
)

// foldSaturated compares a saturated counter (value >= satCap) with a
// constant below satCap; the outcome is the same for every such value.
func (st *Std) foldSaturated(x *ast.BinaryExpr, s S) (constant.Value, bool) {
	info := st.F.Info()
	isSat := func(e ast.Expr) bool {
		id, ok := ast.Unparen(e).(*ast.Ident)
		if !ok {
			return false
		}
		o := ObjOf(info, id)
		return o != nil && st.trackable(o) && s.Get("v:"+VarID(o)) == satRepr
	}
	op := x.Op
	var c ast.Expr
	switch {
	case isSat(x.X):
		c = x.Y
	case isSat(x.Y):
		c = x.X
		switch op { // mirror
		case token.LSS:
			op = token.GTR
		case token.GTR:
			op = token.LSS
		case token.LEQ:
			op = token.GEQ
		case token.GEQ:
			op = token.LEQ
		}
	default:
		return nil, false
	}
	cv, ok := st.FoldExpr(c, s)
	if !ok || cv.Kind() != constant.Int {
		return nil, false
	}
	if iv, exact := constant.Int64Val(cv); !exact || iv >= satCap {
		return nil, false
	}
	switch op {
	case token.EQL, token.NEQ, token.LSS, token.LEQ, token.GTR, token.GEQ:
		return constant.MakeBool(constant.Compare(constant.MakeInt64(satCap), op, cv)), true
	}
	return nil, false
}

func foldBinary(a, b constant.Value, op token.Token) (v constant.Value, ok bool) {
	defer func() {
		if recover() != nil {
			v, ok = nil, false
		}
	}()
	switch op {
	case token.EQL, token.NEQ, token.LSS, token.LEQ, token.GTR, token.GEQ:
		if a.Kind() == constant.Bool && b.Kind() == constant.Bool {
			if op == token.EQL {
				return constant.MakeBool(constant.BoolVal(a) == constant.BoolVal(b)), true
			}
			if op == token.NEQ {
				return constant.MakeBool(constant.BoolVal(a) != constant.BoolVal(b)), true
			}
			return nil, false
		}
		if a.Kind() == constant.String != (b.Kind() == constant.String) {
			return nil, false
		}
		return constant.MakeBool(constant.Compare(a, op, b)), true
	case token.ADD, token.SUB, token.MUL:
		if a.Kind() == constant.String && b.Kind() == constant.String && op == token.ADD {
			return constant.BinaryOp(a, op, b), true
		}
		if (a.Kind() == constant.Int || a.Kind() == constant.Float) && (b.Kind() == constant.Int || b.Kind() == constant.Float) {
			return constant.BinaryOp(a, op, b), true
		}
	case token.LAND:
		if a.Kind() == constant.Bool && b.Kind() == constant.Bool {
			return constant.MakeBool(constant.BoolVal(a) && constant.BoolVal(b)), true
		}
	case token.LOR:
		if a.Kind() == constant.Bool && b.Kind() == constant.Bool {
			return constant.MakeBool(constant.BoolVal(a) || constant.BoolVal(b)), true
		}
	}
	return nil, false
}

func parseConstRepr(r string) (constant.Value, bool) {
	switch {
	case r == "true":
		return constant.MakeBool(true), true
	case r == "false":
		return constant.MakeBool(false), true
	case strings.HasPrefix(r, "\""):
		v := constant.MakeFromLiteral(r, token.STRING, 0)
		return v, v.Kind() == constant.String
	}
	v := constant.MakeFromLiteral(r, token.INT, 0)
	if v.Kind() == constant.Int {
		return v, true
	}
	v = constant.MakeFromLiteral(r, token.FLOAT, 0)
	return v, v.Kind() == constant.Float
}

func zeroRepr(t types.Type) (string, bool) {
	b, ok := t.Underlying().(*types.Basic)
	if !ok {
		return "", false
	}
	switch {
	case b.Info()&types.IsString != 0:
		return `""`, true
	case b.Info()&types.IsBoolean != 0:
		return "false", true
	case b.Info()&types.IsInteger != 0:
		return "0", true
	}
	return "", false
}

// assign updates tracking for `lhs = rhs` (rhs may be nil for a multi-value
// call result or an unknown value).
func (st *Std) assign(s S, lhs ast.Expr, rhs ast.Expr, fromCall *ast.CallExpr, isErrPos bool) S {
	info := st.F.Info()
	o := ObjOf(info, lhs)
	if o == nil {
		return s
	}
	id := VarID(o)
	s = s.Del("v:" + id).Del("nn:" + id).Del("ev:" + id).Del("bv:" + id).Del("q:" + id)
	if !st.trackable(o) {
		return s
	}
	if rhs != nil {
		if IsNilIdent(info, rhs) {
			if types.Identical(o.Type(), types.Universe.Lookup("error").Type()) {
				return s.Set("nn:"+id, "F")
			}
			return s
		}
		if v, ok := st.FoldExpr(rhs, s); ok {
			if v.Kind() == constant.Bool || v.Kind() == constant.String || v.Kind() == constant.Int {
				return s.Set("v:"+id, constRepr(v))
			}
		}
		if c, ok := ast.Unparen(rhs).(*ast.CallExpr); ok {
			fromCall = c
			isErrPos = types.Identical(o.Type(), types.Universe.Lookup("error").Type())
		}
	}
	if fromCall != nil {
		if isErrPos && types.Identical(o.Type(), types.Universe.Lookup("error").Type()) {
			if q := QualName(Callee(info, fromCall)); q == "fmt.Errorf" || q == "errors.New" {
				return s.Set("nn:"+id, "T")
			}
			if st.ErrTag != nil {
				if tag := st.ErrTag(fromCall, s); tag != "" {
					s = s.Set("ev:"+id, tag)
				}
			}
		}
	}
	return s
}

// Client builds the flow client.
func (st *Std) Client() Client {
	st.prepare()
	info := st.F.Info()
	node := func(n ast.Node, s S) []S {
		states := []S{s}
		if st.OnCall != nil {
			for _, call := range CallsIn(n) {
				var next []S
				for _, x := range states {
					r := st.OnCall(call, n, x)
					if r == nil {
						next = append(next, x)
					} else {
						next = append(next, r...)
					}
				}
				states = next
			}
		}
		var out []S
		for _, x := range states {
			switch y := n.(type) {
			case *ast.AssignStmt:
				if len(y.Rhs) == 1 && len(y.Lhs) > 1 {
					call, _ := ast.Unparen(y.Rhs[0]).(*ast.CallExpr)
					for i, l := range y.Lhs {
						x = st.assign(x, l, nil, call, i == len(y.Lhs)-1)
					}
				} else if len(y.Lhs) == len(y.Rhs) {
					if y.Tok == token.ASSIGN || y.Tok == token.DEFINE {
						for i, l := range y.Lhs {
							x = st.assign(x, l, y.Rhs[i], nil, false)
						}
					} else {
						for _, l := range y.Lhs {
							x = st.assign(x, l, nil, nil, false)
						}
					}
				}
			case *ast.IncDecStmt:
				// a tracked small counter keeps its value (capped)
				if o := ObjOf(info, y.X); o != nil && st.trackable(o) {
					if v, ok := st.FoldExpr(y.X, x); ok && v.Kind() == constant.Int {
						if iv, exact := constant.Int64Val(v); exact && iv >= 0 && iv < satCap && y.Tok == token.INC {
							iv++
							if iv == satCap {
								// saturated: stands for every value >= satCap
								x = x.Set("v:"+VarID(o), satRepr)
							} else {
								x = x.Set("v:"+VarID(o), constRepr(constant.MakeInt64(iv)))
							}
							break
						}
					}
					if x.Get("v:"+VarID(o)) == satRepr && y.Tok == token.INC {
						break
					}
				}
				x = st.assign(x, y.X, nil, nil, false)
			case *ast.ValueSpec:
				for i, nm := range y.Names {
					o := info.Defs[nm]
					if o == nil {
						continue
					}
					if i < len(y.Values) && len(y.Values) == len(y.Names) {
						x = st.assign(x, nm, y.Values[i], nil, false)
					} else if len(y.Values) == 0 && st.trackable(o) {
						if z, ok := zeroRepr(o.Type()); ok {
							x = x.Set("v:"+VarID(o), z)
						} else if types.Identical(o.Type(), types.Universe.Lookup("error").Type()) {
							x = x.Set("nn:"+VarID(o), "F")
						}
					} else {
						x = st.assign(x, nm, nil, nil, false)
					}
				}
			case *ast.Ident:
				// range key/value definitions: forget
				x = st.assign(x, y, nil, nil, false)
			}
			if st.OnNode != nil {
				out = append(out, st.OnNode(n, x)...)
			} else {
				out = append(out, x)
			}
		}
		return out
	}
	var cond0 func(c ast.Expr, s S) (t, f []S)
	cond := func(c ast.Expr, s S) (t, f []S) {
		// calls evaluated as part of the condition are seen by OnCall first
		states := []S{s}
		if st.OnCall != nil {
			for _, call := range CallsIn(c) {
				var next []S
				for _, x := range states {
					r := st.OnCall(call, c, x)
					if r == nil {
						next = append(next, x)
					} else {
						next = append(next, r...)
					}
				}
				states = next
			}
		}
		for _, x := range states {
			a, b := cond0(c, x)
			t = append(t, a...)
			f = append(f, b...)
		}
		return t, f
	}
	// error checks are leaves of the condition: `err != nil`, `!(err != nil)`,
	// `err != nil || len(x) == 0` all refine the error variable's state.
	st.Eval.Leaf = func(c ast.Expr, s S) (t, f []S, handled bool) {
		x, trueIsErr, ok := ErrCheck(info, c)
		if !ok {
			return nil, nil, false
		}
		o := ObjOf(info, x)
		if o == nil {
			return nil, nil, false
		}
		id := VarID(o)
		tag := s.Get("ev:" + id)
		mk := func(isErr bool) []S {
			if k := s.Get("nn:" + id); (k == "T" && !isErr) || (k == "F" && isErr) {
				return nil
			}
			s2 := s
			if st.trackable(o) {
				if isErr {
					s2 = s2.Set("nn:"+id, "T")
				} else {
					s2 = s2.Set("nn:"+id, "F")
				}
			}
			if tag != "" && st.OnErrEdge != nil {
				var ok bool
				if s2, ok = st.OnErrEdge(tag, isErr, s2); !ok {
					return nil
				}
			}
			return []S{s2}
		}
		if trueIsErr {
			return mk(true), mk(false), true
		}
		return mk(false), mk(true), true
	}
	// `x == const` / `x != const` on a local variable whose value is not known:
	// the equal edge learns the value (constant tracking takes over), the other
	// edge remembers the excluded constant, so correlated tests of one variable
	// (`if p == "" || p == "root"` … `if p == "root"`) do not produce infeasible paths.
	st.Eval.LeafLate = func(c ast.Expr, s S) (t, f []S, handled bool) {
		a, b, op, ok := CmpAtom(c)
		if !ok || (op != token.EQL && op != token.NEQ) {
			return nil, nil, false
		}
		if _, isConst := st.FoldExpr(a, s); isConst {
			a, b = b, a
		}
		cv, isConst := st.FoldExpr(b, s)
		if !isConst || !(cv.Kind() == constant.String || cv.Kind() == constant.Int || cv.Kind() == constant.Bool) {
			return nil, nil, false
		}
		id, isID := ast.Unparen(a).(*ast.Ident)
		if !isID {
			return nil, nil, false
		}
		o := ObjOf(info, id)
		if o == nil || !st.trackable(o) || s.Has("v:"+VarID(o)) {
			return nil, nil, false
		}
		if bt, ok := o.Type().Underlying().(*types.Basic); !ok || bt.Info()&(types.IsString|types.IsInteger|types.IsBoolean) == 0 {
			return nil, nil, false
		}
		vid := VarID(o)
		repr := constRepr(cv)
		excl := []string{}
		if q := s.Get("q:" + vid); q != "" {
			excl = strings.Split(q, "\x00")
		}
		known := false
		for _, x := range excl {
			if x == repr {
				known = true
			}
		}
		var eq, ne []S
		if !known {
			eq = []S{s.Del("q:"+vid).Set("v:"+vid, repr)}
		}
		if known || len(excl) >= 6 {
			ne = []S{s}
		} else {
			ne = []S{s.Set("q:"+vid, strings.Join(append(excl, repr), "\x00"))}
		}
		if op == token.EQL {
			return eq, ne, true
		}
		return ne, eq, true
	}
	cond0 = func(c ast.Expr, s S) (t, f []S) {
		return st.Eval.Eval(c, s)
	}
	other := func(br Branch, s S) (t, f []S) {
		if st.OnBranch != nil {
			if t, f, ok := st.OnBranch(br, s); ok {
				return t, f
			}
		}
		if br.Kind == BrCase && br.Tag != nil {
			// tagged switch: fold tag == case when both are known
			a, ok1 := st.FoldExpr(br.Tag, s)
			b, ok2 := st.FoldExpr(br.Case, s)
			if ok1 && ok2 {
				if v, ok := foldBinary(a, b, token.EQL); ok {
					if constant.BoolVal(v) {
						return []S{s}, nil
					}
					return nil, []S{s}
				}
			}
		}
		return []S{s}, []S{s}
	}
	return Client{Node: node, Cond: cond, Other: other}
}

// ReturnsNil classifies the error result of a return statement under s:
// "nil", "nonnil" or "unknown".  The error result is taken to be the last
// result.
func (st *Std) ReturnsNil(r *ast.ReturnStmt, s S) string {
	info := st.F.Info()
	if r == nil || len(r.Results) == 0 {
		return "unknown"
	}
	e := ast.Unparen(r.Results[len(r.Results)-1])
	if IsNilIdent(info, e) {
		return "nil"
	}
	if c, ok := e.(*ast.CallExpr); ok {
		switch QualName(Callee(info, c)) {
		case "fmt.Errorf", "errors.New":
			return "nonnil"
		}
		return "unknown"
	}
	if o := ObjOf(info, e); o != nil {
		switch s.Get("nn:" + VarID(o)) {
		case "T":
			return "nonnil"
		case "F":
			return "nil"
		}
	}
	return "unknown"
}
