package kit

import (
	"fmt"
	"go/ast"
	"go/constant"
	"go/token"
	"go/types"
	"strings"

	"golang.org/x/tools/go/cfg"
)

// Std is the standard abstract interpreter used by most path rules.  On top
// of the flow engine it provides
//
//   - constant tracking of simple local variables (string, bool, integer,
//     nil-able) that are only assigned in the function itself ("v:<id>");
//   - folding of condition leaves over tracked variables and constants;
//   - error-variable tagging: `v, err := call(...)` tags err with the string
//     returned by ErrTag(call) ("ev:<id>"); a later `err != nil` test calls
//     OnErrEdge so the client can move its typestate; the known nil-ness of an
//     error variable is kept in "nn:<id>" = "T" (non-nil) / "F" (nil);
//   - atoms through CondEval (K4);
//   - client hooks for calls and statements.
type Std struct {
	F    *Func
	Eval CondEval
	// ErrTag tags the error result of a call ("" = untagged).
	ErrTag func(call *ast.CallExpr, s S) string
	// OnErrEdge refines the state on the edge where the error variable
	// tagged `tag` is known to be non-nil (isErr) or nil.  Returning ok=false
	// kills the edge.
	OnErrEdge func(tag string, isErr bool, s S) (S, bool)
	// OnCall is invoked for every call in evaluation order; it returns the
	// successor states (nil = unchanged).
	OnCall func(call *ast.CallExpr, n ast.Node, s S) []S
	// OnNode is invoked after the built-in handling of a node.
	OnNode func(n ast.Node, s S) []S
	// OnBranch can override a decision (BrRange, BrSelect, BrCase with tag, …);
	// handled=false falls back to the default (both edges).
	OnBranch func(br Branch, s S) (t, f []S, handled bool)
	// Fold lets the client evaluate a leaf itself (before atoms).
	Fold func(e ast.Expr, s S) (val, ok bool)

	// ShouldInline opts into interprocedural evaluation: a call of a function of
	// the analysed module for which it returns true is evaluated by running the
	// callee's CFG under the current state (parameters bound to the arguments),
	// so that guards, predicates and effects moved into helpers are still seen.
	// Recursive calls and calls nested deeper than MaxInline (default 3) are not
	// inlined.  Results are available through CallResult while the statement that
	// contains the call is processed.
	ShouldInline func(cf *Func, call *ast.CallExpr) bool
	MaxInline    int
	// Inlined collects the callees that were evaluated (for evidence).
	Inlined map[*Func]bool

	frames      []*inlFrame
	untrackable map[types.Object]bool
	scanned     map[*Func]bool
	prepared    bool
}

type inlFrame struct {
	fn   *Func
	call *ast.CallExpr
	bind map[types.Object]ast.Expr
}

// Resolve maps an identifier that denotes a parameter of a function currently
// being evaluated inline to the argument expression it is bound to (through all
// frames).  Rules compare roles on the resolved expression.
func (st *Std) Resolve(e ast.Expr) ast.Expr {
	for i := 0; i < 8; i++ {
		id, ok := ast.Unparen(e).(*ast.Ident)
		if !ok {
			return e
		}
		o := ObjOf(st.F.Info(), id)
		found := false
		for j := len(st.frames) - 1; j >= 0; j-- {
			if a, ok := st.frames[j].bind[o]; ok {
				e, found = a, true
				break
			}
		}
		if !found {
			return e
		}
	}
	return e
}

// ObjOf is kit.ObjOf after Resolve.
func (st *Std) ObjOf(e ast.Expr) types.Object { return ObjOf(st.F.Info(), st.Resolve(e)) }

// Cur returns the function whose body is being evaluated (the root function or
// the innermost inlined callee).
func (st *Std) Cur() *Func {
	if n := len(st.frames); n > 0 {
		return st.frames[n-1].fn
	}
	return st.F
}

// CurCall returns the call expression through which the function being
// evaluated inline was entered (nil in the root function).
func (st *Std) CurCall() *ast.CallExpr {
	if n := len(st.frames); n > 0 {
		return st.frames[n-1].call
	}
	return nil
}

// IsFrameParam reports whether o is a parameter (or the receiver) of a function
// currently being evaluated inline.
func (st *Std) IsFrameParam(o types.Object) bool {
	for _, fr := range st.frames {
		if _, ok := fr.bind[o]; ok {
			return true
		}
	}
	return false
}

// CallResult returns the classification of result i of an inlined call in
// state s: "nil"/"nonnil" for errors, "true"/"false" for booleans, "" unknown.
func (st *Std) CallResult(call *ast.CallExpr, i int, s S) string {
	return s.Get(fmt.Sprintf("rc:%d:%d", call.Pos(), i))
}

// VarID returns the stable state key suffix of a variable.
func VarID(o types.Object) string {
	if o == nil {
		return "?"
	}
	return fmt.Sprintf("%s@%d", o.Name(), o.Pos())
}

func (st *Std) prepare() {
	if st.prepared {
		return
	}
	st.prepared = true
	st.untrackable = map[types.Object]bool{}
	st.scanned = map[*Func]bool{}
	info := st.F.Info()
	st.Eval.Info = info
	st.scanFunc(st.F)
	user := st.Fold
	st.Eval.Fold = func(e ast.Expr, s S) (bool, bool) {
		if user != nil {
			if v, ok := user(e, s); ok {
				return v, true
			}
		}
		// error nil-ness
		if x, trueIsErr, ok := ErrCheck(info, e); ok {
			if o := ObjOf(info, x); o != nil {
				switch s.Get("nn:" + VarID(o)) {
				case "T":
					return trueIsErr, true
				case "F":
					return !trueIsErr, true
				}
			}
		}
		v, ok := st.FoldExpr(e, s)
		if ok && v.Kind() == constant.Bool {
			return constant.BoolVal(v), true
		}
		return false, false
	}
}

// scanFunc records the variables of f that are never tracked: address taken, or
// assigned inside nested function literals.
func (st *Std) scanFunc(f *Func) {
	if st.scanned[f] || f.Body == nil {
		return
	}
	st.scanned[f] = true
	info := f.Info()
	// named results: a deferred closure that assigns one changes what is returned
	named := map[types.Object]bool{}
	if ft := f.Type; ft != nil && ft.Results != nil {
		for _, fld := range ft.Results.List {
			for _, nm := range fld.Names {
				if o := info.Defs[nm]; o != nil {
					named[o] = true
				}
			}
		}
	}
	var walk func(n ast.Node, inLit bool)
	walk = func(n ast.Node, inLit bool) {
		ast.Inspect(n, func(x ast.Node) bool {
			switch y := x.(type) {
			case *ast.DeferStmt:
				// `defer func() { … err = tx.Commit() … }()`: the literal runs when the
				// function is left, after the value of an unnamed result has been fixed, so
				// its assignments do not disturb what the body's flow knows about a local
				if fl, ok := ast.Unparen(y.Call.Fun).(*ast.FuncLit); ok && !inLit && len(y.Call.Args) == 0 {
					ast.Inspect(fl.Body, func(z ast.Node) bool {
						switch w := z.(type) {
						case *ast.FuncLit:
							walk(w.Body, true)
							return false
						case *ast.UnaryExpr:
							if w.Op == token.AND {
								if o := ObjOf(info, w.X); o != nil {
									st.untrackable[o] = true
								}
							}
						case *ast.AssignStmt:
							for _, l := range w.Lhs {
								if o := ObjOf(info, l); o != nil && named[o] {
									st.untrackable[o] = true
								}
							}
						case *ast.IncDecStmt:
							if o := ObjOf(info, w.X); o != nil && named[o] {
								st.untrackable[o] = true
							}
						}
						return true
					})
					return false
				}
			case *ast.FuncLit:
				if x != n {
					walk(y.Body, true)
					return false
				}
			case *ast.UnaryExpr:
				if y.Op == token.AND {
					if o := ObjOf(info, y.X); o != nil {
						st.untrackable[o] = true
					}
				}
			case *ast.AssignStmt:
				if inLit {
					for _, l := range y.Lhs {
						if o := ObjOf(info, l); o != nil {
							st.untrackable[o] = true
						}
					}
				}
			case *ast.IncDecStmt:
				if inLit {
					if o := ObjOf(info, y.X); o != nil {
						st.untrackable[o] = true
					}
				}
			}
			return true
		})
	}
	walk(f.Body, false)
}

func (st *Std) trackable(o types.Object) bool {
	v, ok := o.(*types.Var)
	if !ok || v.IsField() || st.untrackable[o] {
		return false
	}
	// must be declared inside the function (not a package variable)
	if v.Parent() == nil || v.Pkg() == nil || v.Parent() == v.Pkg().Scope() {
		return false
	}
	return true
}

func constRepr(v constant.Value) string { return v.ExactString() }

// FoldExpr evaluates e over constants and tracked variables.
func (st *Std) FoldExpr(e ast.Expr, s S) (constant.Value, bool) {
	info := st.F.Info()
	e = ast.Unparen(e)
	if tv, ok := info.Types[e]; ok && tv.Value != nil {
		return tv.Value, true
	}
	if e == ast.Expr(EmptyStringLit) {
		return constant.MakeString(""), true
	}
	switch x := e.(type) {
	case *ast.Ident:
		o := ObjOf(info, x)
		if o == nil || !st.trackable(o) {
			return nil, false
		}
		if r := s.Get("v:" + VarID(o)); r != "" {
			return parseConstRepr(r)
		}
	case *ast.UnaryExpr:
		v, ok := st.FoldExpr(x.X, s)
		if !ok {
			return nil, false
		}
		switch x.Op {
		case token.NOT:
			if v.Kind() == constant.Bool {
				return constant.MakeBool(!constant.BoolVal(v)), true
			}
		case token.SUB:
			if v.Kind() == constant.Int || v.Kind() == constant.Float {
				return constant.UnaryOp(token.SUB, v, 0), true
			}
		}
	case *ast.BinaryExpr:
		if v, ok := st.foldSaturated(x, s); ok {
			return v, true
		}
		a, ok1 := st.FoldExpr(x.X, s)
		b, ok2 := st.FoldExpr(x.Y, s)
		if !ok1 || !ok2 {
			return nil, false
		}
		return foldBinary(a, b, x.Op)
	case *ast.CallExpr:
		// result of a call that was evaluated inline in this statement
		switch r := s.Get(fmt.Sprintf("rc:%d:0", x.Pos())); {
		case r == "true" || r == "false":
			return constant.MakeBool(r == "true"), true
		case strings.HasPrefix(r, "c:"):
			return parseConstRepr(r[2:])
		}
		if b, ok := Callee(info, x).(*types.Builtin); ok && b.Name() == "len" && len(x.Args) == 1 {
			if v, ok := st.FoldExpr(x.Args[0], s); ok && v.Kind() == constant.String {
				return constant.MakeInt64(int64(len(constant.StringVal(v)))), true
			}
		}
	}
	return nil, false
}

const (
	satCap  = 3
	satRepr = "3+"
)

// foldSaturated compares a saturated counter (value >= satCap) with a
// constant below satCap; the outcome is the same for every such value.
func (st *Std) foldSaturated(x *ast.BinaryExpr, s S) (constant.Value, bool) {
	info := st.F.Info()
	isSat := func(e ast.Expr) bool {
		id, ok := ast.Unparen(e).(*ast.Ident)
		if !ok {
			return false
		}
		o := ObjOf(info, id)
		return o != nil && st.trackable(o) && s.Get("v:"+VarID(o)) == satRepr
	}
	op := x.Op
	var c ast.Expr
	switch {
	case isSat(x.X):
		c = x.Y
	case isSat(x.Y):
		c = x.X
		switch op { // mirror
		case token.LSS:
			op = token.GTR
		case token.GTR:
			op = token.LSS
		case token.LEQ:
			op = token.GEQ
		case token.GEQ:
			op = token.LEQ
		}
	default:
		return nil, false
	}
	cv, ok := st.FoldExpr(c, s)
	if !ok || cv.Kind() != constant.Int {
		return nil, false
	}
	if iv, exact := constant.Int64Val(cv); !exact || iv >= satCap {
		return nil, false
	}
	switch op {
	case token.EQL, token.NEQ, token.LSS, token.LEQ, token.GTR, token.GEQ:
		return constant.MakeBool(constant.Compare(constant.MakeInt64(satCap), op, cv)), true
	}
	return nil, false
}

func foldBinary(a, b constant.Value, op token.Token) (v constant.Value, ok bool) {
	defer func() {
		if recover() != nil {
			v, ok = nil, false
		}
	}()
	switch op {
	case token.EQL, token.NEQ, token.LSS, token.LEQ, token.GTR, token.GEQ:
		if a.Kind() == constant.Bool && b.Kind() == constant.Bool {
			if op == token.EQL {
				return constant.MakeBool(constant.BoolVal(a) == constant.BoolVal(b)), true
			}
			if op == token.NEQ {
				return constant.MakeBool(constant.BoolVal(a) != constant.BoolVal(b)), true
			}
			return nil, false
		}
		if a.Kind() == constant.String != (b.Kind() == constant.String) {
			return nil, false
		}
		return constant.MakeBool(constant.Compare(a, op, b)), true
	case token.ADD, token.SUB, token.MUL:
		if a.Kind() == constant.String && b.Kind() == constant.String && op == token.ADD {
			return constant.BinaryOp(a, op, b), true
		}
		if (a.Kind() == constant.Int || a.Kind() == constant.Float) && (b.Kind() == constant.Int || b.Kind() == constant.Float) {
			return constant.BinaryOp(a, op, b), true
		}
	case token.LAND:
		if a.Kind() == constant.Bool && b.Kind() == constant.Bool {
			return constant.MakeBool(constant.BoolVal(a) && constant.BoolVal(b)), true
		}
	case token.LOR:
		if a.Kind() == constant.Bool && b.Kind() == constant.Bool {
			return constant.MakeBool(constant.BoolVal(a) || constant.BoolVal(b)), true
		}
	}
	return nil, false
}

func parseConstRepr(r string) (constant.Value, bool) {
	switch {
	case r == "true":
		return constant.MakeBool(true), true
	case r == "false":
		return constant.MakeBool(false), true
	case strings.HasPrefix(r, "\""):
		v := constant.MakeFromLiteral(r, token.STRING, 0)
		return v, v.Kind() == constant.String
	}
	v := constant.MakeFromLiteral(r, token.INT, 0)
	if v.Kind() == constant.Int {
		return v, true
	}
	v = constant.MakeFromLiteral(r, token.FLOAT, 0)
	return v, v.Kind() == constant.Float
}

func zeroRepr(t types.Type) (string, bool) {
	b, ok := t.Underlying().(*types.Basic)
	if !ok {
		return "", false
	}
	switch {
	case b.Info()&types.IsString != 0:
		return `""`, true
	case b.Info()&types.IsBoolean != 0:
		return "false", true
	case b.Info()&types.IsInteger != 0:
		return "0", true
	}
	return "", false
}

// isBoolDef: lhs is a tracked boolean local and rhs a comparison or a logical
// combination (not a constant, not a bare call or variable).
func (st *Std) isBoolDef(lhs, rhs ast.Expr, s S) bool {
	info := st.F.Info()
	o := ObjOf(info, lhs)
	if o == nil || !st.trackable(o) {
		return false
	}
	if b, ok := o.Type().Underlying().(*types.Basic); !ok || b.Info()&types.IsBoolean == 0 {
		return false
	}
	if _, ok := st.FoldExpr(rhs, s); ok {
		return false
	}
	switch r := ast.Unparen(rhs).(type) {
	case *ast.BinaryExpr:
		switch r.Op {
		case token.EQL, token.NEQ, token.LSS, token.LEQ, token.GTR, token.GEQ, token.LAND, token.LOR:
			return true
		}
	case *ast.UnaryExpr:
		return r.Op == token.NOT
	case *ast.Ident, *ast.SelectorExpr:
		// a copy of something the rule treats as an atom (`keep := includeDeleted`)
		if st.Eval.Atom != nil {
			if _, _, ok := st.Eval.Atom(rhs); ok {
				return true
			}
		}
	}
	return false
}

// assign updates tracking for `lhs = rhs` (rhs may be nil for a multi-value
// call result or an unknown value).
func (st *Std) assign(s S, lhs ast.Expr, rhs ast.Expr, fromCall *ast.CallExpr, isErrPos bool, idx int) S {
	info := st.F.Info()
	o := ObjOf(info, lhs)
	if o == nil {
		return s
	}
	id := VarID(o)
	s = s.Del("v:" + id).Del("nn:" + id).Del("ev:" + id).Del("bv:" + id).Del("q:" + id)
	if !st.trackable(o) {
		return s
	}
	if rhs != nil {
		if IsNilIdent(info, rhs) {
			if types.Identical(o.Type(), types.Universe.Lookup("error").Type()) {
				return s.Set("nn:"+id, "F")
			}
			return s
		}
		if v, ok := st.FoldExpr(rhs, s); ok {
			if v.Kind() == constant.Bool || v.Kind() == constant.String || v.Kind() == constant.Int {
				return s.Set("v:"+id, constRepr(v))
			}
		}
		if c, ok := ast.Unparen(rhs).(*ast.CallExpr); ok {
			fromCall = c
			isErrPos = types.Identical(o.Type(), types.Universe.Lookup("error").Type())
		}
	}
	if fromCall != nil {
		switch st.CallResult(fromCall, idx, s) {
		case "nil":
			return s.Set("nn:"+id, "F")
		case "nonnil":
			return s.Set("nn:"+id, "T")
		case "true", "false":
			return s.Set("v:"+id, st.CallResult(fromCall, idx, s))
		default:
			if r := st.CallResult(fromCall, idx, s); strings.HasPrefix(r, "c:") {
				return s.Set("v:"+id, r[2:])
			}
		}
		if isErrPos && types.Identical(o.Type(), types.Universe.Lookup("error").Type()) {
			if q := QualName(Callee(info, fromCall)); q == "fmt.Errorf" || q == "errors.New" {
				return s.Set("nn:"+id, "T")
			}
			if st.ErrTag != nil {
				if tag := st.ErrTag(fromCall, s); tag != "" {
					s = s.Set("ev:"+id, tag)
				}
			}
		}
	}
	return s
}

// Client builds the flow client.
func (st *Std) Client() Client {
	st.prepare()
	info := st.F.Info()
	var cl Client
	node := func(n ast.Node, s S) []S {
		states := st.execCalls(n, []S{s}, &cl)
		var out []S
		for _, x := range states {
			var forked []S
			switch y := n.(type) {
			case *ast.AssignStmt:
				if len(y.Rhs) == 1 && len(y.Lhs) > 1 {
					call, _ := ast.Unparen(y.Rhs[0]).(*ast.CallExpr)
					for i, l := range y.Lhs {
						x = st.assign(x, l, nil, call, i == len(y.Lhs)-1, i)
					}
				} else if len(y.Lhs) == len(y.Rhs) {
					if y.Tok == token.ASSIGN || y.Tok == token.DEFINE {
						if len(y.Lhs) == 1 && st.isBoolDef(y.Lhs[0], y.Rhs[0], x) {
							// `b := <condition>`: evaluate the condition now, over the rule's own
							// atoms, and remember the outcome in b (a test moved into a local)
							ts, fs := st.Eval.Eval(y.Rhs[0], x)
							id := VarID(ObjOf(info, y.Lhs[0]))
							for _, z := range ts {
								forked = append(forked, st.assign(z, y.Lhs[0], nil, nil, false, 0).Set("v:"+id, "true"))
							}
							for _, z := range fs {
								forked = append(forked, st.assign(z, y.Lhs[0], nil, nil, false, 0).Set("v:"+id, "false"))
							}
							break
						}
						for i, l := range y.Lhs {
							x = st.assign(x, l, y.Rhs[i], nil, false, 0)
						}
					} else {
						for _, l := range y.Lhs {
							x = st.assign(x, l, nil, nil, false, 0)
						}
					}
				}
			case *ast.IncDecStmt:
				// a tracked small counter keeps its value (capped)
				if o := ObjOf(info, y.X); o != nil && st.trackable(o) {
					if v, ok := st.FoldExpr(y.X, x); ok && v.Kind() == constant.Int {
						if iv, exact := constant.Int64Val(v); exact && iv >= 0 && iv < satCap && y.Tok == token.INC {
							iv++
							if iv == satCap {
								// saturated: stands for every value >= satCap
								x = x.Set("v:"+VarID(o), satRepr)
							} else {
								x = x.Set("v:"+VarID(o), constRepr(constant.MakeInt64(iv)))
							}
							break
						}
					}
					if x.Get("v:"+VarID(o)) == satRepr && y.Tok == token.INC {
						break
					}
				}
				x = st.assign(x, y.X, nil, nil, false, 0)
			case *ast.ValueSpec:
				for i, nm := range y.Names {
					o := info.Defs[nm]
					if o == nil {
						continue
					}
					if i < len(y.Values) && len(y.Values) == len(y.Names) {
						x = st.assign(x, nm, y.Values[i], nil, false, 0)
					} else if len(y.Values) == 0 && st.trackable(o) {
						if z, ok := zeroRepr(o.Type()); ok {
							x = x.Set("v:"+VarID(o), z)
						} else if types.Identical(o.Type(), types.Universe.Lookup("error").Type()) {
							x = x.Set("nn:"+VarID(o), "F")
						}
					} else {
						x = st.assign(x, nm, nil, nil, false, 0)
					}
				}
			case *ast.Ident:
				// range key/value definitions: forget
				x = st.assign(x, y, nil, nil, false, 0)
			}
			if forked == nil {
				forked = []S{x}
			}
			for _, x := range forked {
				if st.OnNode != nil {
					out = append(out, st.OnNode(n, x)...)
				} else {
					out = append(out, x)
				}
			}
		}
		if _, isRet := n.(*ast.ReturnStmt); !isRet && st.ShouldInline != nil {
			for i := range out {
				out[i] = out[i].DelPrefix("rc:")
			}
		}
		return out
	}
	var cond0 func(c ast.Expr, s S) (t, f []S)
	cond := func(c ast.Expr, s S) (t, f []S) {
		// the condition of a canonical counting loop over a slice is offered to the
		// client as the range decision it is equivalent to
		if st.OnBranch != nil {
			cur := st.Cur()
			if fs, ok := cur.Prog.Parent(cur.File, c).(*ast.ForStmt); ok && fs.Cond == c {
				if r := cur.CanonLoop(fs); r != nil {
					if t, f, ok := st.OnBranch(Branch{Kind: BrRange, Range: r}, s); ok {
						return t, f
					}
				}
			}
		}
		// calls evaluated as part of the condition are seen by OnCall (and inlined) first
		states := st.execCalls(c, []S{s}, &cl)
		for _, x := range states {
			a, b := cond0(c, x)
			t = append(t, a...)
			f = append(f, b...)
		}
		if st.ShouldInline != nil {
			for i := range t {
				t[i] = t[i].DelPrefix("rc:")
			}
			for i := range f {
				f[i] = f[i].DelPrefix("rc:")
			}
		}
		return t, f
	}
	// error checks are leaves of the condition: `err != nil`, `!(err != nil)`,
	// `err != nil || len(x) == 0` all refine the error variable's state.
	st.Eval.Leaf = func(c ast.Expr, s S) (t, f []S, handled bool) {
		if call, isCall := ast.Unparen(c).(*ast.CallExpr); isCall {
			switch st.CallResult(call, 0, s) {
			case "true":
				return []S{s}, nil, true
			case "false":
				return nil, []S{s}, true
			}
		}
		x, trueIsErr, ok := ErrCheck(info, c)
		if !ok {
			return nil, nil, false
		}
		o := ObjOf(info, x)
		if o == nil {
			return nil, nil, false
		}
		id := VarID(o)
		tag := s.Get("ev:" + id)
		mk := func(isErr bool) []S {
			if k := s.Get("nn:" + id); (k == "T" && !isErr) || (k == "F" && isErr) {
				return nil
			}
			s2 := s
			if st.trackable(o) {
				if isErr {
					s2 = s2.Set("nn:"+id, "T")
				} else {
					s2 = s2.Set("nn:"+id, "F")
				}
			}
			if tag != "" && st.OnErrEdge != nil {
				var ok bool
				if s2, ok = st.OnErrEdge(tag, isErr, s2); !ok {
					return nil
				}
			}
			return []S{s2}
		}
		if trueIsErr {
			return mk(true), mk(false), true
		}
		return mk(false), mk(true), true
	}
	// `x == const` / `x != const` on a local variable whose value is not known:
	// the equal edge learns the value (constant tracking takes over), the other
	// edge remembers the excluded constant, so correlated tests of one variable
	// (`if p == "" || p == "root"` … `if p == "root"`) do not produce infeasible paths.
	st.Eval.LeafLate = func(c ast.Expr, s S) (t, f []S, handled bool) {
		a, b, op, ok := CmpAtom(c)
		if !ok || (op != token.EQL && op != token.NEQ) {
			return nil, nil, false
		}
		if _, isConst := st.FoldExpr(a, s); isConst {
			a, b = b, a
		}
		cv, isConst := st.FoldExpr(b, s)
		if !isConst || !(cv.Kind() == constant.String || cv.Kind() == constant.Int || cv.Kind() == constant.Bool) {
			return nil, nil, false
		}
		id, isID := ast.Unparen(a).(*ast.Ident)
		if !isID {
			return nil, nil, false
		}
		o := ObjOf(info, id)
		if o == nil || !st.trackable(o) || s.Has("v:"+VarID(o)) {
			return nil, nil, false
		}
		if bt, ok := o.Type().Underlying().(*types.Basic); !ok || bt.Info()&(types.IsString|types.IsInteger|types.IsBoolean) == 0 {
			return nil, nil, false
		}
		vid := VarID(o)
		repr := constRepr(cv)
		excl := []string{}
		if q := s.Get("q:" + vid); q != "" {
			excl = strings.Split(q, "\x00")
		}
		known := false
		for _, x := range excl {
			if x == repr {
				known = true
			}
		}
		var eq, ne []S
		if !known {
			eq = []S{s.Del("q:"+vid).Set("v:"+vid, repr)}
		}
		if known || len(excl) >= 6 {
			ne = []S{s}
		} else {
			ne = []S{s.Set("q:"+vid, strings.Join(append(excl, repr), "\x00"))}
		}
		if op == token.EQL {
			return eq, ne, true
		}
		return ne, eq, true
	}
	cond0 = func(c ast.Expr, s S) (t, f []S) {
		return st.Eval.Eval(c, s)
	}
	other := func(br Branch, s S) (t, f []S) {
		if st.OnBranch != nil {
			if t, f, ok := st.OnBranch(br, s); ok {
				return t, f
			}
		}
		if br.Kind == BrCase && br.Tag != nil {
			// tagged switch: fold tag == case when both are known
			a, ok1 := st.FoldExpr(br.Tag, s)
			b, ok2 := st.FoldExpr(br.Case, s)
			if ok1 && ok2 {
				if v, ok := foldBinary(a, b, token.EQL); ok {
					if constant.BoolVal(v) {
						return []S{s}, nil
					}
					return nil, []S{s}
				}
			}
		}
		return []S{s}, []S{s}
	}
	cl = Client{Node: node, Cond: cond, Other: other}
	return cl
}

// ReturnsNil classifies the error result of a return statement under s:
// "nil", "nonnil" or "unknown".  The error result is taken to be the last
// result.
func (st *Std) ReturnsNil(r *ast.ReturnStmt, s S) string {
	info := st.F.Info()
	if r != nil && len(r.Results) == 0 {
		// bare return of named results: the error result is what its variable holds
		if fn := st.funcOfReturn(r); fn != nil && fn.Type.Results != nil && len(fn.Type.Results.List) > 0 {
			last := fn.Type.Results.List[len(fn.Type.Results.List)-1]
			if len(last.Names) > 0 {
				if o := info.Defs[last.Names[len(last.Names)-1]]; o != nil && types.Identical(o.Type(), types.Universe.Lookup("error").Type()) {
					switch s.Get("nn:" + VarID(o)) {
					case "T":
						return "nonnil"
					case "F":
						return "nil"
					}
				}
			}
		}
		return "unknown"
	}
	if r == nil {
		return "unknown"
	}
	e := ast.Unparen(r.Results[len(r.Results)-1])
	if IsNilIdent(info, e) {
		return "nil"
	}
	if c, ok := e.(*ast.CallExpr); ok {
		switch QualName(Callee(info, c)) {
		case "fmt.Errorf", "errors.New":
			return "nonnil"
		}
		for i := 0; i < 4; i++ {
			if v := st.CallResult(c, i, s); v == "nil" || v == "nonnil" {
				return v
			}
		}
		return "unknown"
	}
	if o := ObjOf(info, e); o != nil {
		switch s.Get("nn:" + VarID(o)) {
		case "T":
			return "nonnil"
		case "F":
			return "nil"
		}
		if st.F.Prog.IsSentinelErr(o) {
			return "nonnil"
		}
	}
	return "unknown"
}

// IsSentinelErr: o is a package-level error variable that always holds an error:
// declared in a loaded package as `var errX = errors.New(…)` / fmt.Errorf(…) and
// assigned nowhere else in that package, or an exported Err*/EOF variable of a
// package outside the module (io.EOF, sql.ErrNoRows, …).
func (p *Prog) IsSentinelErr(o types.Object) bool {
	v, ok := o.(*types.Var)
	if !ok || v.IsField() || v.Pkg() == nil || v.Parent() != v.Pkg().Scope() || !types.Identical(v.Type(), types.Universe.Lookup("error").Type()) {
		return false
	}
	cache := p.Aux("kit.sentinelErrs", func() any { return map[types.Object]bool{} }).(map[types.Object]bool)
	p.auxMu.Lock()
	r, have := cache[o]
	p.auxMu.Unlock()
	if have {
		return r
	}
	res := false
	pk := p.ByPath[v.Pkg().Path()]
	if pk == nil || len(pk.Syntax) == 0 {
		res = v.Exported() && (strings.HasPrefix(v.Name(), "Err") || v.Name() == "EOF")
	} else {
		inits, assigns := 0, 0
		for _, file := range pk.Syntax {
			ast.Inspect(file, func(n ast.Node) bool {
				switch x := n.(type) {
				case *ast.ValueSpec:
					for i, nm := range x.Names {
						if pk.TypesInfo.Defs[nm] != o {
							continue
						}
						if i < len(x.Values) && len(x.Values) == len(x.Names) {
							if call, ok := ast.Unparen(x.Values[i]).(*ast.CallExpr); ok {
								switch QualName(Callee(pk.TypesInfo, call)) {
								case "fmt.Errorf", "errors.New":
									inits++
								}
							}
						}
					}
				case *ast.AssignStmt:
					for _, l := range x.Lhs {
						if id, ok := ast.Unparen(l).(*ast.Ident); ok && pk.TypesInfo.Uses[id] == o {
							assigns++
						}
					}
				case *ast.UnaryExpr:
					if x.Op == token.AND {
						if id, ok := ast.Unparen(x.X).(*ast.Ident); ok && pk.TypesInfo.Uses[id] == o {
							assigns++
						}
					}
				}
				return true
			})
		}
		res = inits == 1 && assigns == 0
	}
	p.auxMu.Lock()
	cache[o] = res
	p.auxMu.Unlock()
	return res
}

// execCalls runs the OnCall hook and, where the client opted in, the inline
// evaluation of every call of node n in evaluation order.
func (st *Std) execCalls(n ast.Node, states []S, cl *Client) []S {
	if st.OnCall == nil && st.ShouldInline == nil {
		return states
	}
	for _, call := range CallsIn(n) {
		var next []S
		seen := map[string]bool{}
		for _, x := range states {
			xs := []S{x}
			if st.OnCall != nil {
				if r := st.OnCall(call, n, x); r != nil {
					xs = r
				}
			}
			for _, y := range xs {
				for _, z := range st.inline(call, n, y, cl) {
					if k := z.Key(); !seen[k] {
						seen[k] = true
						next = append(next, z)
					}
				}
			}
		}
		states = next
	}
	return states
}

func (st *Std) inline(call *ast.CallExpr, n ast.Node, s S, cl *Client) []S {
	if st.ShouldInline == nil {
		return []S{s}
	}
	if _, isGo := n.(*ast.GoStmt); isGo {
		return []S{s}
	}
	max := st.MaxInline
	if max == 0 {
		max = 3
	}
	if len(st.frames) >= max {
		return []S{s}
	}
	cur := st.Cur()
	cf := cur.CalleeFunc(call)
	if cf == nil {
		// a call of a function-typed parameter of an inlined helper that the caller bound
		// to a function literal (`scanRows(rows, func(id string, p Point) { … })`): the
		// literal is evaluated in place; what it captures are the caller's variables
		if id, ok := ast.Unparen(call.Fun).(*ast.Ident); ok && len(st.frames) > 0 {
			if o := ObjOf(st.F.Info(), id); o != nil && st.IsFrameParam(o) {
				if lit, ok := ast.Unparen(st.Resolve(id)).(*ast.FuncLit); ok {
					cf = st.F.Prog.LitFunc(st.F.PkgRel(), lit)
				}
			}
		}
	}
	if cf == nil || cf.Body == nil || cf.Pkg != st.F.Pkg || cf == st.F {
		return []S{s}
	}
	for _, fr := range st.frames {
		if fr.fn == cf {
			return []S{s}
		}
	}
	if !st.ShouldInline(cf, call) {
		return []S{s}
	}
	info := st.F.Info()
	bind := map[types.Object]ast.Expr{}
	init := s
	params := cf.Params()
	if len(params) != len(call.Args) {
		// variadic or mismatching: bind what lines up positionally, nothing else
		if cf.Type.Params != nil && len(call.Args) < len(params) {
			return []S{s}
		}
	}
	for i, p := range params {
		if i >= len(call.Args) {
			break
		}
		if i == len(params)-1 && len(call.Args) > len(params) {
			break // variadic tail
		}
		a := call.Args[i]
		bind[p] = st.Resolve(a)
		if v, ok := st.FoldExpr(a, s); ok && (v.Kind() == constant.Bool || v.Kind() == constant.String || v.Kind() == constant.Int) {
			init = init.Set("v:"+VarID(p), constRepr(v))
		}
		if o := ObjOf(info, st.Resolve(a)); o != nil {
			if k := s.Get("nn:" + VarID(o)); k != "" {
				init = init.Set("nn:"+VarID(p), k)
			}
		}
	}
	if cf.Decl != nil && cf.Decl.Recv != nil && len(cf.Decl.Recv.List) > 0 && len(cf.Decl.Recv.List[0].Names) > 0 {
		if sel, ok := ast.Unparen(call.Fun).(*ast.SelectorExpr); ok {
			if ro := info.Defs[cf.Decl.Recv.List[0].Names[0]]; ro != nil {
				bind[ro] = st.Resolve(sel.X)
			}
		}
	}
	st.scanFunc(cf)
	if st.Inlined == nil {
		st.Inlined = map[*Func]bool{}
	}
	st.Inlined[cf] = true
	st.frames = append(st.frames, &inlFrame{fn: cf, call: call, bind: bind})
	res := st.F.Prog.Graph(cf).Run(init, *cl)
	var out []S
	lo, hi := cf.Node().Pos(), cf.Node().End()
	errT := types.Universe.Lookup("error").Type()
	for _, e := range res.Exits {
		if e.Return == nil {
			// a helper without results that runs off its end
			if (cf.Type.Results == nil || len(cf.Type.Results.List) == 0) && !endsNoReturn(st.F.Prog, cf, e.Block) {
				out = append(out, st.stripLocals(e.State, lo, hi))
			}
			continue
		}
		s2 := e.State
		var rc []string
		var boolSplit ast.Expr
		for i, r := range e.Return.Results {
			t := info.TypeOf(r)
			if t == nil {
				continue
			}
			switch {
			case types.Identical(t, errT) || IsNilIdent(info, r):
				// classify like ReturnsNil on this one result
				rs := &ast.ReturnStmt{Results: []ast.Expr{r}}
				if v := st.ReturnsNil(rs, s2); v != "unknown" {
					rc = append(rc, fmt.Sprintf("rc:%d:%d=%s", call.Pos(), i, v))
				}
			default:
				if b, ok := t.Underlying().(*types.Basic); ok && b.Info()&types.IsBoolean != 0 {
					if v, ok := st.FoldExpr(r, s2); ok && v.Kind() == constant.Bool {
						rc = append(rc, fmt.Sprintf("rc:%d:%d=%v", call.Pos(), i, constant.BoolVal(v)))
					} else if len(e.Return.Results) == 1 {
						// a predicate: evaluate the returned condition over the rule's atoms, so
						// that `return x != "none"` is as transparent as the inline test
						boolSplit = r
					}
				} else if ok && b.Info()&(types.IsInteger|types.IsString) != 0 {
					// a constant index / code / name handed back (`return -1`, `return i` with i known)
					if v, ok := st.FoldExpr(r, s2); ok && (v.Kind() == constant.Int || v.Kind() == constant.String) {
						rc = append(rc, fmt.Sprintf("rc:%d:%d=c:%s", call.Pos(), i, constRepr(v)))
					}
				}
			}
		}
		if boolSplit != nil {
			ts, fs := st.Eval.Eval(boolSplit, s2)
			emit := func(states []S, val string) {
				for _, z := range states {
					z = st.stripLocals(z, lo, hi)
					out = append(out, z.Set(fmt.Sprintf("rc:%d:0", call.Pos()), val))
				}
			}
			emit(ts, "true")
			emit(fs, "false")
			continue
		}
		s2 = st.stripLocals(s2, lo, hi)
		for _, kv := range rc {
			i := strings.Index(kv, "=")
			s2 = s2.Set(kv[:i], kv[i+1:])
		}
		out = append(out, s2)
	}
	st.frames = st.frames[:len(st.frames)-1]
	if res.Overflow {
		return []S{s}
	}
	return out
}

// stripLocals forgets what the state knows about the locals (and inner call
// results) of a callee whose body spans [lo, hi].
func (st *Std) stripLocals(s2 S, lo, hi token.Pos) S {
	for _, k := range s2.Keys() {
		if at := strings.LastIndex(k, "@"); at >= 0 && (strings.HasPrefix(k, "v:") || strings.HasPrefix(k, "nn:") || strings.HasPrefix(k, "ev:") || strings.HasPrefix(k, "q:") || strings.HasPrefix(k, "bv:") || strings.HasPrefix(k, "x:") || strings.HasPrefix(k, "sy:")) {
			var pos int
			fmt.Sscanf(k[at+1:], "%d", &pos)
			if token.Pos(pos) >= lo && token.Pos(pos) <= hi {
				s2 = s2.Del(k)
			}
		}
		if strings.HasPrefix(k, "rc:") {
			var pos int
			fmt.Sscanf(k[3:], "%d", &pos)
			if token.Pos(pos) >= lo && token.Pos(pos) <= hi {
				s2 = s2.Del(k)
			}
		}
	}
	return s2
}

// endsNoReturn reports whether block b of f ends in panic or a call that does
// not return (such an exit is not a way back into the caller).
func endsNoReturn(p *Prog, f *Func, b *cfg.Block) bool {
	if b == nil || len(b.Nodes) == 0 {
		return false
	}
	es, ok := b.Nodes[len(b.Nodes)-1].(*ast.ExprStmt)
	if !ok {
		return false
	}
	call, ok := ast.Unparen(es.X).(*ast.CallExpr)
	if !ok {
		return false
	}
	obj := Callee(f.Info(), call)
	if bi, ok := obj.(*types.Builtin); ok && bi.Name() == "panic" {
		return true
	}
	return noReturn[QualName(obj)]
}

// funcOfReturn returns the function (root or a helper evaluated inline) whose body contains r.
func (st *Std) funcOfReturn(r *ast.ReturnStmt) *Func {
	cands := []*Func{st.F}
	for f := range st.Inlined {
		cands = append(cands, f)
	}
	var best *Func
	for _, f := range cands {
		if f.Body != nil && f.Body.Pos() <= r.Pos() && r.End() <= f.Body.End() {
			if best == nil || f.Body.Pos() >= best.Body.Pos() {
				best = f
			}
		}
	}
	return best
}
