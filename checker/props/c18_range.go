package props

import (
	"fmt"
	"go/ast"
	"go/token"
	"go/types"
	"strings"

	"siotcheck/kit"
)

// C18/R5, addressed-range clause: in every arm that serves a quantity, the
// provider is asked for exactly the addresses address, address+1, …,
// address+quantity-1 (as mathematical integers: no wrap-around in the
// address arithmetic or the loop bound), once each and in this order, before
// a normal response is returned.

func c18Range(c *kit.Ctx, m *mbModel, r *kit.Rule) {
	for _, arm := range m.Arms {
		if len(arm.Codes) == 0 || mbQuantityLimit[arm.Codes[0]] == 0 {
			continue
		}
		limit := mbQuantityLimit[arm.Codes[0]]
		o := r.Ob(m.Req, arm.Clause, arm.label()+": addressed range", "a normal response is returned only after the provider was asked for exactly address, address+1, …, address+quantity-1 (no wrap-around), once each and in order")
		q := m.quantityOf(arm)
		afn, _, addr, _, addrLhs := m.wordDef(arm, 0, 2)
		if q == nil || addr == nil {
			o.Undecided("address (bytes 0..1) or quantity (bytes 2..3) of the request not found in %s", arm.label())
			continue
		}
		if afn != q.fn {
			o.Undecided("address and quantity are read in different functions")
			continue
		}
		f := q.fn
		info := f.Info()
		bnd := kit.AnalyseBounds(c.P, f)
		// ---- symbolic: loop from c0 to B accessing i+K with c0+K = address, B+K = address+quantity
		symbolic := ""
		func() {
			var loops []*ast.ForStmt
			ast.Inspect(q.region, func(n ast.Node) bool {
				if fs, ok := n.(*ast.ForStmt); ok {
					loops = append(loops, fs)
				}
				return true
			})
			if len(loops) != 1 {
				symbolic = fmt.Sprintf("%d loops in the arm", len(loops))
				return
			}
			fs := loops[0]
			var calls []*ast.CallExpr
			ast.Inspect(fs.Body, func(n ast.Node) bool {
				if call, ok := n.(*ast.CallExpr); ok {
					if _, _, isP := m.providerCall(f, call); isP {
						calls = append(calls, call)
					}
				}
				return true
			})
			// the access may sit in a function literal handed to the serving
			// function: `write(i, addr)` with write bound to
			// `func(i, a int) error { … provider.W(a, …) }`
			var accessArg ast.Expr
			if len(calls) == 1 && len(calls[0].Args) >= 1 {
				accessArg = calls[0].Args[0]
			}
			if len(calls) == 0 {
				accessArg = m.closureAccess(arm, f, fs.Body)
			}
			if accessArg == nil {
				symbolic = fmt.Sprintf("%d provider calls in the loop", len(calls))
				return
			}
			accessAt := ast.Node(accessArg)
			a, b, op, ok := kit.CmpAtom(fs.Cond)
			if fs.Cond == nil || !ok || op != token.LSS {
				symbolic = "loop condition is not `i < bound`"
				return
			}
			iv := kit.ObjOf(info, a)
			var initRhs ast.Expr
			if init, ok := fs.Init.(*ast.AssignStmt); ok && len(init.Lhs) == len(init.Rhs) {
				for i, l := range init.Lhs {
					if kit.ObjOf(info, l) == iv {
						initRhs = init.Rhs[i]
					}
				}
			}
			stepOK := false
			switch post := fs.Post.(type) {
			case *ast.IncDecStmt:
				stepOK = post.Tok == token.INC && kit.ObjOf(info, post.X) == iv
			case *ast.AssignStmt:
				if post.Tok == token.ADD_ASSIGN && len(post.Lhs) == 1 && kit.ObjOf(info, post.Lhs[0]) == iv {
					k, isC := kit.ConstInt(info, post.Rhs[0])
					stepOK = isC && k == 1
				}
			}
			if iv == nil || initRhs == nil || !stepOK {
				symbolic = "loop is not `for i := start; i < bound; i++`"
				return
			}
			// the counter is not written in the body and the body has no continue
			bad := false
			ast.Inspect(fs.Body, func(n ast.Node) bool {
				switch y := n.(type) {
				case *ast.AssignStmt:
					for _, l := range y.Lhs {
						if kit.ObjOf(info, l) == iv {
							bad = true
						}
					}
				case *ast.IncDecStmt:
					if kit.ObjOf(info, y.X) == iv {
						bad = true
					}
				case *ast.BranchStmt:
					if y.Tok == token.BREAK || y.Tok == token.GOTO {
						bad = true
					}
				}
				return true
			})
			if bad {
				symbolic = "the loop counter is modified, or the loop is left by break"
				return
			}
			linAt := func(e ast.Expr, at ast.Node) *kit.Lin {
				fsb, _ := bnd.FactsBefore(at)
				t := bnd.Term(e)
				if fsb == nil || t == nil {
					return nil
				}
				return bnd.EnvAt(fsb, nil).LinOf(t)
			}
			it := bnd.Term(a)
			c0 := linAt(initRhs, fs.Init)
			B := linAt(b, fs.Cond)
			arg := linAt(accessArg, accessAt)
			at := linAt(addrLhs, fs.Cond)
			qt := linAt(q.lhs, fs.Cond)
			if it == nil || c0 == nil || B == nil || arg == nil || at == nil || qt == nil {
				symbolic = "loop bounds or the accessed address are not trackable"
				return
			}
			K := arg.Sub(kit.LinAtom(it))
			for _, x := range K.Atoms() {
				if x.Key() == it.Key() {
					symbolic = "the accessed address is not counter + constant"
					return
				}
			}
			d1 := c0.Sub(at)
			d1 = d1.Sub(K.Sub(K).Sub(K)) // c0 + K - address
			d2 := B.Sub(at).Sub(qt)
			d2 = d2.Sub(K.Sub(K).Sub(K)) // B + K - address - quantity
			v1, k1 := d1.IsConst()
			v2, k2 := d2.IsConst()
			switch {
			case !k1 || v1 != 0:
				symbolic = fmt.Sprintf("first address accessed is %s, not the request's address (difference %s; arithmetic that may wrap is opaque)", c0.Pretty(), d1.Pretty())
			case !k2 || v2 != 0:
				symbolic = fmt.Sprintf("the loop ends at %s, which is not provably address+quantity (difference %s; arithmetic that may wrap in its type is opaque)", B.Pretty(), d2.Pretty())
			}
		}()
		if symbolic == "" {
			o.OK("loop accesses counter+K with start+K = %s and bound+K = %s+%s for every address and quantity", addr.Name(), addr.Name(), q.obj.Name())
			continue
		}
		// ---- critical requests
		type req struct{ a, n int64 }
		reqs := []req{{0, 1}, {0, 3}, {0xFFFF, 1}, {0xFFFE, 1}, {0xFFFE, 2}, {0xFFFD, 3}, {0x7FFF, 3}, {0x10000 - limit, limit}, {0, limit}}
		decided := false
		for _, code := range arm.Codes {
			for _, rq := range reqs {
				if rq.n > limit {
					continue
				}
				ip := m.reqInterp(code, -1, map[int64]int64{0: rq.a, 2: rq.n})
				argUnknown := false
				m.hook(ip, func(call *ast.CallExpr, args []kit.IVal) (string, []kit.IVal) {
					if _, _, ok := m.providerCall(m.fnOf(call), call); !ok {
						return "", nil
					}
					if len(args) == 0 || args[0].K != 'i' {
						argUnknown = true
						return "P@?", nil
					}
					return fmt.Sprintf("P@%d", args[0].I), nil
				})
				ip.MaxSteps = 2000000
				res := ip.Run()
				c.AddValuations(1)
				if len(res.Unsupported) > 0 || res.Overflow || argUnknown {
					o.Undecided("evaluation of address %d quantity %d failed (%v)", rq.a, rq.n, res.Unsupported)
					decided = true
					break
				}
				var want []string
				for i := int64(0); i < rq.n; i++ {
					want = append(want, fmt.Sprintf("P@%d", rq.a+i))
				}
				for _, e := range res.Exits {
					if e.Ret == nil {
						continue
					}
					if _, _, isExc := m.exitExc(e); isExc {
						continue
					}
					if len(e.Ret.Results) == 0 || !kit.IsNilIdent(m.Req.Info(), e.Ret.Results[len(e.Ret.Results)-1]) {
						continue // an error return (short request)
					}
					if e.Tainted {
						o.Undecided("address %d quantity %d: exit at %s depends on a value the evaluator cannot follow", rq.a, rq.n, m.Req.At(e.Ret))
						decided = true
						break
					}
					if pe := provEvents(e.Trace); strings.Join(pe, ",") != strings.Join(want, ",") {
						got := "nothing"
						if len(pe) > 0 {
							got = strings.Join(pe, ",")
							if len(got) > 80 {
								got = got[:80] + "…"
							}
						}
						o.Violation("function code %d, address %d (0x%04X), quantity %d is answered with a normal response after accessing %s instead of the %d address(es) %d..%d (%s)",
							code, rq.a, rq.a, rq.n, got, rq.n, rq.a, rq.a+rq.n-1, symbolic)
						decided = true
						break
					}
				}
				if decided {
					break
				}
			}
			if decided {
				break
			}
		}
		if !decided {
			o.Undecided("the addressed range cannot be shown for all requests (%s) although %d critical requests behave correctly", symbolic, len(reqs))
		}
	}
}

// closureAccess: the loop body calls exactly one function-typed parameter of
// f; the arm passes a literal for it; the literal makes exactly one provider
// call whose address argument is one of the literal's parameters.  Returns the
// argument of the loop's call that becomes that address.
func (m *mbModel) closureAccess(arm *mbArm, f *kit.Func, body ast.Node) ast.Expr {
	info := f.Info()
	params := f.Params()
	var viaCall *ast.CallExpr
	pidx := -1
	n := 0
	ast.Inspect(body, func(x ast.Node) bool {
		call, ok := x.(*ast.CallExpr)
		if !ok {
			return true
		}
		id, ok := ast.Unparen(call.Fun).(*ast.Ident)
		if !ok {
			return true
		}
		o := kit.ObjOf(info, id)
		for i, p := range params {
			if types.Object(p) == o {
				if _, isFn := p.Type().Underlying().(*types.Signature); isFn {
					viaCall, pidx = call, i
					n++
				}
			}
		}
		return true
	})
	if n != 1 {
		return nil
	}
	// the literal the arm passes
	var lit *ast.FuncLit
	nl := 0
	ast.Inspect(arm.Clause, func(x ast.Node) bool {
		call, ok := x.(*ast.CallExpr)
		if !ok || m.Req.CalleeFunc(call) != f || pidx >= len(call.Args) {
			return true
		}
		if l, ok := ast.Unparen(call.Args[pidx]).(*ast.FuncLit); ok {
			lit = l
			nl++
		}
		return true
	})
	if nl != 1 {
		return nil
	}
	linfo := m.Req.Info()
	var lparams []types.Object
	for _, fl := range lit.Type.Params.List {
		for _, nm := range fl.Names {
			lparams = append(lparams, linfo.Defs[nm])
		}
	}
	argIdx := -1
	np := 0
	ast.Inspect(lit.Body, func(x ast.Node) bool {
		call, ok := x.(*ast.CallExpr)
		if !ok {
			return true
		}
		if _, _, isP := m.providerCall(m.Req, call); isP && len(call.Args) >= 1 {
			np++
			o := kit.ObjOf(linfo, call.Args[0])
			for i, lp := range lparams {
				if lp != nil && lp == o {
					argIdx = i
				}
			}
		}
		return true
	})
	if np != 1 || argIdx < 0 || argIdx >= len(viaCall.Args) {
		return nil
	}
	changed := false
	ast.Inspect(lit.Body, func(x ast.Node) bool {
		switch y := x.(type) {
		case *ast.AssignStmt:
			for _, l := range y.Lhs {
				if kit.ObjOf(linfo, l) == lparams[argIdx] {
					changed = true
				}
			}
		case *ast.IncDecStmt:
			if kit.ObjOf(linfo, y.X) == lparams[argIdx] {
				changed = true
			}
		}
		return true
	})
	if changed {
		return nil
	}
	// the literal must not change that parameter before the access: it is a plain parameter use
	return viaCall.Args[argIdx]
}
