package props

import (
	"fmt"
	"go/ast"
	"go/token"
	"go/types"
	"strconv"
	"strings"

	"siotcheck/kit"
)

// c14Pred is the symbolic run of the schedule predicate (R3, and the
// predicate-level parts of R4 and R5).
type c14Pred struct {
	c    *kit.Ctx
	cm   *c14Model
	f    *kit.Func
	info *types.Info
	recv *types.Var
	tpar *types.Var
	// hour/minute provenance: variables defined as strconv.Atoi(matches[k])
	groups  map[types.Object]int
	hmNotes []string
	st      *kit.Std // the flow being run (helpers of the schedule are evaluated inline)
}

// res maps a parameter (or the receiver) of a helper that is evaluated inline
// to the argument it is bound to.
func (p *c14Pred) res(e ast.Expr) ast.Expr {
	if p.st != nil {
		return ast.Unparen(p.st.Resolve(ast.Unparen(e)))
	}
	return ast.Unparen(e)
}

func c14Union(a, b string) string {
	set := map[rune]bool{}
	for _, r := range a + b {
		set[r] = true
	}
	out := ""
	for _, r := range "SE" {
		if set[r] {
			out += string(r)
		}
	}
	return out
}

// taintOf: which of the schedule's start (S) / end (E) strings flow into e.
func (p *c14Pred) taintOf(e ast.Node, s kit.S) string {
	out := ""
	ast.Inspect(e, func(n ast.Node) bool {
		switch x := n.(type) {
		case *ast.FuncLit:
			return false
		case *ast.SelectorExpr:
			if base, fv, ok := kit.FieldSel(p.info, x); ok && kit.ObjOf(p.info, p.res(base)) == types.Object(p.recv) {
				switch fv {
				case p.cm.ch.startF:
					out = c14Union(out, "S")
				case p.cm.ch.endF:
					out = c14Union(out, "E")
				}
				return false
			}
		case *ast.Ident:
			if o := kit.ObjOf(p.info, x); o != nil {
				out = c14Union(out, s.Get("tn:"+kit.VarID(o)))
			}
		}
		return true
	})
	return out
}

func c14Shift(sym string, k int64) string {
	if sym == "?" || len(sym) < 2 {
		return "?"
	}
	off, err := strconv.ParseInt(sym[1:], 10, 64)
	if err != nil {
		return "?"
	}
	return fmt.Sprintf("%s%+d", sym[:1], off+k)
}

func (p *c14Pred) isUTCOfT(e ast.Expr, s kit.S) bool {
	e = ast.Unparen(e)
	if call, ok := e.(*ast.CallExpr); ok {
		if name, rx, isT := c14TimeMethod(p.info, call); isT && name == "UTC" {
			return p.isT(rx, s)
		}
		return false
	}
	if id, isId := e.(*ast.Ident); isId {
		if r := p.res(id); r != ast.Expr(id) {
			return p.isUTCOfT(r, s)
		}
		if o := kit.ObjOf(p.info, id); o != nil {
			return s.Get("ex:"+kit.VarID(o)) == "utc"
		}
	}
	return false
}

// isT: e denotes the instant t (the parameter, or its UTC copy).
func (p *c14Pred) isT(e ast.Expr, s kit.S) bool {
	e = ast.Unparen(e)
	if id, ok := e.(*ast.Ident); ok {
		if r := p.res(id); r != ast.Expr(id) {
			return p.isT(r, s)
		}
		if kit.ObjOf(p.info, id) == types.Object(p.tpar) && !s.Has("tmod") {
			return true
		}
	}
	return p.isUTCOfT(e, s)
}

// intSym: exact calendar component of t in UTC: "Y", "M", "D+k".
func (p *c14Pred) intSym(e ast.Expr, s kit.S) string {
	e = ast.Unparen(e)
	switch x := e.(type) {
	case *ast.Ident:
		if o := kit.ObjOf(p.info, x); o != nil {
			if v := s.Get("ex:" + kit.VarID(o)); v == "Y" || v == "M" || strings.HasPrefix(v, "D") {
				return v
			}
		}
	case *ast.CallExpr:
		if name, rx, ok := c14TimeMethod(p.info, x); ok && p.isUTCOfT(rx, s) {
			switch name {
			case "Year":
				return "Y"
			case "Month":
				return "M"
			case "Day":
				return "D+0"
			}
		}
		// conversions int(x) / time.Month(x)
		if len(x.Args) == 1 {
			if tv, ok := p.info.Types[x.Fun]; ok && tv.IsType() {
				return p.intSym(x.Args[0], s)
			}
		}
	case *ast.BinaryExpr:
		if x.Op == token.ADD || x.Op == token.SUB {
			if k, ok := kit.ConstInt(p.info, x.Y); ok {
				if b := p.intSym(x.X, s); strings.HasPrefix(b, "D") {
					if x.Op == token.SUB {
						k = -k
					}
					off, _ := strconv.ParseInt(b[1:], 10, 64)
					return fmt.Sprintf("D%+d", off+k)
				}
			}
		}
	}
	return "?"
}

// instant: symbolic value of a time expression: "S+k" / "E+k" = the
// schedule's start / end time on t's UTC day, shifted by k days; "?" unknown.
func (p *c14Pred) instant(e ast.Expr, s kit.S) string {
	e = ast.Unparen(e)
	switch x := e.(type) {
	case *ast.Ident:
		if o := kit.ObjOf(p.info, x); o != nil {
			if v := s.Get("ex:" + kit.VarID(o)); len(v) >= 2 && (v[0] == 'S' || v[0] == 'E') && (v[1] == '+' || v[1] == '-') {
				return v
			}
		}
	case *ast.CallExpr:
		if kit.CallIs(p.info, x, "time.Date") && len(x.Args) == 8 {
			y, mo, d := p.intSym(x.Args[0], s), p.intSym(x.Args[1], s), p.intSym(x.Args[2], s)
			if y != "Y" || mo != "M" || !strings.HasPrefix(d, "D") {
				return "?"
			}
			th, tm := p.taintOf(x.Args[3], s), p.taintOf(x.Args[4], s)
			if th != tm || (th != "S" && th != "E") {
				return "?"
			}
			// group 1 of HH:MM is the hour, group 2 the minute
			gh, okH := p.groups[kit.ObjOf(p.info, x.Args[3])]
			gm, okM := p.groups[kit.ObjOf(p.info, x.Args[4])]
			if okH && okM && (gh != 1 || gm != 2) {
				n := fmt.Sprintf("time.Date at %s takes the hour from group %d and the minute from group %d of the HH:MM pattern (witness: start 08:30 becomes 30:08)", p.f.At(x), gh, gm)
				dup := false
				for _, y := range p.hmNotes {
					dup = dup || y == n
				}
				if !dup {
					p.hmNotes = append(p.hmNotes, n)
				}
			}
			for _, z := range x.Args[5:7] {
				if k, ok := kit.ConstInt(p.info, z); !ok || k != 0 {
					return "?"
				}
			}
			if !c14IsTimeUTCVar(p.info, x.Args[7]) {
				return "?"
			}
			off, _ := strconv.ParseInt(d[1:], 10, 64)
			return fmt.Sprintf("%s%+d", th, off)
		}
		if name, rx, ok := c14TimeMethod(p.info, x); ok {
			switch name {
			case "AddDate":
				if len(x.Args) == 3 {
					a, okA := kit.ConstInt(p.info, x.Args[0])
					b, okB := kit.ConstInt(p.info, x.Args[1])
					k, okK := kit.ConstInt(p.info, x.Args[2])
					if okA && okB && okK && a == 0 && b == 0 {
						return c14Shift(p.instant(rx, s), k)
					}
				}
			case "Add":
				if len(x.Args) == 1 {
					if tv, ok := p.info.Types[x.Args[0]]; ok && tv.Value != nil {
						if ns, exact := kit.ConstInt(p.info, x.Args[0]); exact {
							const day = int64(24 * 3600 * 1e9)
							if ns%day == 0 {
								return c14Shift(p.instant(rx, s), ns/day)
							}
						}
					}
				}
			case "UTC":
				return p.instant(rx, s)
			}
		}
	case *ast.SelectorExpr:
		// w.f of a local window, or L[i].f
		base, fv, ok := kit.FieldSel(p.info, x)
		if !ok {
			return "?"
		}
		if w, isW := p.windowOf(base, s); isW {
			if _, isLit := p.isWindowLit(base); !isLit {
				switch fv {
				case p.cm.trF[0]:
					return w[0]
				case p.cm.trF[1]:
					return w[1]
				}
			}
		}
		ix, ok := ast.Unparen(base).(*ast.IndexExpr)
		if !ok {
			return "?"
		}
		lo := kit.ObjOf(p.info, ix.X)
		i, okI := kit.ConstInt(p.info, ix.Index)
		if lo == nil || !okI {
			return "?"
		}
		pairs, known := c14ParseList(s.Get("wl:" + kit.VarID(lo)))
		if !known || i < 0 || int(i) >= len(pairs) {
			return "?"
		}
		switch fv {
		case p.cm.trF[0]:
			return pairs[i][0]
		case p.cm.trF[1]:
			return pairs[i][1]
		}
	}
	return "?"
}

// A window is tracked as (first instant, second instant, weekday kept with
// the window); the third component is "" when the window struct has no such
// field, a decimal number under the weekday of t being enumerated, or "?".
func c14ParseWin(e string) ([3]string, bool) {
	ab := strings.Split(e, "|")
	switch len(ab) {
	case 2:
		return [3]string{ab[0], ab[1], ""}, true
	case 3:
		return [3]string{ab[0], ab[1], ab[2]}, true
	}
	return [3]string{}, false
}

func c14FormatWin(w [3]string) string {
	if w[2] == "" {
		return w[0] + "|" + w[1]
	}
	return w[0] + "|" + w[1] + "|" + w[2]
}

func c14ParseList(v string) ([][3]string, bool) {
	if v == "" || v == "?" || v == "consumed" {
		return nil, false
	}
	if v == "empty" {
		return nil, true
	}
	var out [][3]string
	for _, e := range strings.Split(v, ";") {
		w, ok := c14ParseWin(e)
		if !ok {
			return nil, false
		}
		out = append(out, w)
	}
	return out, true
}

func c14FormatList(ps [][3]string) string {
	if len(ps) == 0 {
		return "empty"
	}
	var parts []string
	for _, p := range ps {
		parts = append(parts, c14FormatWin(p))
	}
	return strings.Join(parts, ";")
}

// c14StripWeekdays drops the third component of every window of a list value
// and hands the dropped components back.
func c14StripWeekdays(v string) (string, []string) {
	ps, known := c14ParseList(v)
	if !known || len(ps) == 0 {
		return v, nil
	}
	var wds []string
	for i := range ps {
		wds = append(wds, ps[i][2])
		ps[i][2] = ""
	}
	return c14FormatList(ps), wds
}

func (p *c14Pred) isWindowLit(e ast.Expr) (*ast.CompositeLit, bool) {
	cl, ok := ast.Unparen(e).(*ast.CompositeLit)
	if !ok {
		return nil, false
	}
	t := p.info.TypeOf(cl)
	return cl, t != nil && types.Identical(types.Unalias(t), p.cm.tr)
}

func (p *c14Pred) pairOf(cl *ast.CompositeLit, s kit.S) [3]string {
	out := [3]string{"zero", "zero", ""}
	if p.cm.wdCache != nil {
		out[2] = "0" // the zero Weekday
	}
	st, _ := p.cm.tr.Underlying().(*types.Struct)
	for i, el := range cl.Elts {
		var fv types.Object
		val := el
		if kv, ok := el.(*ast.KeyValueExpr); ok {
			if kid, ok := kv.Key.(*ast.Ident); ok {
				fv = p.info.Uses[kid]
			}
			val = kv.Value
		} else if st != nil && i < st.NumFields() {
			fv = st.Field(i)
		}
		switch {
		case fv == nil:
		case fv == types.Object(p.cm.trF[0]):
			out[0] = p.instant(val, s)
		case fv == types.Object(p.cm.trF[1]):
			out[1] = p.instant(val, s)
		case p.cm.wdCache != nil && fv == types.Object(p.cm.wdCache):
			out[2] = p.wdStr(val, s)
		}
	}
	return out
}

func (p *c14Pred) isListType(t types.Type) bool {
	el := ruSliceElem(t)
	_, isPtr := t.(*types.Pointer)
	return el != nil && !isPtr && types.Identical(el, p.cm.tr)
}

// windowOf evaluates an expression of window type: a literal, or a local
// holding a window ("tw:<id>" = "start|end").
func (p *c14Pred) windowOf(e ast.Expr, s kit.S) ([3]string, bool) {
	if cl, ok := p.isWindowLit(e); ok {
		return p.pairOf(cl, s), true
	}
	if id, ok := ast.Unparen(e).(*ast.Ident); ok {
		if o := kit.ObjOf(p.info, id); o != nil {
			if v := s.Get("tw:" + kit.VarID(o)); v != "" {
				if w, ok := c14ParseWin(v); ok {
					return w, true
				}
			}
		}
	}
	return [3]string{}, false
}

// listExpr evaluates an expression of window-list type symbolically.
func (p *c14Pred) listExpr(e ast.Expr, s kit.S) string {
	e = ast.Unparen(e)
	switch x := e.(type) {
	case *ast.CompositeLit:
		var ps [][3]string
		for _, el := range x.Elts {
			w, ok := p.windowOf(el, s)
			if !ok {
				return "?"
			}
			ps = append(ps, w)
		}
		return c14FormatList(ps)
	case *ast.Ident:
		if _, isNil := p.info.Uses[x].(*types.Nil); isNil {
			return "empty"
		}
		if o := kit.ObjOf(p.info, x); o != nil {
			if v := s.Get("wl:" + kit.VarID(o)); v != "" && v != "consumed" {
				return v
			}
		}
	case *ast.CallExpr:
		if b, ok := kit.Callee(p.info, x).(*types.Builtin); ok && b.Name() == "append" && len(x.Args) >= 1 && !x.Ellipsis.IsValid() {
			ps, known := c14ParseList(p.listExpr(x.Args[0], s))
			if !known {
				return "?"
			}
			for _, a := range x.Args[1:] {
				w, ok := p.windowOf(a, s)
				if !ok {
					return "?"
				}
				ps = append(ps, w)
			}
			return c14FormatList(ps)
		}
	}
	return "?"
}

type c14PredObs struct {
	list string
	corr bool
	at   ast.Node
}

type c14PredResult struct {
	lists    map[string][]c14PredObs // by ordering "lt","eq","gt"
	noSink   []string                // nil-error exits reached without consuming the list
	retBad   []string                // predicate result differs from any-window
	retUndet []string
	wdObs    []c14WdObs // weekdays stored in the windows at the first filter (window struct with a weekday field)
	anyBad   []string   // any-window call with wrong argument / before filters
	anyUnk   []string   // the same, not derivable
	retSkip  []string   // successful exits that never asked the any-window method
	anySeen  int
	nilExits int
}

func (p *c14Pred) run() *c14PredResult {
	cm, f, info := p.cm, p.f, p.info
	out := &c14PredResult{lists: map[string][]c14PredObs{}}
	g := p.c.P.Graph(f)
	note := func(list *[]string, format string, a ...any) {
		s := fmt.Sprintf(format, a...)
		for _, x := range *list {
			if x == s {
				return
			}
		}
		*list = append(*list, s)
	}
	// the UTC weekday of t is enumerated only when the windows carry a weekday
	weekdays := []int{-1}
	if cm.wdCache != nil {
		weekdays = []int{0, 1, 2, 3, 4, 5, 6}
	}
	for _, wdT := range weekdays {
		for _, se := range []string{"lt", "eq", "gt"} {
			for _, anyV := range []string{"T", "F"} {
				st := &kit.Std{F: f}
				p.st = st
				st.ShouldInline = func(cf *kit.Func, call *ast.CallExpr) bool {
					// the schedule's own methods (window construction split off the predicate)
					return cf != f && c14RecvNamed(cf) == cm.ch.sched
				}
				bf := &kit.BoolFlow{Std: st}
				bf.Atom = func(e ast.Expr) (string, bool, bool) {
					if call, ok := ast.Unparen(e).(*ast.CallExpr); ok && f.CalleeFunc(call) == cm.any {
						return "any", false, true
					}
					return "", false, false
				}
				foldLeaf := func(e ast.Expr, s kit.S) (bool, bool) {
					x, y, op, ok := c14TimeCmp(info, e)
					if !ok {
						return false, false
					}
					a, b := p.instant(x, s), p.instant(y, s)
					if a == "?" || b == "?" {
						return false, false
					}
					offA, _ := strconv.ParseInt(a[1:], 10, 64)
					offB, _ := strconv.ParseInt(b[1:], 10, 64)
					switch {
					case a[0] == b[0] || offA != offB:
						// same time of day, or different days: the day offset decides
						// (both times of day lie within one day)
						return c14RankHolds(int(offA), int(offB), op), true
					case offA == 0 && offB == 0:
						ord := se // S vs E
						if a[0] == 'E' {
							op = ruFlip(op)
						}
						return ruOrdHolds(ord, op), true
					}
					return false, false
				}
				bf.Fold = func(e ast.Expr, s kit.S) (bool, bool) {
					if v, ok := foldLeaf(e, s); ok {
						return v, true
					}
					return p.wdFold(e, s)
				}
				bf.OnCond = func(cond ast.Expr, s kit.S) kit.S {
					for _, l := range ruLeaves(cond) {
						if _, ok := foldLeaf(l, s); ok {
							continue
						}
						if _, ok := p.wdFold(l, s); ok {
							continue
						}
						if p.taintOf(l, s) == "SE" {
							s = s.Set("corr", "T")
						}
						if p.wdMentions(l, s) {
							s = s.Set("wcorr", "T")
						}
					}
					return s
				}
				// switch over a weekday value
				st.OnBranch = func(br kit.Branch, s kit.S) (t, fl []kit.S, handled bool) {
					if br.Kind != kit.BrCase || br.Tag == nil || !p.wdMentions(br.Tag, s) {
						return nil, nil, false
					}
					a, okA := p.wdVal(br.Tag, s)
					b, okB := p.wdVal(br.Case, s)
					switch {
					case okA && okB && a == b:
						return []kit.S{s}, nil, true
					case okA && okB:
						return nil, []kit.S{s}, true
					}
					s = s.Set("wcorr", "T")
					return []kit.S{s}, []kit.S{s}, true
				}
				assignOne := func(l, r ast.Expr, s kit.S) kit.S {
					l = ast.Unparen(l)
					if id, ok := l.(*ast.Ident); ok {
						o := kit.ObjOf(info, id)
						if o == nil {
							return s
						}
						key := kit.VarID(o)
						ex, wl, tw := "", "", ""
						tn := p.taintOf(r, s)
						switch {
						case c14IsTime(o.Type()):
							if p.isUTCOfT(r, s) {
								ex = "utc"
							} else if v := p.instant(r, s); v != "?" {
								ex = v
							}
						case p.isListType(o.Type()):
							wl = p.listExpr(r, s)
						case types.Identical(types.Unalias(o.Type()), cm.tr):
							if w, ok := p.windowOf(r, s); ok {
								tw = c14FormatWin(w)
							}
						default:
							if v := p.intSym(r, s); v != "?" {
								ex = v
							} else if k, ok := p.wdVal(r, s); ok {
								ex = fmt.Sprintf("w:%d", k)
							}
						}
						if o == types.Object(p.tpar) {
							s = s.Set("tmod", "T")
						}
						s = s.Del("ex:" + key).Del("tn:" + key).Del("wl:" + key).Del("tw:" + key)
						if tw != "" {
							s = s.Set("tw:"+key, tw)
						}
						if ex != "" {
							s = s.Set("ex:"+key, ex)
						}
						if tn != "" {
							s = s.Set("tn:"+key, tn)
						}
						if wl != "" {
							s = s.Set("wl:"+key, wl)
						}
						return s
					}
					// w.f = r on a local window
					fieldValue := func(fv *types.Var) (int, string) {
						switch {
						case fv == cm.trF[0]:
							return 0, p.instant(r, s)
						case fv == cm.trF[1]:
							return 1, p.instant(r, s)
						}
						return 2, p.wdStr(r, s)
					}
					isWinField := func(fv *types.Var) bool {
						return fv == cm.trF[0] || fv == cm.trF[1] || (cm.wdCache != nil && fv == cm.wdCache)
					}
					if base, fv, ok := kit.FieldSel(info, l); ok && isWinField(fv) {
						if bid, isId := ast.Unparen(base).(*ast.Ident); isId {
							if bo := kit.ObjOf(info, bid); bo != nil && s.Has("tw:"+kit.VarID(bo)) {
								if w, ok := c14ParseWin(s.Get("tw:" + kit.VarID(bo))); ok {
									k, v := fieldValue(fv)
									w[k] = v
									return s.Set("tw:"+kit.VarID(bo), c14FormatWin(w))
								}
							}
						}
					}
					// L[i].f = r   /   L[i] = window literal
					if base, fv, ok := kit.FieldSel(info, l); ok && isWinField(fv) {
						if ix, ok := ast.Unparen(base).(*ast.IndexExpr); ok {
							if lo := kit.ObjOf(info, ix.X); lo != nil && s.Has("wl:"+kit.VarID(lo)) {
								key := "wl:" + kit.VarID(lo)
								ps, known := c14ParseList(s.Get(key))
								i, okI := kit.ConstInt(info, ix.Index)
								if !known || !okI || i < 0 || int(i) >= len(ps) {
									return s.Set(key, "?")
								}
								k, v := fieldValue(fv)
								ps[i][k] = v
								return s.Set(key, c14FormatList(ps))
							}
						}
					}
					if ix, ok := l.(*ast.IndexExpr); ok {
						if lo := kit.ObjOf(info, ix.X); lo != nil && s.Has("wl:"+kit.VarID(lo)) {
							key := "wl:" + kit.VarID(lo)
							ps, known := c14ParseList(s.Get(key))
							i, okI := kit.ConstInt(info, ix.Index)
							cl, isLit := p.isWindowLit(r)
							if !known || !okI || i < 0 || int(i) >= len(ps) || !isLit {
								return s.Set(key, "?")
							}
							ps[i] = p.pairOf(cl, s)
							return s.Set(key, c14FormatList(ps))
						}
					}
					return s
				}
				st.OnNode = func(n ast.Node, s kit.S) []kit.S {
					switch x := n.(type) {
					case *ast.ReturnStmt:
						// a helper hands back the window list it built
						if cur := st.Cur(); cur != f && len(x.Results) > 0 && p.isListType(info.TypeOf(x.Results[0])) {
							s = s.Set(fmt.Sprintf("rl:%d", cur.Pos()), p.listExpr(x.Results[0], s))
						}
					case *ast.AssignStmt:
						if x.Tok != token.ASSIGN && x.Tok != token.DEFINE {
							if len(x.Lhs) == 1 && len(x.Rhs) == 1 {
								s = p.wdCompound(x.Lhs[0], x.Tok, x.Rhs[0], s)
							}
							for _, l := range x.Lhs {
								if o := kit.ObjOf(info, l); o != nil {
									key := kit.VarID(o)
									if !strings.HasPrefix(s.Get("ex:"+key), "w:") {
										s = s.Del("ex:" + key)
									}
									s = s.Del("wl:" + key)
								}
							}
							return []kit.S{s}
						}
						if len(x.Lhs) == len(x.Rhs) {
							for i, l := range x.Lhs {
								s = assignOne(l, x.Rhs[i], s)
							}
							return []kit.S{s}
						}
						if len(x.Rhs) == 1 {
							tn := p.taintOf(x.Rhs[0], s)
							// y, m, d := tUTC.Date()
							var comps []string
							if call, ok := ast.Unparen(x.Rhs[0]).(*ast.CallExpr); ok {
								if name, rx, isT := c14TimeMethod(info, call); isT && name == "Date" && p.isUTCOfT(rx, s) {
									comps = []string{"Y", "M", "D+0"}
								}
							}
							// the list returned by a helper evaluated inline
							retList := ""
							if call, ok := ast.Unparen(x.Rhs[0]).(*ast.CallExpr); ok {
								if cf := st.Cur().CalleeFunc(call); cf != nil {
									k := fmt.Sprintf("rl:%d", cf.Pos())
									retList = s.Get(k)
									s = s.Del(k)
								}
							}
							for i, l := range x.Lhs {
								o := kit.ObjOf(info, l)
								if o == nil {
									continue
								}
								if _, isId := ast.Unparen(l).(*ast.Ident); !isId {
									continue
								}
								key := kit.VarID(o)
								s = s.Del("ex:" + key).Del("tn:" + key).Del("wl:" + key)
								if tn != "" {
									s = s.Set("tn:"+key, tn)
								}
								if comps != nil && i < len(comps) {
									s = s.Set("ex:"+key, comps[i])
								}
								if i == 0 && retList != "" && p.isListType(o.Type()) {
									s = s.Set("wl:"+key, retList)
								}
							}
						}
					case *ast.ValueSpec:
						if len(x.Values) == len(x.Names) {
							for i, nm := range x.Names {
								s = assignOne(nm, x.Values[i], s)
							}
						} else if len(x.Values) == 0 {
							for _, nm := range x.Names {
								if o := info.Defs[nm]; o != nil && p.isListType(o.Type()) {
									s = s.Set("wl:"+kit.VarID(o), "empty")
								}
							}
						}
					case *ast.IncDecStmt:
						if o := kit.ObjOf(info, x.X); o != nil {
							if strings.HasPrefix(s.Get("ex:"+kit.VarID(o)), "w:") {
								s = p.wdCompound(x.X, x.Tok, nil, s)
							} else {
								s = s.Del("ex:" + kit.VarID(o))
							}
						}
					}
					return []kit.S{s}
				}
				listVarOf := func(e ast.Expr, s kit.S) types.Object {
					e = ast.Unparen(e)
					if u, ok := e.(*ast.UnaryExpr); ok && u.Op == token.AND {
						e = ast.Unparen(u.X)
					}
					if id, ok := e.(*ast.Ident); ok {
						if o := kit.ObjOf(info, id); o != nil && s.Has("wl:"+kit.VarID(o)) {
							return o
						}
					}
					return nil
				}
				st.OnCall = func(call *ast.CallExpr, n ast.Node, s kit.S) []kit.S {
					var lv types.Object
					if sel, ok := ast.Unparen(call.Fun).(*ast.SelectorExpr); ok {
						if _, isMethod := info.Selections[sel]; isMethod {
							lv = listVarOf(sel.X, s)
						}
					}
					if b, ok := kit.Callee(info, call).(*types.Builtin); ok && (b.Name() == "append" || b.Name() == "len" || b.Name() == "cap") {
						return nil
					}
					if lv == nil {
						for _, a := range call.Args {
							if o := listVarOf(a, s); o != nil {
								lv = o
							}
						}
					}
					if lv == nil {
						return nil
					}
					key := "wl:" + kit.VarID(lv)
					if s.Get("sunk") != "T" {
						lst, wds := c14StripWeekdays(s.Get(key))
						ob := c14PredObs{lst, s.Get("corr") == "T", call}
						dup := false
						for _, x := range out.lists[se] {
							dup = dup || x == ob
						}
						if !dup {
							out.lists[se] = append(out.lists[se], ob)
						}
						if wdT >= 0 {
							out.wdObs = append(out.wdObs, c14WdObs{wdT, se, lst, wds, s.Get("wcorr") == "T", call})
						}
						s = s.Set("sunk", "T")
					}
					cf := f.CalleeFunc(call)
					isRecvField := func(e ast.Expr, fv *types.Var) bool {
						base, x, ok := kit.FieldSel(info, e)
						return ok && x == fv && kit.ObjOf(info, base) == types.Object(p.recv)
					}
					switch {
					case cf == cm.fw && len(call.Args) == 1:
						if isRecvField(call.Args[0], cm.ch.wdF) {
							s = s.Set("fw", "T")
						} else if s.Get("fw") != "T" {
							s = s.Set("fw", "?")
						}
					case cf == cm.fd && len(call.Args) == 1:
						if isRecvField(call.Args[0], cm.ch.dateF) {
							s = s.Set("fd", "T")
						} else if s.Get("fd") != "T" {
							s = s.Set("fd", "?")
						}
					case cf == cm.any && len(call.Args) == 1:
						out.anySeen++
						if !p.isT(call.Args[0], s) {
							if p.instant(call.Args[0], s) != "?" {
								note(&out.anyBad, "the any-window test at %s receives `%s` (a window bound), not the instant t", f.At(call), f.Str(call.Args[0]))
							} else {
								note(&out.anyUnk, "the any-window test at %s receives `%s`, which is not seen to be the instant t", f.At(call), f.Str(call.Args[0]))
							}
						}
						switch s.Get("fw") {
						case "T":
						case "?":
							note(&out.anyUnk, "the weekday filter is applied with an argument that is not the schedule's weekday field")
						default:
							note(&out.anyBad, "the any-window test at %s is reached on a path that did not apply the weekday filter", f.At(call))
						}
						switch s.Get("fd") {
						case "T":
						case "?":
							note(&out.anyUnk, "the date filter is applied with an argument that is not the schedule's date field")
						default:
							note(&out.anyBad, "the any-window test at %s is reached on a path that did not apply the date filter", f.At(call))
						}
						s = s.Set("anyc", "T")
					default:
						// some other function received the list: contents unknown from here
					}
					if cf != cm.any {
						s = s.Set(key, "consumed")
					}
					return []kit.S{s}
				}
				init := kit.NewS().Set("a:any", anyV)
				if wdT >= 0 {
					init = init.Set("W", strconv.Itoa(wdT))
				}
				res := g.Run(init, bf.Client())
				if res.Overflow {
					p.c.Fatalf("%s: state space overflow", f.Name)
				}
				p.c.AddValuations(1)
				for _, ex := range res.Exits {
					if ex.Return == nil || len(ex.Return.Results) != 2 {
						continue
					}
					if st.ReturnsNil(ex.Return, ex.State) != "nil" {
						continue
					}
					out.nilExits++
					if ex.State.Get("sunk") != "T" {
						note(&out.noSink, "%s", f.At(ex.Return))
						continue
					}
					v, det := bf.DetEval(ex.Return.Results[0], ex.State)
					switch {
					case !det:
						note(&out.retUndet, "%s", f.At(ex.Return))
					case ex.State.Get("anyc") != "T":
						note(&out.retSkip, "%s", f.At(ex.Return))
					case v != (anyV == "T"):
						note(&out.retBad, "returns %v at %s although the any-window test answered %v", v, f.At(ex.Return), anyV == "T")
					}
				}
			}
		}
	}
	return out
}

func c14R3(c *kit.Ctx, cm *c14Model, r3, r4, r5 *kit.Rule) {
	f := cm.ch.aft
	p := &c14Pred{c: c, cm: cm, f: f, info: f.Info(), recv: c14RecvVar(f)}
	o := r3.Ob(f, nil, "window list", "the list handed to the filters / membership is {[start,end)} if end is after start, else {[start,end+1d), [start-1d,end)}, with start/end = the schedule's start/end time on t's UTC day")
	if ps := f.Params(); len(ps) == 1 {
		p.tpar = ps[0]
	}
	if p.recv == nil || p.tpar == nil {
		o.Undecided("predicate %s lacks a named receiver or its time parameter", f.Name)
		return
	}
	p.groups = c14AtoiGroups(f)
	res := p.run()
	// ---- roles from the non-wrapping case

	describe := func(list string) string {
		ps, known := c14ParseList(list)
		if !known {
			return "an untracked list (" + list + ")"
		}
		var parts []string
		for _, x := range ps {
			parts = append(parts, "{"+cm.trF[0].Name()+": "+c14Human(x[0])+", "+cm.trF[1].Name()+": "+c14Human(x[1])+"}")
		}
		return "[" + strings.Join(parts, ", ") + "]"
	}
	bad := false
	judge := func(se string, want func(ps [][3]string) bool, wantDesc, wit string) {
		obs := res.lists[se]
		if len(obs) == 0 {
			o.Undecided("no path hands a window list to the filters for the ordering %s", se)
			bad = true
			return
		}
		for _, ob := range obs {
			ps, known := c14ParseList(ob.list)
			if known && want(ps) {
				continue
			}
			bad = true
			switch {
			case !known || strings.Contains(ob.list, "?"):
				o.Undecided("the window list reaching %s is not built from recognised instants: %s", f.At(ob.at), describe(ob.list))
			case ob.corr:
				o.Undecided("the window list reaching %s depends on a comparison of start- and end-derived values the checker does not interpret", f.At(ob.at))
			default:
				o.Violation("witness: %s → windows %s at %s, expected %s", wit, describe(ob.list), f.At(ob.at), wantDesc)
			}
		}
	}
	// lt first: it defines which field is the start
	for _, ob := range res.lists["lt"] {
		ps, known := c14ParseList(ob.list)
		if known && len(ps) == 1 {
			switch {
			case ps[0][0] == "S+0" && ps[0][1] == "E+0":
				cm.startIdx, cm.endIdx = 0, 1
			case ps[0][0] == "E+0" && ps[0][1] == "S+0":
				cm.startIdx, cm.endIdx = 1, 0
			}
		}
	}
	si, ei := cm.startIdx, cm.endIdx
	if si < 0 {
		si, ei = 0, 1
	}
	judge("lt", func(ps [][3]string) bool {
		return cm.startIdx >= 0 && len(ps) == 1 && ps[0][si] == "S+0" && ps[0][ei] == "E+0"
	}, "exactly one window [start, end)", "start 08:00, end 17:00")
	wrap := func(ps [][3]string) bool {
		if len(ps) != 2 {
			return false
		}
		a := ps[0][si] + "|" + ps[0][ei]
		b := ps[1][si] + "|" + ps[1][ei]
		return (a == "S+0|E+1" && b == "S-1|E+0") || (b == "S+0|E+1" && a == "S-1|E+0")
	}
	judge("gt", wrap, "[start, end+1d) and [start-1d, end)", "start 22:00, end 06:00")
	judge("eq", wrap, "[start, end+1d) and [start-1d, end)", "start 08:00, end 08:00")
	for _, x := range p.hmNotes {
		o.Violation("%s", x)
		bad = true
	}
	for _, x := range res.noSink {
		o.Undecided("the predicate returns success at %s on a path that never hands the window list to a filter or membership method", x)
		bad = true
	}
	if !bad {
		o.OK("3 orderings of start/end: one window, resp. two windows shifted by one day; start field = %s, end field = %s", cm.trF[cm.startIdx].Name(), cm.trF[cm.endIdx].Name())
	}
	// ---- R4: filters applied before membership
	o4 := r4.Ob(f, nil, "filters applied", "every path that asks whether a window contains t has applied the weekday filter with the schedule's weekday list and the date filter with its date list")
	var fbad, other []string
	for _, b := range res.anyBad {
		if strings.Contains(b, "filter") {
			fbad = append(fbad, b)
		} else {
			other = append(other, b)
		}
	}
	var funk, ounk []string
	for _, b := range res.anyUnk {
		if strings.Contains(b, "filter") {
			funk = append(funk, b)
		} else {
			ounk = append(ounk, b)
		}
	}
	switch {
	case len(fbad) > 0:
		o4.Violation("witness: schedule restricted to a weekday/date and a time of day inside the window on another day → %s", strings.Join(fbad, "; "))
	case len(funk) > 0:
		o4.Undecided("%s", strings.Join(funk, "; "))
	case res.anySeen == 0:
		o4.Undecided("the predicate never calls the any-window method")
	default:
		o4.OK("both filters precede the any-window test on all paths")
	}
	// ---- R5 (predicate part)
	o5 := r5.Ob(f, nil, "predicate result", "every successful exit returns the answer of the any-window test for t")
	switch {
	case len(other) > 0:
		o5.Violation("%s", strings.Join(other, "; "))
	case len(res.retBad) > 0:
		o5.Violation("witness: a window that contains t (resp. none) → predicate %s", strings.Join(res.retBad, "; "))
	case len(ounk) > 0:
		o5.Undecided("%s", strings.Join(ounk, "; "))
	case len(res.retSkip) > 0:
		o5.Undecided("successful exit(s) at %s never call the any-window method", strings.Join(res.retSkip, ", "))
	case len(res.retUndet) > 0:
		o5.Undecided("result at %s is not a function of the any-window test", strings.Join(res.retUndet, ", "))
	case res.nilExits == 0:
		o5.Undecided("no successful exit found")
	default:
		o5.OK("all successful exits return the any-window answer (2 valuations × 3 orderings)")
	}
	// ---- R4: a weekday kept with the window is the weekday of its start
	c14WeekdayCache(c, cm, p, res, r4)
}

func c14Human(sym string) string {
	if len(sym) < 2 {
		return sym
	}
	base := map[byte]string{'S': "start", 'E': "end"}[sym[0]]
	if base == "" {
		return sym
	}
	off, err := strconv.ParseInt(sym[1:], 10, 64)
	if err != nil {
		return sym
	}
	if off == 0 {
		return base
	}
	return fmt.Sprintf("%s%+dd", base, off)
}
