package props

import (
	"go/ast"
	"go/constant"
	"go/token"
	"go/types"
	"strconv"
	"strings"

	"siotcheck/kit"
)

func init() {
	kit.Register(&kit.Prop{
		ID:    "C05",
		Title: "The graph stays a rooted DAG and refused writes leave no trace",
		Explanation: "Structural necessary conditions of C05 decided on every path of the store's point writers and bus handlers " +
			"(DESIGN.md §3/C05): R1 self-edge and root-tombstone refusals precede the transaction under the corresponding input scenario; " +
			"R2 a new edge without node type never reaches INSERT INTO edges; R3 every INSERT INTO edges is preceded by an ancestor walk whose " +
			"positive answer cannot reach it; R4 a batch containing NaN reaches neither Begin nor a bind of the value; " +
			"R5 every exit after Begin is committed or rolled back and a rolled-back exit never returns nil; " +
			"R6 the handlers' error edge replies once with the error and returns without rebroadcast. " +
			"Decided: these clauses, exhaustively over CFG paths; not decided: that SQLite's rollback restores state, cycles already in a database file, latency.",
		Assumptions: []string{
			"database/sql: Rollback discards everything executed on the transaction; Commit returning nil makes it durable",
			"a database file that already contains a cycle is outside the claim",
			"the bus delivers replies (NATS)",
			"non-atom conditions are treated as nondeterministic (both edges explored)",
		},
		Run: runC05,
	})
}

func runC05(c *kit.Ctx) {
	m := newStoreModel(c)
	r1 := c.Rule("R1", "pre-checks dominate Begin (self edge, root tombstone)", 4)
	r2 := c.Rule("R2", "new edge requires a node type", 1)
	r3 := c.Rule("R3", "no edge insert without ancestor check", 1)
	r4 := c.Rule("R4", "NaN batch is refused before anything is written", 2)
	r5 := c.Rule("R5", "commit/rollback on every exit after Begin", 3)
	r6 := c.Rule("R6", "handlers stop on writer error", 2)
	r7 := c.Rule("R7", "client move: the refusable step comes first", 1)

	ew := m.writer("edge_points")
	nw := m.writer("node_points")
	if ew == nil || nw == nil {
		c.Fatalf("point writers not found (node_points: %v, edge_points: %v)", nw != nil, ew != nil)
	}
	if ew.Begin == nil || nw.Begin == nil || ew.Batch == nil || nw.Batch == nil {
		c.Fatalf("point writers lack a Begin call or a data.Points parameter")
	}
	if len(ew.IDs) != 2 {
		c.Fatalf("edge writer %s: expected two string id parameters, found %d", ew.F.Name, len(ew.IDs))
	}
	c.Analysed(ew.F, nw.F)
	info := ew.F.Info()

	tomb := dataConst(c, "PointTypeTombstone")
	ntype := dataConst(c, "PointTypeNodeType")

	isBegin := func(sc *scenario, call *ast.CallExpr) string {
		if isBeginCall(sc.std.Cur(), call) {
			return "Begin"
		}
		for _, s := range m.sql.Sites {
			if s.Call == call && s.Mutates() {
				return "mutating SQL " + s.Method
			}
		}
		return ""
	}
	edgeInsert := func(call *ast.CallExpr) bool {
		for _, s := range m.sql.Sites {
			if s.Call == call && s.HasVerb("INSERT", "edges") {
				return true
			}
		}
		return false
	}

	judgeRefusal := func(o *kit.Ob, sc *scenario, res *scenarioResult, what string) {
		if len(res.hits) > 0 {
			h := res.hits[0]
			o.Violation("under scenario «%s» the writer still reaches %s at %s", what, h.what, sc.f.At(h.call))
			return
		}
		if res.rets["nil"] > 0 {
			for _, e := range res.exits {
				if sc.std.ReturnsNil(e.Return, e.State) == "nil" {
					o.Violation("under scenario «%s» the writer returns nil (success) at %s", what, sc.f.At(e.Return)).WithPath(res.res.PathTo(e))
					return
				}
			}
		}
		if res.rets["unknown"] > 0 {
			o.Undecided("under scenario «%s» an exit returns an error value of unknown nil-ness", what)
			return
		}
		if len(res.exits) == 0 {
			o.Undecided("scenario «%s»: no exit reached", what)
			return
		}
		var sites []string
		for _, e := range res.exits {
			sites = append(sites, sc.f.At(e.Return))
		}
		o.OK("all %d exits under the scenario return a non-nil error before Begin: %s", len(res.exits), strings.Join(uniqStrings(sites), ", "))
	}

	// ---- R1a self edge
	{
		sc := &scenario{c: c, name: "self-edge", f: ew.F, batch: map[types.Object]bool{ew.Batch: true},
			init: kit.NewS().Set("a:self", "T"), forbidden: isBegin}
		sc.atom = func(sc *scenario, e ast.Expr) (string, bool, bool) {
			if neg, ok := eqAtom(e, scParam(sc, ew.IDs[0]), scParam(sc, ew.IDs[1])); ok {
				return "self", neg, true
			}
			return "", false, false
		}
		res := sc.run()
		c.AddValuations(1)
		o := r1.Ob(ew.F, ew.Begin, "self-edge refusal", "with node id == parent id every path returns an error before Begin")
		judgeRefusal(o, sc, res, "node id == parent id")
	}
	// ---- R1b root tombstone: every non-zero tombstone value is refused (the readers of
	// the repository disagree on what "deleted" means: == 1, odd, != 0 — any of them
	// would see the root as deleted for one of the values 1, 2, 3)
	if m.rootField == nil {
		c.Fatalf("cached root id field not found (scan of SELECT … root_id … FROM meta)")
	}
	for _, tv := range []float64{1, 2, 3} {
		tv := tv
		sc := &scenario{c: c, name: "root-tombstone", f: ew.F, batch: map[types.Object]bool{ew.Batch: true},
			init: kit.NewS().Set("a:isroot", "T").Set("a:tomb", "T"), forbidden: isBegin}
		sc.atom = func(sc *scenario, e ast.Expr) (string, bool, bool) {
			for _, idp := range ew.IDs {
				if neg, ok := eqAtom(e, scParam(sc, idp), func(x ast.Expr) bool { return m.isRootIDExpr(ew.F, x) }); ok {
					return "isroot", neg, true
				}
			}
			if neg, ok := eqAtom(e, func(x ast.Expr) bool { return sc.elemField(x, "Type") }, constStringIs(info, tomb)); ok {
				return "tomb", neg, true
			}
			if neg, ok := eqAtom(e, func(x ast.Expr) bool { return sc.elemField(x, "Type") }, constStringIs(info, ntype)); ok {
				// a tombstone point is not a node-type point
				return "tomb", !neg, true
			}
			return "", false, false
		}
		sc.fold = func(sc *scenario, e ast.Expr, s kit.S) (bool, bool) { return foldWithValue(sc, e, tv) }
		res := sc.run()
		c.AddValuations(1)
		key := "root-tombstone refusal"
		if tv != 1 {
			key += " (value " + strconv.Itoa(int(tv)) + ")"
		}
		o := r1.Ob(ew.F, ew.Begin, key, "with node id == root id and a tombstone point of value "+strconv.Itoa(int(tv))+" in the batch every path returns an error before Begin")
		judgeRefusal(o, sc, res, "node is the root and the batch carries tombstone="+strconv.Itoa(int(tv)))
	}
	// ---- R2 node type required
	{
		sc := &scenario{c: c, name: "no-node-type", f: ew.F, batch: map[types.Object]bool{ew.Batch: true},
			init: kit.NewS().Set("a:isnt", "F")}
		sc.atom = func(sc *scenario, e ast.Expr) (string, bool, bool) {
			if neg, ok := eqAtom(e, func(x ast.Expr) bool { return sc.elemField(x, "Type") }, constStringIs(info, ntype)); ok {
				return "isnt", neg, true
			}
			return "", false, false
		}
		sc.forbidden = func(sc *scenario, call *ast.CallExpr) string {
			if edgeInsert(call) {
				return "INSERT INTO edges"
			}
			return ""
		}
		res := sc.run()
		c.AddValuations(1)
		n := 0
		for _, s := range m.sql.Sites {
			if ew.owns(s) && s.HasVerb("INSERT", "edges") {
				n++
			}
		}
		o := r2.Ob(ew.F, ew.Begin, "node-type guard", "with no node-type point in the batch no INSERT INTO edges is reachable")
		switch {
		case n == 0:
			o.Undecided("no INSERT INTO edges site in %s", ew.F.Name)
		case len(res.hits) > 0:
			o.Violation("a batch without node-type point reaches %s at %s", res.hits[0].what, ew.F.At(res.hits[0].call))
		default:
			o.OK("%d INSERT INTO edges site(s) unreachable under the scenario", n)
		}
	}
	// ---- R3 ancestor check before INSERT INTO edges
	checkR3(c, m, ew, r3)
	// ---- R4 NaN
	for _, w := range []*pointWriter{nw, ew} {
		// from the function the handlers call (the refusal may sit in a wrapper of the writer)
		sc := &scenario{c: c, name: "nan", f: w.Entry, batch: map[types.Object]bool{w.EntryBatch: true, w.Batch: true},
			init: kit.NewS().Set("a:nan", "T"), forbidden: isBegin, interproc: true}
		sc.atom = func(sc *scenario, e ast.Expr) (string, bool, bool) {
			if call, ok := ast.Unparen(e).(*ast.CallExpr); ok && len(call.Args) == 1 &&
				kit.CallIs(sc.f.Info(), call, "math.IsNaN") && sc.elemField(call.Args[0], "Value") {
				return "nan", false, true
			}
			// x != x spelling
			if a, b, op, ok := kit.CmpAtom(e); ok && sc.elemField(a, "Value") && kit.SameExpr(sc.f.Info(), a, b) {
				return "nan", op.String() == "==", true
			}
			return "", false, false
		}
		res := sc.run()
		c.AddValuations(1)
		o := r4.Ob(w.F, w.Begin, "NaN refusal", "with a NaN value in the batch every path returns an error before Begin / any mutating statement")
		judgeRefusal(o, sc, res, "the batch carries a NaN value")
	}
	// ---- R5 typestate
	checkTxTypestateFor(c, m, r5, false)
	// ---- R6 handlers
	checkHandlers(c, m, r6, nil, nil)
	// ---- R7 two-step client operations
	c05ClientMoves(c, r7, tomb)
}

// c05ClientMoves: a client function that both creates an edge (tombstone 0 under
// one parent) and deletes one (tombstone > 0 under another parent) for the same
// node performs two separate store writes.  The store can refuse only the creation
// (cycle, missing type, self edge); if the deletion went first a refused move has
// already removed the node from its old parent — a trace of a refused write.  So the
// deleting send must be reachable only on the nil edge of the creating send.
func c05ClientMoves(c *kit.Ctx, r7 *kit.Rule, tomb string) {
	n := 0
	for _, f := range c.P.Funcs("client") {
		if f.Decl == nil || f.Body == nil {
			continue
		}
		info := f.Info()
		// classify sends by the tombstone literal they carry
		kindOf := func(call *ast.CallExpr) string {
			isSend := false
			if fn, ok := kit.Callee(info, call).(*types.Func); ok && fn.Pkg() != nil && fn.Pkg().Path() == clientPkg {
				sig := fn.Type().(*types.Signature)
				for i := 0; i < sig.Params().Len(); i++ {
					if kit.IsNamedType(sig.Params().At(i).Type(), natsPkg, "Conn") {
						isSend = true
					}
				}
			}
			if !isSend {
				return ""
			}
			kind := ""
			for _, a := range call.Args {
				ast.Inspect(a, func(x ast.Node) bool {
					cl, ok := x.(*ast.CompositeLit)
					if !ok || !kit.IsNamedType(info.TypeOf(cl), dataPkg, "Point") {
						return true
					}
					isTomb, val, hasVal := false, int64(0), false
					for _, el := range cl.Elts {
						kv, ok := el.(*ast.KeyValueExpr)
						if !ok {
							continue
						}
						key, _ := kv.Key.(*ast.Ident)
						if key == nil {
							continue
						}
						if key.Name == "Type" {
							if sv, ok := kit.ConstString(info, kv.Value); ok && sv == tomb {
								isTomb = true
							}
						}
						if key.Name == "Value" {
							if tv, ok := info.Types[kv.Value]; ok && tv.Value != nil {
								if fv, ok := constantFloat(tv.Value); ok {
									val, hasVal = int64(fv), true
								}
							}
						}
					}
					if isTomb {
						if hasVal && val > 0 {
							kind = "delete"
						} else if kind == "" {
							kind = "create"
						}
					}
					return true
				})
			}
			return kind
		}
		var creates, deletes []*ast.CallExpr
		for _, call := range f.AllCalls(false) {
			switch kindOf(call) {
			case "create":
				creates = append(creates, call)
			case "delete":
				deletes = append(deletes, call)
			}
		}
		if len(creates) == 0 || len(deletes) == 0 {
			continue
		}
		n++
		c.Analysed(f)
		st := &kit.Std{F: f}
		st.ErrTag = func(call *ast.CallExpr, s kit.S) string {
			if kindOf(call) == "create" {
				return "create"
			}
			return ""
		}
		st.OnErrEdge = func(tag string, isErr bool, s kit.S) (kit.S, bool) {
			if tag == "create" {
				if isErr {
					return s.Set("cr", "failed"), true
				}
				return s.Set("cr", "ok"), true
			}
			return s, true
		}
		bad := ""
		st.OnCall = func(call *ast.CallExpr, nd ast.Node, s kit.S) []kit.S {
			switch kindOf(call) {
			case "create":
				return []kit.S{s.Set("cr", "pending")}
			case "delete":
				if s.Get("cr") != "ok" && bad == "" {
					bad = "the deleting send at " + f.At(call) + " is reachable " + map[string]string{"": "before the edge under the new parent was requested", "pending": "without looking at the result of the creating send", "failed": "although the creating send was refused"}[s.Get("cr")]
				}
			}
			return nil
		}
		res := c.P.Graph(f).Run(kit.NewS(), st.Client())
		if res.Overflow {
			c.Fatalf("R7 overflow in %s", f.Name)
		}
		o := r7.Ob(f, creates[0], "create-then-delete in "+f.Name, "the edge under the new parent is accepted by the store before the edge under the old parent is tombstoned")
		if bad != "" {
			o.Violation("%s: a move the store refuses (cycle, self edge, missing type) has then already removed the node from its old parent and announced the deletion", bad)
		} else {
			o.OK("delete dominated by the nil edge of the create")
		}
	}
	if n == 0 {
		r7.Ob(nil, nil, "two-step client operations", "exist").Undecided("no client function sends both a creating and a deleting edge point")
	}
}

func constantFloat(v constant.Value) (float64, bool) {
	if v.Kind() != constant.Int && v.Kind() != constant.Float {
		return 0, false
	}
	f, _ := constant.Float64Val(v)
	return f, true
}

func uniqStrings(in []string) []string {
	seen := map[string]bool{}
	var out []string
	for _, s := range in {
		if !seen[s] {
			seen[s] = true
			out = append(out, s)
		}
	}
	return out
}

// walkFuncs finds the functions of package store that can answer an
// ancestry question: bool among the results, self-recursive (or looping), and
// reading rows of table edges constrained on down or up.
func walkFuncs(c *kit.Ctx, m *storeModel) map[*kit.Func]bool {
	out := map[*kit.Func]bool{}
	for _, f := range c.P.Funcs("store") {
		if f.Type.Results == nil {
			continue
		}
		hasBool := false
		for _, r := range f.Type.Results.List {
			if b, ok := f.Info().TypeOf(r.Type).Underlying().(*types.Basic); ok && b.Kind() == types.Bool {
				hasBool = true
			}
		}
		if !hasBool {
			continue
		}
		readsEdges := edgeQuerySiteOf(c, m, f, 0) != nil
		if !readsEdges {
			continue
		}
		out[f] = true
	}
	return out
}

func contains(xs []string, x string) bool {
	for _, y := range xs {
		if y == x {
			return true
		}
	}
	return false
}

func checkR3(c *kit.Ctx, m *storeModel, ew *pointWriter, r3 *kit.Rule) {
	walks := walkFuncs(c, m)
	f := ew.F
	ids := ew.IDs
	if ew.Body != ew.F {
		// the edge is inserted in the body function the writer hands its transaction to:
		// the rule is judged there, with the body's own id parameters
		inBody, walkInBody, walkInF := false, false, false
		for _, site := range m.sql.Sites {
			if site.F.Root() == ew.Body && site.HasVerb("INSERT", "edges") {
				inBody = true
			}
		}
		for _, call := range ew.Body.AllCalls(true) {
			if cf := ew.Body.CalleeFunc(call); cf != nil && walks[cf] {
				walkInBody = true
			}
		}
		for _, call := range ew.F.AllCalls(true) {
			if cf := ew.F.CalleeFunc(call); cf != nil && walks[cf] {
				walkInF = true
			}
		}
		if inBody {
			if !walkInBody && walkInF {
				r3.Ob(ew.F, nil, "INSERT INTO edges", "preceded by an ancestor walk").Undecided("the ancestor walk is called in %s, the edge is inserted in %s: the order across the two is not followed", ew.F.Name, ew.Body.Name)
				return
			}
			f = ew.Body
			ids = nil
			for _, p := range f.Params() {
				if b, ok := p.Type().Underlying().(*types.Basic); ok && b.Kind() == types.String {
					ids = append(ids, p)
				}
			}
		}
	}
	info := f.Info()
	// variables that receive the bool result of a walk call with both ids
	cycVars := map[types.Object]*ast.CallExpr{}
	ast.Inspect(f.Body, func(n ast.Node) bool {
		as, ok := n.(*ast.AssignStmt)
		if !ok || len(as.Rhs) != 1 {
			return true
		}
		call, ok := ast.Unparen(as.Rhs[0]).(*ast.CallExpr)
		if !ok {
			return true
		}
		cf := f.CalleeFunc(call)
		if cf == nil || !walks[cf] {
			return true
		}
		// both id parameters must be passed
		seen := 0
		for _, idp := range ids {
			for _, a := range call.Args {
				if kit.ObjOf(info, a) == types.Object(idp) {
					seen++
					break
				}
			}
		}
		if seen < 2 {
			return true
		}
		for _, l := range as.Lhs {
			if o := kit.ObjOf(info, l); o != nil {
				if b, ok := o.Type().Underlying().(*types.Basic); ok && b.Kind() == types.Bool {
					cycVars[o] = call
				}
			}
		}
		return true
	})
	st := &kit.Std{F: f}
	st.Eval.Atom = func(e ast.Expr) (string, bool, bool) {
		if o := kit.ObjOf(info, e); o != nil && cycVars[o] != nil {
			return "cyc:" + kit.VarID(o), false, true
		}
		return "", false, false
	}
	type hit struct {
		call *ast.CallExpr
		s    kit.S
	}
	hits := map[*ast.CallExpr]*hit{}
	reached := map[*ast.CallExpr]bool{}
	st.OnNode = func(n ast.Node, s kit.S) []kit.S {
		if as, ok := n.(*ast.AssignStmt); ok && len(as.Rhs) == 1 {
			if call, ok := ast.Unparen(as.Rhs[0]).(*ast.CallExpr); ok {
				for _, l := range as.Lhs {
					if o := kit.ObjOf(info, l); o != nil && cycVars[o] == call {
						s = s.Del("a:cyc:"+kit.VarID(o)).Set("asked", "1")
					}
				}
			}
		}
		return []kit.S{s}
	}
	st.OnCall = func(call *ast.CallExpr, n ast.Node, s kit.S) []kit.S {
		for _, site := range m.sql.Sites {
			if site.Call == call && site.HasVerb("INSERT", "edges") {
				reached[call] = true
				clear := false
				if s.Get("asked") == "1" {
					for o := range cycVars {
						if s.Get("a:cyc:"+kit.VarID(o)) == "F" {
							clear = true
						}
					}
				}
				if !clear && hits[call] == nil {
					hits[call] = &hit{call, s}
				}
			}
		}
		return nil
	}
	res := f.Prog.Graph(f).Run(kit.NewS(), st.Client())
	if res.Overflow {
		c.Fatalf("R3: state overflow in %s", f.Name)
	}
	n := 0
	for _, site := range m.sql.Sites {
		if site.F.Root() != f || !site.HasVerb("INSERT", "edges") {
			continue
		}
		n++
		key := "INSERT INTO edges"
		if n > 1 {
			key = "INSERT INTO edges (retry)"
		}
		o := r3.Ob(f, site.Call, key, "reached only after an ancestor walk over table edges (both ids passed) answered false")
		if !reached[site.Call] {
			o.OK("site unreachable")
			continue
		}
		if h := hits[site.Call]; h != nil {
			if len(walks) == 0 {
				o.Violation("INSERT INTO edges is reachable and package store has no function that walks the ancestors of a node (recursive, bool result, SELECT … FROM edges WHERE down/up): a new edge can close a cycle")
			} else {
				o.Violation("INSERT INTO edges is reachable on a path where no ancestor walk answered false (state %s)", h.s.String())
			}
			continue
		}
		var names []string
		for _, call := range cycVars {
			names = append(names, f.Str(call))
		}
		o.OK("dominated by the false edge of %s", strings.Join(names, "; "))
	}
	// R3b: the walk itself must be able to answer true and must follow
	// every parent edge: checked structurally
	for wf := range walks {
		used := false
		for _, call := range cycVars {
			if f.CalleeFunc(call) == wf {
				used = true
			}
		}
		if !used {
			continue
		}
		c.Analysed(wf)
		o := r3.Ob(wf, nil, "ancestor walk shape", "returns true when the searched id is met, recurses over every row of the edges query without tombstone filter")
		checkWalkShape(c, m, wf, o)
		for _, call := range cycVars {
			if f.CalleeFunc(call) == wf {
				o2 := r3.Ob(wf, call, "ancestor walk roles", "the walk starts at the new parent and searches for the node (or the reverse, downwards); the search target is forwarded unchanged and every queried row is visited")
				checkWalkRoles(c, m, ew, wf, call, o2)
			}
		}
	}
}

// checkWalkShape: (i) some `return true, …` guarded by an equality between two
// string parameters; (ii) the recursive call sits in a loop over the query
// rows and is not guarded by any condition on edge points (no tombstone
// filter: deleted edges can be undeleted later).
func checkWalkShape(c *kit.Ctx, m *storeModel, wf *kit.Func, o *kit.Ob) {
	info := wf.Info()
	params := map[types.Object]bool{}
	for _, p := range wf.Params() {
		if b, ok := p.Type().Underlying().(*types.Basic); ok && b.Kind() == types.String {
			params[p] = true
		}
	}
	// with the searched id equal to the start the walk answers true on every path
	// (however the comparison is spelled: inline, through a local, in a predicate)
	eqGuard := false
	{
		st := &kit.Std{F: wf}
		st.ShouldInline = func(cf *kit.Func, call *ast.CallExpr) bool { return cf != wf && txParamOf(cf) == nil }
		st.Eval.Atom = func(e ast.Expr) (string, bool, bool) {
			isP := func(x ast.Expr) bool { return params[st.ObjOf(x)] }
			if neg, ok := eqAtom(e, isP, isP); ok {
				return "same", neg, true
			}
			return "", false, false
		}
		res := c.P.Graph(wf).Run(kit.NewS().Set("a:same", "T"), st.Client())
		n, allTrue := 0, true
		for _, ex := range res.Exits {
			if ex.Return == nil || len(ex.Return.Results) == 0 {
				continue
			}
			n++
			if v, ok := st.FoldExpr(ex.Return.Results[0], ex.State); !ok || v.ExactString() != "true" {
				allTrue = false
			}
		}
		eqGuard = n > 0 && allTrue && !res.Overflow
	}
	// does the walk recurse at all?  If not it must be an iterative work-list walk.
	recursive := false
	for _, call := range wf.AllCalls(true) {
		if wf.CalleeFunc(call) == wf {
			recursive = true
		}
		if v, ok := kit.Callee(info, call).(*types.Var); ok && wf.LocalClosure(v) == wf {
			recursive = true
		}
	}
	if !recursive {
		// iterative: the parent query must return every row (Query / a slice-returning
		// wrapper, not QueryRow), inside a loop, rows pushed unconditionally
		site := edgeQuerySiteOf(c, m, wf, 0)
		// the query (or the helper that runs it) must be reached from inside a loop of wf
		inLoop := false
		ast.Inspect(wf.Body, func(n ast.Node) bool {
			switch n.(type) {
			case *ast.ForStmt, *ast.RangeStmt:
				ast.Inspect(n, func(x ast.Node) bool {
					if call, ok := x.(*ast.CallExpr); ok {
						if site != nil && call == site.Call {
							inLoop = true
						}
						if cf := wf.CalleeFunc(call); cf != nil && site != nil && edgeQuerySiteOf(c, m, cf, 1) == site {
							inLoop = true
						}
					}
					return true
				})
			}
			return true
		})
		switch {
		case site == nil:
			o.Undecided("%s: edge query not found", wf.Name)
		case site.Method == "QueryRow":
			o.Violation("%s reads the parents of a node with QueryRow: only the first parent edge of each node is followed, an ancestor reachable through a second parent (mirrored node) is never seen", wf.Name)
		case !inLoop:
			o.Violation("%s neither recurses nor loops over the edge query: it looks one level up only", wf.Name)
		default:
			checkWorklistWalk(c, m, wf, site, o)
		}
		return
	}
	if !eqGuard {
		o.Violation("the ancestor walk %s never answers true on `id == ancestor` of its string parameters", wf.Name)
		return
	}
	// recursion inside a range loop, unconditioned except by visited-set / error idioms
	okRec := false
	bad := ""
	for _, call := range wf.AllCalls(false) {
		if wf.CalleeFunc(call) != wf {
			continue
		}
		inLoop := wf.Enclosing(call, func(n ast.Node) bool { _, ok := n.(*ast.RangeStmt); return ok })
		if inLoop == nil {
			if fl := wf.Enclosing(call, func(n ast.Node) bool { _, ok := n.(*ast.ForStmt); return ok }); fl == nil {
				bad = "recursive call is not inside a loop over the parent edges"
				continue
			}
		}
		// any enclosing `if` between the loop and the call that mentions Points/Tombstone → filter
		filtered := false
		for x := c.P.Parent(wf.File, call); x != nil && x != inLoop; x = c.P.Parent(wf.File, x) {
			if is, ok := x.(*ast.IfStmt); ok {
				txt := wf.Str(is.Cond)
				if strings.Contains(txt, "Tombstone") || strings.Contains(txt, "Points") {
					filtered = true
				}
			}
		}
		if filtered {
			bad = "recursive call is filtered on edge points (deleted edges must be followed)"
			continue
		}
		okRec = true
	}
	if !okRec {
		if bad == "" {
			bad = "no recursive call found"
		}
		o.Violation("%s: %s", wf.Name, bad)
		return
	}
	o.OK("`return true` under id equality; recursion over every row")
}

// checkTxTypestate implements C05/R5 = C04/R2 on every function of package
// store that begins a transaction.
func checkTxTypestate(c *kit.Ctx, m *storeModel, r *kit.Rule) {
	checkTxTypestateFor(c, m, r, true)
}

// checkTxTypestateFor: resultMatters = a nil result without a successful Commit is a
// violation (C04: the write would be acknowledged); for C05 only the completion of the
// transaction matters (a failed or unobserved commit leaves no trace of a refused write).
func checkTxTypestateFor(c *kit.Ctx, m *storeModel, r *kit.Rule, resultMatters bool) {
	for _, f := range c.P.Funcs("store") {
		if f.Body == nil {
			continue
		}
		begin := beginCallOf(f)
		if begin == nil {
			continue
		}
		c.Analysed(f)
		txTypestate(c, f, r, resultMatters)
	}
}

func txTypestate(c *kit.Ctx, f *kit.Func, r *kit.Rule, resultMatters bool) {
	info := f.Info()
	st := &kit.Std{F: f}
	st.ErrTag = func(call *ast.CallExpr, s kit.S) string {
		switch {
		case isBeginCall(f, call):
			return "begin"
		case kit.CallIs(info, call, qCommit):
			return "commit"
		}
		return ""
	}
	st.OnErrEdge = func(tag string, isErr bool, s kit.S) (kit.S, bool) {
		switch tag {
		case "begin":
			if s.Get("tx") != "beginpending" {
				return s, true
			}
			if isErr {
				return s.Set("tx", "none"), true
			}
			return s.Set("tx", "begun"), true
		case "commit":
			if s.Get("tx") != "commitpending" {
				return s, true
			}
			if isErr {
				return s.Set("tx", "commitfailed"), true
			}
			return s.Set("tx", "committed"), true
		}
		return s, true
	}
	var bothSites []*ast.CallExpr
	st.OnCall = func(call *ast.CallExpr, n ast.Node, s kit.S) []kit.S {
		switch {
		case isBeginCall(f, call):
			return []kit.S{s.Set("tx", "beginpending")}
		case kit.CallIs(info, call, qCommit):
			if s.Get("tx") == "rolledback" {
				bothSites = append(bothSites, call)
			}
			return []kit.S{s.Set("tx", "commitpending")}
		case isRollback(f, call):
			switch s.Get("tx") {
			case "begun", "beginpending", "commitfailed", "commitpending":
				return []kit.S{s.Set("tx", "rolledback")}
			}
		}
		return nil
	}
	// deferred clean-up closures that roll back under a condition
	// (`defer func() { if !committed { tx.Rollback() } }()`, `if err != nil { … }` on a
	// named result) are evaluated at every exit under the exit's own state
	deferred := map[string]*kit.Func{}
	st.OnNode = func(n ast.Node, s kit.S) []kit.S {
		if d, ok := n.(*ast.DeferStmt); ok {
			if isRollback(f, d.Call) {
				s = s.Set("deferrb", "1")
			} else if lf := f.CalleeFunc(d.Call); lf != nil && lf.Lit != nil && lf.Body != nil {
				has := false
				for _, call := range lf.AllCalls(false) {
					if kit.CallIs(info, call, qRollback, qCommit) {
						has = true
					}
				}
				if has {
					k := strconv.Itoa(int(d.Pos()))
					deferred[k] = lf
					s = s.Set("deferlit", k)
				}
			}
		}
		return []kit.S{s}
	}
	// the named error result, if any (what a deferred closure sees as the outcome)
	var errResult types.Object
	if f.Type.Results != nil {
		for _, fl := range f.Type.Results.List {
			for _, nm := range fl.Names {
				if o := info.Defs[nm]; o != nil && isErrorType(o.Type()) {
					errResult = o
				}
			}
		}
	}
	// deferredRolls: does the deferred closure roll back when the function leaves in state s
	// with result classification rn ("always"/"never"/"sometimes")
	deferredRolls := func(lf *kit.Func, s kit.S, rn string) string {
		var inits []kit.S
		if errResult != nil {
			switch rn {
			case "nil":
				inits = []kit.S{s.Set("nn:"+kit.VarID(errResult), "F")}
			case "nonnil":
				inits = []kit.S{s.Set("nn:"+kit.VarID(errResult), "T")}
			default:
				inits = []kit.S{s.Set("nn:"+kit.VarID(errResult), "F"), s.Set("nn:"+kit.VarID(errResult), "T")}
			}
		} else {
			inits = []kit.S{s}
		}
		yes, no, cm := 0, 0, 0
		for _, in := range inits {
			ds := &kit.Std{F: lf}
			ds.OnCall = func(call *ast.CallExpr, n ast.Node, x kit.S) []kit.S {
				if kit.CallIs(info, call, qRollback) {
					return []kit.S{x.Set("drb", "1")}
				}
				if kit.CallIs(info, call, qCommit) {
					return []kit.S{x.Set("dcm", "1")}
				}
				return nil
			}
			dres := f.Prog.Graph(lf).Run(in.Del("drb").Del("dcm"), ds.Client())
			for _, e := range dres.Exits {
				switch {
				case e.State.Get("drb") == "1":
					yes++
				case e.State.Get("dcm") == "1":
					cm++
				default:
					no++
				}
			}
		}
		switch {
		case yes > 0 && no == 0 && cm == 0:
			return "always"
		case cm > 0 && no == 0:
			// the closure finishes the transaction itself: commits (or rolls back)
			return "commits"
		case yes == 0 && cm == 0:
			return "never"
		}
		return "sometimes"
	}
	res := f.Prog.Graph(f).Run(kit.NewS().Set("tx", "none"), st.Client())
	if res.Overflow {
		c.Fatalf("R5: state overflow in %s", f.Name)
	}
	type verdict struct {
		bad   string
		ok    string
		undec string
		exit  kit.Exit
	}
	per := map[*ast.ReturnStmt]*verdict{}
	var order []*ast.ReturnStmt
	for _, e := range res.Exits {
		if e.Return == nil {
			continue
		}
		tx := e.State.Get("tx")
		if tx == "none" {
			continue
		}
		v := per[e.Return]
		if v == nil {
			v = &verdict{exit: e}
			per[e.Return] = v
			order = append(order, e.Return)
		}
		rn := st.ReturnsNil(e.Return, e.State)
		if lf := deferred[e.State.Get("deferlit")]; lf != nil && (tx == "begun" || tx == "beginpending" || tx == "commitfailed") {
			switch deferredRolls(lf, e.State, rn) {
			case "always":
				tx = "rolledback"
			case "commits":
				// Commit runs in the deferred closure, after the value of an unnamed result
				// has been fixed: only a named error result that receives Commit's result
				// carries it to the caller
				tx = "commitpending"
				if errResult != nil && assignsCommitTo(lf, errResult) {
					tx = "committed"
				}
			case "sometimes":
				if v.bad == "" {
					v.bad = "the deferred clean-up rolls the open transaction back only under a condition that is not decided at this exit"
					v.exit = e
				}
				continue
			}
		}
		switch tx {
		case "begun", "beginpending":
			handed := false
			if txv := txVarOfBegin(f, beginCallOf(f)); txv != nil {
				for _, res := range e.Return.Results {
					if kit.ObjOf(info, res) == txv || holdsTx(f, res, txv, 0) {
						handed = true
					}
				}
			}
			if e.State.Get("deferrb") == "1" {
				v.ok = "deferred rollback"
			} else if handed {
				// the open transaction is handed to the caller inside a value (a small type
				// wrapping it): who commits or rolls back is not followed
				v.undec = "the open transaction is returned to the caller inside `" + f.Str(e.Return) + "`; its completion by the callers is not followed"
			} else {
				v.bad = "exit with the transaction neither committed nor rolled back"
				v.exit = e
			}
		case "commitpending":
			// `return tx.Commit()` or returning the error variable unchanged
			if rn == "nil" && resultMatters {
				v.bad = "returns nil without looking at the result of Commit"
				v.exit = e
			} else {
				v.ok = "returns the result of Commit"
			}
		case "committed":
			v.ok = "after Commit returned nil"
		case "commitfailed":
			if rn == "nil" && resultMatters {
				v.bad = "returns nil although Commit failed"
				v.exit = e
			} else {
				v.ok = "returns the Commit error"
			}
		case "rolledback":
			if rn == "nil" {
				v.bad = "returns nil (success) after rolling the transaction back"
				v.exit = e
			} else {
				v.ok = "rolled back, returns " + rn + " error"
			}
		}
	}
	for _, ret := range order {
		v := per[ret]
		o := r.Ob(f, ret, "exit "+retKey(f, ret), "every exit after a successful Begin is committed or rolled back; nil only after Commit returned nil")
		if v.bad != "" {
			o.Violation("%s", v.bad).WithPath(res.PathTo(v.exit))
		} else if v.undec != "" {
			o.Undecided("%s", v.undec)
		} else {
			o.OK("%s", v.ok)
		}
	}
	for _, call := range bothSites {
		r.Ob(f, call, "commit after rollback", "never both").Violation("Commit is reachable after Rollback")
	}
}

// assignsCommitTo: the closure assigns the result of Commit to variable o.
func assignsCommitTo(lf *kit.Func, o types.Object) bool {
	found := false
	ast.Inspect(lf.Body, func(n ast.Node) bool {
		if as, ok := n.(*ast.AssignStmt); ok && len(as.Lhs) == 1 && len(as.Rhs) == 1 {
			if call, ok := ast.Unparen(as.Rhs[0]).(*ast.CallExpr); ok && kit.CallIs(lf.Info(), call, qCommit) && kit.ObjOf(lf.Info(), as.Lhs[0]) == o {
				found = true
			}
		}
		return true
	})
	return found
}

// checkHandlers implements C05/R6 (error edge), and — when the rule handles
// are given — C04/R3 (ack only after success) and C06/R1 (rebroadcast before
// the ack with the decoded arguments).
func checkHandlers(c *kit.Ctx, m *storeModel, r6, r4ack, r6up *kit.Rule) {
	pubs := publishers(c, "store")
	for _, f := range c.P.Funcs("store") {
		if f.Body == nil {
			continue
		}
		msg := msgParam(f)
		if msg == nil {
			continue
		}
		wcall, w := findWriterCall(m, f, 0)
		if w == nil {
			continue
		}
		c.Analysed(f)
		handlerFlow(c, m, f, msg, wcall, w, pubs, r6, r4ack, r6up)
	}
}

func handlerFlow(c *kit.Ctx, m *storeModel, f *kit.Func, msg *types.Var, wcall *ast.CallExpr, w *pointWriter,
	pubs map[*kit.Func]bool, r6, r4ack, r6up *kit.Rule) {
	info := f.Info()
	isReply := func(call *ast.CallExpr) bool {
		for _, a := range call.Args {
			if isMsgField(f, a, msg, "Reply") {
				return true
			}
		}
		return kit.CallIs(info, call, natsPkg+".(*Msg).Respond")
	}
	isRebroadcast := func(call *ast.CallExpr) bool {
		if isReply(call) {
			return false
		}
		cf := f.CalleeFunc(call)
		if cf != nil && pubs[cf] {
			return true
		}
		q := kit.QualName(kit.Callee(info, call))
		return strings.HasPrefix(q, natsPkg+".(*Conn).Publish") || strings.HasPrefix(q, clientPkg+".Send")
	}
	st := &kit.Std{F: f}
	st.ShouldInline = func(cf *kit.Func, call *ast.CallExpr) bool {
		return m.writerOf(st.Cur(), call) == nil && containsCall(cf, wcall, 0)
	}
	st.ErrTag = func(call *ast.CallExpr, s kit.S) string {
		if call == wcall {
			return "writer"
		}
		return ""
	}
	st.OnErrEdge = func(tag string, isErr bool, s kit.S) (kit.S, bool) {
		if tag == "writer" && s.Get("w") == "pending" {
			if isErr {
				return s.Set("w", "failed"), true
			}
			return s.Set("w", "ok"), true
		}
		return s, true
	}
	// a package sentinel error tested on the writer's result (`errors.Is(err, errNoChange)`,
	// `err == errNoChange`): a third outcome, "nothing was to be written" — neither a
	// refusal nor a committed write (that the writer returns it only when the batch is
	// ignored is C01/R2's business)
	st.Eval.Atom = func(e ast.Expr) (string, bool, bool) {
		isSent := func(x ast.Expr) bool {
			o := kit.ObjOf(info, x)
			return o != nil && f.Prog.IsSentinelErr(o) && o.Pkg() == f.Pkg.Types
		}
		isErrVar := func(x ast.Expr) bool {
			o := kit.ObjOf(info, x)
			_, isVar := o.(*types.Var)
			return isVar && isErrorType(o.Type()) && !isSent(x)
		}
		if call, ok := ast.Unparen(e).(*ast.CallExpr); ok && len(call.Args) == 2 && kit.CallIs(info, call, "errors.Is") {
			if isErrVar(call.Args[0]) && isSent(call.Args[1]) {
				return "sentinel", false, true
			}
		}
		if a, b, op, ok := kit.CmpAtom(e); ok && (op == token.EQL || op == token.NEQ) {
			if (isErrVar(a) && isSent(b)) || (isErrVar(b) && isSent(a)) {
				return "sentinel", op == token.NEQ, true
			}
		}
		return "", false, false
	}
	type ev struct {
		call *ast.CallExpr
		s    kit.S
	}
	var rebroadcastOnFail, ackNilNotOK, ackBeforeUp []ev
	st.OnCall = func(call *ast.CallExpr, n ast.Node, s kit.S) []kit.S {
		switch {
		case call == wcall:
			return []kit.S{s.Set("w", "pending")}
		case isReply(call):
			// nil-ness of the error argument
			nilArg := false
			for _, a := range call.Args {
				if kit.IsNilIdent(info, a) {
					nilArg = true
				}
				if o := kit.ObjOf(info, a); o != nil && isErrorType(o.Type()) && s.Get("nn:"+kit.VarID(o)) == "F" {
					nilArg = true
				}
				if ac, ok := ast.Unparen(a).(*ast.CallExpr); ok && st.CallResult(ac, 0, s) == "nil" {
					nilArg = true
				}
			}
			ws := s.Get("w")
			if ws == "pending" && s.Get("a:sentinel") == "T" {
				return []kit.S{s.Set("w", "nochange")}
			}
			if ws == "failed" || ws == "pending" {
				if nilArg {
					ackNilNotOK = append(ackNilNotOK, ev{call, s})
				}
				cnt := s.Get("replies")
				switch cnt {
				case "":
					s = s.Set("replies", "1")
				default:
					s = s.Set("replies", "2+")
				}
				return []kit.S{s}
			}
			if ws == "ok" {
				if nilArg && s.Get("up") != "1" {
					ackBeforeUp = append(ackBeforeUp, ev{call, s})
				}
				if s.Get("acks") == "" {
					s = s.Set("acks", "1")
				} else {
					s = s.Set("acks", "2+")
				}
				return []kit.S{s}
			}
		case isRebroadcast(call):
			ws := s.Get("w")
			if (ws == "failed" || ws == "pending") && s.Get("a:sentinel") != "T" {
				rebroadcastOnFail = append(rebroadcastOnFail, ev{call, s})
			}
			if ws == "ok" {
				return []kit.S{s.Set("up", "1")}
			}
		}
		return nil
	}
	res := f.Prog.Graph(f).Run(kit.NewS(), st.Client())
	if res.Overflow {
		c.Fatalf("R6: state overflow in %s", f.Name)
	}
	if r6 != nil {
		o := r6.Ob(f, wcall, "error edge of "+w.Table+" writer", "on the writer's error edge: exactly one reply carrying the error, no rebroadcast, then return")
		switch {
		case len(rebroadcastOnFail) > 0:
			e := rebroadcastOnFail[0]
			o.Violation("after the writer returned an error the handler still reaches the rebroadcast/publish call %s at %s", f.Str(e.call.Fun), f.At(e.call))
		case len(ackNilNotOK) > 0:
			e := ackNilNotOK[0]
			o.Violation("a success reply (nil error) at %s is reachable although the writer's result was an error or unchecked", f.At(e.call))
		default:
			bad := ""
			nfail := 0
			for _, e := range res.Exits {
				if e.State.Get("w") != "failed" {
					if e.State.Get("w") == "pending" && e.State.Get("a:sentinel") != "T" {
						bad = "an exit is reached without testing the writer's error"
					}
					continue
				}
				nfail++
				switch e.State.Get("replies") {
				case "":
					bad = "the error edge exits without replying"
				case "2+":
					bad = "the error edge replies more than once"
				}
			}
			if bad != "" {
				o.Violation("%s", bad)
			} else if nfail == 0 {
				o.Violation("the writer's error result is never tested (no failed edge found)")
			} else {
				o.OK("error edge: one reply, no rebroadcast, %d exit(s)", nfail)
			}
		}
	}
	if r4ack != nil {
		o := r4ack.Ob(f, wcall, "ack of "+w.Table+" writer", "a success reply is sent only on the nil edge of the writer's result")
		if len(ackNilNotOK) > 0 {
			o.Violation("success reply at %s reachable without the writer having returned nil", f.At(ackNilNotOK[0].call))
		} else {
			n := 0
			for _, e := range res.Exits {
				if e.State.Get("w") == "ok" && e.State.Get("acks") == "1" {
					n++
				}
			}
			if n == 0 {
				o.Violation("no exit acknowledges a successful write exactly once")
			} else {
				o.OK("ack dominated by the nil edge of the writer result")
			}
		}
	}
	if r6up != nil {
		o := r6up.Ob(f, wcall, "rebroadcast after "+w.Table+" writer", "on the success edge the upstream walker runs before the acknowledgement")
		bad := ""
		for _, e := range res.Exits {
			if e.State.Get("w") == "ok" && e.State.Get("up") != "1" {
				bad = "a successful write can reach the end of the handler without rebroadcast"
			}
		}
		if len(ackBeforeUp) > 0 {
			bad = "the acknowledgement at " + f.At(ackBeforeUp[0].call) + " precedes the rebroadcast"
		}
		if bad != "" {
			o.Violation("%s", bad)
		} else {
			o.OK("walker before ack on every success path")
		}
	}
}

// checkWalkRoles: direction and argument roles of a recursive ancestry walk.
func checkWalkRoles(c *kit.Ctx, m *storeModel, ew *pointWriter, wf *kit.Func, site *ast.CallExpr, o *kit.Ob) {
	info := wf.Info()
	recursive := false
	for _, call := range wf.AllCalls(false) {
		if wf.CalleeFunc(call) == wf {
			recursive = true
		}
	}
	if !recursive {
		// a work-list walk: the list is seeded with the start and the node taken is compared with the target
		w := findWorklist(wf)
		es := edgeQuerySiteOf(c, m, wf, 0)
		if w == nil || w.start == nil || w.target == nil || es == nil || len(es.Stmts) != 1 || len(es.Stmts[0].Where) != 1 {
			o.Undecided("not a recursive walk and the start / target of its work list are not recognised")
			return
		}
		dir := es.Stmts[0].Where[0]
		params := wf.Params()
		sIdx, tIdx := -1, -1
		for i, p := range params {
			if p == w.start {
				sIdx = i
			}
			if p == w.target {
				tIdx = i
			}
		}
		checkWalkCallRoles(c, m, ew, wf, site, o, dir, sIdx, tIdx)
		return
	}
	// the edge query and the parameter it starts from
	var q *kit.SQLSite
	for _, sx := range m.sql.Sites {
		if sx.F == wf && sx.HasVerb("SELECT", "edges") && len(sx.Stmts) == 1 {
			q = sx
		}
	}
	if q == nil || len(q.Stmts[0].Where) != 1 || len(q.Args) != 1 {
		o.Undecided("edge query of %s is not `… WHERE down=?` / `… WHERE up=?` with one argument", wf.Name)
		return
	}
	dir := q.Stmts[0].Where[0] // "down": moves to the upper ends; "up": moves to the lower ends
	params := wf.Params()
	startIdx, targetIdx := -1, -1
	for i, p := range params {
		if kit.ObjOf(info, q.Args[0]) == types.Object(p) {
			startIdx = i
		}
	}
	if startIdx < 0 {
		o.Undecided("the edge query of %s is not bound to a parameter", wf.Name)
		return
	}
	// the searched id: the string parameter the start is compared with (wherever the
	// comparison is written: an if, a boolean local, a return)
	ast.Inspect(wf.Body, func(n ast.Node) bool {
		be, ok := n.(*ast.BinaryExpr)
		if !ok || (be.Op != token.EQL && be.Op != token.NEQ) {
			return true
		}
		a, b := be.X, be.Y
		for i, p := range params {
			if i == startIdx {
				continue
			}
			if (kit.ObjOf(info, a) == types.Object(p) && kit.ObjOf(info, b) == types.Object(params[startIdx])) ||
				(kit.ObjOf(info, b) == types.Object(p) && kit.ObjOf(info, a) == types.Object(params[startIdx])) {
				targetIdx = i
			}
		}
		return true
	})
	if targetIdx < 0 {
		// handed to a helper together with another id: the comparison may live there
		for _, call := range wf.AllCalls(false) {
			if cf := wf.CalleeFunc(call); cf == nil || cf == wf {
				continue
			}
			hasStart, others := false, 0
			for _, a := range call.Args {
				if kit.ObjOf(info, a) == types.Object(params[startIdx]) {
					hasStart = true
				} else if v, ok := kit.ObjOf(info, a).(*types.Var); ok {
					for _, p := range params {
						if p == v {
							others++
						}
					}
				}
			}
			if hasStart && others > 0 {
				o.Undecided("%s compares the id it walks from with the searched id inside `%s` (not followed)", wf.Name, wf.Str(call))
				return
			}
		}
		o.Violation("%s never compares the id it walks from with the id it searches for", wf.Name)
		return
	}
	// the recursive call
	for _, call := range wf.AllCalls(false) {
		if wf.CalleeFunc(call) != wf || len(call.Args) != len(params) {
			continue
		}
		if kit.ObjOf(info, call.Args[targetIdx]) != types.Object(params[targetIdx]) {
			o.Violation("the recursive call of %s passes `%s` as the searched id (must be forwarded unchanged)", wf.Name, wf.Str(call.Args[targetIdx]))
			return
		}
		rs := wf.EnclosingLoop(call)
		if rs == nil {
			o.Undecided("the recursive call of %s is not inside a loop over a slice", wf.Name)
			return
		}
		nextArg := call.Args[startIdx]
		rv := kit.LoopElemVar(info, rs)
		isEl := func(x ast.Expr) bool {
			return (rv != nil && kit.ObjOf(info, x) == rv) || kit.LoopElem(info, rs, x)
		}
		okNext := isEl(nextArg)
		if sel, ok := ast.Unparen(nextArg).(*ast.SelectorExpr); ok && isEl(sel.X) {
			want := map[string]string{"down": "Up", "up": "Down"}[dir]
			okNext = sel.Sel.Name == want
		}
		if !okNext {
			o.Violation("the recursive call of %s continues from `%s`, expected the %s end of the queried edge", wf.Name, wf.Str(nextArg), map[string]string{"down": "upper", "up": "lower"}[dir])
			return
		}
		// the ranged collection holds every queried row
		R := kit.ObjOf(info, rs.X)
		fromWrapper := false
		if as, ok := c.P.Parent(wf.File, q.Call).(*ast.AssignStmt); ok && len(as.Lhs) > 0 && kit.ObjOf(info, as.Lhs[0]) == R {
			fromWrapper = q.Recv == "wrapper"
		}
		if !fromWrapper {
			nApp, uncond := 0, 0
			ast.Inspect(wf.Body, func(n ast.Node) bool {
				as, ok := n.(*ast.AssignStmt)
				if !ok || len(as.Lhs) != 1 || kit.ObjOf(info, as.Lhs[0]) != R {
					return true
				}
				if cl, ok := ast.Unparen(as.Rhs[0]).(*ast.CallExpr); ok {
					if b, ok := kit.Callee(info, cl).(*types.Builtin); ok && b.Name() == "append" {
						nApp++
						if fs, ok := c.P.Parent(wf.File, c.P.Parent(wf.File, as)).(*ast.ForStmt); ok && fs.Cond != nil {
							if cc, ok := ast.Unparen(fs.Cond).(*ast.CallExpr); ok && kit.CallIs(info, cc, "database/sql.(*Rows).Next") {
								uncond++
							}
						}
					}
				}
				return true
			})
			switch {
			case nApp == 0:
				o.Violation("%s ranges over `%s`, which is never filled from the rows of the edge query: no parent is ever visited beyond the first level", wf.Name, wf.Str(rs.X))
				return
			case uncond == 0:
				o.Violation("%s collects the queried rows only conditionally: some parent edges are not followed", wf.Name)
				return
			}
		}
	}
	checkWalkCallRoles(c, m, ew, wf, site, o, dir, startIdx, targetIdx)
}

func scParam(sc *scenario, v *types.Var) func(ast.Expr) bool {
	return func(e ast.Expr) bool { return sc.objOf(e) == types.Object(v) }
}

// checkWalkCallRoles: at the writer's call of the walk, the start is the new parent
// and the target the node (walking upwards; the reverse downwards).
func checkWalkCallRoles(c *kit.Ctx, m *storeModel, ew *pointWriter, wf *kit.Func, site *ast.CallExpr, o *kit.Ob, dir string, startIdx, targetIdx int) {
	f := ew.F
	params := wf.Params()
	// roles at the call site: which writer parameter is node (down) and parent (up)
	var node, parent *types.Var
	// judged in the function that contains the walk call (the writer, or its body function)
	pids := ew.IDs
	if ew.Body != ew.F {
		for _, call := range ew.Body.AllCalls(true) {
			if call == site {
				f = ew.Body
				pids = nil
				for _, p := range f.Params() {
					if b, ok := p.Type().Underlying().(*types.Basic); ok && b.Kind() == types.String {
						pids = append(pids, p)
					}
				}
			}
		}
	}
	for _, sx := range m.sql.Sites {
		if sx.F.Root() != f || !sx.HasVerb("INSERT", "edges") || len(sx.Stmts) == 0 {
			continue
		}
		for i, col := range sx.Stmts[0].Cols {
			if i < len(sx.Args) {
				switch col {
				case "up":
					if p := traceToParam(f, sx.Args[i], pids); p != nil {
						parent = p
					}
				case "down":
					if p := traceToParam(f, sx.Args[i], pids); p != nil {
						node = p
					}
				}
			}
		}
	}
	if node == nil || parent == nil || len(site.Args) != len(params) {
		o.Undecided("cannot relate the call `%s` to the node and parent parameters", f.Str(site))
		return
	}
	wantStart, wantTarget := parent, node
	if dir == "up" {
		wantStart, wantTarget = node, parent
	}
	finfo := f.Info()
	if kit.ObjOf(finfo, site.Args[startIdx]) != types.Object(wantStart) || kit.ObjOf(finfo, site.Args[targetIdx]) != types.Object(wantTarget) {
		o.Violation("`%s` walks from `%s` looking for `%s`; a new edge %s->%s closes a cycle iff %s is reachable %s from %s, so the walk must start at `%s` and search for `%s`",
			f.Str(site), f.Str(site.Args[startIdx]), f.Str(site.Args[targetIdx]), parent.Name(), node.Name(), wantTarget.Name(),
			map[string]string{"down": "upwards", "up": "downwards"}[dir], wantStart.Name(), wantStart.Name(), wantTarget.Name())
		return
	}
	o.OK("walks %s from %s searching %s; target forwarded, all rows visited", map[string]string{"down": "up", "up": "down"}[dir], wantStart.Name(), wantTarget.Name())
}

// scParam matches an expression that denotes the given parameter of the analysed
// function, also from inside a helper evaluated inline (parameters resolved to
// the arguments they are bound to).
// edgeQuerySiteOf finds the SELECT … FROM edges WHERE down/up site executed by f
// itself or by a same-package helper it calls (two levels).
func edgeQuerySiteOf(c *kit.Ctx, m *storeModel, f *kit.Func, depth int) *kit.SQLSite {
	for _, sx := range m.sql.Sites {
		inF := sx.F == f
		if !inF && sx.F.Root() == f.Root() && f.Lit != nil {
			inF = f.Node().Pos() <= sx.Call.Pos() && sx.Call.End() <= f.Node().End()
		}
		if !inF {
			continue
		}
		for _, st := range sx.Stmts {
			if st.Verb == "SELECT" && st.Table == "edges" && (contains(st.Where, "down") || contains(st.Where, "up")) {
				return sx
			}
		}
	}
	if depth >= 2 {
		return nil
	}
	for _, call := range f.AllCalls(false) {
		if cf := f.CalleeFunc(call); cf != nil && cf != f && cf.PkgRel() == "store" && cf.Lit == nil {
			if _, isWrapper := m.sql.Wrappers[cf]; isWrapper {
				continue // generic query wrappers are not ancestry helpers
			}
			if sx := edgeQuerySiteOf(c, m, cf, depth+1); sx != nil {
				return sx
			}
		}
	}
	return nil
}

// findWriterCall finds the call of a point writer made by f, directly or inside a
// same-package helper (two levels): handlers that delegate the write to a helper
// are still handlers of that writer.
func findWriterCall(m *storeModel, f *kit.Func, depth int) (*ast.CallExpr, *pointWriter) {
	for _, call := range f.AllCalls(false) {
		if x := m.writerOf(f, call); x != nil {
			return call, x
		}
	}
	if depth >= 2 {
		return nil, nil
	}
	for _, call := range f.AllCalls(false) {
		cf := f.CalleeFunc(call)
		if cf == nil || cf == f || cf.PkgRel() != f.PkgRel() || cf.Body == nil {
			continue
		}
		isWriter := false
		for _, w := range m.writers {
			if w.F == cf || w.Entry == cf {
				isWriter = true
			}
		}
		if isWriter {
			continue
		}
		if wc, w := findWriterCall(m, cf, depth+1); w != nil {
			return wc, w
		}
	}
	return nil, nil
}

// containsCall reports whether call lies (transitively, two levels) in f's body.
func containsCall(f *kit.Func, target *ast.CallExpr, depth int) bool {
	for _, call := range f.AllCalls(false) {
		if call == target {
			return true
		}
	}
	if depth >= 2 {
		return false
	}
	for _, call := range f.AllCalls(false) {
		if cf := f.CalleeFunc(call); cf != nil && cf != f && cf.PkgRel() == f.PkgRel() && cf.Body != nil && containsCall(cf, target, depth+1) {
			return true
		}
	}
	return false
}
