package props

import (
	"go/ast"
	"go/token"
	"go/types"
	"sort"
	"strconv"
	"strings"

	"siotcheck/kit"
)

// ---------------------------------------------------------------------------
// the list of parents inside a walker

// c06ParentList is what a walker holds after the parent lookup: the variable the
// result is assigned to, and the local copies made of it.
type c06ParentList struct {
	f      *kit.Func
	from   ast.Node                  // the assignment of the lookup result
	src    types.Object              // the variable it is assigned to
	copies map[types.Object]ast.Stmt // local defined once as a copy of src -> the statement that fills it
	recopy []ast.Stmt                // `ups = append([]string(nil), ups...)`: src replaced by a copy of itself
}

// walkLoop is what R2 found out about a walker's loop over the parents (R5
// needs it: who iterates over the looked-up list while recursing).
type walkLoop struct {
	w         *walker
	f         *kit.Func // the function that holds the loop (the walker, or the shared helper)
	loop      *ast.RangeStmt
	recInLoop bool // the recursive call sits inside the loop (directly or in a literal run there)
	copied    bool // the loop runs over a private copy of the looked-up list
}

func c06Parents(f *kit.Func, src types.Object, from ast.Node) *c06ParentList {
	pl := &c06ParentList{f: f, from: from, src: src, copies: map[types.Object]ast.Stmt{}}
	if src == nil {
		return pl
	}
	info := f.Info()
	defs := map[types.Object]int{}
	cand := map[types.Object]ast.Stmt{}
	made := map[types.Object]bool{}
	ast.Inspect(f.Body, func(n ast.Node) bool {
		as, ok := n.(*ast.AssignStmt)
		if !ok {
			return true
		}
		for i, l := range as.Lhs {
			o := kit.ObjOf(info, l)
			if o == nil {
				continue
			}
			defs[o]++
			if len(as.Lhs) != len(as.Rhs) {
				continue
			}
			switch {
			case pl.copyExpr(as.Rhs[i]) && o == src:
				pl.recopy = append(pl.recopy, as)
			case pl.copyExpr(as.Rhs[i]):
				cand[o] = as
			case c06IsMake(info, as.Rhs[i]):
				made[o] = true
			}
		}
		return true
	})
	// dst := make([]string, len(ups)); copy(dst, ups)
	ast.Inspect(f.Body, func(n ast.Node) bool {
		es, ok := n.(*ast.ExprStmt)
		if !ok {
			return true
		}
		call, ok := ast.Unparen(es.X).(*ast.CallExpr)
		if !ok || len(call.Args) != 2 {
			return true
		}
		if b, ok := kit.Callee(info, call).(*types.Builtin); !ok || b.Name() != "copy" {
			return true
		}
		if dst := kit.ObjOf(info, call.Args[0]); dst != nil && made[dst] && defs[dst] == 1 && kit.ObjOf(info, call.Args[1]) == src {
			pl.copies[dst] = es
		}
		return true
	})
	for o, st := range cand {
		if defs[o] == 1 {
			pl.copies[o] = st
		}
	}
	return pl
}

func c06IsMake(info *types.Info, e ast.Expr) bool {
	call, ok := ast.Unparen(e).(*ast.CallExpr)
	if !ok {
		return false
	}
	b, ok := kit.Callee(info, call).(*types.Builtin)
	return ok && b.Name() == "make"
}

// c06EmptyFresh: an empty slice with storage of its own (or none): []T(nil), []T{}, make([]T, 0, …).
func c06EmptyFresh(info *types.Info, e ast.Expr) bool {
	e = ast.Unparen(e)
	switch x := e.(type) {
	case *ast.CompositeLit:
		return len(x.Elts) == 0
	case *ast.CallExpr:
		if tv, ok := info.Types[x.Fun]; ok && tv.IsType() && len(x.Args) == 1 {
			return kit.IsNilIdent(info, x.Args[0])
		}
		if c06IsMake(info, x) && len(x.Args) >= 2 {
			v, ok := kit.ConstInt(info, x.Args[1])
			return ok && v == 0
		}
	}
	return false
}

// copyExpr: e builds a new slice holding the elements of the looked-up list:
// append(<empty slice of its own>, ups...), slices.Clone(ups).
func (pl *c06ParentList) copyExpr(e ast.Expr) bool {
	info := pl.f.Info()
	call, ok := ast.Unparen(e).(*ast.CallExpr)
	if !ok {
		return false
	}
	if b, ok := kit.Callee(info, call).(*types.Builtin); ok && b.Name() == "append" {
		return len(call.Args) == 2 && call.Ellipsis.IsValid() && c06EmptyFresh(info, call.Args[0]) && kit.ObjOf(info, call.Args[1]) == pl.src
	}
	if kit.CallIs(info, call, "slices.Clone", "golang.org/x/exp/slices.Clone") {
		return len(call.Args) == 1 && kit.ObjOf(info, call.Args[0]) == pl.src
	}
	return false
}

// before: st runs after the lookup and before loop on every path (it is a
// statement of a block that encloses the loop, placed ahead of it).
func (pl *c06ParentList) before(st ast.Stmt, loop *ast.RangeStmt) bool {
	if pl.from != nil && st.Pos() < pl.from.End() {
		return false
	}
	blk, ok := pl.f.Prog.Parent(pl.f.File, st).(*ast.BlockStmt)
	if !ok {
		return false
	}
	return st.End() <= loop.Pos() && blk.Pos() <= loop.Pos() && loop.Body.End() <= blk.End()
}

// ranges: the loop runs over the looked-up parents; copied = over a private copy of them.
func (pl *c06ParentList) ranges(loop *ast.RangeStmt) (ok, copied bool) {
	if pl.src == nil || loop == nil {
		return false, false
	}
	info := pl.f.Info()
	if pl.copyExpr(loop.X) {
		return true, true
	}
	o := kit.ObjOf(info, loop.X)
	if o == nil {
		return false, false
	}
	if st, isCopy := pl.copies[o]; isCopy {
		return pl.before(st, loop), true
	}
	if o != pl.src {
		return false, false
	}
	for _, st := range pl.recopy {
		if pl.before(st, loop) {
			return true, true
		}
	}
	return true, false
}

// ---------------------------------------------------------------------------
// R5: where the storage of the returned list comes from

// c06Origin collects what a slice value may be backed by.
type c06Origin struct {
	shared map[string]bool // storage that outlives the call
	undec  map[string]bool
}

func (o *c06Origin) addShared(s string) { o.shared[s] = true }
func (o *c06Origin) addUndec(s string)  { o.undec[s] = true }

func c06Keys(m map[string]bool) []string {
	var out []string
	for k := range m {
		out = append(out, k)
	}
	sort.Strings(out)
	return out
}

// c06Frame is one function on the way from the lookup into its helpers:
// parameters (and the receiver) of a helper are bound to what the caller passed.
type c06Frame struct {
	f    *kit.Func
	bind map[types.Object]ast.Expr
	up   *c06Frame
}

func (fr *c06Frame) depth() int {
	n := 0
	for x := fr.up; x != nil; x = x.up {
		n++
	}
	return n
}

type c06Tracer struct {
	c        *kit.Ctx
	visiting map[types.Object]bool
	out      *c06Origin
}

func c06RecvObj(f *kit.Func) types.Object {
	if f.Decl != nil && f.Decl.Recv != nil && len(f.Decl.Recv.List) > 0 && len(f.Decl.Recv.List[0].Names) > 0 {
		return f.Info().Defs[f.Decl.Recv.List[0].Names[0]]
	}
	return nil
}

// isParam: o is a parameter or the receiver of fr.f (or of a function around it, for a literal).
func (fr *c06Frame) isParam(o types.Object) bool {
	for g := fr.f; g != nil; g = g.Outer {
		for _, p := range g.Params() {
			if types.Object(p) == o {
				return true
			}
		}
		if r := c06RecvObj(g); r != nil && r == o {
			return true
		}
	}
	return false
}

func c06PkgLevel(o types.Object) bool {
	v, ok := o.(*types.Var)
	return ok && !v.IsField() && v.Pkg() != nil && v.Parent() == v.Pkg().Scope()
}

// rootOf strips selectors, indexing, slicing and dereferences: the variable a
// storage path starts at.
func c06RootOf(e ast.Expr) ast.Expr {
	for {
		switch x := ast.Unparen(e).(type) {
		case *ast.SelectorExpr:
			e = x.X
		case *ast.IndexExpr:
			e = x.X
		case *ast.SliceExpr:
			e = x.X
		case *ast.StarExpr:
			e = x.X
		case *ast.UnaryExpr:
			if x.Op != token.AND {
				return x
			}
			e = x.X
		default:
			return x
		}
	}
}

// path judges a storage path (x.f, *p, x.f[i]): whose storage is it?
func (t *c06Tracer) path(fr *c06Frame, e ast.Expr, what string) {
	info := fr.f.Info()
	root := c06RootOf(e)
	id, ok := root.(*ast.Ident)
	if !ok {
		t.out.addUndec("`" + fr.f.Str(e) + "` in " + fr.f.Name + " does not start at a variable")
		return
	}
	o := kit.ObjOf(info, id)
	switch {
	case o == nil:
		t.out.addUndec("`" + fr.f.Str(e) + "` in " + fr.f.Name + " is not resolved")
	case c06PkgLevel(o):
		t.out.addShared(what + " of the package-level variable `" + o.Name() + "`")
	case fr.isParam(o):
		if a, bound := fr.bind[o]; bound && fr.up != nil {
			// a helper's parameter: whose storage it is depends on what the caller hands in
			ar := c06RootOf(a)
			ao := kit.ObjOf(fr.up.f.Info(), ar)
			if ao != nil && (c06PkgLevel(ao) || fr.up.isParam(ao)) {
				t.path(fr.up, a, what+" (`"+fr.f.Str(e)+"` in "+fr.f.Name+")")
				return
			}
			t.out.addUndec("`" + fr.f.Str(e) + "` in " + fr.f.Name + " is storage of the argument `" + fr.up.f.Str(a) + "`, a local of " + fr.up.f.Name)
			return
		}
		t.out.addShared(what + " of `" + o.Name() + "` (" + c06ParamRole(fr.f, o) + " of " + fr.f.Name + ")")
	default:
		if _, isPkg := o.(*types.PkgName); isPkg {
			// pkg.Var
			if sel, ok := ast.Unparen(e).(*ast.SelectorExpr); ok {
				if v := kit.ObjOf(info, sel); v != nil && c06PkgLevel(v) {
					t.out.addShared("the package-level variable `" + fr.f.Str(sel) + "`")
					return
				}
			}
		}
		t.out.addUndec("`" + fr.f.Str(e) + "` in " + fr.f.Name + " is storage reached through the local `" + o.Name() + "`")
	}
}

func c06ParamRole(f *kit.Func, o types.Object) string {
	if r := c06RecvObj(f); r != nil && r == o {
		return "the receiver"
	}
	return "a parameter"
}

// expr traces the slice value e of fr.f to the storage behind it.
func (t *c06Tracer) expr(fr *c06Frame, e ast.Expr) {
	info := fr.f.Info()
	e = ast.Unparen(e)
	if kit.IsNilIdent(info, e) {
		return
	}
	switch x := e.(type) {
	case *ast.CompositeLit:
		return
	case *ast.SliceExpr:
		// a slice expression shares the storage of what it slices
		switch ast.Unparen(x.X).(type) {
		case *ast.Ident, *ast.CallExpr, *ast.SliceExpr, *ast.CompositeLit:
			t.expr(fr, x.X)
		default:
			t.path(fr, x.X, c06What(fr.f, x.X))
		}
	case *ast.Ident:
		o := kit.ObjOf(info, x)
		v, ok := o.(*types.Var)
		switch {
		case !ok:
			t.out.addUndec("`" + x.Name + "` in " + fr.f.Name + " is not a variable")
		case c06PkgLevel(v):
			t.out.addShared("the package-level variable `" + v.Name() + "`")
		case fr.isParam(v):
			if a, bound := fr.bind[v]; bound && fr.up != nil {
				t.expr(fr.up, a)
				return
			}
			t.out.addUndec("`" + x.Name + "` is a parameter of " + fr.f.Name + ": the storage belongs to its caller")
		default:
			t.local(fr, v)
		}
	case *ast.SelectorExpr:
		if sel, ok := info.Selections[x]; ok && sel.Kind() == types.FieldVal {
			t.path(fr, x, c06What(fr.f, x))
			return
		}
		if v := kit.ObjOf(info, x); v != nil && c06PkgLevel(v) {
			t.out.addShared("the package-level variable `" + fr.f.Str(x) + "`")
			return
		}
		t.out.addUndec("`" + fr.f.Str(x) + "` in " + fr.f.Name + " is not understood")
	case *ast.StarExpr:
		t.path(fr, x, "the slice `"+fr.f.Str(x)+"` points to, storage")
	case *ast.IndexExpr:
		// an element of a map or of a slice of slices: a stored list (cache); whether it is
		// rewritten while the walker iterates is not decided here
		t.out.addUndec("`" + fr.f.Str(x) + "` in " + fr.f.Name + " is a stored list (element of `" + fr.f.Str(x.X) + "`)")
	case *ast.CallExpr:
		t.call(fr, x, 0)
	default:
		t.out.addUndec("`" + fr.f.Str(e) + "` in " + fr.f.Name + " is not understood")
	}
}

func c06What(f *kit.Func, e ast.Expr) string {
	if sel, ok := ast.Unparen(e).(*ast.SelectorExpr); ok {
		return "the field `" + sel.Sel.Name + "`"
	}
	return "`" + f.Str(e) + "`, storage"
}

// call: result idx of a call.
func (t *c06Tracer) call(fr *c06Frame, call *ast.CallExpr, idx int) {
	info := fr.f.Info()
	if tv, ok := info.Types[call.Fun]; ok && tv.IsType() && len(call.Args) == 1 {
		t.expr(fr, call.Args[0])
		return
	}
	obj := kit.Callee(info, call)
	if b, ok := obj.(*types.Builtin); ok {
		switch b.Name() {
		case "append":
			// the result is backed by the first argument (or by new storage when it grows);
			// the appended elements are copied
			if len(call.Args) > 0 {
				t.expr(fr, call.Args[0])
			}
		case "make", "new":
		default:
			t.out.addUndec("builtin " + b.Name() + " in " + fr.f.Name)
		}
		return
	}
	cf := fr.f.CalleeFunc(call)
	if cf == nil || cf.Body == nil || cf.PkgRel() != "store" {
		if fn, ok := obj.(*types.Func); ok && (fn.Pkg() == nil || fn.Pkg().Path() != fr.f.Pkg.PkgPath) {
			// database rows, another package: a list of its own by default
			return
		}
		t.out.addUndec("`" + fr.f.Str(call) + "` in " + fr.f.Name + " is a call the checker cannot follow")
		return
	}
	if fr.depth() >= 2 {
		t.out.addUndec("`" + fr.f.Str(call) + "` in " + fr.f.Name + ": helpers nested deeper than two levels are not followed")
		return
	}
	for x := fr; x != nil; x = x.up {
		if x.f == cf {
			return // recursion: nothing new
		}
	}
	t.c.Analysed(cf)
	nf := &c06Frame{f: cf, bind: map[types.Object]ast.Expr{}, up: fr}
	for i, p := range cf.Params() {
		if i < len(call.Args) && !(i == len(cf.Params())-1 && len(call.Args) > len(cf.Params())) {
			nf.bind[p] = call.Args[i]
		}
	}
	if ro := c06RecvObj(cf); ro != nil {
		if sel, ok := ast.Unparen(call.Fun).(*ast.SelectorExpr); ok {
			nf.bind[ro] = sel.X
		}
	}
	t.results(nf, idx)
}

// results traces result idx of every return of fr.f.
func (t *c06Tracer) results(fr *c06Frame, idx int) {
	f := fr.f
	info := f.Info()
	var named []*ast.Ident
	n := 0
	if f.Type.Results != nil {
		for _, fl := range f.Type.Results.List {
			if len(fl.Names) == 0 {
				n++
			}
			for _, nm := range fl.Names {
				named = append(named, nm)
				n++
			}
		}
	}
	if idx >= n {
		t.out.addUndec(f.Name + " has no result " + strconv.Itoa(idx+1))
		return
	}
	found := false
	ast.Inspect(f.Body, func(x ast.Node) bool {
		if _, ok := x.(*ast.FuncLit); ok {
			return false
		}
		r, ok := x.(*ast.ReturnStmt)
		if !ok {
			return true
		}
		found = true
		switch {
		case len(r.Results) == n:
			t.expr(fr, r.Results[idx])
		case len(r.Results) == 0 && len(named) == n:
			if v, ok := info.Defs[named[idx]].(*types.Var); ok {
				t.local(fr, v)
			}
		case len(r.Results) == 1:
			// return g(…) handing on all results
			if call, ok := ast.Unparen(r.Results[0]).(*ast.CallExpr); ok {
				t.call(fr, call, idx)
			} else {
				t.out.addUndec("`" + f.Str(r) + "` in " + f.Name + " is not understood")
			}
		default:
			t.out.addUndec("`" + f.Str(r) + "` in " + f.Name + " is not understood")
		}
		return true
	})
	if !found {
		t.out.addUndec(f.Name + " has no return statement")
	}
}

// local: every value a local variable (or named result) of fr.f is given.
func (t *c06Tracer) local(fr *c06Frame, v *types.Var) {
	if t.visiting[v] {
		return
	}
	t.visiting[v] = true
	defer delete(t.visiting, v)
	f := fr.f
	info := f.Info()
	ast.Inspect(f.Root().Body, func(n ast.Node) bool {
		switch x := n.(type) {
		case *ast.AssignStmt:
			for i, l := range x.Lhs {
				if id, ok := ast.Unparen(l).(*ast.Ident); !ok || kit.ObjOf(info, id) != types.Object(v) {
					continue
				}
				switch {
				case len(x.Lhs) == len(x.Rhs):
					t.expr(fr, x.Rhs[i])
				case len(x.Rhs) == 1:
					switch r := ast.Unparen(x.Rhs[0]).(type) {
					case *ast.CallExpr:
						t.call(fr, r, i)
					case *ast.IndexExpr, *ast.TypeAssertExpr:
						// v, ok := m[k] / x.([]string)
						if i == 0 {
							t.expr(fr, r)
						}
					default:
						t.out.addUndec("`" + f.Str(x) + "` in " + f.Name + " is not understood")
					}
				}
			}
		case *ast.ValueSpec:
			for i, nm := range x.Names {
				if info.Defs[nm] != types.Object(v) {
					continue
				}
				switch {
				case len(x.Values) == len(x.Names):
					t.expr(fr, x.Values[i])
				case len(x.Values) == 1:
					if call, ok := ast.Unparen(x.Values[0]).(*ast.CallExpr); ok {
						t.call(fr, call, i)
					}
				}
			}
		case *ast.RangeStmt:
			if (x.Key != nil && kit.ObjOf(info, x.Key) == types.Object(v)) || (x.Value != nil && kit.ObjOf(info, x.Value) == types.Object(v)) {
				t.out.addUndec("`" + v.Name() + "` in " + f.Name + " is a loop variable over `" + f.Str(x.X) + "`")
			}
		case *ast.UnaryExpr:
			if x.Op == token.AND && kit.ObjOf(info, x.X) == types.Object(v) {
				t.out.addUndec("the address of `" + v.Name() + "` is taken in " + f.Name)
			}
		}
		return true
	})
}

// c06SharedParents (R5): the list the lookup hands to the walker has storage of
// its own.  The walker ranges over it and recurses inside the loop; the recursion
// asks the lookup again, so a list kept in a buffer that belongs to the database
// (or the package) is overwritten while the outer loop still reads it.
func c06SharedParents(c *kit.Ctx, r5 *kit.Rule, upf *kit.Func, loops []*walkLoop) {
	info := upf.Info()
	// the walkers that iterate over the list as it is handed out
	var exposed, unknown []string
	add := func(l []string, s string) []string {
		for _, x := range l {
			if x == s {
				return l
			}
		}
		return append(l, s)
	}
	for _, wl := range loops {
		switch {
		case wl.loop == nil:
			unknown = add(unknown, wl.w.f.Name)
		case wl.recInLoop && !wl.copied:
			exposed = add(exposed, wl.f.Name)
		}
	}
	seen := map[string]int{}
	top := &c06Frame{f: upf}
	var named []*ast.Ident
	n := 0
	for _, fl := range upf.Type.Results.List {
		if len(fl.Names) == 0 {
			n++
		}
		for _, nm := range fl.Names {
			named = append(named, nm)
			n++
		}
	}
	ast.Inspect(upf.Body, func(x ast.Node) bool {
		if _, ok := x.(*ast.FuncLit); ok {
			return false
		}
		r, ok := x.(*ast.ReturnStmt)
		if !ok {
			return true
		}
		tr := &c06Tracer{c: c, visiting: map[types.Object]bool{}, out: &c06Origin{shared: map[string]bool{}, undec: map[string]bool{}}}
		shown := ""
		switch {
		case len(r.Results) == n:
			if kit.IsNilIdent(info, r.Results[0]) {
				return true // the error return
			}
			shown = upf.Str(r.Results[0])
			tr.expr(top, r.Results[0])
		case len(r.Results) == 0 && len(named) == n:
			shown = named[0].Name
			if v, ok := info.Defs[named[0]].(*types.Var); ok {
				tr.local(top, v)
			}
		case len(r.Results) == 1:
			shown = upf.Str(r.Results[0])
			if call, ok := ast.Unparen(r.Results[0]).(*ast.CallExpr); ok {
				tr.call(top, call, 0)
			} else {
				tr.out.addUndec("`" + upf.Str(r) + "` is not understood")
			}
		default:
			return true
		}
		key := "returned list `" + shown + "`"
		seen[key]++
		if seen[key] > 1 {
			key += " #" + strconv.Itoa(seen[key])
		}
		o := r5.Ob(upf, r, key, "the parents list handed to the walker is not backed by storage shared between calls")
		shared, undec := c06Keys(tr.out.shared), c06Keys(tr.out.undec)
		switch {
		case len(shared) > 0 && len(exposed) > 0:
			o.Violation("the list returned by %s is backed by %s, which outlives the call and is reused by the next one; %s ranges over this list and recurses inside the loop, the recursion calls %s again and overwrites the elements the outer loop has not read yet: a parent (and everything reachable only through it) is skipped",
				upf.Name, strings.Join(shared, " and "), strings.Join(exposed, " / "), upf.Name)
		case len(shared) > 0 && len(unknown) > 0:
			o.Undecided("the list is backed by %s; how %s iterates over it was not established", strings.Join(shared, " and "), strings.Join(unknown, " / "))
		case len(shared) > 0:
			o.OK("backed by %s, but no walker recurses inside a loop over the list as handed out (each copies it first)", strings.Join(shared, " and "))
		case len(undec) > 0:
			o.Undecided("%s", strings.Join(undec, "; "))
		default:
			o.OK("`%s` is built from storage of its own (local, make, literal, append onto such)", shown)
		}
		return true
	})
}
