package props

import (
	"fmt"
	"go/ast"
	"go/token"
	"go/types"
	"strings"

	"siotcheck/kit"
)

func init() {
	kit.Register(&kit.Prop{
		ID:    "C19",
		Title: "Modbus client, server and transports agree end to end",
		Explanation: "Structural necessary conditions of C19 decided on package modbus (DESIGN.md §3/C19): " +
			"R1 every 32-bit decoder ([]uint16 → []T) has exactly one encoder ([]T → []uint16) whose byte permutation, value conversion and strides are its inverse, both word orders exist, and the register file's read/write siblings use inverse pairs; " +
			"R2 the checksummed transport computes and verifies the same checksum function over the same span in the same byte order and a mismatch (or a failed check) returns an error; encoder and decoder of each transport agree on the offsets of unit id, function code, data and transaction id; the role that numbers requests rejects a response with another transaction id; every index/slice of the framing functions is in range; " +
			"R3 every index/slice/word access of the response decoders is proved in range from the check of the declared count against the data length; " +
			"R4 every client method runs encode → write → read → decode, returns each transport error, checks the function code (itself or in the response decoder it returns through), and write methods compare the echoed data; " +
			"R5 the number of values a response decoder returns, composed with the byte-count the server writes for a quantity c, equals c for every c in the protocol range (exhaustive evaluation of the two symbolic maps); " +
			"R6 in the register file every store into the register list runs under the file's mutex in write mode and every read under it in either mode (followed from each exported function through the package's helpers with the lock mode held at the call), a store whose value or target derives from stored registers (a coil is one bit of a register) happens in the critical section in which they were read, the mutex is not re-acquired while held and not left held on return; " +
			"R7 a lookup by address returns the value field of a stored register only for the element whose own address field was compared equal to the requested address (the list is in insertion order, so an element picked by position is some other register). " +
			"Not decided: register values over all maps, schedules (only the lock discipline), which address an element is compared with when several are looked up at once, the coil-to-register arithmetic, serial timing, the length and protocol-id fields of the TCP header (not checked by the decoder).",
		Assumptions: []string{
			"where int has 32 bits, slice lengths are assumed to stay below 2^24 (no Modbus buffer comes near the wrap-around point)",
			"io.Reader contract: Read returns 0 <= n <= len(p)",
			"a callee changes caller-visible memory only through pointers passed to it",
			"encoding/binary byte-order helpers and math.Float32bits/Float32frombits behave as documented",
			"the CRC function itself (polynomial, table) is not judged, only that both sides use the same one",
			"sync.Mutex / sync.RWMutex semantics; a register file built from a composite literal or new is not shared before the building function returns",
		},
		Run: runC19,
	})
}

type mbTransport struct {
	Named  *types.Named
	Encode *kit.Func
	Decode *kit.Func
}

type c19Model struct {
	*mbModel
	TransIface *types.Named
	encName    string
	decName    string
	Transports []*mbTransport
	Decoders   []*kit.Func // response decoders: methods of the PDU type returning ([]T, error)
	Clients    []*kit.Func // client request methods
	accepted   map[*kit.Func]acceptedResult
}

func newC19Model(c *kit.Ctx) *c19Model {
	m := &c19Model{mbModel: newMbModel(c)}
	sc := m.pkg.Scope()
	isByte := func(t types.Type) bool {
		b, ok := t.Underlying().(*types.Basic)
		return ok && b.Kind() == types.Uint8
	}
	// transport interface
	for _, name := range sc.Names() {
		tn, ok := sc.Lookup(name).(*types.TypeName)
		if !ok {
			continue
		}
		nt, ok := tn.Type().(*types.Named)
		if !ok {
			continue
		}
		it, ok := nt.Underlying().(*types.Interface)
		if !ok {
			continue
		}
		enc, dec := "", ""
		for i := 0; i < it.NumMethods(); i++ {
			fn := it.Method(i)
			sig := fn.Type().(*types.Signature)
			p, r := sig.Params(), sig.Results()
			switch {
			case p.Len() == 2 && r.Len() == 2 && isByte(p.At(0).Type()) && types.Identical(p.At(1).Type(), m.PduType) && mbIsByteSlice(r.At(0).Type()) && isErrorType(r.At(1).Type()):
				enc = fn.Name()
			case p.Len() == 1 && r.Len() == 3 && mbIsByteSlice(p.At(0).Type()) && isByte(r.At(0).Type()) && types.Identical(r.At(1).Type(), m.PduType) && isErrorType(r.At(2).Type()):
				dec = fn.Name()
			}
		}
		if enc != "" && dec != "" {
			if m.TransIface != nil {
				c.Fatalf("two transport interfaces")
			}
			m.TransIface, m.encName, m.decName = nt, enc, dec
		}
	}
	if m.TransIface == nil {
		c.Fatalf("transport interface (encode(byte, PDU) / decode([]byte)) not found")
	}
	ti := m.TransIface.Underlying().(*types.Interface)
	for _, name := range sc.Names() {
		tn, ok := sc.Lookup(name).(*types.TypeName)
		if !ok {
			continue
		}
		nt, ok := tn.Type().(*types.Named)
		if !ok {
			continue
		}
		if _, isIface := nt.Underlying().(*types.Interface); isIface {
			continue
		}
		if !types.Implements(types.NewPointer(nt), ti) {
			continue
		}
		t := &mbTransport{Named: nt}
		eo, _, _ := types.LookupFieldOrMethod(types.NewPointer(nt), true, m.pkg, m.encName)
		do, _, _ := types.LookupFieldOrMethod(types.NewPointer(nt), true, m.pkg, m.decName)
		t.Encode, t.Decode = c.P.FuncOf(eo), c.P.FuncOf(do)
		if t.Encode == nil || t.Decode == nil {
			c.Fatalf("transport %s: encode/decode bodies not found", name)
		}
		m.Transports = append(m.Transports, t)
	}
	if len(m.Transports) < 2 {
		c.Fatalf("expected at least two transports, found %d", len(m.Transports))
	}
	// response decoders and client methods
	for _, f := range c.P.Funcs("modbus") {
		if f.Decl == nil || f.Obj == nil {
			continue
		}
		sig := f.Obj.Type().(*types.Signature)
		if sig.Recv() == nil {
			continue
		}
		rt := sig.Recv().Type()
		if p, ok := rt.(*types.Pointer); ok {
			rt = p.Elem()
		}
		if types.Identical(rt, m.PduType) && sig.Params().Len() == 0 && sig.Results().Len() == 2 && isErrorType(sig.Results().At(1).Type()) {
			if _, isSlice := sig.Results().At(0).Type().Underlying().(*types.Slice); isSlice {
				m.Decoders = append(m.Decoders, f)
			}
		}
		// client methods: the encode call dominates the decode call
		var enc, dec *ast.CallExpr
		for _, call := range f.AllCalls(false) {
			switch m.transportCall(f, call) {
			case "encode":
				enc = call
			case "decode":
				dec = call
			}
		}
		if enc != nil && dec != nil && c.P.Graph(f).NodeDominates(enc, dec) {
			m.Clients = append(m.Clients, f)
		}
	}
	return m
}

// transportCall classifies a call of a transport interface method:
// "encode", "decode", "write", "read" or "".
func (m *c19Model) transportCall(f *kit.Func, call *ast.CallExpr) string {
	fn, ok := kit.Callee(f.Info(), call).(*types.Func)
	if !ok {
		return ""
	}
	sel, ok := ast.Unparen(call.Fun).(*ast.SelectorExpr)
	if !ok {
		return ""
	}
	rt := f.Info().TypeOf(sel.X)
	if rt == nil || !types.Identical(rt, m.TransIface) {
		return ""
	}
	switch {
	case fn.Name() == m.encName:
		return "encode"
	case fn.Name() == m.decName:
		return "decode"
	}
	switch kit.QualName(fn) {
	case "io.(Writer).Write":
		return "write"
	case "io.(Reader).Read":
		return "read"
	}
	return ""
}

func runC19(c *kit.Ctx) {
	m := newC19Model(c)
	c19R1(c, m)
	c19R2(c, m)
	c19R3(c, m)
	c19R4(c, m)
	c19R5(c, m)
	c19R6(c, m)
	c19R7(c, m)
}

// ---------------------------------------------------------------------------
// R3 response decoder bounds

func c19R3(c *kit.Ctx, m *c19Model) {
	r := c.Rule("R3", "every index/slice/word access of the response decoders is in range", 5)
	if len(m.Decoders) < 2 {
		c.Fatalf("expected two response decoders, found %d", len(m.Decoders))
	}
	boundsRule(c, r, m.Decoders, nil)
}

// ---------------------------------------------------------------------------
// R5 count agreement

// acceptedCodes evaluates a response decoder for each of the 256 function
// codes (ample data, a small declared count) and returns those for which it
// can return without error.  ok=false when an evaluation cannot be followed.
func (m *c19Model) acceptedCodes(f *kit.Func) (codes []int64, ok bool) {
	if r, done := m.accepted[f]; done {
		return r.codes, r.ok
	}
	ok = true
	for fc := int64(0); fc < 256 && ok; fc++ {
		ip := &kit.Interp{P: m.c.P, F: f, MaxSteps: 20000}
		code := fc
		ip.Input = func(key string, t types.Type) (kit.IVal, bool) {
			switch {
			case strings.HasPrefix(key, "elem:"):
				return kit.IVal{K: 'i', I: 2}, true
			case strings.HasPrefix(key, "call:"):
				return kit.IVal{}, false
			case t != nil && types.Identical(t, m.FcType):
				return kit.IVal{K: 'i', I: code}, true
			case t != nil && mbIsByteSlice(t):
				return kit.IVal{K: 's', L: 300, C: 300, Env: true}, true
			}
			return kit.IVal{}, false
		}
		res := ip.Run()
		m.c.AddValuations(1)
		if len(res.Unsupported) > 0 || res.Overflow || len(res.Exits) == 0 || len(res.Crashes) > 0 {
			ok = false
			break
		}
		accepts := false
		for _, e := range res.Exits {
			if e.Tainted || len(e.Vals) == 0 {
				ok = false
				break
			}
			switch last := e.Vals[len(e.Vals)-1]; last.K {
			case 'n':
				accepts = true
			case 'e', 'i':
			default:
				ok = false
			}
		}
		if accepts {
			codes = append(codes, fc)
		}
	}
	if !ok {
		codes = nil
	}
	if m.accepted == nil {
		m.accepted = map[*kit.Func]acceptedResult{}
	}
	m.accepted[f] = acceptedResult{codes, ok}
	return codes, ok
}

type acceptedResult struct {
	codes []int64
	ok    bool
}

// returnedLen expresses the length of the slice a function returns on its
// success path as a linear form over its inputs: a local made by
// make([]T, n), or the result of a module function applied to a slice whose
// own returned length is a function of its argument's length.
func (m *c19Model) returnedLen(f *kit.Func, depth int) (lin *kit.Lin, env *kit.Env, text string, why string) {
	c := m.c
	info := f.Info()
	b := kit.AnalyseBounds(c.P, f)
	sig := f.Obj.Type().(*types.Signature)
	var ret *ast.ReturnStmt
	n := 0
	ast.Inspect(f.Body, func(x ast.Node) bool {
		if _, isLit := x.(*ast.FuncLit); isLit {
			return false
		}
		r, ok := x.(*ast.ReturnStmt)
		if !ok || len(r.Results) != sig.Results().Len() {
			return true
		}
		if sig.Results().Len() == 2 && !kit.IsNilIdent(info, r.Results[1]) {
			return true
		}
		ret = r
		n++
		return true
	})
	if n != 1 {
		return nil, nil, "", fmt.Sprintf("%s has %d success returns", f.Name, n)
	}
	e := ast.Unparen(ret.Results[0])
	if id, ok := e.(*ast.Ident); ok {
		v := kit.ObjOf(info, id)
		var mk *ast.AssignStmt
		nDefs := 0
		ast.Inspect(f.Body, func(x ast.Node) bool {
			as, ok := x.(*ast.AssignStmt)
			if !ok {
				return true
			}
			for i, l := range as.Lhs {
				if kit.ObjOf(info, l) == v && i < len(as.Rhs) {
					nDefs++
					if call, ok := ast.Unparen(as.Rhs[i]).(*ast.CallExpr); ok {
						if bi, ok := kit.Callee(info, call).(*types.Builtin); ok && bi.Name() == "make" && len(call.Args) == 2 {
							mk = as
						}
					}
				}
			}
			return true
		})
		if mk == nil || nDefs != 1 {
			return nil, nil, "", fmt.Sprintf("the slice returned by %s is not a single make([]T, n)", f.Name)
		}
		call := ast.Unparen(mk.Rhs[0]).(*ast.CallExpr)
		fs, _ := b.FactsBefore(mk)
		t := b.Term(call.Args[1])
		if fs == nil || t == nil {
			return nil, nil, "", "the size of the returned slice is not trackable"
		}
		env = b.EnvAt(fs, nil)
		return env.LinOf(t), env, f.Str(call.Args[1]), ""
	}
	if call, ok := e.(*ast.CallExpr); ok && len(call.Args) == 1 && depth < 2 {
		cf := f.CalleeFunc(call)
		if cf == nil || cf.Decl == nil || len(cf.Params()) != 1 {
			return nil, nil, "", fmt.Sprintf("%s returns the result of a call that cannot be followed", f.Name)
		}
		inner, _, itext, why := m.returnedLen(cf, depth+1)
		if why != "" {
			return nil, nil, "", why
		}
		// inner must be a function of len(parameter) only
		cb := kit.AnalyseBounds(c.P, cf)
		pt := cb.Term(paramIdent(cf))
		atoms := inner.Atoms()
		if pt == nil || len(atoms) != 1 || atoms[0].K != kit.TLen || atoms[0].Args[0].Key() != pt.Key() {
			return nil, nil, "", fmt.Sprintf("the length returned by %s (%s) is not a function of the length of its argument", cf.Name, inner.Pretty())
		}
		fs, _ := b.FactsBefore(ret)
		if fs == nil {
			return nil, nil, "", "no facts at the return"
		}
		env = b.EnvAt(fs, nil)
		argLen := b.LenLinOf(env, call.Args[0])
		if argLen == nil {
			return nil, nil, "", fmt.Sprintf("the length of `%s` is not trackable", f.Str(call.Args[0]))
		}
		return env.Subst(inner, atoms[0].Key(), argLen), env, cf.Name + "(" + f.Str(call.Args[0]) + ") → " + itext, ""
	}
	return nil, nil, "", fmt.Sprintf("`%s` is neither a local slice nor a call of a module function", f.Str(e))
}

// paramIdent returns the identifier of the first parameter of f.
func paramIdent(f *kit.Func) ast.Expr {
	for _, fl := range f.Type.Params.List {
		for _, nm := range fl.Names {
			return nm
		}
	}
	return nil
}

func c19R5(c *kit.Ctx, m *c19Model) {
	r := c.Rule("R5", "values returned = quantity requested (server byte count ∘ decoder count)", 2)
	for _, dec := range m.Decoders {
		c.Analysed(dec)
		elemT := dec.Obj.Type().(*types.Signature).Results().At(0).Type().Underlying().(*types.Slice).Elem()
		unit := "register count"
		if b, ok := elemT.Underlying().(*types.Basic); ok && b.Kind() == types.Bool {
			unit = "bit count"
		}
		o := r.Ob(dec, nil, unit, "for every quantity c of the protocol range the decoder returns exactly c values from the response the server builds for c")
		codes, okCodes := m.acceptedCodes(dec)
		if !okCodes || len(codes) == 0 {
			o.Undecided("cannot determine the function codes accepted by %s", dec.Name)
			continue
		}
		arm := m.armOf(codes[0])
		for _, code := range codes {
			if m.armOf(code) != arm {
				arm = nil
			}
		}
		if arm == nil {
			o.Undecided("the accepted codes %v are not served by one arm of the request processor", codes)
			continue
		}
		limit := mbQuantityLimit[codes[0]]
		q := m.quantityOf(arm)
		if q == nil || limit == 0 {
			o.Undecided("no quantity in %s", arm.label())
			continue
		}
		// server side: the value stored into byte 0 of the response data (a
		// byte slice: the response's data field or a local that becomes it)
		// as a function of the quantity
		reqB := kit.AnalyseBounds(c.P, q.fn)
		rinfo := q.fn.Info()
		var fLin *kit.Lin
		var fEnv *kit.Env
		var fText string
		nStores := 0
		ast.Inspect(q.region, func(n ast.Node) bool {
			as, ok := n.(*ast.AssignStmt)
			if !ok || len(as.Lhs) != 1 || len(as.Rhs) != 1 || as.Tok != token.ASSIGN {
				return true
			}
			ix, ok := ast.Unparen(as.Lhs[0]).(*ast.IndexExpr)
			if !ok {
				return true
			}
			if k, isC := kit.ConstInt(rinfo, ix.Index); !isC || k != 0 {
				return true
			}
			if t := rinfo.TypeOf(ix.X); t == nil || !mbIsByteSlice(t) || m.isReqData(q.fn, ix.X) {
				return true
			}
			nStores++
			fs, _ := reqB.FactsBefore(as)
			t := reqB.Term(as.Rhs[0])
			if fs != nil && t != nil {
				fEnv = reqB.EnvAt(fs, nil)
				fLin = fEnv.LinOf(t)
				fText = q.fn.Str(as.Rhs[0])
			}
			return true
		})
		if nStores != 1 || fLin == nil {
			o.Undecided("expected one store of the byte count into response data[0] in %s, found %d", arm.label(), nStores)
			continue
		}
		qt := reqB.Term(q.lhs)
		atoms := fLin.Atoms()
		if qt == nil || len(atoms) != 1 || atoms[0].Key() != qt.Key() {
			o.Undecided("the byte count `%s` is not a function of the quantity alone (%s)", fText, fLin.Pretty())
			continue
		}
		// decoder side: the length of the returned slice as a function of data[0]
		gLin, _, gText, why := m.returnedLen(dec, 0)
		if why != "" || gLin == nil {
			o.Undecided("%s", why)
			continue
		}
		gAtoms := gLin.Atoms()
		if len(gAtoms) != 1 || gAtoms[0].K != kit.TElem || gAtoms[0].Args[1].K != kit.TConst || gAtoms[0].Args[1].Val != 0 {
			o.Undecided("the returned length `%s` is not a function of response data[0] alone (%s)", gText, gLin.Pretty())
			continue
		}
		// the client must hand the decoder's result through unchanged
		for _, cl := range m.Clients {
			for _, call := range cl.AllCalls(false) {
				if cl.CalleeFunc(call) == dec {
					if _, isRet := c.P.Parent(cl.File, call).(*ast.ReturnStmt); !isRet {
						o.Undecided("%s post-processes the result of %s", cl.Name, dec.Name)
					}
				}
			}
		}
		comp := fEnv.Subst(gLin, gAtoms[0].Key(), fLin)
		diff := comp.Sub(kit.LinAtom(qt))
		if v, isC := diff.IsConst(); isC && v == 0 {
			o.OK("server writes data[0] = %s, decoder returns %s values: identically the quantity", fLin.Pretty(), gLin.Pretty())
			continue
		}
		c.AddValuations(int(limit))
		var bad []string
		first := int64(0)
		for cq := int64(1); cq <= limit; cq++ {
			got, ok := comp.Eval(map[string]int64{qt.Key(): cq})
			if !ok {
				o.Undecided("cannot evaluate %s", comp.Pretty())
				break
			}
			if got != cq {
				if first == 0 {
					first = cq
				}
				if len(bad) < 3 || cq == 12 {
					bad = append(bad, fmt.Sprintf("a read of %d returns %d value(s)", cq, got))
				}
			}
		}
		if o.Status != "open" {
			continue
		}
		if first == 0 {
			o.OK("server writes data[0] = %s, decoder returns %s values: equal to the quantity for all 1..%d", fLin.Pretty(), gLin.Pretty(), limit)
			continue
		}
		o.Violation("the server writes data[0] = %s (a byte count) for quantity c and %s returns %s values: %s", fLin.Pretty(), dec.Name, gLin.Pretty(), strings.Join(bad, "; "))
	}
}
