package props

import (
	"fmt"
	"go/ast"
	"go/token"
	"go/types"
	"strings"

	"siotcheck/kit"
)

// C12/R3, search-result clause: an index or slice bound that comes from a
// search over decoder input.
//
// bytes.IndexByte and its relatives answer -1 when the input does not hold
// what is looked for, and a decoder is handed arbitrary bytes, so that answer
// is always possible.  A bound S+k built from such a result therefore has the
// value set {-1+k} ∪ [k, len(haystack)-1+k]; it is a valid bound only where
// the guards on the path exclude the part of that set that is out of range.
// The length engine of R3 follows lengths, not contents, and leaves such a
// bound undecided; this clause decides it:
//
//   - the value set of the result at the site comes from a value-mode run of
//     the length engine on the variable that holds it (`i < 0`, `i == -1`,
//     `i >= 0`, switch … are interpreted exactly), or is the full set when the
//     call is written inside the bound;
//   - lower goals (index >= 0, low >= 0, low <= high) are proved on the
//     smallest value; they are VIOLATED when -1 is still in the set, the goal
//     fails for it and no condition on the content was passed on the way
//     (witness: an input without the byte);
//   - upper goals (index < len, high <= len) use result <= len(haystack)-1,
//     which needs the haystack to be the indexed value itself or a window of
//     the same parsed slice; they are proved or left undecided.
//
// Only searches whose haystack derives from the parsed slice of the consumer
// are obligations (any other string is not decoder input).

// c12SearchFns tables the library searches (library API names are the
// interface): result -1 or an index into the haystack.  "seq" needs a
// needle that is known to be non-empty (an empty one is always found).
var c12SearchFns = map[string]string{
	"bytes.IndexByte": "byte", "bytes.LastIndexByte": "byte", "bytes.IndexRune": "byte",
	"strings.IndexByte": "byte", "strings.LastIndexByte": "byte", "strings.IndexRune": "byte",
	"bytes.Index": "seq", "bytes.LastIndex": "seq", "strings.Index": "seq", "strings.LastIndex": "seq",
	"bytes.IndexAny": "set", "bytes.LastIndexAny": "set", "strings.IndexAny": "set", "strings.LastIndexAny": "set",
}

// c12SearchUse is one search whose result feeds a bound.
type c12SearchUse struct {
	call *ast.CallExpr
	fn   string
	hay  ast.Expr               // haystack, string/[]byte conversions removed
	v    types.Object           // variable that holds the result (nil: the call is written in the bound)
	def  *ast.AssignStmt        // its only assignment
	dom  map[ast.Expr][]c12SDom // var form: value sets of v per site
	// clamp: the statement after the search that replaces -1 by len(haystack);
	// behind it v holds a value in [0, len(haystack)]
	clamp *ast.IfStmt
	prob  string
}

// c12SDom is the value set of a search result in one state that reaches a site.
type c12SDom struct {
	min, max int64 // max == c12SInf: unbounded (then result <= len(haystack)-1 is all that is known)
	neg      bool  // -1 is in the set
	corr     bool  // an uninterpreted condition on the result was passed
	clamped  bool  // not-found was replaced by len(haystack): the bound is len, not len-1
}

const c12SInf = int64(1) << 60

// c12StripConv removes string(x) / []byte(x) conversions (they keep the length).
func c12StripConv(info *types.Info, e ast.Expr) ast.Expr {
	for {
		e = ast.Unparen(e)
		call, ok := e.(*ast.CallExpr)
		if !ok || len(call.Args) != 1 {
			return e
		}
		tv, ok := info.Types[call.Fun]
		if !ok || !tv.IsType() {
			return e
		}
		isBytes := func(t types.Type) bool {
			if t == nil {
				return false
			}
			switch u := t.Underlying().(type) {
			case *types.Basic:
				return u.Info()&types.IsString != 0
			case *types.Slice:
				b, ok := u.Elem().Underlying().(*types.Basic)
				return ok && b.Kind() == types.Uint8
			}
			return false
		}
		if !isBytes(tv.Type) || !isBytes(info.TypeOf(call.Args[0])) {
			return e
		}
		e = call.Args[0]
	}
}

// c12SearchCall recognises a tabled search call whose result range is known.
func c12SearchCall(info *types.Info, e ast.Expr) *c12SearchUse {
	call, ok := ast.Unparen(e).(*ast.CallExpr)
	if !ok || len(call.Args) != 2 {
		return nil
	}
	q := kit.QualName(kit.Callee(info, call))
	kind, ok := c12SearchFns[q]
	if !ok {
		return nil
	}
	switch kind {
	case "seq":
		nd := c12StripConv(info, call.Args[1])
		nonEmpty := false
		if s, ok := kit.ConstString(info, nd); ok && s != "" {
			nonEmpty = true
		}
		if lit, ok := nd.(*ast.CompositeLit); ok && len(lit.Elts) > 0 {
			nonEmpty = true
		}
		if !nonEmpty {
			return nil
		}
	case "set":
		if _, ok := kit.ConstString(info, call.Args[1]); !ok {
			return nil
		}
	}
	return &c12SearchUse{call: call, fn: q, hay: c12StripConv(info, call.Args[0])}
}

// c12Writes counts the places of f's root function that may change local o:
// assignments, ++/--, range bindings, and taking its address.
func c12Writes(f *kit.Func, o types.Object) int {
	info := f.Info()
	n := 0
	is := func(e ast.Expr) bool {
		id, ok := ast.Unparen(e).(*ast.Ident)
		return ok && kit.ObjOf(info, id) == o
	}
	ast.Inspect(f.Root().Body, func(x ast.Node) bool {
		switch y := x.(type) {
		case *ast.AssignStmt:
			for _, l := range y.Lhs {
				if is(l) {
					n++
				}
			}
		case *ast.ValueSpec:
			for _, nm := range y.Names {
				if info.Defs[nm] == o {
					n++
				}
			}
		case *ast.IncDecStmt:
			if is(y.X) {
				n++
			}
		case *ast.RangeStmt:
			if y.Key != nil && is(y.Key) {
				n++
			}
			if y.Value != nil && is(y.Value) {
				n++
			}
		case *ast.UnaryExpr:
			if y.Op == token.AND && is(y.X) {
				n++
			}
		}
		return true
	})
	return n
}

// c12SearchScan holds what the clause needs to know about one consumer.
type c12SearchScan struct {
	f     *kit.Func
	info  *types.Info
	input map[types.Object]bool // the parsed slice and the locals derived from its content
	src   []ast.Expr
	uses  map[types.Object]*c12SearchUse  // by result variable
	calls map[*ast.CallExpr]*c12SearchUse // searches written inside a bound
}

func c12NewSearchScan(cons *c12Consumer) *c12SearchScan {
	f := cons.f
	sc := &c12SearchScan{f: f, info: f.Info(), input: map[types.Object]bool{cons.x: true}, src: cons.src, uses: map[types.Object]*c12SearchUse{}, calls: map[*ast.CallExpr]*c12SearchUse{}}
	// locals assigned from an expression that reads the content
	for changed := true; changed; {
		changed = false
		mark := func(l, r ast.Expr) {
			id, ok := ast.Unparen(l).(*ast.Ident)
			if !ok || r == nil {
				return
			}
			o := kit.ObjOf(sc.info, id)
			if v, isVar := o.(*types.Var); !isVar || v.IsField() || sc.input[o] {
				return
			}
			if sc.readsContent(r, nil) {
				sc.input[o] = true
				changed = true
			}
		}
		ast.Inspect(f.Body, func(x ast.Node) bool {
			switch y := x.(type) {
			case *ast.AssignStmt:
				for i, l := range y.Lhs {
					if len(y.Lhs) == len(y.Rhs) {
						mark(l, y.Rhs[i])
					} else if len(y.Rhs) == 1 {
						mark(l, y.Rhs[0])
					}
				}
			case *ast.ValueSpec:
				for i, nm := range y.Names {
					if i < len(y.Values) {
						mark(nm, y.Values[i])
					}
				}
			case *ast.RangeStmt:
				if y.Value != nil {
					mark(y.Value, y.X)
				}
			}
			return true
		})
	}
	return sc
}

// readsContent: e reads the parsed input (or a local derived from it) other
// than through len/cap; except is not counted.
func (sc *c12SearchScan) readsContent(e ast.Node, except types.Object) bool {
	found := false
	var visit func(n ast.Node)
	visit = func(n ast.Node) {
		if n == nil || found {
			return
		}
		switch y := n.(type) {
		case *ast.FuncLit:
			return
		case *ast.CallExpr:
			if b, ok := kit.Callee(sc.info, y).(*types.Builtin); ok && (b.Name() == "len" || b.Name() == "cap") {
				return
			}
		case *ast.Ident:
			if o := kit.ObjOf(sc.info, y); o != nil && o != except && sc.input[o] {
				found = true
			}
			return
		case ast.Expr:
			for _, s := range sc.src {
				if kit.SameExpr(sc.info, y, s) {
					found = true
					return
				}
			}
		}
		first := true
		ast.Inspect(n, func(c ast.Node) bool {
			if first {
				first = false
				return true
			}
			if c != nil {
				visit(c)
			}
			return false
		})
	}
	visit(e)
	return found
}

// useOf resolves a bound operand to a search: the call itself, or a local
// whose only assignment is such a call.
func (sc *c12SearchScan) useOf(e ast.Expr) *c12SearchUse {
	e = ast.Unparen(e)
	if call, isCall := e.(*ast.CallExpr); isCall {
		if u, seen := sc.calls[call]; seen {
			return u
		}
		u := c12SearchCall(sc.info, call)
		sc.calls[call] = u
		return u
	}
	id, ok := e.(*ast.Ident)
	if !ok {
		return nil
	}
	o := kit.ObjOf(sc.info, id)
	v, isVar := o.(*types.Var)
	if !isVar || v.IsField() || v.Pkg() == nil || v.Parent() == v.Pkg().Scope() {
		return nil
	}
	if u, seen := sc.uses[o]; seen {
		return u
	}
	sc.uses[o] = nil
	// the first assignment (in source order) defines it, a second one may clamp it
	var def, second *ast.AssignStmt
	var rhs, rhs2 ast.Expr
	ast.Inspect(sc.f.Root().Body, func(x ast.Node) bool {
		if as, ok := x.(*ast.AssignStmt); ok && len(as.Lhs) == len(as.Rhs) {
			for i, l := range as.Lhs {
				if li, ok := ast.Unparen(l).(*ast.Ident); ok && kit.ObjOf(sc.info, li) == o {
					if def == nil {
						def, rhs = as, as.Rhs[i]
					} else {
						second, rhs2 = as, as.Rhs[i]
					}
				}
			}
		}
		return true
	})
	if def == nil {
		return nil
	}
	u := c12SearchCall(sc.info, rhs)
	if u == nil {
		return nil
	}
	u.v, u.def = o, def
	switch n := c12Writes(sc.f, o); {
	case n == 1:
	case n == 2 && second != nil:
		if u.clamp = sc.clampOf(u, second, rhs2); u.clamp == nil {
			u.prob = fmt.Sprintf("%s is assigned a second time (only `if %s < 0 { %s = len(…) }` right after the search is understood)", o.Name(), o.Name(), o.Name())
		}
	default:
		u.prob = fmt.Sprintf("%s is written in more than one place", o.Name())
	}
	sc.uses[o] = u
	return u
}

// clampOf recognises the idiom that replaces the not-found result by the
// length of the haystack, as the statement that follows the search:
//
//	i := bytes.IndexByte(x, c)
//	if i < 0 { i = len(x) }        // also i == -1, i <= -1
//
// after which the variable holds a value in [0, len(x)].
func (sc *c12SearchScan) clampOf(u *c12SearchUse, second *ast.AssignStmt, rhs2 ast.Expr) *ast.IfStmt {
	f, info := sc.f, sc.info
	ifs, ok := f.Prog.Parent(f.File, f.Prog.Parent(f.File, second)).(*ast.IfStmt)
	if !ok || ifs.Init != nil || ifs.Else != nil || len(ifs.Body.List) != 1 || ifs.Body.List[0] != ast.Stmt(second) || second.Tok != token.ASSIGN || len(second.Lhs) != 1 {
		return nil
	}
	// the condition singles out -1
	a, b, op, ok := kit.CmpAtom(ifs.Cond)
	if !ok {
		return nil
	}
	if id, isId := ast.Unparen(b).(*ast.Ident); isId && kit.ObjOf(info, id) == u.v {
		a, b = b, a
		switch op {
		case token.LSS:
			op = token.GTR
		case token.GTR:
			op = token.LSS
		case token.LEQ:
			op = token.GEQ
		case token.GEQ:
			op = token.LEQ
		}
	}
	id, isId := ast.Unparen(a).(*ast.Ident)
	k, isC := kit.ConstInt(info, b)
	if !isId || kit.ObjOf(info, id) != u.v || !isC {
		return nil
	}
	if !(op == token.LSS && k == 0 || op == token.LEQ && k == -1 || op == token.EQL && k == -1) {
		return nil
	}
	// the new value is the length of the haystack
	call, ok := ast.Unparen(rhs2).(*ast.CallExpr)
	if !ok || len(call.Args) != 1 {
		return nil
	}
	if bi, ok := kit.Callee(info, call).(*types.Builtin); !ok || bi.Name() != "len" || !kit.SameExpr(info, c12StripConv(info, call.Args[0]), u.hay) {
		return nil
	}
	// it is the statement after the search
	blk, ok := f.Prog.Parent(f.File, ifs).(*ast.BlockStmt)
	if !ok {
		return nil
	}
	for i, st := range blk.List {
		if st == ast.Stmt(ifs) {
			if i > 0 && blk.List[i-1] == ast.Stmt(u.def) {
				return ifs
			}
		}
	}
	return nil
}

// c12SAff is a bound: l*L + c, plus the search result when use != nil.
// L is the length all lengths of the site are expressed in.
type c12SAff struct {
	l, c int64
	use  *c12SearchUse
}

// c12SFrame gives the lengths of one site under one state.
type c12SFrame struct {
	minL, maxL int64                                 // range of L (maxL < 0: unbounded)
	lenB       c12SAff                               // length of the indexed value
	wlen       func(u *c12SearchUse) (c12SAff, bool) // length of a haystack, when it is known in terms of L
	lenOf      func(e ast.Expr) (c12SAff, bool)      // a bound operand that is a length expression
	desc       string
}

func (sc *c12SearchScan) lin(e ast.Expr, fr *c12SFrame) (c12SAff, bool) {
	e = ast.Unparen(e)
	if k, ok := kit.ConstInt(sc.info, e); ok {
		return c12SAff{c: k}, true
	}
	if u := sc.useOf(e); u != nil {
		return c12SAff{use: u}, true
	}
	if fr.lenOf != nil {
		if a, ok := fr.lenOf(e); ok {
			return a, true
		}
	}
	switch x := e.(type) {
	case *ast.CallExpr:
		// integer conversions that cannot truncate an index
		if tv, ok := sc.info.Types[x.Fun]; ok && tv.IsType() && len(x.Args) == 1 {
			if b, ok := tv.Type.Underlying().(*types.Basic); ok {
				switch b.Kind() {
				case types.Int, types.Int64:
					if at, ok := sc.info.TypeOf(x.Args[0]).Underlying().(*types.Basic); ok && at.Info()&types.IsInteger != 0 && at.Info()&types.IsUnsigned == 0 {
						return sc.lin(x.Args[0], fr)
					}
				}
			}
		}
	case *ast.BinaryExpr:
		if x.Op != token.ADD && x.Op != token.SUB {
			return c12SAff{}, false
		}
		a, ok1 := sc.lin(x.X, fr)
		b, ok2 := sc.lin(x.Y, fr)
		if !ok1 || !ok2 {
			return c12SAff{}, false
		}
		if x.Op == token.SUB {
			if b.use != nil {
				if a.use != b.use && (a.use == nil || a.use.v == nil || a.use.v != b.use.v) {
					return c12SAff{}, false
				}
				return c12SAff{l: a.l - b.l, c: a.c - b.c}, true
			}
			return c12SAff{l: a.l - b.l, c: a.c - b.c, use: a.use}, true
		}
		if a.use != nil && b.use != nil {
			return c12SAff{}, false
		}
		u := a.use
		if u == nil {
			u = b.use
		}
		return c12SAff{l: a.l + b.l, c: a.c + b.c, use: u}, true
	}
	return c12SAff{}, false
}

func c12SameUse(a, b *c12SearchUse) bool {
	return a == b || (a != nil && b != nil && a.v != nil && a.v == b.v)
}

// c12SGoal is  l*L + s*S + c >= 0.
type c12SGoal struct {
	l, s, c int64
	use     *c12SearchUse
	what    string
}

func c12SDiff(a, b c12SAff, what string) (c12SGoal, bool) {
	g := c12SGoal{l: a.l - b.l, c: a.c - b.c, what: what}
	switch {
	case a.use != nil && b.use != nil:
		if !c12SameUse(a.use, b.use) {
			return g, false
		}
	case a.use != nil:
		g.s, g.use = 1, a.use
	case b.use != nil:
		g.s, g.use = -1, b.use
	}
	return g, true
}

// c12SProve proves l*L + c >= 0 over the range of L.
func c12SProve(l, c int64, fr *c12SFrame) bool {
	switch {
	case l == 0:
		return c >= 0
	case l > 0:
		return l*fr.minL+c >= 0
	}
	return fr.maxL >= 0 && l*fr.maxL+c >= 0
}

type c12SVerdict struct {
	status string // ok | violation | undecided
	msg    string
}

func (v *c12SVerdict) set(status, msg string) {
	rank := map[string]int{"": 0, "ok": 1, "undecided": 2, "violation": 3}
	if rank[status] > rank[v.status] {
		v.status, v.msg = status, msg
	}
}

// decide judges site e (an index or slice expression) in one frame for one
// value set of the search result.
func (sc *c12SearchScan) decide(e ast.Expr, fr *c12SFrame, dom func(u *c12SearchUse) []c12SDom, contentCond ast.Expr, out *c12SVerdict) {
	f := sc.f
	var goals []c12SGoal
	bad := func(format string, a ...any) { out.set("undecided", fmt.Sprintf(format, a...)) }
	switch x := e.(type) {
	case *ast.IndexExpr:
		ix, ok := sc.lin(x.Index, fr)
		if !ok {
			bad("index %s is not a search result plus a constant", f.Str(x.Index))
			return
		}
		g1, ok1 := c12SDiff(ix, c12SAff{}, "index >= 0")
		g2, ok2 := c12SDiff(c12SAff{l: fr.lenB.l, c: fr.lenB.c - 1}, ix, "index < len")
		if !ok1 || !ok2 {
			bad("index %s combines two searches", f.Str(x.Index))
			return
		}
		goals = append(goals, g1, g2)
	case *ast.SliceExpr:
		if x.Max != nil {
			bad("three-index slice")
			return
		}
		lo, hi := c12SAff{}, fr.lenB
		ok1, ok2 := true, true
		if x.Low != nil {
			lo, ok1 = sc.lin(x.Low, fr)
		}
		if x.High != nil {
			hi, ok2 = sc.lin(x.High, fr)
		}
		if !ok1 || !ok2 {
			bad("the bounds of %s are not search results plus constants", f.Str(x))
			return
		}
		g1, k1 := c12SDiff(lo, c12SAff{}, "low >= 0")
		g2, k2 := c12SDiff(hi, lo, "low <= high")
		g3, k3 := c12SDiff(fr.lenB, hi, "high <= len")
		if !k1 || !k2 || !k3 {
			bad("the bounds of %s combine two searches", f.Str(x))
			return
		}
		goals = append(goals, g1, g2, g3)
	default:
		return
	}
	for _, g := range goals {
		if g.s == 0 {
			if fr.desc == "" && g.l != 0 {
				bad("%s: %s: the length of the indexed value is not related to the haystack", f.Str(e), g.what)
				return
			}
			if !c12SProve(g.l, g.c, fr) {
				bad("%s: %s is not proved for lengths %s", f.Str(e), g.what, fr.desc)
				return
			}
			continue
		}
		u := g.use
		if u.prob != "" {
			bad("%s", u.prob)
			return
		}
		ds := dom(u)
		if len(ds) == 0 {
			bad("%s: the value of %s here is not known to the path engine", f.Str(e), f.Str(u.call))
			return
		}
		for _, d := range ds {
			if g.s > 0 {
				// smallest value of the result
				if fr.desc == "" && g.l != 0 {
					bad("%s: %s: the length of the indexed value is not related to the haystack", f.Str(e), g.what)
					return
				}
				if c12SProve(g.l, g.c+d.min, fr) {
					continue
				}
				fails := func(L int64) bool { return g.l*L+g.c-1 < 0 }
				wl, found := int64(0), false
				if d.neg {
					switch {
					case g.l == 0 || fails(fr.minL):
						wl, found = fr.minL, true
					case fr.maxL >= 0 && fails(fr.maxL):
						wl, found = fr.maxL, true
					}
				}
				switch {
				case found && !d.corr && contentCond == nil:
					at := ""
					if g.l != 0 {
						at = fmt.Sprintf(" (length %d)", wl)
					}
					hay := f.Str(u.hay)
					out.set("violation", fmt.Sprintf("%s: %s fails%s when %s returns -1, which it does for every %s that does not hold %s (a decoder is handed arbitrary bytes, e.g. a fixed-width field that is filled to its last byte); the not-found result is not excluded on the path to this bound, so the expression panics (index/slice bounds out of range) instead of yielding a value or an error",
						f.Str(e), g.what, at, f.Str(u.call), hay, c12NeedleStr(f, u)))
					return
				case found && contentCond != nil:
					bad("%s: %s fails if %s returns -1; whether that can still happen after the condition `%s` on the content (at %s) is not decided", f.Str(e), g.what, f.Str(u.call), f.Str(contentCond), f.At(contentCond))
					return
				default:
					bad("%s: %s is not proved for results {%s} of %s", f.Str(e), g.what, c12SDomStr(d), f.Str(u.call))
					return
				}
			}
			// g.s < 0: largest value of the result
			proved := false
			if d.max < c12SInf && (g.l == 0 || fr.desc != "") && c12SProve(g.l, g.c-d.max, fr) {
				proved = true
			}
			if !proved && fr.wlen != nil {
				if w, ok := fr.wlen(u); ok {
					// result <= len(haystack)-1 (and -1 when the haystack is empty)
					slack := int64(1)
					if d.clamped {
						slack = 0
					}
					if c12SProve(g.l-w.l, g.c-w.c+slack, fr) {
						proved = true
					}
				}
			}
			if !proved {
				bad("%s: %s is not proved: the result of %s is at most len(%s)-1, and that is not known to be within the indexed value", f.Str(e), g.what, f.Str(u.call), f.Str(u.hay))
				return
			}
		}
	}
	out.set("ok", "")
}

func c12NeedleStr(f *kit.Func, u *c12SearchUse) string {
	n := f.Str(u.call.Args[1])
	switch c12SearchFns[u.fn] {
	case "byte":
		return "the byte " + n
	case "set":
		return "any of " + n
	}
	return n
}

func c12SDomStr(d c12SDom) string {
	hi := "len-1"
	if d.max < c12SInf {
		hi = fmt.Sprint(d.max)
	}
	if d.min == d.max {
		return fmt.Sprint(d.min)
	}
	return fmt.Sprintf("%d..%s", d.min, hi)
}

// varDoms runs the length engine in value mode on the variable that holds
// the search result and records its value set in every state that reaches a
// node containing one of the sites.
func (sc *c12SearchScan) varDoms(u *c12SearchUse, sites []ast.Expr) {
	if u.dom != nil || u.prob != "" {
		return
	}
	u.dom = map[ast.Expr][]c12SDom{}
	lf := &kit.LenFlow{F: sc.f, X: u.v, Def: u.def, Value: true, MinLen: -1}
	record := func(n ast.Node, s kit.S) {
		var hit []ast.Expr
		ast.Inspect(n, func(x ast.Node) bool {
			if _, isLit := x.(*ast.FuncLit); isLit {
				return false
			}
			if ex, ok := x.(ast.Expr); ok {
				for _, st := range sites {
					if st == ex {
						hit = append(hit, st)
					}
				}
			}
			return true
		})
		if len(hit) == 0 {
			return
		}
		set, _, corr, ok := lf.ValueSet(s)
		d := c12SDom{min: -1, max: c12SInf, neg: true, corr: true}
		if ok {
			d = c12ParseValueSet(set)
			d.corr = corr
		}
		for _, st := range hit {
			u.dom[st] = append(u.dom[st], d)
		}
	}
	lf.Visit = record
	lf.Leaf = func(e ast.Expr, s kit.S) (t, f []kit.S, handled bool) {
		record(e, s)
		return nil, nil, false
	}
	lf.Run()
	if lf.Problem != "" {
		u.prob = fmt.Sprintf("the guards on %s cannot be followed: %s", u.v.Name(), lf.Problem)
	} else if lf.Result == nil || lf.Result.Overflow {
		u.prob = "state space overflow"
	}
}

// c12ParseValueSet reads the notation of LenFlow.ValueSet ("-1,1..+inf").
func c12ParseValueSet(set string) c12SDom {
	d := c12SDom{min: c12SInf, max: -c12SInf}
	num := func(s string) int64 {
		switch s {
		case "+inf":
			return c12SInf
		case "-inf":
			return -c12SInf
		}
		var v int64
		fmt.Sscan(s, &v)
		return v
	}
	for _, p := range strings.Split(set, ",") {
		lo, hi := p, p
		if i := strings.Index(p, ".."); i >= 0 {
			lo, hi = p[:i], p[i+2:]
		}
		a, b := num(lo), num(hi)
		if a < d.min {
			d.min = a
		}
		if b > d.max {
			d.max = b
		}
		if a <= -1 && -1 <= b {
			d.neg = true
		}
	}
	return d
}

// contentCondBefore returns a branch condition that reads the content of the
// parsed input and may run before site e (it stands earlier in the function,
// or shares a loop with it); conditions on the search result alone are the
// guards the value-mode run interprets.
func (sc *c12SearchScan) contentCondBefore(e ast.Expr, u *c12SearchUse) ast.Expr {
	var hit ast.Expr
	var loops []ast.Node
	ast.Inspect(sc.f.Body, func(x ast.Node) bool {
		switch y := x.(type) {
		case *ast.ForStmt, *ast.RangeStmt:
			if y.Pos() <= e.Pos() && e.End() <= y.End() {
				loops = append(loops, y)
			}
		}
		return true
	})
	before := func(c ast.Expr) bool {
		if c.End() <= e.Pos() {
			return true
		}
		for _, l := range loops {
			if l.Pos() <= c.Pos() && c.End() <= l.End() {
				return true
			}
		}
		return false
	}
	var except types.Object
	if u != nil {
		except = u.v
	}
	check := func(c ast.Expr) {
		if c == nil || hit != nil || !before(c) {
			return
		}
		// the bound itself may sit in a condition
		if c.Pos() <= e.Pos() && e.End() <= c.End() {
			return
		}
		if sc.readsContent(c, except) {
			hit = c
		}
	}
	ast.Inspect(sc.f.Body, func(x ast.Node) bool {
		switch y := x.(type) {
		case *ast.FuncLit:
			return false
		case *ast.IfStmt:
			check(y.Cond)
		case *ast.ForStmt:
			check(y.Cond)
		case *ast.SwitchStmt:
			check(y.Tag)
		case *ast.CaseClause:
			for _, c := range y.List {
				check(c)
			}
		}
		return true
	})
	return hit
}

// c12SearchBounds decides the index and slice expressions of the consumer's
// function whose bounds come from a search over the parsed input.  Verdicts
// for sites of the length engine replace its "not linear" answer; the others
// (a string made from the input, cut at the result of a search in that same
// string) are returned as extra obligations.
func c12SearchBounds(cons *c12Consumer, lf *kit.LenFlow) (over map[ast.Expr]*c12SVerdict, extra []ast.Expr) {
	over = map[ast.Expr]*c12SVerdict{}
	if cons.x == nil || lf.Problem != "" {
		return over, nil
	}
	sc := c12NewSearchScan(cons)
	f, info := sc.f, sc.info
	lfSite := map[ast.Expr]*kit.LenSite{}
	for _, st := range lf.Sites {
		lfSite[st.Expr] = st
	}
	// candidate sites and the searches their bounds use
	type cand struct {
		e    ast.Expr
		base ast.Expr
		uses []*c12SearchUse
	}
	var cands []*cand
	ast.Inspect(f.Body, func(x ast.Node) bool {
		var base ast.Expr
		var bounds []ast.Expr
		switch y := x.(type) {
		case *ast.FuncLit:
			return false
		case *ast.IndexExpr:
			if tv, ok := info.Types[y.X]; ok && tv.IsType() {
				return true // generic instantiation
			}
			if t := info.TypeOf(y.X); t == nil {
				return true
			} else if _, isMap := t.Underlying().(*types.Map); isMap {
				return true
			}
			base, bounds = y.X, []ast.Expr{y.Index}
		case *ast.SliceExpr:
			base, bounds = y.X, []ast.Expr{y.Low, y.High, y.Max}
		default:
			return true
		}
		cd := &cand{e: x.(ast.Expr), base: base}
		for _, b := range bounds {
			if b == nil {
				continue
			}
			ast.Inspect(b, func(z ast.Node) bool {
				switch w := z.(type) {
				case *ast.FuncLit:
					return false
				case *ast.IndexExpr, *ast.SliceExpr:
					return false // a nested site has its own obligation
				case ast.Expr:
					if u := sc.useOf(w); u != nil {
						cd.uses = append(cd.uses, u)
						return false
					}
				}
				return true
			})
		}
		// only searches over decoder input are obligations
		var keep []*c12SearchUse
		for _, u := range cd.uses {
			if sc.readsContent(u.hay, nil) {
				keep = append(keep, u)
			}
		}
		cd.uses = keep
		if len(cd.uses) > 0 {
			cands = append(cands, cd)
		}
		return true
	})
	if len(cands) == 0 {
		return over, nil
	}
	// value sets of the result variables
	byVar := map[*c12SearchUse][]ast.Expr{}
	for _, cd := range cands {
		for _, u := range cd.uses {
			if u.v != nil {
				byVar[u] = append(byVar[u], cd.e)
			}
		}
	}
	for u, sites := range byVar {
		if u.clamp == nil {
			sc.varDoms(u, sites)
		}
	}
	full := []c12SDom{{min: -1, max: c12SInf, neg: true}}
	aff := func(v kit.LenSym) (c12SAff, bool) {
		switch v.Kind {
		case 'c':
			return c12SAff{c: v.C}, true
		case 'l':
			return c12SAff{l: 1, c: v.K}, true
		}
		return c12SAff{}, false
	}
	// the identifiers of an expression keep their value between the search and the use
	stable := func(e ast.Expr) bool {
		ok := true
		ast.Inspect(e, func(x ast.Node) bool {
			if id, isId := x.(*ast.Ident); isId {
				if v, isVar := kit.ObjOf(info, id).(*types.Var); isVar && !v.IsField() && c12Writes(f, v) > 1 {
					ok = false
				}
			}
			return ok
		})
		return ok
	}
	for _, cd := range cands {
		cd := cd
		v := &c12SVerdict{}
		base := c12StripConv(info, cd.base)
		var cc ast.Expr
		var cu *c12SearchUse
		for _, u := range cd.uses {
			cu = u
			if u.v != nil && (!stable(u.hay) || !stable(base)) {
				u.prob = fmt.Sprintf("%s or %s is reassigned between the search and the use of its result", f.Str(u.hay), f.Str(base))
			}
		}
		cc = sc.contentCondBefore(cd.e, cu)
		dom := func(u *c12SearchUse) []c12SDom {
			switch {
			case u.v == nil:
				return full
			case u.clamp != nil:
				if cd.e.Pos() > u.clamp.End() {
					return []c12SDom{{min: 0, max: c12SInf, clamped: true}}
				}
				return nil
			}
			return u.dom[cd.e]
		}
		// frames: one per state of the length engine when the indexed value is a
		// window of the parsed slice, else the indexed value's own length
		var frames []*c12SFrame
		if st := lfSite[cd.e]; st != nil {
			for _, b := range st.Bounds {
				s := b.State
				mn, mx, ok := lf.LenRange(s)
				blo, bhi, okw := lf.Window(base, s)
				if !ok || !okw {
					frames = nil
					break
				}
				lo, ok1 := aff(blo)
				hi, ok2 := aff(bhi)
				if !ok1 || !ok2 {
					frames = nil
					break
				}
				fr := &c12SFrame{minL: mn, maxL: mx, lenB: c12SAff{l: hi.l - lo.l, c: hi.c - lo.c}}
				fr.desc = fmt.Sprintf("{%d..%d}", mn, mx)
				if mx < 0 {
					fr.desc = fmt.Sprintf("{%d..}", mn)
				}
				fr.wlen = func(u *c12SearchUse) (c12SAff, bool) {
					a, b, ok := lf.Window(u.hay, s)
					if !ok {
						return c12SAff{}, false
					}
					lo, ok1 := aff(a)
					hi, ok2 := aff(b)
					return c12SAff{l: hi.l - lo.l, c: hi.c - lo.c}, ok1 && ok2
				}
				fr.lenOf = func(e ast.Expr) (c12SAff, bool) {
					if sv, ok := lf.EvalSym(e, s); ok {
						return aff(sv)
					}
					return c12SAff{}, false
				}
				frames = append(frames, fr)
			}
		}
		if len(frames) == 0 {
			// L is the length of the indexed value itself
			fr := &c12SFrame{minL: 0, maxL: -1, lenB: c12SAff{l: 1}}
			same := func(e ast.Expr) bool { return kit.SameExpr(info, c12StripConv(info, e), base) }
			related := true
			for _, u := range cd.uses {
				if !same(u.hay) {
					related = false
				}
			}
			if related {
				fr.desc = "{0..}"
				fr.wlen = func(u *c12SearchUse) (c12SAff, bool) { return c12SAff{l: 1}, true }
			}
			fr.lenOf = func(e ast.Expr) (c12SAff, bool) {
				call, ok := ast.Unparen(e).(*ast.CallExpr)
				if !ok || len(call.Args) != 1 {
					return c12SAff{}, false
				}
				if b, ok := kit.Callee(info, call).(*types.Builtin); ok && b.Name() == "len" && same(call.Args[0]) {
					return c12SAff{l: 1}, true
				}
				return c12SAff{}, false
			}
			frames = append(frames, fr)
		}
		for _, fr := range frames {
			sc.decide(cd.e, fr, dom, cc, v)
		}
		if v.status == "ok" {
			var names []string
			for _, u := range cd.uses {
				names = append(names, f.Str(u.call))
			}
			v.msg = fmt.Sprintf("%s: the not-found result of %s is excluded on every path to the bound, and a found position lies inside the indexed value", f.Str(cd.e), strings.Join(c12Uniq(names), ", "))
		}
		over[cd.e] = v
		if lfSite[cd.e] == nil {
			extra = append(extra, cd.e)
		}
	}
	return over, extra
}
