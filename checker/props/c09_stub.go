//go:build wip_c09

package props

import "siotcheck/kit"

func c09Wiring(c *kit.Ctx, a *c09Anchors)  {}
func c09Listing(c *kit.Ctx, a *c09Anchors) {}
