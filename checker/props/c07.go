package props

import (
	"fmt"
	"go/ast"
	"go/token"
	"go/types"
	"strings"

	"siotcheck/kit"
)

func init() {
	kit.Register(&kit.Prop{
		ID:    "C07",
		Title: "Exactly one running client per live configured node",
		Explanation: "Structural necessary conditions of the client manager, decided on every CFG path of the generic bodies of the manager and client-state types (DESIGN.md §3/C07): " +
			"R1 the store into the client-state map is reached only after a lookup of the same key answered 'absent' in the same loop iteration; " +
			"R2 a client state returned by the constructor is not dereferenced, captured, stored or passed on while its error is non-nil or untested, and the constructor returns a non-nil state whenever it returns a nil error; " +
			"R3 every iteration that stores a client state also starts exactly the goroutine that runs that state and, on every path after the run returned, sends the same per-iteration key on a channel whose receiving case deletes the entry; " +
			"R4 the entry of a key is deleted only in the select case that received that key from such a channel, every sender on these channels is the exit goroutine (after its run returned) or a case forwarding its received key, and the map is never cleared or replaced; " +
			"R5 every nil return of the scan after a successful listing has completed the loop over the map that stops each client whose key is not in the set of listed keys (and only those), and every listed key enters that set; " +
			"R7 every single-argument function the listing passes through before the start loop (and inside the listing helper) is the identity or a keyed de-duplication whose key includes every field of the manager's map key (Parent and ID), so a node keeps one entry per parent it appears under; " +
			"R8 the node handed to the client-state constructor is an element of a listing fetched in the same scan/restart activation (followed through the scan/update split into the callers), never the node kept in an existing client state, a manager field or a package variable; " +
			"R6 the stop channel of a client state is closed only inside sync.Once.Do of the same state, the manager's stop case stops every map value unless the map is empty, the main loop is left only with an empty map or in the guard-timer case, and the client state's run returns only after the stop request was received and forwarded to the client. " +
			"Interleavings of store events with scans, construction from current points and the 5 s stop time-outs are not decided.",
		Assumptions: []string{
			"clients obey the Client contract: Run blocks until Stop is called and returns after it",
			"the client-state map is confined to the manager goroutine (scan and the select loop run on it); channel sends from other goroutines are the only cross-goroutine events",
			"NATS delivers the node-type / tombstone points that trigger a rescan",
			"non-atom conditions are treated as nondeterministic (both edges explored)",
		},
		Run: runC07,
	})
}

func runC07(c *kit.Ctx) {
	m := newCmModel(c)
	c.Note("client state = %s, manager = %s, map = %s, stop channel = %s, exit channels = %s; constructors %d, run methods %d, stop methods %d",
		m.cs.Obj().Name(), m.mgr.Obj().Name(), m.mgrMap.Name(), m.mgrStopCh.Name(), m.exitNames(), len(m.ctors), len(m.runM), len(m.stopM))
	c07R1(c, m, c.Rule("R1", "start only when absent", 1))
	c07R2(c, m, c.Rule("R2", "failed construction is not used", 2))
	c07R3(c, m, c.Rule("R3", "exit signal paired with every map insertion", 3))
	c07R4(c, m, c.Rule("R4", "single deleter, fed only by exit signals", 3))
	c07R5(c, m, c.Rule("R5", "removal pass reached and exact", 3))
	c07R6(c, m, c.Rule("R6", "stop idempotent and complete", 5))
	c07R7(c, m, c.Rule("R7", "the listing keeps one entry per placement", 2))
	c07R8(c, m, c.Rule("R8", "a client is constructed from a node fetched in the same activation", 1))
}

func (m *cmModel) exitNames() string {
	var ns []string
	for _, k := range m.mgrKeyCh {
		if m.exitCh[k] {
			ns = append(ns, k.Name())
		}
	}
	return strings.Join(ns, ",")
}

func cmIsLocal(o types.Object) bool {
	v, ok := o.(*types.Var)
	return ok && !v.IsField() && v.Pkg() != nil && v.Parent() != nil && v.Parent() != v.Pkg().Scope()
}

// ---------------------------------------------------------------------------
// R1 start only when absent

func c07R1(c *kit.Ctx, m *cmModel, r *kit.Rule) {
	for _, sto := range m.stores {
		f := sto.f
		info := f.Info()
		c.Analysed(f)
		o := r.Ob(f, sto.stmt, "client-state map store", "reached only after a lookup of the same key answered 'absent' in the same loop iteration")
		keyObj := kit.ObjOf(info, sto.key)
		if _, isID := ast.Unparen(sto.key).(*ast.Ident); !isID || !cmIsLocal(keyObj) {
			o.Undecided("store key `%s` is not a local variable", f.Str(sto.key))
			continue
		}
		atoms := map[string]types.Object{} // atom id -> key variable
		atomPos := map[string][]ast.Node{}
		okVars := map[types.Object]string{}
		valVars := map[types.Object]string{}
		stmtAtom := map[ast.Node]string{}
		multi := ""
		cmOwn(f.Body, func(n ast.Node) bool {
			as, ok := n.(*ast.AssignStmt)
			if !ok || len(as.Rhs) != 1 || len(as.Lhs) > 2 {
				return true
			}
			ix, ok := ast.Unparen(as.Rhs[0]).(*ast.IndexExpr)
			if !ok || !m.isMapExpr(info, ix.X) {
				return true
			}
			k := kit.ObjOf(info, ix.Index)
			if k == nil {
				return true
			}
			id := fmt.Sprintf("lk%d", as.Pos())
			atoms[id] = k
			atomPos[id] = []ast.Node{as}
			stmtAtom[as] = id
			reg := func(e ast.Expr, into map[types.Object]string) {
				if v := kit.ObjOf(info, e); v != nil {
					if cmAssignCount(f, v) != 1 {
						multi = v.Name()
						return
					}
					into[v] = id
				}
			}
			if len(as.Lhs) == 2 {
				reg(as.Lhs[0], valVars)
				reg(as.Lhs[1], okVars)
			} else {
				reg(as.Lhs[0], valVars)
			}
			return true
		})
		st := &kit.Std{F: f}
		st.Eval.Atom = func(e ast.Expr) (string, bool, bool) {
			e = ast.Unparen(e)
			if id, ok := e.(*ast.Ident); ok {
				if a, ok := okVars[kit.ObjOf(info, id)]; ok {
					return a, false, true
				}
			}
			if x, y, op, ok := kit.CmpAtom(e); ok && (op == token.EQL || op == token.NEQ) {
				if kit.IsNilIdent(info, x) {
					x, y = y, x
				}
				if kit.IsNilIdent(info, y) {
					if vo := kit.ObjOf(info, x); vo != nil {
						if a, ok := valVars[vo]; ok {
							return a, op == token.EQL, true
						}
					}
					if ix, ok := ast.Unparen(x).(*ast.IndexExpr); ok && m.isMapExpr(info, ix.X) {
						if k := kit.ObjOf(info, ix.Index); k != nil {
							id := "dx" + kit.VarID(k)
							atoms[id] = k
							atomPos[id] = append(atomPos[id], e)
							return id, op == token.EQL, true
						}
					}
				}
			}
			return "", false, false
		}
		inval := func(s kit.S, pred func(id string, k types.Object) bool) kit.S {
			for id, k := range atoms {
				if pred(id, k) {
					s = s.Del("a:" + id)
				}
			}
			return s
		}
		bad := ""
		reached := false
		st.OnNode = func(n ast.Node, s kit.S) []kit.S {
			if id, ok := stmtAtom[n]; ok {
				s = s.Del("a:" + id) // a fresh answer
			}
			for _, ao := range cmAssigned(info, n) {
				s = inval(s, func(_ string, k types.Object) bool { return k == ao })
			}
			if n == ast.Node(sto.stmt) {
				reached = true
				good, present := false, false
				for id, k := range atoms {
					if k != keyObj {
						continue
					}
					switch s.Get("a:" + id) {
					case "F":
						good = true
					case "T":
						present = true
					}
				}
				if !good && bad == "" {
					if present {
						bad = "the store is reached although the lookup of `" + keyObj.Name() + "` answered 'present': a second client would be started for a placement that already has one"
					} else {
						bad = "the store is reached on a path on which no lookup of `" + keyObj.Name() + "` in this iteration answered 'absent'"
					}
				}
			}
			mod := false
			if as, ok := n.(*ast.AssignStmt); ok {
				for _, l := range as.Lhs {
					if ix, ok := ast.Unparen(l).(*ast.IndexExpr); ok && m.isMapExpr(info, ix.X) {
						mod = true
					}
				}
			}
			cmOwn(n, func(x ast.Node) bool {
				if call, ok := x.(*ast.CallExpr); ok && (cmIsBuiltin(info, call, "delete") || cmIsBuiltin(info, call, "clear")) && len(call.Args) > 0 && m.isMapExpr(info, call.Args[0]) {
					mod = true
				}
				return true
			})
			if mod {
				s = inval(s, func(string, types.Object) bool { return true })
			}
			return []kit.S{s}
		}
		st.OnBranch = func(br kit.Branch, s kit.S) (t, fl []kit.S, handled bool) {
			if br.Kind != kit.BrRange {
				return nil, nil, false
			}
			ko, vo := types.Object(nil), types.Object(nil)
			if br.Range.Key != nil {
				ko = kit.ObjOf(info, br.Range.Key)
			}
			if br.Range.Value != nil {
				vo = kit.ObjOf(info, br.Range.Value)
			}
			s2 := inval(s, func(id string, k types.Object) bool {
				if (ko != nil && k == ko) || (vo != nil && k == vo) {
					return true
				}
				for _, p := range atomPos[id] {
					if cmWithin(p, br.Range.Body) {
						return true
					}
				}
				return false
			})
			return []kit.S{s2}, []kit.S{s}, true
		}
		res := c.P.Graph(f).Run(kit.NewS(), st.Client())
		switch {
		case res.Overflow:
			c.Fatalf("R1: state overflow in %s", f.Name)
		case multi != "":
			o.Undecided("lookup result variable `%s` is assigned more than once", multi)
		case !reached:
			o.Undecided("the store is not reachable in the CFG")
		case bad != "":
			o.Violation("%s", bad)
		default:
			o.OK("`%s` dominated by the absent edge of a lookup of `%s`", f.Str(sto.stmt), keyObj.Name())
		}
	}
}

// ---------------------------------------------------------------------------
// R2 construction failure is not used

// c07HarmfulUses lists the occurrences of obj inside n (descending into
// function literals: a capture is a use) that dereference, capture, store or
// pass on the value.  Comparisons with nil, fmt/log arguments, blank
// assignments and returning the value are harmless.
func c07HarmfulUses(f *kit.Func, n ast.Node, obj types.Object) []*ast.Ident {
	info := f.Info()
	var out []*ast.Ident
	ast.Inspect(n, func(x ast.Node) bool {
		id, ok := x.(*ast.Ident)
		if !ok || info.Uses[id] != obj {
			return true
		}
		par := f.Prog.Parent(f.File, id)
		for {
			if p, ok := par.(*ast.ParenExpr); ok {
				par = f.Prog.Parent(f.File, p)
				continue
			}
			break
		}
		switch p := par.(type) {
		case *ast.BinaryExpr:
			if (p.Op == token.EQL || p.Op == token.NEQ) && (kit.IsNilIdent(info, p.X) || kit.IsNilIdent(info, p.Y)) {
				return true
			}
		case *ast.CallExpr:
			if p.Fun != ast.Expr(id) {
				if fn, ok := kit.Callee(info, p).(*types.Func); ok && fn.Pkg() != nil && (fn.Pkg().Path() == "fmt" || fn.Pkg().Path() == "log") {
					return true
				}
			}
		case *ast.AssignStmt:
			for i, rh := range p.Rhs {
				if ast.Unparen(rh) == ast.Expr(id) && len(p.Lhs) == len(p.Rhs) {
					if l, ok := p.Lhs[i].(*ast.Ident); ok && l.Name == "_" {
						return true
					}
				}
			}
			for _, l := range p.Lhs {
				if ast.Unparen(l) == ast.Expr(id) {
					return true // assignment target, not a use
				}
			}
		case *ast.ReturnStmt:
			return true
		}
		out = append(out, id)
		return true
	})
	return out
}

func c07R2(c *kit.Ctx, m *cmModel, r *kit.Rule) {
	isCtor := func(f *kit.Func, call *ast.CallExpr) bool {
		cf := f.CalleeFunc(call)
		for _, x := range m.ctors {
			if x == cf && cf != nil {
				return true
			}
		}
		return false
	}
	// ---- callers
	for _, f := range c.P.Funcs("client") {
		if f.Body == nil {
			continue
		}
		info := f.Info()
		for _, call := range f.AllCalls(false) {
			if !isCtor(f, call) {
				continue
			}
			c.Analysed(f)
			site := call
			o := r.Ob(f, site, "client state returned by "+f.CalleeFunc(site).Name, "not used while the error returned with it is non-nil or untested")
			as, ok := c.P.Parent(f.File, site).(*ast.AssignStmt)
			if !ok || len(as.Lhs) != 2 || len(as.Rhs) != 1 {
				if _, isRet := c.P.Parent(f.File, site).(*ast.ReturnStmt); isRet {
					o.OK("both results are handed to the caller")
					continue
				}
				o.Undecided("constructor call is not of the form `state, err := …`")
				continue
			}
			csObj := kit.ObjOf(info, as.Lhs[0])
			if csObj == nil {
				o.OK("state discarded")
				continue
			}
			st := &kit.Std{F: f}
			st.ErrTag = func(cl *ast.CallExpr, s kit.S) string {
				if cl == site {
					return "ctor"
				}
				return ""
			}
			st.OnErrEdge = func(tag string, isErr bool, s kit.S) (kit.S, bool) {
				if tag == "ctor" && s.Get("cs") == "pending" {
					if isErr {
						return s.Set("cs", "bad"), true
					}
					return s.Set("cs", "good"), true
				}
				return s, true
			}
			st.OnCall = func(cl *ast.CallExpr, n ast.Node, s kit.S) []kit.S {
				if cl == site {
					return []kit.S{s.Set("cs", "pending").Del("a:csnil")}
				}
				return nil
			}
			st.Eval.Atom = func(e ast.Expr) (string, bool, bool) {
				if x, y, op, ok := kit.CmpAtom(e); ok && (op == token.EQL || op == token.NEQ) {
					if kit.IsNilIdent(info, x) {
						x, y = y, x
					}
					if kit.IsNilIdent(info, y) && kit.ObjOf(info, x) == csObj {
						return "csnil", op == token.NEQ, true
					}
				}
				return "", false, false
			}
			unsafe := func(s kit.S) string {
				switch s.Get("cs") {
				case "pending":
					if s.Get("a:csnil") == "F" {
						return ""
					}
					return "before the error returned with it was tested"
				case "bad":
					return "on the edge where the constructor's error is non-nil (the state is nil)"
				}
				return ""
			}
			bad := ""
			var badAt ast.Node
			scan := func(n ast.Node, s kit.S) {
				why := unsafe(s)
				if why == "" || bad != "" {
					return
				}
				if n == ast.Node(as) {
					return
				}
				if us := c07HarmfulUses(f, n, csObj); len(us) > 0 {
					bad = fmt.Sprintf("`%s` is used at %s %s", csObj.Name(), f.At(us[0]), why)
					badAt = us[0]
				}
			}
			st.Fold = func(e ast.Expr, s kit.S) (bool, bool) {
				if x, y, op, ok := kit.CmpAtom(e); ok && (op == token.EQL || op == token.NEQ) {
					if kit.IsNilIdent(info, x) {
						x, y = y, x
					}
					if kit.IsNilIdent(info, y) && kit.ObjOf(info, x) == csObj {
						switch s.Get("cs") {
						case "bad":
							return op == token.EQL, true
						case "good":
							return op == token.NEQ, true
						}
						return false, false
					}
				}
				scan(e, s)
				return false, false
			}
			st.OnNode = func(n ast.Node, s kit.S) []kit.S {
				scan(n, s)
				if n != ast.Node(as) {
					for _, ao := range cmAssigned(info, n) {
						if ao == csObj {
							s = s.Set("cs", "other")
						}
					}
				}
				return []kit.S{s}
			}
			res := c.P.Graph(f).Run(kit.NewS(), st.Client())
			_ = badAt
			switch {
			case res.Overflow:
				c.Fatalf("R2: state overflow in %s", f.Name)
			case bad != "":
				o.Violation("%s: a failed construction (children not listed, node not decodable) would be started, stored and dereferenced", bad)
			default:
				o.OK("every use of `%s` lies on the nil edge of the error", csObj.Name())
			}
		}
	}
	// ---- constructors: non-nil state on success
	for _, f := range m.ctors {
		c.Analysed(f)
		info := f.Info()
		st := &kit.Std{F: f}
		res := c.P.Graph(f).Run(kit.NewS(), st.Client())
		if res.Overflow {
			c.Fatalf("R2: state overflow in %s", f.Name)
		}
		nonNil := func(e ast.Expr) bool {
			isAddr := func(x ast.Expr) bool {
				x = ast.Unparen(x)
				if u, ok := x.(*ast.UnaryExpr); ok && u.Op == token.AND {
					_, isLit := ast.Unparen(u.X).(*ast.CompositeLit)
					return isLit
				}
				if call, ok := x.(*ast.CallExpr); ok && cmIsBuiltin(info, call, "new") {
					return true
				}
				return false
			}
			if isAddr(e) {
				return true
			}
			if vo := kit.ObjOf(info, e); vo != nil && cmIsLocal(vo) {
				if rhs := cmSingleDef(f, vo); rhs != nil && isAddr(rhs) {
					return true
				}
			}
			return false
		}
		seen := map[*ast.ReturnStmt]bool{}
		for _, e := range res.Exits {
			if e.Return == nil || seen[e.Return] {
				continue
			}
			rn := st.ReturnsNil(e.Return, e.State)
			if rn == "nonnil" {
				continue
			}
			seen[e.Return] = true
			o := r.Ob(f, e.Return, "constructor exit "+retKey(f, e.Return), "a nil (or possibly nil) error is returned together with a non-nil client state")
			switch {
			case len(e.Return.Results) != 2:
				o.Undecided("bare return in the constructor")
			case nonNil(e.Return.Results[0]):
				o.OK("returns `%s`, a freshly allocated state", f.Str(e.Return.Results[0]))
			case kit.IsNilIdent(info, e.Return.Results[0]):
				o.Violation("returns a nil client state with a %s error: the manager would store and run a nil state", map[string]string{"nil": "nil", "unknown": "possibly nil"}[rn]).WithPath(res.PathTo(e))
			default:
				o.Undecided("cannot tell whether `%s` is non-nil", f.Str(e.Return.Results[0]))
			}
		}
	}
}

// ---------------------------------------------------------------------------
// R3 exit signal pairing

type c07ExitGo struct {
	stmt *ast.GoStmt
	gf   *kit.Func
	bind map[types.Object]types.Object // parameter of gf -> variable passed
}

func (g *c07ExitGo) resolve(info *types.Info, e ast.Expr) types.Object {
	if _, ok := ast.Unparen(e).(*ast.Ident); !ok {
		return nil
	}
	o := kit.ObjOf(info, e)
	if b, ok := g.bind[o]; ok {
		return b
	}
	return o
}

// c07ExitGoroutines lists the go statements of f whose function runs a client state.
func c07ExitGoroutines(m *cmModel, f *kit.Func) []*c07ExitGo {
	info := f.Info()
	var out []*c07ExitGo
	cmOwn(f.Body, func(n ast.Node) bool {
		gs, ok := n.(*ast.GoStmt)
		if !ok {
			return true
		}
		gf := f.CalleeFunc(gs.Call)
		if gf == nil || gf.Body == nil {
			return true
		}
		g := &c07ExitGo{stmt: gs, gf: gf, bind: map[types.Object]types.Object{}}
		ps := gf.Params()
		if len(ps) == len(gs.Call.Args) {
			for i, p := range ps {
				if a := kit.ObjOf(info, gs.Call.Args[i]); a != nil {
					if _, isID := ast.Unparen(gs.Call.Args[i]).(*ast.Ident); isID {
						g.bind[p] = a
					}
				}
			}
		}
		runs := false
		for _, call := range gf.AllCalls(false) {
			if _, ok := m.isRunCall(gf, call); ok {
				runs = true
			}
		}
		if runs {
			out = append(out, g)
		}
		return true
	})
	return out
}

// c07GoFlow checks the body of an exit goroutine: on every path the run of
// valObj returns and afterwards keyObj is sent on an exit channel.
// It returns "" or the defect, the path of the offending exit, and the signal
// sends that are executed after the run returned.
func c07GoFlow(c *kit.Ctx, m *cmModel, g *c07ExitGo, valObj, keyObj types.Object) (bad string, path []string, sends []*ast.SendStmt) {
	gf := g.gf
	info := gf.Info()
	isSignal := func(snd *ast.SendStmt) bool {
		ch := m.keyChan(info, snd.Chan)
		return ch != nil && m.exitCh[ch] && g.resolve(info, snd.Value) == keyObj
	}
	st := &kit.Std{F: gf}
	st.OnCall = func(call *ast.CallExpr, n ast.Node, s kit.S) []kit.S {
		if rx, ok := m.isRunCall(gf, call); ok && g.resolve(info, rx) == valObj {
			if _, isDefer := n.(*ast.DeferStmt); isDefer {
				return nil
			}
			if s.Get("sig") == "1" && bad == "" {
				bad = "the key is sent on the exit channel before the client's run is called: the entry is deleted while the client runs"
			}
			return []kit.S{s.Set("ran", "1")}
		}
		return nil
	}
	st.OnNode = func(n ast.Node, s kit.S) []kit.S {
		switch x := n.(type) {
		case *ast.SendStmt:
			if isSignal(x) {
				if s.Get("ran") == "1" {
					sends = append(sends, x)
				}
				s = s.Set("sig", "1")
			}
		case *ast.DeferStmt:
			if df := gf.CalleeFunc(x.Call); df != nil && df.Lit != nil && df.Body != nil {
				dst := &kit.Std{F: df}
				var dsends []*ast.SendStmt
				dst.OnNode = func(dn ast.Node, ds kit.S) []kit.S {
					if snd, ok := dn.(*ast.SendStmt); ok && isSignal(snd) {
						dsends = append(dsends, snd)
						ds = ds.Set("sig", "1")
					}
					return []kit.S{ds}
				}
				dres := c.P.Graph(df).Run(kit.NewS(), dst.Client())
				all := len(dres.Exits) > 0 && !dres.Overflow
				for _, e := range dres.Exits {
					if e.State.Get("sig") != "1" {
						all = false
					}
				}
				if all {
					sends = append(sends, dsends...) // runs when the goroutine's function returns, i.e. after the run
					s = s.Set("dsig", "1")
				}
			}
		}
		return []kit.S{s}
	}
	res := c.P.Graph(gf).Run(kit.NewS(), st.Client())
	if res.Overflow {
		c.Fatalf("R3: state overflow in %s", gf.Name)
	}
	n := 0
	for _, e := range res.Exits {
		if e.Return == nil {
			continue // the process dies
		}
		n++
		if bad != "" {
			continue
		}
		if e.State.Get("sig") != "1" && e.State.Get("dsig") != "1" {
			if e.State.Get("ran") == "1" {
				bad = "after the client's run returned the goroutine can end without sending the key on an exit channel: the entry is never deleted and the client is never restarted"
			} else {
				bad = "the goroutine can end without sending the key on an exit channel"
			}
			path = res.PathTo(e)
		}
	}
	if n == 0 && bad == "" {
		bad = "the goroutine never returns"
	}
	return bad, path, sends
}

func c07R3(c *kit.Ctx, m *cmModel, r *kit.Rule) {
	for _, sto := range m.stores {
		f := sto.f
		info := f.Info()
		oPair := r.Ob(f, sto.stmt, "insertion ⇔ exit goroutine", "an iteration stores a client state iff it starts the goroutine that runs it (exactly once)")
		oSig := r.Ob(f, sto.stmt, "exit signal", "after the run returned the goroutine sends the insertion's key on an exit channel on every path")
		oVar := r.Ob(f, sto.stmt, "per-iteration capture", "key and state seen by the goroutine are the iteration's own, assigned once")
		keyObj := kit.ObjOf(info, sto.key)
		var valObj types.Object
		if sto.val != nil {
			if _, isID := ast.Unparen(sto.val).(*ast.Ident); isID {
				valObj = kit.ObjOf(info, sto.val)
			}
		}
		if !cmIsLocal(keyObj) || !cmIsLocal(valObj) {
			oPair.Undecided("stored key/value are not local variables")
			oSig.Undecided("stored key/value are not local variables")
			oVar.Undecided("stored key/value are not local variables")
			continue
		}
		var mine []*c07ExitGo
		for _, g := range c07ExitGoroutines(m, f) {
			for _, call := range g.gf.AllCalls(false) {
				if rx, ok := m.isRunCall(g.gf, call); ok && g.resolve(g.gf.Info(), rx) == valObj {
					mine = append(mine, g)
					break
				}
			}
		}
		if len(mine) == 0 {
			oPair.Violation("no goroutine started in %s runs the stored client state `%s`", f.Name, valObj.Name())
			oSig.Violation("no exit goroutine")
			oVar.OK("n/a")
			continue
		}
		isMine := map[ast.Node]*c07ExitGo{}
		for _, g := range mine {
			isMine[g.stmt] = g
			c.Analysed(g.gf)
		}
		// (a) pairing inside the iteration
		st := &kit.Std{F: f}
		bad := ""
		var badExit *kit.Exit
		check := func(s kit.S, where string) {
			g, t := s.Get("go"), s.Get("st")
			if bad != "" {
				return
			}
			switch {
			case g == "2+":
				bad = "the exit goroutine can be started twice for one insertion (" + where + ")"
			case t == "2+":
				bad = "two insertions in one iteration (" + where + ")"
			case g == "1" && t == "":
				bad = "a client is started but not recorded in the map (" + where + "): the next scan starts a second client for the same placement"
			case g == "" && t == "1":
				bad = "a client state is recorded in the map without starting the goroutine that runs it and signals its exit (" + where + ")"
			}
		}
		inc := func(s kit.S, k string) kit.S {
			if s.Get(k) == "" {
				return s.Set(k, "1")
			}
			return s.Set(k, "2+")
		}
		st.OnNode = func(n ast.Node, s kit.S) []kit.S {
			if isMine[n] != nil {
				s = inc(s, "go")
			}
			if n == ast.Node(sto.stmt) {
				s = inc(s, "st")
			}
			return []kit.S{s}
		}
		st.OnBranch = func(br kit.Branch, s kit.S) (t, fl []kit.S, handled bool) {
			if br.Kind != kit.BrRange || br.Range != sto.loop {
				return nil, nil, false
			}
			check(s, "end of an iteration")
			s = s.Del("go").Del("st")
			return []kit.S{s}, []kit.S{s}, true
		}
		res := c.P.Graph(f).Run(kit.NewS(), st.Client())
		if res.Overflow {
			c.Fatalf("R3: state overflow in %s", f.Name)
		}
		for i := range res.Exits {
			e := res.Exits[i]
			was := bad
			check(e.State, "function exit at "+c07ExitAt(f, e))
			if was == "" && bad != "" {
				badExit = &res.Exits[i]
			}
		}
		if bad != "" {
			ob := oPair.Violation("%s", bad)
			if badExit != nil {
				ob.WithPath(res.PathTo(*badExit))
			}
		} else {
			oPair.OK("go statement and map store lie on the same paths of the iteration")
		}
		// (b) goroutine bodies
		sigBad := ""
		var sigPath []string
		for _, g := range mine {
			b, p, _ := c07GoFlow(c, m, g, valObj, keyObj)
			if b != "" && sigBad == "" {
				sigBad, sigPath = g.gf.Name+": "+b, p
			}
		}
		if sigBad != "" {
			oSig.Violation("%s", sigBad).WithPath(sigPath)
		} else {
			oSig.OK("run of `%s`, then `%s` sent on %s on every path", valObj.Name(), keyObj.Name(), m.exitNames())
		}
		// (c) per-iteration variables
		varBad := ""
		for _, vo := range []types.Object{keyObj, valObj} {
			if cmAssignCount(f, vo) != 1 {
				varBad = "`" + vo.Name() + "` is assigned more than once; the goroutine may observe another value than the one stored"
				break
			}
			if sto.loop != nil {
				inBody := sto.loop.Body.Pos() <= vo.Pos() && vo.Pos() < sto.loop.Body.End()
				inLoop := sto.loop.Pos() <= vo.Pos() && vo.Pos() < sto.loop.End()
				passed := false
				for _, g := range mine {
					for _, b := range g.bind {
						if b == vo {
							passed = true
						}
					}
				}
				switch {
				case inBody || passed:
				case inLoop && cmPerIterationLoopVars(f):
				default:
					varBad = "`" + vo.Name() + "` is shared between iterations (declared outside the loop body) and captured by the goroutine: it sends the key of a later iteration"
				}
			}
		}
		if varBad != "" {
			oVar.Violation("%s", varBad)
		} else {
			oVar.OK("`%s` and `%s` are declared in the loop body and assigned once", keyObj.Name(), valObj.Name())
		}
	}
}

func c07ExitAt(f *kit.Func, e kit.Exit) string {
	if e.Return != nil {
		return f.At(e.Return)
	}
	if n := len(e.Block.Nodes); n > 0 {
		return f.At(e.Block.Nodes[n-1])
	}
	return f.Name
}

// cmPerIterationLoopVars: the module's go directive is >= 1.22.
func cmPerIterationLoopVars(f *kit.Func) bool {
	if f.Pkg.Module == nil {
		return false
	}
	var maj, min int
	if _, err := fmt.Sscanf(f.Pkg.Module.GoVersion, "%d.%d", &maj, &min); err != nil {
		return false
	}
	return maj > 1 || (maj == 1 && min >= 22)
}

// ---------------------------------------------------------------------------
// R4 single deleter

func c07R4(c *kit.Ctx, m *cmModel, r *kit.Rule) {
	// exit goroutines of the whole package and the sends their flows accepted
	accepted := map[*ast.SendStmt]string{}
	for _, sto := range m.stores {
		info := sto.f.Info()
		keyObj := kit.ObjOf(info, sto.key)
		var valObj types.Object
		if sto.val != nil {
			valObj = kit.ObjOf(info, sto.val)
		}
		if keyObj == nil || valObj == nil {
			continue
		}
		for _, g := range c07ExitGoroutines(m, sto.f) {
			_, _, sends := c07GoFlow(c, m, g, valObj, keyObj)
			for _, s := range sends {
				accepted[s] = "exit goroutine " + g.gf.Name + " after the run returned"
			}
		}
	}
	for _, f := range c.P.Funcs("client") {
		if f.Body == nil {
			continue
		}
		info := f.Info()
		cmOwn(f.Body, func(n ast.Node) bool {
			switch x := n.(type) {
			case *ast.CallExpr:
				if len(x.Args) == 0 || !m.isMapExpr(info, x.Args[0]) {
					return true
				}
				switch {
				case cmIsBuiltin(info, x, "clear"):
					r.Ob(f, x, "clear of the client-state map", "entries leave the map only one by one, on their exit signal").
						Violation("the map is cleared while the clients it holds may still run; the next scan starts second clients for the same placements")
				case cmIsBuiltin(info, x, "delete") && len(x.Args) == 2:
					c.Analysed(f)
					o := r.Ob(f, x, "delete from the client-state map", "only in the select case that received this key from an exit channel")
					cc := cmEnclosingClause(f, x)
					var kc *cmKeyClause
					for _, k := range m.keyClauses() {
						if k.cc == cc && cc != nil {
							k := k
							kc = &k
						}
					}
					switch {
					case kc == nil:
						o.Violation("`%s` is not inside a select case that receives the key of an exited client: the entry disappears while its client may still be running, and the next scan starts a second one", f.Str(x))
					case kit.ObjOf(info, x.Args[1]) != kc.key:
						o.Violation("`%s` deletes another key than the one received in this case (`%s`)", f.Str(x), kc.key.Name())
					case cmAssignCount(f.Root(), kc.key) != 1:
						o.Violation("the received key `%s` is reassigned before the delete", kc.key.Name())
					default:
						o.OK("in `case %s`", f.Str(kc.cc.Comm))
					}
				}
			case *ast.AssignStmt:
				for _, l := range x.Lhs {
					if m.isMapExpr(info, l) {
						r.Ob(f, x, "replacement of the client-state map", "entries leave the map only one by one, on their exit signal").
							Violation("`%s` replaces the map while the clients it holds may still run", f.Str(x))
					}
				}
			case *ast.SendStmt:
				ch := m.keyChan(info, x.Chan)
				if ch == nil || !m.exitCh[ch] {
					return true
				}
				c.Analysed(f)
				o := r.Ob(f, x, "send on exit channel "+ch.Name(), "sent only by the exit goroutine after its run returned, or by a case forwarding the key it received")
				if why, ok := accepted[x]; ok {
					o.OK("%s", why)
					return true
				}
				if cc := cmEnclosingClause(f, x); cc != nil {
					for _, k := range m.keyClauses() {
						if k.cc == cc && kit.ObjOf(info, x.Value) == k.key && cmAssignCount(f.Root(), k.key) == 1 {
							o.OK("forwards the key received in `case %s`", f.Str(cc.Comm))
							return true
						}
					}
				}
				o.Violation("`%s` makes the manager delete the entry of a client that has not signalled its exit", f.Str(x))
			}
			return true
		})
		// sends inside literals are visited when the literal itself is iterated (Funcs lists literals)
	}
}

// ---------------------------------------------------------------------------
// R5 removal pass

func c07R5(c *kit.Ctx, m *cmModel, r *kit.Rule) {
	seenF := map[*kit.Func]bool{}
	for _, sto := range m.stores {
		f := sto.f
		if seenF[f] {
			continue
		}
		seenF[f] = true
		info := f.Info()
		keyObj := kit.ObjOf(info, sto.key)
		if sto.loop == nil {
			r.Ob(f, sto.stmt, "start loop", "the insertion happens in a loop over the listing").Undecided("the map store is not inside a range loop")
			continue
		}
		// activations: the listing is produced in this function, or handed in by the callers
		// (scan/update split); R7 judges the functions it passes through
		acts, actUndec := c07Activations(c, f, sto.loop)
		if actUndec != "" {
			r.Ob(f, sto.loop, "listing", "the start loop ranges over the result of a listing call of this function or of its callers").Undecided("%s", actUndec)
			continue
		}
		// removal loop: range over the map whose body calls stop on the value
		var rem *ast.RangeStmt
		var remKey, remVal types.Object
		isRemStop := func(call *ast.CallExpr, rs *ast.RangeStmt) bool {
			rx, ok := m.isStopCall(f, call)
			if !ok {
				return false
			}
			var k, v types.Object
			if rs.Key != nil {
				k = kit.ObjOf(info, rs.Key)
			}
			if rs.Value != nil {
				v = kit.ObjOf(info, rs.Value)
			}
			if v != nil && kit.ObjOf(info, rx) == v {
				if _, isID := ast.Unparen(rx).(*ast.Ident); isID {
					return true
				}
			}
			if ix, ok := ast.Unparen(rx).(*ast.IndexExpr); ok && m.isMapExpr(info, ix.X) && k != nil && kit.ObjOf(info, ix.Index) == k {
				return true
			}
			return false
		}
		cmOwn(f.Body, func(n ast.Node) bool {
			rs, ok := n.(*ast.RangeStmt)
			if !ok || !m.isMapExpr(info, rs.X) {
				return true
			}
			has := false
			cmOwn(rs.Body, func(x ast.Node) bool {
				if call, ok := x.(*ast.CallExpr); ok && isRemStop(call, rs) {
					has = true
				}
				return true
			})
			if has {
				rem = rs
				if rs.Key != nil {
					remKey = kit.ObjOf(info, rs.Key)
				}
				if rs.Value != nil {
					remVal = kit.ObjOf(info, rs.Value)
				}
			}
			return true
		})
		_ = remVal
		// found set: local map indexed by the removal loop's key in its guard
		var foundVar types.Object
		if rem != nil && remKey != nil {
			cmOwn(rem.Body, func(n ast.Node) bool {
				if ix, ok := n.(*ast.IndexExpr); ok && kit.ObjOf(info, ix.Index) == remKey {
					if fv := kit.ObjOf(info, ix.X); fv != nil && cmIsLocal(fv) {
						if _, isMap := fv.Type().Underlying().(*types.Map); isMap {
							foundVar = fv
						}
					}
				}
				return true
			})
		}
		isFoundIx := func(e ast.Expr, key types.Object) bool {
			ix, ok := ast.Unparen(e).(*ast.IndexExpr)
			return ok && foundVar != nil && kit.ObjOf(info, ix.X) == foundVar && key != nil && kit.ObjOf(info, ix.Index) == key
		}
		// comma-ok lookups of the found set in the removal loop
		okVars := map[types.Object]bool{}
		lookups := map[ast.Node]bool{}
		valueGuard := false // the guard reads the stored boolean instead of the comma-ok presence
		if rem != nil {
			commaOK := map[ast.Expr]bool{}
			cmOwn(rem.Body, func(n ast.Node) bool {
				if as, ok := n.(*ast.AssignStmt); ok && len(as.Rhs) == 1 && len(as.Lhs) == 2 && isFoundIx(as.Rhs[0], remKey) {
					commaOK[ast.Unparen(as.Rhs[0])] = true
					if ov := kit.ObjOf(info, as.Lhs[1]); ov != nil && cmAssignCount(f, ov) == 1 {
						okVars[ov] = true
						lookups[as] = true
					}
				}
				return true
			})
			cmOwn(rem.Body, func(n ast.Node) bool {
				if e, ok := n.(ast.Expr); ok && isFoundIx(e, remKey) && !commaOK[ast.Unparen(e)] {
					if _, isIx := e.(*ast.IndexExpr); isIx {
						valueGuard = true
					}
				}
				return true
			})
		}
		keyDef := cmSingleDef(f, keyObj)
		keyEquiv := func(e ast.Expr) bool {
			if _, isID := ast.Unparen(e).(*ast.Ident); isID && kit.ObjOf(info, e) == keyObj {
				return true
			}
			return keyDef != nil && kit.SameExpr(info, e, keyDef)
		}

		st := &kit.Std{F: f}
		st.ErrTag = func(call *ast.CallExpr, s kit.S) string {
			for _, a := range acts {
				if a.caller == nil && call == a.chain.listCall {
					return "list"
				}
			}
			return ""
		}
		st.OnErrEdge = func(tag string, isErr bool, s kit.S) (kit.S, bool) {
			if tag == "list" && !isErr {
				return s.Set("listed", "1"), true
			}
			return s, true
		}
		st.Eval.Atom = func(e ast.Expr) (string, bool, bool) {
			e = ast.Unparen(e)
			if id, ok := e.(*ast.Ident); ok && okVars[kit.ObjOf(info, id)] {
				return "found", false, true
			}
			if isFoundIx(e, remKey) {
				if b, ok := info.TypeOf(e).Underlying().(*types.Basic); ok && b.Info()&types.IsBoolean != 0 {
					return "found", false, true
				}
			}
			return "", false, false
		}
		iterBad, stopBad, foundBad := "", "", ""
		nFoundStores := 0
		st.OnCall = func(call *ast.CallExpr, n ast.Node, s kit.S) []kit.S {
			if rem != nil && isRemStop(call, rem) && s.Has("rit") {
				if s.Get("a:found") != "F" && stopBad == "" {
					if s.Get("a:found") == "T" {
						stopBad = "a client whose key IS among the listed nodes is stopped (inverted guard): live clients are stopped on every scan"
					} else {
						stopBad = "a client is stopped without establishing that its key is missing from the listed nodes: live clients are stopped on every scan"
					}
				}
				return []kit.S{s.Set("rit", "1")}
			}
			return nil
		}
		st.OnNode = func(n ast.Node, s kit.S) []kit.S {
			if lookups[n] {
				s = s.Del("a:found")
			}
			if as, ok := n.(*ast.AssignStmt); ok && s.Has("fs") {
				for i, l := range as.Lhs {
					ix, ok := ast.Unparen(l).(*ast.IndexExpr)
					if !ok || foundVar == nil || kit.ObjOf(info, ix.X) != foundVar || !keyEquiv(ix.Index) {
						continue
					}
					if valueGuard && len(as.Lhs) == len(as.Rhs) {
						if tv, ok := info.Types[as.Rhs[i]]; !ok || tv.Value == nil || tv.Value.String() != "true" {
							continue
						}
					}
					nFoundStores++
					s = s.Set("fs", "1")
				}
			}
			return []kit.S{s}
		}
		st.OnBranch = func(br kit.Branch, s kit.S) (t, fl []kit.S, handled bool) {
			if br.Kind != kit.BrRange {
				return nil, nil, false
			}
			switch br.Range {
			case sto.loop:
				if s.Get("fs") == "0" && foundBad == "" {
					foundBad = "an iteration over the listed nodes can end without entering the node's key in the set of listed keys: its running client is stopped by the removal loop"
				}
				return []kit.S{s.Set("fs", "0")}, []kit.S{s.Del("fs")}, true
			case rem:
				if s.Get("rit") == "0" && s.Get("a:found") != "T" && iterBad == "" {
					iterBad = "an iteration of the removal loop can end without stopping a client whose key is not among the listed nodes"
				}
				s = s.Del("a:found")
				return []kit.S{s.Set("rit", "0")}, []kit.S{s.Del("rit").Set("removed", "1")}, true
			}
			return nil, nil, false
		}
		// (1) nil exits after a successful listing, per activation
		type verdict struct {
			bad  string
			exit kit.Exit
		}
		anyPrunes := false
		for _, act := range acts {
			init := kit.NewS()
			label := ""
			if act.caller != nil {
				// the callers list (and test the error) before handing the listing in
				init = init.Set("listed", "1")
				for po, v := range act.consts {
					init = init.Set("v:"+kit.VarID(po), v)
				}
				label = "activation " + act.label + ": "
			}
			res := c.P.Graph(f).Run(init, st.Client())
			if res.Overflow {
				c.Fatalf("R5: state overflow in %s", f.Name)
			}
			per := map[*ast.ReturnStmt]*verdict{}
			var order []*ast.ReturnStmt
			nRemoved := 0
			for _, e := range res.Exits {
				if e.Return == nil || e.State.Get("listed") != "1" {
					continue
				}
				if st.ReturnsNil(e.Return, e.State) == "nonnil" {
					continue
				}
				v := per[e.Return]
				if v == nil {
					v = &verdict{}
					per[e.Return] = v
					order = append(order, e.Return)
				}
				if e.State.Get("removed") == "1" {
					nRemoved++
				} else if v.bad == "" {
					switch {
					case rem == nil:
						v.bad = "there is no loop over the client-state map that stops the clients whose key was not listed"
					case e.State.Has("rit"):
						v.bad = "the removal loop is left early (return or break inside the loop); the remaining clients of vanished nodes keep running"
					default:
						v.bad = "returns success without having run the loop that stops clients whose node was not listed: the client of a node that vanished keeps running"
					}
					v.exit = e
				}
			}
			if len(order) == 0 {
				r.Ob(f, nil, label+"nil exits", "the scan has a success exit").Undecided("no exit returning nil after a successful listing was found")
				continue
			}
			nBad := 0
			for _, ret := range order {
				if per[ret].bad != "" {
					nBad++
				}
			}
			if len(acts) > 1 && nRemoved == 0 && nBad == len(order) {
				// an activation that never prunes (a partial listing handed in by a caller): allowed as long as another activation prunes
				r.Ob(f, act.call, label+"no removal", "an activation either completes the removal loop before every success exit or never enters it").
					OK("never reaches the removal loop (%s)", c07ConstsStr(act))
				continue
			}
			anyPrunes = anyPrunes || nBad == 0
			for _, ret := range order {
				v := per[ret]
				o := r.Ob(f, ret, label+"exit "+retKey(f, ret), "after a successful listing, success is returned only once the removal loop has completed")
				if v.bad != "" {
					o.Violation("%s", v.bad).WithPath(res.PathTo(v.exit))
				} else {
					o.OK("removal loop completed before this exit")
				}
			}
		}
		if len(acts) > 1 {
			o := r.Ob(f, sto.loop, "pruning activation", "at least one activation of the start function completes the removal loop")
			if anyPrunes {
				o.OK("an activation completes the removal loop on every success exit")
			} else {
				o.Violation("no caller of %s lets it reach the loop that stops the clients of vanished nodes: clients of deleted nodes keep running", f.Name)
			}
		}
		// (2) removal loop iterations
		if rem != nil {
			o := r.Ob(f, rem, "removal loop iteration", "each iteration stops the client iff its key is not in the set of listed keys")
			switch {
			case foundVar == nil:
				o.Violation("the removal loop does not consult a set of listed keys: %s", c07Nz(stopBad, "every client is stopped on every scan"))
			case stopBad != "":
				o.Violation("%s", stopBad)
			case iterBad != "":
				o.Violation("%s", iterBad)
			default:
				o.OK("guard on `%s[%s]`, stop on the absent edge", foundVar.Name(), remKey.Name())
			}
			// (3) found set complete
			o3 := r.Ob(f, sto.loop, "set of listed keys", "every listed node's key is entered before the iteration ends")
			switch {
			case foundVar == nil:
				o3.Violation("no set of listed keys")
			case foundBad != "":
				o3.Violation("%s", foundBad)
			case nFoundStores == 0:
				o3.Violation("the key of the insertion is never entered into `%s`", foundVar.Name())
			default:
				o3.OK("`%s[%s] = …` on every path of the iteration", foundVar.Name(), keyObj.Name())
			}
		}
	}
}

func c07Nz(s, d string) string {
	if s == "" {
		return d
	}
	return s
}

// ---------------------------------------------------------------------------
// R6 stop idempotent and complete

func c07R6(c *kit.Ctx, m *cmModel, r *kit.Rule) {
	// (a) every close of a client state's stop channel
	for _, f := range c.P.Funcs("client") {
		if f.Body == nil {
			continue
		}
		info := f.Info()
		cmOwn(f.Body, func(n ast.Node) bool {
			call, ok := n.(*ast.CallExpr)
			if !ok || !cmIsBuiltin(info, call, "close") || len(call.Args) != 1 {
				return true
			}
			if fv := cmField(info, call.Args[0]); fv != m.csStopCh {
				return true
			}
			c.Analysed(f)
			o := r.Ob(f, call, "close of the client state's stop channel", "only inside sync.Once.Do of the same client state")
			okOnce := false
			if f.Lit != nil && f.Outer != nil {
				if doCall, isCall := c.P.Parent(f.File, f.Lit).(*ast.CallExpr); isCall && m.isOnceClose(f.Outer, doCall) {
					// the close must be executed unconditionally at most once per Do: being inside the literal suffices
					okOnce = true
				}
			}
			if okOnce {
				o.OK("inside `%s`", trunc160(f.Outer.Str(c.P.Parent(f.File, f.Lit))))
			} else {
				o.Violation("`%s` is not guarded by the state's sync.Once: stop is called from the subscription handler, the removal loop and the manager's stop case, the second call panics (close of closed channel)", f.Str(call))
			}
			return true
		})
	}
	for _, sf := range m.stopM {
		c.Analysed(sf)
		o := r.Ob(sf, nil, "client state stop", "closes the stop channel (through the Once) on every path")
		if alwaysCalls(sf, func(call *ast.CallExpr) bool { return m.isOnceClose(sf, call) }) {
			o.OK("Once.Do(close(%s)) on every path", m.csStopCh.Name())
		} else {
			o.Violation("stop can return without closing the state's stop channel through its sync.Once: the client keeps running after the manager or a scan asked it to stop")
		}
	}

	// (b) the manager's stop case
	f := m.mainF
	info := f.Info()
	c.Analysed(f)
	g := c.P.Graph(f)
	mkAtom := func(e ast.Expr) (string, bool, bool) {
		if emptyWhenTrue, ok := m.cmLenAtom(info, e); ok {
			return "empty", !emptyWhenTrue, true
		}
		return "", false, false
	}
	stopOnValue := func(call *ast.CallExpr, rs *ast.RangeStmt) bool {
		rx, ok := m.isStopCall(f, call)
		if !ok || rs == nil {
			return false
		}
		if rs.Value != nil {
			if _, isID := ast.Unparen(rx).(*ast.Ident); isID && kit.ObjOf(info, rx) == kit.ObjOf(info, rs.Value) {
				return true
			}
		}
		if ix, ok := ast.Unparen(rx).(*ast.IndexExpr); ok && rs.Key != nil && m.isMapExpr(info, ix.X) && kit.ObjOf(info, ix.Index) == kit.ObjOf(info, rs.Key) {
			return true
		}
		return false
	}
	{
		o := r.Ob(f, m.stopClause, "manager stop case", "stops every client state in the map (or the map is empty)")
		st := &kit.Std{F: f}
		st.Eval.Atom = mkAtom
		missed := ""
		st.OnCall = func(call *ast.CallExpr, n ast.Node, s kit.S) []kit.S {
			if rs := cmEnclosingRange(f, call); rs != nil && m.isMapExpr(info, rs.X) && s.Has("it") && stopOnValue(call, rs) {
				return []kit.S{s.Set("it", "1")}
			}
			return nil
		}
		st.OnBranch = func(br kit.Branch, s kit.S) (t, fl []kit.S, handled bool) {
			if br.Kind != kit.BrRange || !m.isMapExpr(info, br.Range.X) {
				return nil, nil, false
			}
			if s.Get("it") == "0" && missed == "" {
				missed = "an iteration over the client states can end without calling stop on the value"
			}
			// the exit edge is taken only when every entry has been visited
			return []kit.S{s.Set("it", "0")}, []kit.S{s.Del("it").Set("all", "1")}, true
		}
		res, leaves := cmClauseFlow(g, m.mainSel, m.stopClause, kit.NewS(), st.Client())
		bad := ""
		if res == nil || res.Overflow {
			c.Fatalf("R6: cannot run the stop case of %s", f.Name)
		}
		chk := func(s kit.S, where string) {
			if bad != "" {
				return
			}
			if s.Get("it") == "0" {
				bad = "the loop over the client states is left early (" + where + "): the remaining clients are not stopped"
				return
			}
			if s.Get("all") != "1" && s.Get("a:empty") != "T" {
				bad = "the stop case can finish (" + where + ") without stopping the clients in the map and without knowing the map is empty"
			}
		}
		for _, l := range leaves {
			chk(l.s, "continuing at "+f.At(l.n))
		}
		for _, e := range res.Exits {
			if e.Return != nil {
				chk(e.State, "return at "+f.At(e.Return))
			}
		}
		switch {
		case missed != "":
			o.Violation("%s", missed)
		case bad != "":
			o.Violation("%s", bad)
		case len(leaves)+len(res.Exits) == 0:
			o.Undecided("no path leaves the stop case")
		default:
			o.OK("range over %s with stop on every value; other paths know the map is empty", m.mgrMap.Name())
		}
	}

	// (c) the main loop is left only with an empty map or in the guard-timer case
	{
		o := r.Ob(f, m.mainSel, "main loop exit", "the manager returns only when the map is empty or the guard timer fired")
		st := &kit.Std{F: f}
		st.Eval.Atom = mkAtom
		classify := func(cc *ast.CommClause) string {
			if cc.Comm == nil {
				return "default"
			}
			ch, _, ok := cmRecvComm(cc.Comm)
			if !ok {
				return "other"
			}
			if cc == m.stopClause {
				return "stop"
			}
			if sel, ok := ast.Unparen(ch).(*ast.SelectorExpr); ok && sel.Sel.Name == "C" && kit.IsNamedType(info.TypeOf(sel.X), "time", "Timer") {
				if _, isID := ast.Unparen(sel.X).(*ast.Ident); isID {
					return "timer"
				}
			}
			return "other"
		}
		st.OnBranch = func(br kit.Branch, s kit.S) (t, fl []kit.S, handled bool) {
			if br.Kind != kit.BrSelect || !cmWithin(br.Comm, m.mainSel) || cmEnclosingSelect(f, br.Comm) != m.mainSel {
				return nil, nil, false
			}
			return []kit.S{s.Set("case", classify(br.Comm)).Set("loop", "1").Del("a:empty")}, []kit.S{s}, true
		}
		st.OnCall = func(call *ast.CallExpr, n ast.Node, s kit.S) []kit.S {
			if !s.Has("a:empty") {
				return nil
			}
			if cmIsBuiltin(info, call, "len") || cmIsBuiltin(info, call, "cap") {
				return nil
			}
			if cmIsBuiltin(info, call, "delete") || cmIsBuiltin(info, call, "clear") {
				if len(call.Args) > 0 && m.isMapExpr(info, call.Args[0]) {
					return []kit.S{s.Del("a:empty")}
				}
				return nil
			}
			if cmIsLibraryCall(info, call) {
				return nil
			}
			return []kit.S{s.Del("a:empty")} // module function, closure or func value: may change the map
		}
		st.OnNode = func(n ast.Node, s kit.S) []kit.S {
			if as, ok := n.(*ast.AssignStmt); ok {
				for _, l := range as.Lhs {
					if ix, ok := ast.Unparen(l).(*ast.IndexExpr); ok && m.isMapExpr(info, ix.X) {
						s = s.Del("a:empty")
					}
					if m.isMapExpr(info, l) {
						s = s.Del("a:empty")
					}
				}
			}
			return []kit.S{s}
		}
		res := g.Run(kit.NewS(), st.Client())
		if res.Overflow {
			c.Fatalf("R6: state overflow in %s", f.Name)
		}
		n := 0
		bad := ""
		var badExit kit.Exit
		for _, e := range res.Exits {
			if e.Return == nil || e.State.Get("loop") != "1" {
				continue
			}
			n++
			if e.State.Get("case") == "timer" || e.State.Get("a:empty") == "T" {
				continue
			}
			if bad == "" {
				bad = fmt.Sprintf("the manager can return from the %s case without knowing that the client-state map is empty: clients are still running (or stopping) when Run returns", e.State.Get("case"))
				badExit = e
			}
		}
		switch {
		case bad != "":
			o.Violation("%s", bad).WithPath(res.PathTo(badExit))
		case n == 0:
			o.Undecided("the main loop has no exit")
		default:
			o.OK("every exit of the select loop follows `len(%s)` = 0 or the timer case", m.mgrMap.Name())
		}
	}

	// (d) run returns only after the stop request was forwarded to the client,
	// or after the client's own Run has returned
	for _, rf := range m.runM {
		c.Analysed(rf)
		rinfo := rf.Info()
		o := r.Ob(rf, nil, "client state run", "returns only after the client's Run returned, or after receiving from the stop channel and calling the client's Stop")
		done := c07DoneChans(c, m, rf)
		recvOf := func(e ast.Expr) (stop, fin bool) {
			u, ok := ast.Unparen(e).(*ast.UnaryExpr)
			if !ok || u.Op != token.ARROW {
				return false, false
			}
			if cmField(rinfo, u.X) == m.csStopCh {
				return true, false
			}
			if _, isID := ast.Unparen(u.X).(*ast.Ident); isID && done[kit.ObjOf(rinfo, u.X)] {
				return false, true
			}
			return false, false
		}
		mark := func(s kit.S, e ast.Expr) kit.S {
			stop, fin := recvOf(e)
			if stop {
				s = s.Set("rx", "1")
			}
			if fin {
				s = s.Set("fin", "1")
			}
			return s
		}
		st := &kit.Std{F: rf}
		st.OnNode = func(n ast.Node, s kit.S) []kit.S {
			// plain receive statements; select comms sit in the select header and are handled by OnBranch
			if es, ok := n.(*ast.ExprStmt); ok && !cmIsSelectComm(rf, es) {
				s = mark(s, es.X)
			}
			if as, ok := n.(*ast.AssignStmt); ok && len(as.Rhs) == 1 && !cmIsSelectComm(rf, as) {
				s = mark(s, as.Rhs[0])
			}
			return []kit.S{s}
		}
		st.OnBranch = func(br kit.Branch, s kit.S) (t, fl []kit.S, handled bool) {
			if br.Kind != kit.BrSelect || br.Comm.Comm == nil {
				return nil, nil, false
			}
			if ch, _, ok := cmRecvComm(br.Comm.Comm); ok {
				s2 := mark(s, &ast.UnaryExpr{Op: token.ARROW, X: ch})
				return []kit.S{s2}, []kit.S{s}, true
			}
			return nil, nil, false
		}
		st.OnCall = func(call *ast.CallExpr, n ast.Node, s kit.S) []kit.S {
			if x, ok := m.ifaceCall(rinfo, call, "Stop"); ok && cmField(rinfo, x) == m.csClient && s.Get("rx") == "1" {
				return []kit.S{s.Set("fwd", "1")}
			}
			return nil
		}
		res := c.P.Graph(rf).Run(kit.NewS(), st.Client())
		if res.Overflow {
			c.Fatalf("R6: state overflow in %s", rf.Name)
		}
		bad := ""
		var badExit kit.Exit
		n := 0
		for _, e := range res.Exits {
			if e.Return == nil {
				continue
			}
			n++
			if bad != "" || e.State.Get("fin") == "1" {
				continue
			}
			switch {
			case e.State.Get("rx") != "1":
				bad = "run can return while the client is running and no stop was requested: the exit signal deletes the entry and a second client is started for the same placement"
				badExit = e
			case e.State.Get("fwd") != "1":
				bad = "run can return after the stop request without calling the client's Stop: the client keeps running while its entry is deleted"
				badExit = e
			}
		}
		switch {
		case bad != "":
			o.Violation("%s", bad).WithPath(res.PathTo(badExit))
		case n == 0:
			o.Undecided("run has no return")
		default:
			o.OK("every return follows a receive from %s plus Stop on the client, or the end of the client's Run", m.csStopCh.Name())
		}
	}
}

// c07DoneChans returns the local channels of rf on which a receive proves that
// the client's Run has returned: every close of / send on the channel inside
// rf lies in a goroutine literal at a point dominated by the return of the
// interface's Run call.
func c07DoneChans(c *kit.Ctx, m *cmModel, rf *kit.Func) map[types.Object]bool {
	info := rf.Info()
	after := map[types.Object]int{}  // signalled after Run returned
	other := map[types.Object]bool{} // signalled elsewhere
	chanOf := func(n ast.Node) types.Object {
		var e ast.Expr
		switch x := n.(type) {
		case *ast.SendStmt:
			e = x.Chan
		case *ast.CallExpr:
			if cmIsBuiltin(info, x, "close") && len(x.Args) == 1 {
				e = x.Args[0]
			}
		}
		if e == nil {
			return nil
		}
		if _, isID := ast.Unparen(e).(*ast.Ident); !isID {
			return nil
		}
		if o := kit.ObjOf(info, e); o != nil && cmIsLocal(o) && cmIsChan(o.Type()) {
			return o
		}
		return nil
	}
	var lits []*kit.Func
	cmOwn(rf.Body, func(n ast.Node) bool {
		if o := chanOf(n); o != nil {
			other[o] = true
		}
		if gs, ok := n.(*ast.GoStmt); ok {
			if gl := rf.CalleeFunc(gs.Call); gl != nil && gl.Lit != nil {
				lits = append(lits, gl)
			}
		}
		return true
	})
	for _, gl := range lits {
		st := &kit.Std{F: gl}
		st.OnCall = func(call *ast.CallExpr, n ast.Node, s kit.S) []kit.S {
			if x, ok := m.ifaceCall(info, call, "Run"); ok && cmField(info, x) == m.csClient {
				return []kit.S{s.Set("ran", "1")}
			}
			if o := chanOf(call); o != nil {
				if s.Get("ran") == "1" {
					after[o]++
				} else {
					other[o] = true
				}
			}
			return nil
		}
		st.OnNode = func(n ast.Node, s kit.S) []kit.S {
			if o := chanOf(n); o != nil {
				if s.Get("ran") == "1" {
					after[o]++
				} else {
					other[o] = true
				}
			}
			return []kit.S{s}
		}
		c.P.Graph(gl).Run(kit.NewS(), st.Client())
		// signals in literals nested deeper are not understood
		for _, call := range gl.AllCalls(true) {
			_ = call
		}
		ast.Inspect(gl.Body, func(n ast.Node) bool {
			if l, ok := n.(*ast.FuncLit); ok && l != gl.Lit {
				ast.Inspect(l.Body, func(x ast.Node) bool {
					if o := chanOf(x); o != nil {
						other[o] = true
					}
					return true
				})
				return false
			}
			return true
		})
	}
	// literals of rf that are not go-launched
	ast.Inspect(rf.Body, func(n ast.Node) bool {
		l, ok := n.(*ast.FuncLit)
		if !ok {
			return true
		}
		for _, gl := range lits {
			if gl.Lit == l {
				return false
			}
		}
		ast.Inspect(l.Body, func(x ast.Node) bool {
			if o := chanOf(x); o != nil {
				other[o] = true
			}
			return true
		})
		return false
	})
	out := map[types.Object]bool{}
	for o, n := range after {
		if n > 0 && !other[o] {
			out[o] = true
		}
	}
	return out
}

func cmEnclosingSelect(f *kit.Func, cc *ast.CommClause) *ast.SelectStmt {
	var best *ast.SelectStmt
	cmOwn(f.Body, func(n ast.Node) bool {
		if sel, ok := n.(*ast.SelectStmt); ok {
			for _, cl := range sel.Body.List {
				if cl == ast.Stmt(cc) {
					best = sel
				}
			}
		}
		return true
	})
	return best
}

func cmIsSelectComm(f *kit.Func, s ast.Stmt) bool {
	_, ok := f.Prog.Parent(f.File, s).(*ast.CommClause)
	return ok
}
