package props

import (
	"fmt"
	"go/ast"
	"go/token"
	"go/types"
	"strings"

	"siotcheck/kit"
)

func init() {
	kit.Register(&kit.Prop{
		ID:    "C07",
		Title: "Exactly one running client per live configured node",
		Explanation: "Structural necessary conditions of the client manager, decided on every CFG path of the generic bodies of the manager and client-state types (DESIGN.md §3/C07): " +
			"R1 the store into the client-state map is reached only after a lookup of the same key answered 'absent' in the same loop iteration; " +
			"R2 a client state returned by the constructor is not dereferenced, captured, stored or passed on while its error is non-nil or untested, and the constructor returns a non-nil state whenever it returns a nil error; " +
			"R3 every iteration that stores a client state also starts exactly the goroutine that runs that state and, on every path after the run returned, sends the same per-iteration key on a channel whose receiving case deletes the entry; " +
			"R4 the entry of a key is deleted only in the select case that received that key from such a channel, every sender on these channels is the exit goroutine (after its run returned) or a case forwarding its received key, and the map is never cleared or replaced; " +
			"R5 every nil return of the scan after a successful listing has completed the loop over the map that stops each client whose key is not in the set of listed keys (and only those), and every listed key enters that set; " +
			"R7 every single-argument function the listing passes through before the start loop (and inside the listing helper) is the identity or a keyed de-duplication whose key includes every field of the manager's map key (Parent and ID), so a node keeps one entry per parent it appears under; " +
			"R8 the node handed to the client-state constructor is an element of a listing fetched in the same scan/restart activation (followed through the scan/update split into the callers), never the node kept in an existing client state, a manager field or a package variable; " +
			"R6 the stop channel of a client state is closed only inside sync.Once.Do of the same state, the manager's stop case stops every map value unless the map is empty, the main loop is left only with an empty map or in the guard-timer case, and the client state's run returns only after the stop request was received and forwarded to the client; " +
			"R9 the per-client subscription handler, evaluated (K4) on edge messages of one point and of two points (an ordinary edge point before or after), reaches the client state's stop on every path whenever the message holds a tombstone point (value 0 or 1) or a node-type point, for every author of the points (no origin, the client's own node, another node), on the client's own edge and on a descendant's; " +
			"R10 on every path of the main loop, whenever the manager arrives at its select without a stop request, a case that waits on a timer and performs the scan on every path is pending (a timer made by the select itself, or a reusable timer / ticker that was armed and not stopped, drained or fired since). " +
			"Interleavings of store events with scans, construction from current points, the 5 s stop time-outs and the length of the rescan period are not decided.",
		Assumptions: []string{
			"clients obey the Client contract: Run blocks until Stop is called and returns after it",
			"the client-state map is confined to the manager goroutine (scan and the select loop run on it); channel sends from other goroutines are the only cross-goroutine events",
			"NATS delivers the node-type / tombstone points that trigger a rescan",
			"non-atom conditions are treated as nondeterministic (both edges explored)",
			"R9 represents an edge message by one point, or by two points of which one is an ordinary edge point; a missed stop whose path passes a condition on the message the scenario does not decide is reported as undecided",
			"R10 takes every armed timer, ticker and time.After channel to deliver after a finite time; the length of the rescan period is not judged",
		},
		Run: runC07,
	})
}

func runC07(c *kit.Ctx) {
	m := newCmModel(c)
	c.Note("client state = %s, manager = %s, map = %s, stop channel = %s, exit channels = %s; constructors %d, run methods %d, stop methods %d",
		m.cs.Obj().Name(), m.mgr.Obj().Name(), m.mgrMap.Name(), m.mgrStopCh.Name(), m.exitNames(), len(m.ctors), len(m.runM), len(m.stopM))
	c07R1(c, m, c.Rule("R1", "start only when absent", 1))
	c07R2(c, m, c.Rule("R2", "failed construction is not used", 2))
	c07R3(c, m, c.Rule("R3", "exit signal paired with every map insertion", 3))
	c07R4(c, m, c.Rule("R4", "single deleter, fed only by exit signals", 3))
	c07R5(c, m, c.Rule("R5", "removal pass reached and exact", 3))
	c07R6(c, m, c.Rule("R6", "stop idempotent and complete", 5))
	c07R7(c, m, c.Rule("R7", "the listing keeps one entry per placement", 2))
	c07R8(c, m, c.Rule("R8", "a client is constructed from a node fetched in the same activation", 1))
	c07R9(c, m, c.Rule("R9", "a restart point stops the client whoever wrote it", 9))
	c07R10(c, m, c.Rule("R10", "a periodic rescan is pending whenever the manager waits", 2))
}

func (m *cmModel) exitNames() string {
	var ns []string
	for _, k := range m.mgrKeyCh {
		if m.exitCh[k] {
			ns = append(ns, k.Name())
		}
	}
	return strings.Join(ns, ",")
}

func cmIsLocal(o types.Object) bool {
	v, ok := o.(*types.Var)
	return ok && !v.IsField() && v.Pkg() != nil && v.Parent() != nil && v.Parent() != v.Pkg().Scope()
}

// ---------------------------------------------------------------------------
// R1 start only when absent

func c07R1(c *kit.Ctx, m *cmModel, r *kit.Rule) {
	// lookups of the client-state map anywhere in the package (helpers are inlined)
	type lookup struct {
		id  string
		key ast.Expr
		ok  types.Object
		val types.Object
	}
	lookups := map[ast.Node]*lookup{}
	okVars := map[types.Object]string{}
	valVars := map[types.Object]string{}
	for _, pf := range c.P.Funcs("client") {
		if pf.Body == nil {
			continue
		}
		pinfo := pf.Info()
		cmOwn(pf.Body, func(n ast.Node) bool {
			as, ok := n.(*ast.AssignStmt)
			if !ok || len(as.Rhs) != 1 || len(as.Lhs) > 2 {
				return true
			}
			ix, ok := ast.Unparen(as.Rhs[0]).(*ast.IndexExpr)
			if !ok || !m.isMapExpr(pinfo, ix.X) {
				return true
			}
			lk := &lookup{id: fmt.Sprintf("lk%d", as.Pos()), key: ix.Index}
			reg := func(e ast.Expr) types.Object {
				if v := kit.ObjOf(pinfo, e); v != nil && cmAssignCount(pf.Root(), v) == 1 {
					return v
				}
				return nil
			}
			if len(as.Lhs) == 2 {
				lk.val, lk.ok = reg(as.Lhs[0]), reg(as.Lhs[1])
			} else {
				lk.val = reg(as.Lhs[0])
			}
			if lk.ok != nil {
				okVars[lk.ok] = lk.id
			}
			if lk.val != nil {
				valVars[lk.val] = lk.id
			}
			lookups[as] = lk
			return true
		})
	}
	for _, sto := range m.stores {
		f := sto.f
		info := f.Info()
		c.Analysed(f)
		o := r.Ob(f, sto.stmt, "client-state map store", "reached only after a lookup of the same key answered 'absent' in the same loop iteration")
		keyObj0 := kit.ObjOf(info, sto.key)
		if _, isID := ast.Unparen(sto.key).(*ast.Ident); !isID || !cmIsLocal(keyObj0) {
			o.Undecided("store key `%s` is not a local variable", f.Str(sto.key))
			continue
		}
		// the guard lives where the key is computed: in f, or in the callers that hand the key in
		roots := []*kit.Func{f}
		if c07ParamOf(f, keyObj0) != nil {
			roots = nil
			for _, cf := range c.P.Funcs("client") {
				if cf.Body == nil {
					continue
				}
				for _, call := range cf.AllCalls(false) {
					if cf.CalleeFunc(call) == f {
						roots = cmAppendFunc(roots, cf)
					}
				}
			}
			if len(roots) == 0 {
				o.Undecided("the store key is a parameter of %s, which has no static caller in the package", f.Name)
				continue
			}
		}
		bad, undec := "", ""
		reached := false
		for _, root := range roots {
			atoms := map[string]types.Object{} // atom id -> resolved key variable
			atomPos := map[string][]ast.Node{}
			st := &kit.Std{F: root}
			st.ShouldInline = func(*kit.Func, *ast.CallExpr) bool { return true }
			st.Eval.Atom = func(e ast.Expr) (string, bool, bool) {
				e = ast.Unparen(e)
				if id, ok := e.(*ast.Ident); ok {
					if a, ok := okVars[kit.ObjOf(info, id)]; ok {
						return a, false, true
					}
				}
				if x, y, op, ok := kit.CmpAtom(e); ok && (op == token.EQL || op == token.NEQ) {
					if kit.IsNilIdent(info, x) {
						x, y = y, x
					}
					if kit.IsNilIdent(info, y) {
						if vo := kit.ObjOf(info, x); vo != nil {
							if a, ok := valVars[vo]; ok {
								return a, op == token.EQL, true
							}
						}
						if ix, ok := ast.Unparen(x).(*ast.IndexExpr); ok && m.isMapExpr(info, ix.X) {
							if k := st.ObjOf(ix.Index); k != nil {
								id := "dx" + kit.VarID(k)
								atoms[id] = k
								atomPos[id] = append(atomPos[id], e)
								return id, op == token.EQL, true
							}
						}
					}
				}
				return "", false, false
			}
			inval := func(s kit.S, pred func(id string, k types.Object) bool) kit.S {
				for id, k := range atoms {
					if pred(id, k) {
						s = s.Del("a:" + id)
					}
				}
				return s
			}
			st.OnCall = func(call *ast.CallExpr, n ast.Node, s kit.S) []kit.S {
				// a module function deciding a condition: if it is not understood the path is not judged
				if _, inCond := n.(ast.Expr); inCond && !cmIsLibraryCall(info, call) {
					return []kit.S{s.Set("opq", "1")}
				}
				return nil
			}
			st.OnNode = func(n ast.Node, s kit.S) []kit.S {
				for _, ao := range cmAssigned(info, n) {
					s = inval(s, func(_ string, k types.Object) bool { return k == ao })
				}
				if n == ast.Node(sto.stmt) {
					reached = true
					keyObj := st.ObjOf(sto.key)
					good, present := false, false
					for id, k := range atoms {
						if k != keyObj || keyObj == nil {
							continue
						}
						switch s.Get("a:" + id) {
						case "F":
							good = true
						case "T":
							present = true
						}
					}
					switch {
					case good:
					case keyObj == nil:
						undec = "the store key cannot be traced to a variable of " + root.Name
					case s.Get("opq") == "1":
						undec = "the path to the store passes a condition decided by a function of the module the checker could not evaluate"
					case bad != "":
					case present:
						bad = "the store is reached although the lookup of `" + keyObj.Name() + "` answered 'present': a second client would be started for a placement that already has one"
					default:
						bad = "the store is reached on a path on which no lookup of `" + keyObj.Name() + "` in this iteration answered 'absent'"
					}
				}
				mod := false
				if as, ok := n.(*ast.AssignStmt); ok {
					for _, l := range as.Lhs {
						if ix, ok := ast.Unparen(l).(*ast.IndexExpr); ok && m.isMapExpr(info, ix.X) {
							mod = true
						}
					}
				}
				cmOwn(n, func(x ast.Node) bool {
					if call, ok := x.(*ast.CallExpr); ok && (cmIsBuiltin(info, call, "delete") || cmIsBuiltin(info, call, "clear")) && len(call.Args) > 0 && m.isMapExpr(info, call.Args[0]) {
						mod = true
					}
					return true
				})
				if mod {
					s = inval(s, func(string, types.Object) bool { return true })
				}
				if lk, ok := lookups[n]; ok {
					// a fresh answer; fork it here so that a helper can return it
					k := st.ObjOf(lk.key)
					if k == nil {
						return []kit.S{s.Del("a:" + lk.id)}
					}
					atoms[lk.id] = k
					atomPos[lk.id] = []ast.Node{n}
					t, fl := s.Set("a:"+lk.id, "T"), s.Set("a:"+lk.id, "F")
					if lk.ok != nil {
						t, fl = t.Set("v:"+kit.VarID(lk.ok), "true"), fl.Set("v:"+kit.VarID(lk.ok), "false")
					}
					return []kit.S{t, fl}
				}
				return []kit.S{s}
			}
			st.OnBranch = func(br kit.Branch, s kit.S) (t, fl []kit.S, handled bool) {
				if br.Kind == kit.BrCase {
					return cmTagCase(st, br, s)
				}
				if br.Kind != kit.BrRange || br.Range == nil {
					return nil, nil, false
				}
				ko, vo := types.Object(nil), types.Object(nil)
				if br.Range.Key != nil {
					ko = kit.ObjOf(info, br.Range.Key)
				}
				if br.Range.Value != nil {
					vo = kit.ObjOf(info, br.Range.Value)
				}
				s2 := inval(s, func(id string, k types.Object) bool {
					if (ko != nil && k == ko) || (vo != nil && k == vo) {
						return true
					}
					for _, p := range atomPos[id] {
						if cmWithin(p, br.Range.Body) {
							return true
						}
					}
					return false
				})
				if br.Range == sto.loop || cmWithin(sto.stmt, br.Range.Body) {
					s2 = s2.Del("opq")
				}
				return []kit.S{s2}, []kit.S{s}, true
			}
			res := c.P.Graph(root).Run(kit.NewS(), st.Client())
			if res.Overflow {
				c.Fatalf("R1: state overflow in %s", root.Name)
			}
		}
		switch {
		case bad != "":
			o.Violation("%s", bad)
		case undec != "":
			o.Undecided("%s", undec)
		case !reached:
			o.Undecided("the store is not reachable in the CFG")
		default:
			o.OK("`%s` dominated by the absent edge of a lookup of its key", f.Str(sto.stmt))
		}
	}
}

// ---------------------------------------------------------------------------
// R2 construction failure is not used

// c07HarmfulUses lists the occurrences of obj inside n (descending into
// function literals: a capture is a use) that dereference, capture or store
// the value (out), and those that hand it to another function (passed).
// Comparisons with nil, fmt/log arguments, blank assignments and returning the
// value are harmless.
func c07HarmfulUses(f *kit.Func, n ast.Node, obj types.Object) (out, passed []*ast.Ident) {
	info := f.Info()
	ast.Inspect(n, func(x ast.Node) bool {
		id, ok := x.(*ast.Ident)
		if !ok || info.Uses[id] != obj {
			return true
		}
		par := f.Prog.Parent(f.File, id)
		for {
			if p, ok := par.(*ast.ParenExpr); ok {
				par = f.Prog.Parent(f.File, p)
				continue
			}
			break
		}
		switch p := par.(type) {
		case *ast.BinaryExpr:
			if (p.Op == token.EQL || p.Op == token.NEQ) && (kit.IsNilIdent(info, p.X) || kit.IsNilIdent(info, p.Y)) {
				return true
			}
		case *ast.CallExpr:
			if p.Fun != ast.Expr(id) {
				if fn, ok := kit.Callee(info, p).(*types.Func); ok && fn.Pkg() != nil && (fn.Pkg().Path() == "fmt" || fn.Pkg().Path() == "log") {
					return true
				}
				// handed to another function: whether that function dereferences it is not decided here
				passed = append(passed, id)
				return true
			}
		case *ast.AssignStmt:
			for i, rh := range p.Rhs {
				if ast.Unparen(rh) == ast.Expr(id) && len(p.Lhs) == len(p.Rhs) {
					if l, ok := p.Lhs[i].(*ast.Ident); ok && l.Name == "_" {
						return true
					}
				}
			}
			for _, l := range p.Lhs {
				if ast.Unparen(l) == ast.Expr(id) {
					return true // assignment target, not a use
				}
			}
		case *ast.ReturnStmt:
			return true
		}
		out = append(out, id)
		return true
	})
	return out, passed
}

func c07R2(c *kit.Ctx, m *cmModel, r *kit.Rule) {
	isCtor := func(f *kit.Func, call *ast.CallExpr) bool {
		cf := f.CalleeFunc(call)
		for _, x := range m.ctors {
			if x == cf && cf != nil {
				return true
			}
		}
		return false
	}
	// ---- callers
	for _, f := range c.P.Funcs("client") {
		if f.Body == nil {
			continue
		}
		info := f.Info()
		for _, call := range f.AllCalls(false) {
			if !isCtor(f, call) {
				continue
			}
			c.Analysed(f)
			site := call
			o := r.Ob(f, site, "client state returned by "+f.CalleeFunc(site).Name, "not used while the error returned with it is non-nil or untested")
			as, ok := c.P.Parent(f.File, site).(*ast.AssignStmt)
			if !ok || len(as.Lhs) != 2 || len(as.Rhs) != 1 {
				if _, isRet := c.P.Parent(f.File, site).(*ast.ReturnStmt); isRet {
					o.OK("both results are handed to the caller")
					continue
				}
				o.Undecided("constructor call is not of the form `state, err := …`")
				continue
			}
			csObj := kit.ObjOf(info, as.Lhs[0])
			if csObj == nil {
				o.OK("state discarded")
				continue
			}
			st := &kit.Std{F: f}
			st.ErrTag = func(cl *ast.CallExpr, s kit.S) string {
				if cl == site {
					return "ctor"
				}
				return ""
			}
			st.OnErrEdge = func(tag string, isErr bool, s kit.S) (kit.S, bool) {
				if tag == "ctor" && s.Get("cs") == "pending" {
					if isErr {
						return s.Set("cs", "bad"), true
					}
					return s.Set("cs", "good"), true
				}
				return s, true
			}
			st.OnCall = func(cl *ast.CallExpr, n ast.Node, s kit.S) []kit.S {
				if cl == site {
					return []kit.S{s.Set("cs", "pending").Del("a:csnil").Del("opq")}
				}
				if _, inCond := n.(ast.Expr); inCond && !cmIsLibraryCall(info, cl) {
					return []kit.S{s.Set("opq", "1")}
				}
				return nil
			}
			st.Eval.Atom = func(e ast.Expr) (string, bool, bool) {
				if x, y, op, ok := kit.CmpAtom(e); ok && (op == token.EQL || op == token.NEQ) {
					if kit.IsNilIdent(info, x) {
						x, y = y, x
					}
					if kit.IsNilIdent(info, y) && kit.ObjOf(info, x) == csObj {
						return "csnil", op == token.NEQ, true
					}
				}
				return "", false, false
			}
			unsafe := func(s kit.S) string {
				switch s.Get("cs") {
				case "pending":
					if s.Get("a:csnil") == "F" {
						return ""
					}
					return "before the error returned with it was tested"
				case "bad":
					return "on the edge where the constructor's error is non-nil (the state is nil)"
				}
				return ""
			}
			bad, undec := "", ""
			errObj := kit.ObjOf(info, as.Lhs[1])
			errOpaque := false // the error is inspected by a condition the checker does not understand
			scan := func(n ast.Node, s kit.S) {
				if e, isExpr := n.(ast.Expr); isExpr && errObj != nil {
					if _, _, isChk := kit.ErrCheck(info, e); !isChk {
						ast.Inspect(e, func(x ast.Node) bool {
							if id, ok := x.(*ast.Ident); ok && info.Uses[id] == errObj {
								errOpaque = true
							}
							return true
						})
					}
				}
				why := unsafe(s)
				if why == "" || bad != "" {
					return
				}
				if n == ast.Node(as) {
					return
				}
				us, passed := c07HarmfulUses(f, n, csObj)
				switch {
				case len(us) > 0 && s.Get("opq") == "1":
					undec = fmt.Sprintf("`%s` is used at %s on a path that passes a condition decided by a function of the module", csObj.Name(), f.At(us[0]))
				case len(us) > 0:
					bad = fmt.Sprintf("`%s` is used at %s %s", csObj.Name(), f.At(us[0]), why)
				case len(passed) > 0:
					undec = fmt.Sprintf("`%s` is handed to another function at %s %s; whether that function uses it is not decided", csObj.Name(), f.At(passed[0]), why)
				}
			}
			st.Fold = func(e ast.Expr, s kit.S) (bool, bool) {
				if x, y, op, ok := kit.CmpAtom(e); ok && (op == token.EQL || op == token.NEQ) {
					if kit.IsNilIdent(info, x) {
						x, y = y, x
					}
					if kit.IsNilIdent(info, y) && kit.ObjOf(info, x) == csObj {
						switch s.Get("cs") {
						case "bad":
							return op == token.EQL, true
						case "good":
							return op == token.NEQ, true
						}
						return false, false
					}
				}
				scan(e, s)
				return false, false
			}
			st.OnNode = func(n ast.Node, s kit.S) []kit.S {
				scan(n, s)
				if n != ast.Node(as) {
					for _, ao := range cmAssigned(info, n) {
						if ao == csObj {
							s = s.Set("cs", "other")
						}
					}
				}
				return []kit.S{s}
			}
			res := c.P.Graph(f).Run(kit.NewS(), st.Client())
			switch {
			case res.Overflow:
				c.Fatalf("R2: state overflow in %s", f.Name)
			case bad != "" && errOpaque:
				o.Undecided("%s, but the error is also inspected by a condition the checker does not understand", bad)
			case bad != "":
				o.Violation("%s: a failed construction (children not listed, node not decodable) would be started, stored and dereferenced", bad)
			case undec != "":
				o.Undecided("%s", undec)
			default:
				o.OK("every use of `%s` lies on the nil edge of the error", csObj.Name())
			}
		}
	}
	// ---- constructors: non-nil state on success
	for _, f := range m.ctors {
		c.Analysed(f)
		info := f.Info()
		st := &kit.Std{F: f}
		res := c.P.Graph(f).Run(kit.NewS(), st.Client())
		if res.Overflow {
			c.Fatalf("R2: state overflow in %s", f.Name)
		}
		nonNil := func(e ast.Expr) bool {
			isAddr := func(x ast.Expr) bool {
				x = ast.Unparen(x)
				if u, ok := x.(*ast.UnaryExpr); ok && u.Op == token.AND {
					_, isLit := ast.Unparen(u.X).(*ast.CompositeLit)
					return isLit
				}
				if call, ok := x.(*ast.CallExpr); ok && cmIsBuiltin(info, call, "new") {
					return true
				}
				return false
			}
			if isAddr(e) {
				return true
			}
			if vo := kit.ObjOf(info, e); vo != nil && cmIsLocal(vo) {
				if rhs := cmSingleDef(f, vo); rhs != nil && isAddr(rhs) {
					return true
				}
			}
			return false
		}
		seen := map[*ast.ReturnStmt]bool{}
		for _, e := range res.Exits {
			if e.Return == nil || seen[e.Return] {
				continue
			}
			rn := st.ReturnsNil(e.Return, e.State)
			if rn == "nonnil" {
				continue
			}
			seen[e.Return] = true
			o := r.Ob(f, e.Return, "constructor exit "+retKey(f, e.Return), "a nil (or possibly nil) error is returned together with a non-nil client state")
			switch {
			case len(e.Return.Results) != 2:
				o.Undecided("bare return in the constructor")
			case nonNil(e.Return.Results[0]):
				o.OK("returns `%s`, a freshly allocated state", f.Str(e.Return.Results[0]))
			case kit.IsNilIdent(info, e.Return.Results[0]):
				o.Violation("returns a nil client state with a %s error: the manager would store and run a nil state", map[string]string{"nil": "nil", "unknown": "possibly nil"}[rn]).WithPath(res.PathTo(e))
			default:
				o.Undecided("cannot tell whether `%s` is non-nil", f.Str(e.Return.Results[0]))
			}
		}
	}
}

// ---------------------------------------------------------------------------
// R3 exit signal pairing

type c07ExitGo struct {
	stmt  *ast.GoStmt
	in    *kit.Func // function holding the go statement
	gf    *kit.Func
	bind  map[types.Object]types.Object // parameter / receiver of gf -> variable passed (in `in`)
	outer map[types.Object]types.Object // parameter / receiver of `in` -> variable of the function under analysis
	// set by c07GoFlow: the goroutine calls the run method on the state asked for
	runsVal bool
}

func (g *c07ExitGo) resolveObj(o types.Object) types.Object {
	if b, ok := g.bind[o]; ok {
		o = b
	}
	if b, ok := g.outer[o]; ok {
		o = b
	}
	return o
}

func (g *c07ExitGo) resolve(info *types.Info, e ast.Expr) types.Object {
	if _, ok := ast.Unparen(e).(*ast.Ident); !ok {
		return nil
	}
	return g.resolveObj(kit.ObjOf(info, e))
}

// cmBindCall maps the parameters and the receiver of cf to the plain variables
// passed at call (in the caller's terms).
func cmBindCall(info *types.Info, cf *kit.Func, call *ast.CallExpr) map[types.Object]types.Object {
	bind := map[types.Object]types.Object{}
	ps := cf.Params()
	if len(ps) == len(call.Args) {
		for i, p := range ps {
			if _, isID := ast.Unparen(call.Args[i]).(*ast.Ident); isID {
				if a := kit.ObjOf(info, call.Args[i]); a != nil {
					bind[p] = a
				}
			}
		}
	}
	if cf.Decl != nil && cf.Decl.Recv != nil && len(cf.Decl.Recv.List) > 0 && len(cf.Decl.Recv.List[0].Names) > 0 {
		if sel, ok := ast.Unparen(call.Fun).(*ast.SelectorExpr); ok {
			if _, isID := ast.Unparen(sel.X).(*ast.Ident); isID {
				if ro := cf.Info().Defs[cf.Decl.Recv.List[0].Names[0]]; ro != nil {
					if a := kit.ObjOf(info, sel.X); a != nil {
						bind[ro] = a
					}
				}
			}
		}
	}
	return bind
}

// c07ExitGoroutines lists the go statements of f whose function (literal,
// closure, function or method) runs a client state.
func c07ExitGoroutines(m *cmModel, f *kit.Func, outer map[types.Object]types.Object) []*c07ExitGo {
	info := f.Info()
	var out []*c07ExitGo
	cmOwn(f.Body, func(n ast.Node) bool {
		gs, ok := n.(*ast.GoStmt)
		if !ok {
			return true
		}
		gf := f.CalleeFunc(gs.Call)
		if gf == nil || gf.Body == nil {
			return true
		}
		g := &c07ExitGo{stmt: gs, in: f, gf: gf, bind: cmBindCall(info, gf, gs.Call), outer: outer}
		if m.reachesRun(gf, 0) {
			out = append(out, g)
		}
		return true
	})
	return out
}

// reachesRun: a run method of the client state is called in f or in a function
// of the package f calls (three levels).
func (m *cmModel) reachesRun(f *kit.Func, depth int) bool {
	for _, call := range f.AllCalls(false) {
		if _, ok := m.isRunCall(f, call); ok {
			return true
		}
		if depth < 3 {
			if cf := f.CalleeFunc(call); cf != nil && cf.Body != nil && cf.Pkg == f.Pkg && cf != f && m.reachesRun(cf, depth+1) {
				return true
			}
		}
	}
	return false
}

// c07GoFlow checks the body of an exit goroutine: on every path the run of
// valObj returns and afterwards keyObj is sent on an exit channel.
// It returns "" or the defect, the path of the offending exit, and the signal
// sends that are executed after the run returned.
func c07GoFlow(c *kit.Ctx, m *cmModel, g *c07ExitGo, valObj, keyObj types.Object) (bad string, path []string, sends []*ast.SendStmt) {
	gf := g.gf
	info := gf.Info()
	var st *kit.Std
	isSignal := func(snd *ast.SendStmt) bool {
		ch := m.keyChan(info, snd.Chan)
		if ch == nil || !m.exitCh[ch] {
			return false
		}
		if _, isID := ast.Unparen(st.Resolve(snd.Value)).(*ast.Ident); !isID {
			return false
		}
		return g.resolveObj(st.ObjOf(snd.Value)) == keyObj
	}
	st = &kit.Std{F: gf}
	st.ShouldInline = func(cf *kit.Func, _ *ast.CallExpr) bool {
		for _, rm := range m.runM {
			if rm == cf {
				return false // the run itself is an event, not a helper
			}
		}
		return true
	}
	ranOther := false
	st.OnCall = func(call *ast.CallExpr, n ast.Node, s kit.S) []kit.S {
		if rx, ok := m.isRunCall(st.Cur(), call); ok && g.resolveObj(st.ObjOf(rx)) != valObj {
			ranOther = true
		}
		if rx, ok := m.isRunCall(st.Cur(), call); ok && g.resolveObj(st.ObjOf(rx)) == valObj {
			g.runsVal = true
			if _, isDefer := n.(*ast.DeferStmt); isDefer {
				return nil
			}
			if s.Get("sig") == "1" && bad == "" {
				bad = "the key is sent on the exit channel before the client's run is called: the entry is deleted while the client runs"
			}
			return []kit.S{s.Set("ran", "1")}
		}
		return nil
	}
	st.OnNode = func(n ast.Node, s kit.S) []kit.S {
		switch x := n.(type) {
		case *ast.SendStmt:
			if isSignal(x) {
				if s.Get("ran") == "1" {
					sends = append(sends, x)
				}
				s = s.Set("sig", "1")
			}
		case *ast.DeferStmt:
			if df := st.Cur().CalleeFunc(x.Call); df != nil && df.Lit != nil && df.Body != nil && len(df.Params()) == 0 {
				dst := &kit.Std{F: df}
				var dsends []*ast.SendStmt
				isSig := func(snd *ast.SendStmt) bool {
					ch := m.keyChan(info, snd.Chan)
					if _, isID := ast.Unparen(st.Resolve(snd.Value)).(*ast.Ident); !isID || ch == nil || !m.exitCh[ch] {
						return false
					}
					return g.resolveObj(st.ObjOf(snd.Value)) == keyObj
				}
				dst.OnNode = func(dn ast.Node, ds kit.S) []kit.S {
					if snd, ok := dn.(*ast.SendStmt); ok && isSig(snd) {
						dsends = append(dsends, snd)
						ds = ds.Set("sig", "1")
					}
					return []kit.S{ds}
				}
				dres := c.P.Graph(df).Run(kit.NewS(), dst.Client())
				all := len(dres.Exits) > 0 && !dres.Overflow
				for _, e := range dres.Exits {
					if e.State.Get("sig") != "1" {
						all = false
					}
				}
				if all {
					sends = append(sends, dsends...) // runs when the goroutine's function returns, i.e. after the run
					s = s.Set("dsig", "1")
				}
			}
		}
		return []kit.S{s}
	}
	res := c.P.Graph(gf).Run(kit.NewS(), st.Client())
	if res.Overflow {
		c.Fatalf("R3: state overflow in %s", gf.Name)
	}
	n := 0
	for _, e := range res.Exits {
		if e.Return == nil {
			continue // the process dies
		}
		n++
		if bad != "" {
			continue
		}
		if e.State.Get("sig") != "1" && e.State.Get("dsig") != "1" {
			if e.State.Get("ran") == "1" {
				bad = "after the client's run returned the goroutine can end without sending the key on an exit channel: the entry is never deleted and the client is never restarted"
			} else {
				bad = "the goroutine can end without sending the key on an exit channel"
			}
			path = res.PathTo(e)
		}
	}
	if n == 0 && bad == "" {
		bad = "the goroutine never returns"
	}
	_ = ranOther
	return bad, path, sends
}

func c07R3(c *kit.Ctx, m *cmModel, r *kit.Rule) {
	for _, sto := range m.stores {
		f := sto.f
		info := f.Info()
		oPair := r.Ob(f, sto.stmt, "insertion ⇔ exit goroutine", "an iteration stores a client state iff it starts the goroutine that runs it (exactly once)")
		oSig := r.Ob(f, sto.stmt, "exit signal", "after the run returned the goroutine sends the insertion's key on an exit channel on every path")
		oVar := r.Ob(f, sto.stmt, "per-iteration capture", "key and state seen by the goroutine are the iteration's own, assigned once")
		keyObj := kit.ObjOf(info, sto.key)
		var valObj types.Object
		if sto.val != nil {
			if _, isID := ast.Unparen(sto.val).(*ast.Ident); isID {
				valObj = kit.ObjOf(info, sto.val)
			}
		}
		if !cmIsLocal(keyObj) || !cmIsLocal(valObj) {
			oPair.Undecided("stored key/value are not local variables")
			oSig.Undecided("stored key/value are not local variables")
			oVar.Undecided("stored key/value are not local variables")
			continue
		}
		mine, handedTo := c07StoreGoroutines(c, m, sto, keyObj, valObj)
		if len(mine) == 0 {
			if handedTo != "" {
				oPair.Undecided("no goroutine of %s runs `%s` directly; the state is handed to `%s`, which the checker could not follow", f.Name, valObj.Name(), handedTo)
				oSig.Undecided("exit goroutine not found (state handed to `%s`)", handedTo)
				oVar.Undecided("exit goroutine not found")
				continue
			}
			oPair.Violation("no goroutine started in %s runs the stored client state `%s`", f.Name, valObj.Name())
			oSig.Violation("no exit goroutine")
			oVar.OK("n/a")
			continue
		}
		isMine := map[ast.Node]*c07ExitGo{}
		for _, g := range mine {
			isMine[g.stmt] = g
			c.Analysed(g.gf)
		}
		// (a) pairing inside the iteration
		st := &kit.Std{F: f}
		st.ShouldInline = func(*kit.Func, *ast.CallExpr) bool { return true }
		bad := ""
		var badExit *kit.Exit
		check := func(s kit.S, where string) {
			g, t := s.Get("go"), s.Get("st")
			if bad != "" {
				return
			}
			switch {
			case g == "2+":
				bad = "the exit goroutine can be started twice for one insertion (" + where + ")"
			case t == "2+":
				bad = "two insertions in one iteration (" + where + ")"
			case g == "1" && t == "":
				bad = "a client is started but not recorded in the map (" + where + "): the next scan starts a second client for the same placement"
			case g == "" && t == "1":
				bad = "a client state is recorded in the map without starting the goroutine that runs it and signals its exit (" + where + ")"
			}
		}
		inc := func(s kit.S, k string) kit.S {
			if s.Get(k) == "" {
				return s.Set(k, "1")
			}
			return s.Set(k, "2+")
		}
		st.OnNode = func(n ast.Node, s kit.S) []kit.S {
			if isMine[n] != nil {
				s = inc(s, "go")
			}
			if n == ast.Node(sto.stmt) {
				s = inc(s, "st")
			}
			return []kit.S{s}
		}
		st.OnBranch = func(br kit.Branch, s kit.S) (t, fl []kit.S, handled bool) {
			if br.Kind != kit.BrRange || br.Range == nil || br.Range != sto.loop {
				return nil, nil, false
			}
			check(s, "end of an iteration")
			s = s.Del("go").Del("st")
			return []kit.S{s}, []kit.S{s}, true
		}
		res := c.P.Graph(f).Run(kit.NewS(), st.Client())
		if res.Overflow {
			c.Fatalf("R3: state overflow in %s", f.Name)
		}
		for i := range res.Exits {
			e := res.Exits[i]
			was := bad
			check(e.State, "function exit at "+c07ExitAt(f, e))
			if was == "" && bad != "" {
				badExit = &res.Exits[i]
			}
		}
		if bad != "" {
			ob := oPair.Violation("%s", bad)
			if badExit != nil {
				ob.WithPath(res.PathTo(*badExit))
			}
		} else {
			oPair.OK("go statement and map store lie on the same paths of the iteration")
		}
		// (b) goroutine bodies
		sigBad := ""
		var sigPath []string
		for _, g := range mine {
			b, p, _ := c07GoFlow(c, m, g, valObj, keyObj)
			if b != "" && sigBad == "" {
				sigBad, sigPath = g.gf.Name+": "+b, p
			}
		}
		if sigBad != "" {
			oSig.Violation("%s", sigBad).WithPath(sigPath)
		} else {
			oSig.OK("run of `%s`, then `%s` sent on %s on every path", valObj.Name(), keyObj.Name(), m.exitNames())
		}
		// (c) per-iteration variables
		varBad, varUndec := "", ""
		for _, vo := range []types.Object{keyObj, valObj} {
			// a parameter is the call's own variable, set once by the call: it counts as the one assignment
			n := cmAssignCount(f, vo)
			if c07ParamOf(f, vo) != nil {
				n++
			}
			if n > 1 {
				varBad = "`" + vo.Name() + "` is assigned more than once; the goroutine may observe another value than the one stored"
				break
			}
			if n == 0 {
				varUndec = "no assignment of `" + vo.Name() + "` found in " + f.Name
				continue
			}
			if sto.loop != nil {
				inBody := sto.loop.Body.Pos() <= vo.Pos() && vo.Pos() < sto.loop.Body.End()
				inLoop := sto.loop.Pos() <= vo.Pos() && vo.Pos() < sto.loop.End()
				passed := false
				for _, g := range mine {
					for _, b := range g.bind {
						if b == vo {
							passed = true
						}
					}
				}
				switch {
				case inBody || passed:
				case inLoop && cmPerIterationLoopVars(f):
				default:
					varBad = "`" + vo.Name() + "` is shared between iterations (declared outside the loop body) and captured by the goroutine: it sends the key of a later iteration"
				}
			}
		}
		switch {
		case varBad != "":
			oVar.Violation("%s", varBad)
		case varUndec != "":
			oVar.Undecided("%s", varUndec)
		case sto.loop == nil:
			oVar.OK("`%s` and `%s` are variables of one call of %s, assigned once", keyObj.Name(), valObj.Name(), f.Name)
		default:
			oVar.OK("`%s` and `%s` are declared in the loop body and assigned once", keyObj.Name(), valObj.Name())
		}
	}
}

func c07ExitAt(f *kit.Func, e kit.Exit) string {
	if e.Return != nil {
		return f.At(e.Return)
	}
	if n := len(e.Block.Nodes); n > 0 {
		return f.At(e.Block.Nodes[n-1])
	}
	return f.Name
}

// cmPerIterationLoopVars: the module's go directive is >= 1.22.
func cmPerIterationLoopVars(f *kit.Func) bool {
	if f.Pkg.Module == nil {
		return false
	}
	var maj, min int
	if _, err := fmt.Sscanf(f.Pkg.Module.GoVersion, "%d.%d", &maj, &min); err != nil {
		return false
	}
	return maj > 1 || (maj == 1 && min >= 22)
}

// ---------------------------------------------------------------------------
// R4 single deleter

// c07StoreGoroutines finds the exit goroutines of one insertion: go statements
// of the storing function, or of a function of the package it hands the state to,
// whose function calls the run method on the stored state.
func c07StoreGoroutines(c *kit.Ctx, m *cmModel, sto *cmStore, keyObj, valObj types.Object) (mine []*c07ExitGo, handedTo string) {
	f := sto.f
	info := f.Info()
	cands := c07ExitGoroutines(m, f, nil)
	cmOwn(f.Body, func(n ast.Node) bool {
		call, ok := n.(*ast.CallExpr)
		if !ok {
			return true
		}
		if gs, isGo := c.P.Parent(f.File, call).(*ast.GoStmt); isGo && gs.Call == call {
			return true
		}
		gets := false
		for _, a := range call.Args {
			if kit.ObjOf(info, a) == valObj {
				gets = true
			}
		}
		if sel, ok := ast.Unparen(call.Fun).(*ast.SelectorExpr); ok && kit.ObjOf(info, sel.X) == valObj {
			if _, isRun := m.isRunCall(f, call); !isRun {
				gets = true
			}
		}
		if !gets || cmIsLibraryCall(info, call) {
			return true
		}
		hf := f.CalleeFunc(call)
		if hf == nil || hf.Body == nil || hf.Pkg != f.Pkg {
			handedTo = f.Str(call.Fun)
			return true
		}
		hs := c07ExitGoroutines(m, hf, cmBindCall(info, hf, call))
		if len(hs) == 0 && m.reachesRun(hf, 0) {
			handedTo = f.Str(call.Fun)
		}
		cands = append(cands, hs...)
		return true
	})
	for _, g := range cands {
		c07GoFlow(c, m, g, valObj, keyObj)
		if g.runsVal {
			mine = append(mine, g)
		}
	}
	return mine, handedTo
}

// c07KeyContext decides whether keyExpr, evaluated at node n of f, is the key a
// select case received from a key channel: n lies in such a case and keyExpr is
// its (never reassigned) variable, or keyExpr is a parameter of f and every
// call site of f in the package passes such a key.  "ok", "violation", "undecided".
func c07KeyContext(c *kit.Ctx, m *cmModel, f *kit.Func, n ast.Node, keyExpr ast.Expr, depth int) (string, string) {
	info := f.Info()
	if _, isID := ast.Unparen(keyExpr).(*ast.Ident); !isID {
		return "violation", "`" + f.Str(keyExpr) + "` is not the key received from an exit channel"
	}
	ko := kit.ObjOf(info, keyExpr)
	if cc := cmEnclosingClause(f, n); cc != nil {
		for _, k := range m.keyClauses() {
			if k.cc == cc {
				switch {
				case k.key != ko:
					break
				case cmAssignCount(f.Root(), k.key) != 1:
					return "violation", "the received key `" + k.key.Name() + "` is reassigned"
				default:
					return "ok", "in `case " + f.Str(cc.Comm) + "`"
				}
			}
		}
	}
	if f.Lit != nil && f.Outer != nil {
		if call, ok := c.P.Parent(f.File, f.Lit).(*ast.CallExpr); ok && ast.Unparen(call.Fun) == ast.Expr(f.Lit) && c07ParamOf(f, ko) == nil {
			if _, isGo := c.P.Parent(f.File, call).(*ast.GoStmt); !isGo {
				return c07KeyContext(c, m, f.Outer, f.Lit, keyExpr, depth)
			}
		}
		if c07ParamOf(f, ko) == nil {
			return "violation", "`" + f.Str(keyExpr) + "` is not the key of an enclosing exit-channel case"
		}
		return "undecided", "the key is a parameter of a function literal"
	}
	p := c07ParamOf(f, ko)
	if p == nil || f.Decl == nil {
		return "violation", "not inside a select case that receives this key from an exit channel"
	}
	if cmAssignCount(f, ko) != 0 || depth >= 2 {
		return "undecided", "the key parameter `" + ko.Name() + "` of " + f.Name + " cannot be followed to its callers"
	}
	idx := -1
	for i, q := range f.Params() {
		if q == p {
			idx = i
		}
	}
	nsites := 0
	for _, cf := range c.P.Funcs(f.PkgRel()) {
		if cf.Body == nil {
			continue
		}
		cinfo := cf.Info()
		bad, why := "", ""
		cmOwn(cf.Body, func(x ast.Node) bool {
			switch y := x.(type) {
			case *ast.CallExpr:
				if cf.CalleeFunc(y) == f && idx < len(y.Args) {
					nsites++
					if v, w := c07KeyContext(c, m, cf, y, y.Args[idx], depth+1); v != "ok" && bad == "" {
						bad, why = v, "called at "+cf.At(y)+": "+w
					}
				}
			case *ast.SelectorExpr:
				// method value / function value reference that is not a call
				if s := cinfo.Selections[y]; s != nil && s.Kind() == types.MethodVal && f.Obj != nil {
					if fn, ok := s.Obj().(*types.Func); ok && fn.Origin() == f.Obj {
						if call, isCall := c.P.Parent(cf.File, y).(*ast.CallExpr); !isCall || ast.Unparen(call.Fun) != ast.Expr(y) {
							bad, why = "undecided", f.Name+" is used as a value at "+cf.At(y)
						}
					}
				}
			}
			return true
		})
		if bad != "" {
			return bad, why
		}
	}
	if nsites == 0 {
		return "undecided", f.Name + " has no static call site in the package"
	}
	return "ok", "every caller of " + f.Name + " passes the key received in an exit-channel case"
}

func c07R4(c *kit.Ctx, m *cmModel, r *kit.Rule) {
	// exit goroutines of the whole package and the sends their flows accepted
	accepted := map[*ast.SendStmt]string{}
	for _, sto := range m.stores {
		info := sto.f.Info()
		keyObj := kit.ObjOf(info, sto.key)
		var valObj types.Object
		if sto.val != nil {
			valObj = kit.ObjOf(info, sto.val)
		}
		if keyObj == nil || valObj == nil {
			continue
		}
		mine, _ := c07StoreGoroutines(c, m, sto, keyObj, valObj)
		for _, g := range mine {
			_, _, sends := c07GoFlow(c, m, g, valObj, keyObj)
			for _, s := range sends {
				accepted[s] = "exit goroutine " + g.gf.Name + " after the run returned"
			}
		}
	}
	for _, f := range c.P.Funcs("client") {
		if f.Body == nil {
			continue
		}
		info := f.Info()
		cmOwn(f.Body, func(n ast.Node) bool {
			switch x := n.(type) {
			case *ast.CallExpr:
				if len(x.Args) == 0 || !m.isMapExpr(info, x.Args[0]) {
					return true
				}
				switch {
				case cmIsBuiltin(info, x, "clear"):
					r.Ob(f, x, "clear of the client-state map", "entries leave the map only one by one, on their exit signal").
						Violation("the map is cleared while the clients it holds may still run; the next scan starts second clients for the same placements")
				case cmIsBuiltin(info, x, "delete") && len(x.Args) == 2:
					c.Analysed(f)
					o := r.Ob(f, x, "delete from the client-state map", "only in the select case that received this key from an exit channel")
					v, why := c07KeyContext(c, m, f, x, x.Args[1], 0)
					switch v {
					case "ok":
						o.OK("%s", why)
					case "violation":
						o.Violation("`%s`: %s: the entry disappears while its client may still be running, and the next scan starts a second one", f.Str(x), why)
					default:
						o.Undecided("`%s`: %s", f.Str(x), why)
					}
				}
			case *ast.AssignStmt:
				for _, l := range x.Lhs {
					if m.isMapExpr(info, l) {
						r.Ob(f, x, "replacement of the client-state map", "entries leave the map only one by one, on their exit signal").
							Violation("`%s` replaces the map while the clients it holds may still run", f.Str(x))
					}
				}
			case *ast.SendStmt:
				ch := m.keyChan(info, x.Chan)
				if ch == nil || !m.exitCh[ch] {
					return true
				}
				c.Analysed(f)
				o := r.Ob(f, x, "send on exit channel "+ch.Name(), "sent only by the exit goroutine after its run returned, or by a case forwarding the key it received")
				if why, ok := accepted[x]; ok {
					o.OK("%s", why)
					return true
				}
				v, why := c07KeyContext(c, m, f, x, x.Value, 0)
				switch {
				case v == "ok":
					o.OK("forwards the key received %s", why)
				case v == "undecided" || c07ParamOf(f, kit.ObjOf(info, x.Value)) != nil:
					o.Undecided("`%s`: the sender's key is a parameter; %s", f.Str(x), why)
				default:
					o.Violation("`%s` makes the manager delete the entry of a client that has not signalled its exit", f.Str(x))
				}
			}
			return true
		})
		// sends inside literals are visited when the literal itself is iterated (Funcs lists literals)
	}
}

// ---------------------------------------------------------------------------
// R5 removal pass

func c07R5(c *kit.Ctx, m *cmModel, r *kit.Rule) {
	seenF := map[*kit.Func]bool{}
	for _, sto := range m.stores {
		sto = cmLiftStore(c, sto) // the caller's loop when the insertion lives in a helper
		f := sto.f
		if seenF[f] {
			continue
		}
		seenF[f] = true
		info := f.Info()
		keyObj := kit.ObjOf(info, sto.key)
		if sto.loop == nil {
			r.Ob(f, sto.stmt, "start loop", "the insertion happens in a loop over the listing").Undecided("the map store is not inside a range loop")
			continue
		}
		// activations: the listing is produced in this function, or handed in by the callers
		// (scan/update split); R7 judges the functions it passes through
		acts, actUndec := c07Activations(c, f, sto.loop)
		if actUndec != "" {
			r.Ob(f, sto.loop, "listing", "the start loop ranges over the result of a listing call of this function or of its callers").Undecided("%s", actUndec)
			continue
		}
		// removal loop: range over the map whose body calls stop on the value; in f or in a
		// function of the package that f calls (the flow inlines it)
		var rem *ast.RangeStmt
		var remF *kit.Func
		var remCall *ast.CallExpr // call in f that reaches remF (nil when remF == f)
		var remKey, remVal types.Object
		var st *kit.Std
		isRemStop := func(call *ast.CallExpr, rs *ast.RangeStmt) bool {
			cur := f
			if st != nil {
				cur = st.Cur()
			}
			rx, ok := m.isStopCall(cur, call)
			if !ok {
				return false
			}
			var k, v types.Object
			if rs.Key != nil {
				k = kit.ObjOf(info, rs.Key)
			}
			if rs.Value != nil {
				v = kit.ObjOf(info, rs.Value)
			}
			rxe := rx
			if st != nil {
				rxe = st.Resolve(rx)
			}
			if v != nil && kit.ObjOf(info, rxe) == v {
				if _, isID := ast.Unparen(rxe).(*ast.Ident); isID {
					return true
				}
			}
			if ix, ok := ast.Unparen(rxe).(*ast.IndexExpr); ok && m.isMapExpr(info, ix.X) && k != nil && kit.ObjOf(info, ix.Index) == k {
				return true
			}
			return false
		}
		stopsInside := func(hf *kit.Func, rs *ast.RangeStmt) bool {
			has := false
			cmOwn(rs.Body, func(x ast.Node) bool {
				call, ok := x.(*ast.CallExpr)
				if !ok {
					return true
				}
				if _, isStop := m.isStopCall(hf, call); isStop && isRemStop(call, rs) {
					has = true
				}
				// a wrapper of the package applied to the value (inlined by the flow)
				if cf := hf.CalleeFunc(call); cf != nil && cf.Pkg == hf.Pkg && cf.Body != nil {
					if sel, ok := ast.Unparen(call.Fun).(*ast.SelectorExpr); ok && rs.Value != nil && kit.ObjOf(info, sel.X) == kit.ObjOf(info, rs.Value) {
						for _, c2 := range cf.AllCalls(false) {
							if _, isStop := m.isStopCall(cf, c2); isStop {
								has = true
							}
						}
					}
				}
				return true
			})
			return has
		}
		findRem := func(hf *kit.Func, via *ast.CallExpr) {
			cmOwn(hf.Body, func(n ast.Node) bool {
				rs, ok := n.(*ast.RangeStmt)
				if !ok || !m.isMapExpr(info, rs.X) || !stopsInside(hf, rs) {
					return true
				}
				rem, remF, remCall = rs, hf, via
				if rs.Key != nil {
					remKey = kit.ObjOf(info, rs.Key)
				}
				if rs.Value != nil {
					remVal = kit.ObjOf(info, rs.Value)
				}
				return true
			})
		}
		findRem(f, nil)
		opaqueCall := ""
		if rem == nil {
			cmOwn(f.Body, func(n ast.Node) bool {
				call, ok := n.(*ast.CallExpr)
				if !ok || cmIsLibraryCall(info, call) {
					return true
				}
				hf := f.CalleeFunc(call)
				if hf == nil || hf.Body == nil || hf.Pkg != f.Pkg {
					if hf == nil {
						opaqueCall = f.Str(call.Fun)
					}
					return true
				}
				if rem == nil && hf != f {
					findRem(hf, call)
				}
				return true
			})
		}
		_ = remVal
		// found set: local map indexed by the removal loop's key in its guard
		var foundVar types.Object // in remF
		if rem != nil && remKey != nil {
			cmOwn(rem.Body, func(n ast.Node) bool {
				if ix, ok := n.(*ast.IndexExpr); ok && kit.ObjOf(info, ix.Index) == remKey {
					if fv := kit.ObjOf(info, ix.X); fv != nil && cmIsLocal(fv) {
						if _, isMap := fv.Type().Underlying().(*types.Map); isMap {
							foundVar = fv
						}
					}
				}
				return true
			})
		}
		foundTop := foundVar // the same set in terms of f
		if foundVar != nil && remCall != nil {
			foundTop = nil
			if p := c07ParamOf(remF, foundVar); p != nil {
				for i, q := range remF.Params() {
					if q == p && i < len(remCall.Args) {
						if _, isID := ast.Unparen(remCall.Args[i]).(*ast.Ident); isID {
							foundTop = kit.ObjOf(info, remCall.Args[i])
						}
					}
				}
			}
		}
		isFoundIx := func(e ast.Expr, key types.Object) bool {
			ix, ok := ast.Unparen(e).(*ast.IndexExpr)
			return ok && foundVar != nil && kit.ObjOf(info, ix.X) == foundVar && key != nil && kit.ObjOf(info, ix.Index) == key
		}
		// comma-ok lookups of the found set in the removal loop
		okVars := map[types.Object]bool{}
		lookups := map[ast.Node]bool{}
		valueGuard := false // the guard reads the stored boolean instead of the comma-ok presence
		if rem != nil {
			commaOK := map[ast.Expr]bool{}
			cmOwn(rem.Body, func(n ast.Node) bool {
				if as, ok := n.(*ast.AssignStmt); ok && len(as.Rhs) == 1 && len(as.Lhs) == 2 && isFoundIx(as.Rhs[0], remKey) {
					commaOK[ast.Unparen(as.Rhs[0])] = true
					if ov := kit.ObjOf(info, as.Lhs[1]); ov != nil && cmAssignCount(remF, ov) == 1 {
						okVars[ov] = true
						lookups[as] = true
					}
				}
				return true
			})
			cmOwn(rem.Body, func(n ast.Node) bool {
				if e, ok := n.(ast.Expr); ok && isFoundIx(e, remKey) && !commaOK[ast.Unparen(e)] {
					if _, isIx := e.(*ast.IndexExpr); isIx {
						valueGuard = true
					}
				}
				return true
			})
		}
		keyDef := cmSingleDef(f, keyObj)
		keyEquiv := func(e ast.Expr) bool {
			if _, isID := ast.Unparen(e).(*ast.Ident); isID && kit.ObjOf(info, e) == keyObj {
				return true
			}
			return keyDef != nil && kit.SameExpr(info, e, keyDef)
		}

		st = &kit.Std{F: f}
		st.ShouldInline = func(_ *kit.Func, call *ast.CallExpr) bool {
			for _, a := range acts {
				if a.caller == nil && call == a.chain.listCall {
					return false // its error result is the event "listing succeeded"
				}
			}
			return true
		}
		st.ErrTag = func(call *ast.CallExpr, s kit.S) string {
			for _, a := range acts {
				if a.caller == nil && call == a.chain.listCall {
					return "list"
				}
			}
			return ""
		}
		st.OnErrEdge = func(tag string, isErr bool, s kit.S) (kit.S, bool) {
			if tag == "list" && !isErr {
				return s.Set("listed", "1"), true
			}
			return s, true
		}
		st.Eval.Atom = func(e ast.Expr) (string, bool, bool) {
			e = ast.Unparen(e)
			if id, ok := e.(*ast.Ident); ok && okVars[kit.ObjOf(info, id)] {
				return "found", false, true
			}
			if isFoundIx(e, remKey) {
				if b, ok := info.TypeOf(e).Underlying().(*types.Basic); ok && b.Info()&types.IsBoolean != 0 {
					return "found", false, true
				}
			}
			return "", false, false
		}
		iterBad, stopBad, foundBad := "", "", ""
		nFoundStores := 0
		st.OnCall = func(call *ast.CallExpr, n ast.Node, s kit.S) []kit.S {
			if rem != nil && isRemStop(call, rem) && s.Has("rit") {
				if s.Get("a:found") != "F" && stopBad == "" {
					if s.Get("a:found") == "T" {
						stopBad = "a client whose key IS among the listed nodes is stopped (inverted guard): live clients are stopped on every scan"
					} else {
						stopBad = "a client is stopped without establishing that its key is missing from the listed nodes: live clients are stopped on every scan"
					}
				}
				return []kit.S{s.Set("rit", "1")}
			}
			return nil
		}
		st.OnNode = func(n ast.Node, s kit.S) []kit.S {
			if lookups[n] {
				s = s.Del("a:found")
			}
			if as, ok := n.(*ast.AssignStmt); ok && s.Has("fs") {
				for i, l := range as.Lhs {
					ix, ok := ast.Unparen(l).(*ast.IndexExpr)
					if !ok || foundTop == nil || st.ObjOf(ix.X) != foundTop || !keyEquiv(st.Resolve(ix.Index)) {
						continue
					}
					if valueGuard && len(as.Lhs) == len(as.Rhs) {
						if tv, ok := info.Types[as.Rhs[i]]; !ok || tv.Value == nil || tv.Value.String() != "true" {
							continue
						}
					}
					nFoundStores++
					s = s.Set("fs", "1")
				}
			}
			return []kit.S{s}
		}
		st.OnBranch = func(br kit.Branch, s kit.S) (t, fl []kit.S, handled bool) {
			if br.Kind == kit.BrCase {
				return cmTagCase(st, br, s)
			}
			if br.Kind != kit.BrRange || br.Range == nil {
				return nil, nil, false
			}
			switch br.Range {
			case sto.loop:
				if s.Get("fs") == "0" && foundBad == "" {
					foundBad = "an iteration over the listed nodes can end without entering the node's key in the set of listed keys: its running client is stopped by the removal loop"
				}
				return []kit.S{s.Set("fs", "0")}, []kit.S{s.Del("fs")}, true
			case rem:
				if s.Get("rit") == "0" && s.Get("a:found") != "T" && iterBad == "" {
					iterBad = "an iteration of the removal loop can end without stopping a client whose key is not among the listed nodes"
				}
				s = s.Del("a:found")
				return []kit.S{s.Set("rit", "0")}, []kit.S{s.Del("rit").Set("removed", "1")}, true
			}
			return nil, nil, false
		}
		// (1) nil exits after a successful listing, per activation
		type verdict struct {
			bad   string
			undec string
			exit  kit.Exit
		}
		anyPrunes := false
		for _, act := range acts {
			init := kit.NewS()
			label := ""
			if act.caller != nil {
				// the callers list (and test the error) before handing the listing in
				init = init.Set("listed", "1")
				for po, v := range act.consts {
					init = init.Set("v:"+kit.VarID(po), v)
				}
				label = "activation " + act.label + ": "
			}
			res := c.P.Graph(f).Run(init, st.Client())
			if res.Overflow {
				c.Fatalf("R5: state overflow in %s", f.Name)
			}
			per := map[*ast.ReturnStmt]*verdict{}
			var order []*ast.ReturnStmt
			nRemoved := 0
			for _, e := range res.Exits {
				if e.Return == nil || e.State.Get("listed") != "1" {
					continue
				}
				if st.ReturnsNil(e.Return, e.State) == "nonnil" {
					continue
				}
				v := per[e.Return]
				if v == nil {
					v = &verdict{}
					per[e.Return] = v
					order = append(order, e.Return)
				}
				if e.State.Get("removed") == "1" {
					nRemoved++
				} else if v.bad == "" {
					switch {
					case rem == nil && opaqueCall != "":
						v.undec = "no loop over the client-state map that stops clients was found; " + f.Name + " calls `" + opaqueCall + "`, which the checker cannot follow"
					case rem == nil:
						v.bad = "there is no loop over the client-state map that stops the clients whose key was not listed"
					case e.State.Has("rit"):
						v.bad = "the removal loop is left early (return or break inside the loop); the remaining clients of vanished nodes keep running"
					default:
						v.bad = "returns success without having run the loop that stops clients whose node was not listed: the client of a node that vanished keeps running"
					}
					v.exit = e
				}
			}
			if len(order) == 0 {
				r.Ob(f, nil, label+"nil exits", "the scan has a success exit").Undecided("no exit returning nil after a successful listing was found")
				continue
			}
			nBad := 0
			for _, ret := range order {
				if per[ret].bad != "" || per[ret].undec != "" {
					nBad++
				}
			}
			if len(acts) > 1 && nRemoved == 0 && nBad == len(order) {
				// an activation that never prunes (a partial listing handed in by a caller): allowed as long as another activation prunes
				r.Ob(f, act.call, label+"no removal", "an activation either completes the removal loop before every success exit or never enters it").
					OK("never reaches the removal loop (%s)", c07ConstsStr(act))
				continue
			}
			anyPrunes = anyPrunes || nBad == 0
			for _, ret := range order {
				v := per[ret]
				o := r.Ob(f, ret, label+"exit "+retKey(f, ret), "after a successful listing, success is returned only once the removal loop has completed")
				switch {
				case v.undec != "":
					o.Undecided("%s", v.undec)
				case v.bad != "":
					o.Violation("%s", v.bad).WithPath(res.PathTo(v.exit))
				default:
					o.OK("removal loop completed before this exit")
				}
			}
		}
		if len(acts) > 1 {
			o := r.Ob(f, sto.loop, "pruning activation", "at least one activation of the start function completes the removal loop")
			if anyPrunes {
				o.OK("an activation completes the removal loop on every success exit")
			} else {
				o.Violation("no caller of %s lets it reach the loop that stops the clients of vanished nodes: clients of deleted nodes keep running", f.Name)
			}
		}
		// (2) removal loop iterations
		if rem != nil {
			o := r.Ob(f, rem, "removal loop iteration", "each iteration stops the client iff its key is not in the set of listed keys")
			remOpaque := ""
			cmOwn(rem.Body, func(n ast.Node) bool {
				var cond ast.Expr
				switch x := n.(type) {
				case *ast.IfStmt:
					cond = x.Cond
				case *ast.CaseClause:
					for _, e := range x.List {
						cmOwn(e, func(y ast.Node) bool {
							if call, ok := y.(*ast.CallExpr); ok && !cmIsLibraryCall(info, call) {
								remOpaque = f.Str(call.Fun)
							}
							return true
						})
					}
				}
				if cond != nil {
					cmOwn(cond, func(y ast.Node) bool {
						if call, ok := y.(*ast.CallExpr); ok && !cmIsLibraryCall(info, call) {
							remOpaque = f.Str(call.Fun)
						}
						return true
					})
				}
				return true
			})
			switch {
			case remOpaque != "" && (foundVar == nil || stopBad != "" || iterBad != ""):
				o.Undecided("the guard of the removal loop is decided by `%s`, which the checker does not evaluate", remOpaque)
			case foundVar == nil:
				o.Violation("the removal loop does not consult a set of listed keys: %s", c07Nz(stopBad, "every client is stopped on every scan"))
			case stopBad != "":
				o.Violation("%s", stopBad)
			case iterBad != "":
				o.Violation("%s", iterBad)
			default:
				o.OK("guard on `%s[%s]`, stop on the absent edge", foundVar.Name(), remKey.Name())
			}
			// (3) found set complete
			o3 := r.Ob(f, sto.loop, "set of listed keys", "every listed node's key is entered before the iteration ends")
			switch {
			case foundVar == nil && remOpaque != "":
				o3.Undecided("the set of listed keys is consulted through `%s`", remOpaque)
			case foundVar == nil:
				o3.Violation("no set of listed keys")
			case foundBad != "":
				o3.Violation("%s", foundBad)
			case nFoundStores == 0:
				o3.Violation("the key of the insertion is never entered into `%s`", foundVar.Name())
			default:
				o3.OK("`%s[%s] = …` on every path of the iteration", foundVar.Name(), keyObj.Name())
				_ = foundTop
			}
		}
	}
}

func c07Nz(s, d string) string {
	if s == "" {
		return d
	}
	return s
}

// ---------------------------------------------------------------------------
// R6 stop idempotent and complete

func c07R6(c *kit.Ctx, m *cmModel, r *kit.Rule) {
	// (a) every close of a client state's stop channel
	for _, f := range c.P.Funcs("client") {
		if f.Body == nil {
			continue
		}
		info := f.Info()
		cmOwn(f.Body, func(n ast.Node) bool {
			call, ok := n.(*ast.CallExpr)
			if !ok || !cmIsBuiltin(info, call, "close") || len(call.Args) != 1 {
				return true
			}
			if fv := cmField(info, call.Args[0]); fv != m.csStopCh {
				return true
			}
			c.Analysed(f)
			o := r.Ob(f, call, "close of the client state's stop channel", "only inside sync.Once.Do of the same client state")
			switch {
			case f.Lit != nil && f.Outer != nil && m.onceBodies[f]:
				if doCall, isCall := c.P.Parent(f.File, f.Lit).(*ast.CallExpr); isCall && m.isOnceClose(f.Outer, doCall) {
					o.OK("inside `%s`", trunc160(f.Outer.Str(doCall)))
				} else {
					o.Undecided("`%s` runs under the Once, but the close is not unconditional for the same client state", f.Str(call))
				}
			case m.onceBodies[f]:
				o.OK("%s runs only under the client state's sync.Once", f.Name)
			default:
				o.Violation("`%s` is not guarded by the state's sync.Once: stop is called from the subscription handler, the removal loop and the manager's stop case, the second call panics (close of closed channel)", f.Str(call))
			}
			return true
		})
	}
	for _, sf := range m.stopM {
		c.Analysed(sf)
		o := r.Ob(sf, nil, "client state stop", "closes the stop channel (through the Once) on every path")
		if cmAlways(sf, func(cur *kit.Func, call *ast.CallExpr) bool { return m.isOnceClose(cur, call) }) {
			o.OK("Once.Do(close(%s)) on every path", m.csStopCh.Name())
		} else {
			o.Violation("stop can return without closing the state's stop channel through its sync.Once: the client keeps running after the manager or a scan asked it to stop")
		}
	}

	// (b) the manager's stop case
	f := m.mainF
	info := f.Info()
	c.Analysed(f)
	g := c.P.Graph(f)
	mkAtom := func(e ast.Expr) (string, bool, bool) {
		if emptyWhenTrue, ok := m.cmLenAtom(info, e); ok {
			return "empty", !emptyWhenTrue, true
		}
		return "", false, false
	}
	{
		o := r.Ob(f, m.stopClause, "manager stop case", "stops every client state in the map (or the map is empty)")
		st := &kit.Std{F: f}
		st.ShouldInline = func(*kit.Func, *ast.CallExpr) bool { return true }
		st.Eval.Atom = mkAtom
		missed := ""
		ranges := map[string]*ast.RangeStmt{}
		// the stop call may sit in a wrapper that is evaluated inline: its receiver is
		// resolved back to the loop's value (or map[key]) of the innermost open range
		stopOnValue := func(call *ast.CallExpr, rs *ast.RangeStmt) bool {
			rx, ok := m.isStopCall(st.Cur(), call)
			if !ok || rs == nil {
				return false
			}
			rxe := ast.Unparen(st.Resolve(rx))
			if rs.Value != nil {
				if _, isID := rxe.(*ast.Ident); isID && kit.ObjOf(info, rxe) == kit.ObjOf(info, rs.Value) {
					return true
				}
			}
			if ix, ok := rxe.(*ast.IndexExpr); ok && rs.Key != nil && m.isMapExpr(info, ix.X) && kit.ObjOf(info, st.Resolve(ix.Index)) == kit.ObjOf(info, rs.Key) {
				return true
			}
			return false
		}
		opaque := ""
		st.OnCall = func(call *ast.CallExpr, n ast.Node, s kit.S) []kit.S {
			if rs := ranges[s.Get("rng")]; rs != nil && s.Has("it") && stopOnValue(call, rs) {
				return []kit.S{s.Set("it", "1")}
			}
			if !cmIsLibraryCall(info, call) && st.Cur().CalleeFunc(call) == nil {
				opaque = st.Cur().Str(call.Fun) // a function value: may stop the clients
			}
			return nil
		}
		st.OnBranch = func(br kit.Branch, s kit.S) (t, fl []kit.S, handled bool) {
			if br.Kind == kit.BrCase {
				return cmTagCase(st, br, s)
			}
			if br.Kind != kit.BrRange || br.Range == nil || !m.isMapExpr(info, br.Range.X) {
				return nil, nil, false
			}
			if s.Get("it") == "0" && missed == "" {
				missed = "an iteration over the client states can end without calling stop on the value"
			}
			id := fmt.Sprint(br.Range.Pos())
			ranges[id] = br.Range
			// the exit edge is taken only when every entry has been visited
			return []kit.S{s.Set("it", "0").Set("rng", id)}, []kit.S{s.Del("it").Del("rng").Set("all", "1")}, true
		}
		res, leaves := cmClauseFlow(g, m.mainSel, m.stopClause, kit.NewS(), st.Client())
		bad := ""
		if res == nil || res.Overflow {
			c.Fatalf("R6: cannot run the stop case of %s", f.Name)
		}
		chk := func(s kit.S, where string) {
			if bad != "" {
				return
			}
			if s.Get("it") == "0" {
				bad = "the loop over the client states is left early (" + where + "): the remaining clients are not stopped"
				return
			}
			if s.Get("all") != "1" && s.Get("a:empty") != "T" {
				bad = "the stop case can finish (" + where + ") without stopping the clients in the map and without knowing the map is empty"
			}
		}
		for _, l := range leaves {
			chk(l.s, "continuing at "+f.At(l.n))
		}
		for _, e := range res.Exits {
			if e.Return != nil {
				chk(e.State, "return at "+f.At(e.Return))
			}
		}
		switch {
		case (missed != "" || bad != "") && opaque != "":
			o.Undecided("%s; the case calls the function value `%s`, which the checker cannot follow", c07Nz(missed, bad), opaque)
		case missed != "":
			o.Violation("%s", missed)
		case bad != "":
			o.Violation("%s", bad)
		case len(leaves)+len(res.Exits) == 0:
			o.Undecided("no path leaves the stop case")
		default:
			o.OK("range over %s with stop on every value; other paths know the map is empty", m.mgrMap.Name())
		}
	}

	// (c) the main loop is left only with an empty map or in the guard-timer case
	{
		o := r.Ob(f, m.mainSel, "main loop exit", "the manager returns only when the map is empty or the guard timer fired")
		st := &kit.Std{F: f}
		st.Eval.Atom = mkAtom
		classify := func(cc *ast.CommClause) string {
			if cc.Comm == nil {
				return "default"
			}
			ch, _, ok := cmRecvComm(cc.Comm)
			if !ok {
				return "other"
			}
			if cc == m.stopClause {
				return "stop"
			}
			if sel, ok := ast.Unparen(ch).(*ast.SelectorExpr); ok && sel.Sel.Name == "C" && kit.IsNamedType(info.TypeOf(sel.X), "time", "Timer") {
				if _, isID := ast.Unparen(sel.X).(*ast.Ident); isID {
					return "timer"
				}
			}
			return "other"
		}
		st.OnBranch = func(br kit.Branch, s kit.S) (t, fl []kit.S, handled bool) {
			if br.Kind == kit.BrCase {
				return cmTagCase(st, br, s)
			}
			if br.Kind != kit.BrSelect || !cmWithin(br.Comm, m.mainSel) || cmEnclosingSelect(f, br.Comm) != m.mainSel {
				return nil, nil, false
			}
			return []kit.S{s.Set("case", classify(br.Comm)).Set("loop", "1").Del("a:empty").Del("opq")}, []kit.S{s}, true
		}
		st.OnCall = func(call *ast.CallExpr, n ast.Node, s kit.S) []kit.S {
			if _, inCond := n.(ast.Expr); inCond && !cmIsLibraryCall(info, call) {
				// a predicate of the module decides this branch: the exit condition may live there
				return []kit.S{s.Del("a:empty").Set("opq", f.Str(call.Fun))}
			}
			if !s.Has("a:empty") {
				return nil
			}
			if cmIsBuiltin(info, call, "len") || cmIsBuiltin(info, call, "cap") {
				return nil
			}
			if cmIsBuiltin(info, call, "delete") || cmIsBuiltin(info, call, "clear") {
				if len(call.Args) > 0 && m.isMapExpr(info, call.Args[0]) {
					return []kit.S{s.Del("a:empty")}
				}
				return nil
			}
			if cmIsLibraryCall(info, call) {
				return nil
			}
			return []kit.S{s.Del("a:empty")} // module function, closure or func value: may change the map
		}
		st.OnNode = func(n ast.Node, s kit.S) []kit.S {
			if as, ok := n.(*ast.AssignStmt); ok {
				for _, l := range as.Lhs {
					if ix, ok := ast.Unparen(l).(*ast.IndexExpr); ok && m.isMapExpr(info, ix.X) {
						s = s.Del("a:empty")
					}
					if m.isMapExpr(info, l) {
						s = s.Del("a:empty")
					}
				}
			}
			return []kit.S{s}
		}
		res := g.Run(kit.NewS(), st.Client())
		if res.Overflow {
			c.Fatalf("R6: state overflow in %s", f.Name)
		}
		n := 0
		bad, undecC := "", ""
		var badExit kit.Exit
		for _, e := range res.Exits {
			if e.Return == nil || e.State.Get("loop") != "1" {
				continue
			}
			n++
			if e.State.Get("case") == "timer" || e.State.Get("a:empty") == "T" {
				continue
			}
			if q := e.State.Get("opq"); q != "" {
				undecC = "the exit of the select loop is decided by `" + q + "`, which the checker does not evaluate"
				continue
			}
			if bad == "" {
				bad = fmt.Sprintf("the manager can return from the %s case without knowing that the client-state map is empty: clients are still running (or stopping) when Run returns", e.State.Get("case"))
				badExit = e
			}
		}
		switch {
		case bad != "":
			o.Violation("%s", bad).WithPath(res.PathTo(badExit))
		case undecC != "":
			o.Undecided("%s", undecC)
		case n == 0:
			o.Undecided("the main loop has no exit")
		default:
			o.OK("every exit of the select loop follows `len(%s)` = 0 or the timer case", m.mgrMap.Name())
		}
	}

	// (d) run returns only after the stop request was forwarded to the client,
	// or after the client's own Run has returned
	for _, rf := range m.runM {
		c.Analysed(rf)
		rinfo := rf.Info()
		o := r.Ob(rf, nil, "client state run", "returns only after the client's Run returned, or after receiving from the stop channel and calling the client's Stop")
		done := c07DoneChans(c, m, rf)
		recvOf := func(e ast.Expr) (stop, fin bool) {
			u, ok := ast.Unparen(e).(*ast.UnaryExpr)
			if !ok || u.Op != token.ARROW {
				return false, false
			}
			if cmField(rinfo, u.X) == m.csStopCh {
				return true, false
			}
			if _, isID := ast.Unparen(u.X).(*ast.Ident); isID && done[kit.ObjOf(rinfo, u.X)] {
				return false, true
			}
			return false, false
		}
		var st *kit.Std
		mark := func(s kit.S, e ast.Expr) kit.S {
			stop, fin := recvOf(e)
			if stop {
				s = s.Set("rx", "1")
			}
			if fin {
				s = s.Set("fin", "1")
			}
			return s
		}
		st = &kit.Std{F: rf}
		st.ShouldInline = func(*kit.Func, *ast.CallExpr) bool { return true }
		st.OnNode = func(n ast.Node, s kit.S) []kit.S {
			// plain receive statements; select comms sit in the select header and are handled by OnBranch
			if es, ok := n.(*ast.ExprStmt); ok && !cmIsSelectComm(st.Cur(), es) {
				s = mark(s, es.X)
			}
			if as, ok := n.(*ast.AssignStmt); ok && len(as.Rhs) == 1 && !cmIsSelectComm(st.Cur(), as) {
				s = mark(s, as.Rhs[0])
			}
			return []kit.S{s}
		}
		st.OnBranch = func(br kit.Branch, s kit.S) (t, fl []kit.S, handled bool) {
			if br.Kind != kit.BrSelect || br.Comm.Comm == nil {
				return nil, nil, false
			}
			if ch, _, ok := cmRecvComm(br.Comm.Comm); ok {
				s2 := mark(s, &ast.UnaryExpr{Op: token.ARROW, X: ch})
				return []kit.S{s2}, []kit.S{s}, true
			}
			return nil, nil, false
		}
		st.OnCall = func(call *ast.CallExpr, n ast.Node, s kit.S) []kit.S {
			if x, ok := m.ifaceCall(rinfo, call, "Stop"); ok && cmField(rinfo, x) == m.csClient && s.Get("rx") == "1" {
				return []kit.S{s.Set("fwd", "1")}
			}
			if x, ok := m.ifaceCall(rinfo, call, "Run"); ok && cmField(rinfo, x) == m.csClient {
				if _, isGo := n.(*ast.GoStmt); !isGo {
					return []kit.S{s.Set("fin", "1")} // the client's Run returned on this very path
				}
			}
			return nil
		}
		res := c.P.Graph(rf).Run(kit.NewS(), st.Client())
		if res.Overflow {
			c.Fatalf("R6: state overflow in %s", rf.Name)
		}
		bad := ""
		var badExit kit.Exit
		n := 0
		for _, e := range res.Exits {
			if e.Return == nil {
				continue
			}
			n++
			if bad != "" || e.State.Get("fin") == "1" {
				continue
			}
			switch {
			case e.State.Get("rx") != "1":
				bad = "run can return while the client is running and no stop was requested: the exit signal deletes the entry and a second client is started for the same placement"
				badExit = e
			case e.State.Get("fwd") != "1":
				bad = "run can return after the stop request without calling the client's Stop: the client keeps running while its entry is deleted"
				badExit = e
			}
		}
		switch {
		case bad != "":
			o.Violation("%s", bad).WithPath(res.PathTo(badExit))
		case n == 0:
			o.Undecided("run has no return")
		default:
			o.OK("every return follows a receive from %s plus Stop on the client, or the end of the client's Run", m.csStopCh.Name())
		}
	}
}

// c07DoneChans returns the local channels of rf on which a receive proves that
// the client's Run has returned: every close of / send on the channel inside
// rf lies in a goroutine literal at a point dominated by the return of the
// interface's Run call.
func c07DoneChans(c *kit.Ctx, m *cmModel, rf *kit.Func) map[types.Object]bool {
	info := rf.Info()
	after := map[types.Object]int{}  // signalled after Run returned
	other := map[types.Object]bool{} // signalled elsewhere
	chanOf := func(n ast.Node) types.Object {
		var e ast.Expr
		switch x := n.(type) {
		case *ast.SendStmt:
			e = x.Chan
		case *ast.CallExpr:
			if cmIsBuiltin(info, x, "close") && len(x.Args) == 1 {
				e = x.Args[0]
			}
		}
		if e == nil {
			return nil
		}
		if _, isID := ast.Unparen(e).(*ast.Ident); !isID {
			return nil
		}
		if o := kit.ObjOf(info, e); o != nil && cmIsLocal(o) && cmIsChan(o.Type()) {
			return o
		}
		return nil
	}
	type gfun struct {
		f    *kit.Func
		bind map[types.Object]types.Object
	}
	var lits []*kit.Func
	var gfs []gfun
	cmOwn(rf.Body, func(n ast.Node) bool {
		if o := chanOf(n); o != nil {
			other[o] = true
		}
		if gs, ok := n.(*ast.GoStmt); ok {
			if gl := rf.CalleeFunc(gs.Call); gl != nil && gl.Body != nil {
				gfs = append(gfs, gfun{gl, cmBindCall(info, gl, gs.Call)})
				if gl.Lit != nil {
					lits = append(lits, gl)
				}
			}
		}
		return true
	})
	for _, g := range gfs {
		gl := g.f
		// a signal on a parameter of the goroutine's function is a signal on the channel passed for it
		chanOfG := func(n ast.Node) types.Object {
			var e ast.Expr
			switch x := n.(type) {
			case *ast.SendStmt:
				e = x.Chan
			case *ast.CallExpr:
				if cmIsBuiltin(info, x, "close") && len(x.Args) == 1 {
					e = x.Args[0]
				}
			}
			if e == nil {
				return nil
			}
			if _, isID := ast.Unparen(e).(*ast.Ident); !isID {
				return nil
			}
			o := kit.ObjOf(info, e)
			if b, ok := g.bind[o]; ok {
				o = b
			}
			if o != nil && cmIsLocal(o) && cmIsChan(o.Type()) {
				return o
			}
			return nil
		}
		st := &kit.Std{F: gl}
		st.OnCall = func(call *ast.CallExpr, n ast.Node, s kit.S) []kit.S {
			if x, ok := m.ifaceCall(info, call, "Run"); ok && cmField(info, x) == m.csClient {
				return []kit.S{s.Set("ran", "1")}
			}
			if o := chanOfG(call); o != nil {
				if s.Get("ran") == "1" {
					after[o]++
				} else {
					other[o] = true
				}
			}
			return nil
		}
		st.OnNode = func(n ast.Node, s kit.S) []kit.S {
			if o := chanOfG(n); o != nil {
				if s.Get("ran") == "1" {
					after[o]++
				} else {
					other[o] = true
				}
			}
			return []kit.S{s}
		}
		c.P.Graph(gl).Run(kit.NewS(), st.Client())
		// signals in literals nested deeper are not understood
		ast.Inspect(gl.Body, func(n ast.Node) bool {
			if l, ok := n.(*ast.FuncLit); ok && l != gl.Lit {
				ast.Inspect(l.Body, func(x ast.Node) bool {
					if o := chanOfG(x); o != nil {
						other[o] = true
					}
					return true
				})
				return false
			}
			return true
		})
	}
	// literals of rf that are not go-launched
	ast.Inspect(rf.Body, func(n ast.Node) bool {
		l, ok := n.(*ast.FuncLit)
		if !ok {
			return true
		}
		for _, gl := range lits {
			if gl.Lit == l {
				return false
			}
		}
		ast.Inspect(l.Body, func(x ast.Node) bool {
			if o := chanOf(x); o != nil {
				other[o] = true
			}
			return true
		})
		return false
	})
	out := map[types.Object]bool{}
	for o, n := range after {
		if n > 0 && !other[o] {
			out[o] = true
		}
	}
	return out
}

func cmEnclosingSelect(f *kit.Func, cc *ast.CommClause) *ast.SelectStmt {
	var best *ast.SelectStmt
	cmOwn(f.Body, func(n ast.Node) bool {
		if sel, ok := n.(*ast.SelectStmt); ok {
			for _, cl := range sel.Body.List {
				if cl == ast.Stmt(cc) {
					best = sel
				}
			}
		}
		return true
	})
	return best
}

func cmIsSelectComm(f *kit.Func, s ast.Stmt) bool {
	_, ok := f.Prog.Parent(f.File, s).(*ast.CommClause)
	return ok
}
