package props

import (
	"fmt"
	"go/ast"
	"go/constant"
	"go/token"
	"go/types"

	"siotcheck/kit"
)

// scenario runs a function under a fixed valuation of rule atoms ("the batch
// contains a NaN value", "node id equals parent id") and reports which
// forbidden calls are reachable and how the function can exit (K4 used as a
// reachability oracle).  Leaves that are not atoms fork both ways, so a guard
// weakened by an extra conjunct is seen as "may fall through".
type scenario struct {
	c     *kit.Ctx
	name  string
	f     *kit.Func
	batch map[types.Object]bool // variables holding the incoming batch
	elems map[types.Object]bool // range variables over the batch
	init  kit.S
	// atom recognises rule atoms; elems/batch are available to it.
	atom func(sc *scenario, e ast.Expr) (id string, neg, ok bool)
	// fold evaluates leaves from scenario facts (e.g. elem.Value == 1).
	fold func(sc *scenario, e ast.Expr, s kit.S) (val, ok bool)
	// forbidden names a call that must not be reached ("" = allowed).
	forbidden func(sc *scenario, call *ast.CallExpr) string
	// errSummary: when set, calls of module functions that receive the batch
	// are analysed recursively under the same scenario; if every exit of
	// the callee returns a non-nil error the call's error result is known
	// non-nil.
	interproc bool
	depth     int
	// noInline lists functions that must stay opaque (anchors the rule treats itself).
	noInline map[*kit.Func]bool

	std    *kit.Std
	ranges map[types.Object]*ast.RangeStmt
	defs   map[types.Object][]ast.Expr
}

type scenarioHit struct {
	call *ast.CallExpr
	what string
	s    kit.S
}

type scenarioResult struct {
	hits  []scenarioHit
	exits []kit.Exit
	res   *kit.Result
	rets  map[string]int // "nil"/"nonnil"/"unknown" -> count
}

func (sc *scenario) objOf(e ast.Expr) types.Object {
	if sc.std != nil {
		return sc.std.ObjOf(e)
	}
	return kit.ObjOf(sc.f.Info(), e)
}

func (sc *scenario) isBatch(e ast.Expr) bool {
	o := sc.objOf(e)
	return o != nil && sc.batch[o]
}

// elemOf reports whether e denotes an element of the batch: a range value
// variable over it (in the analysed function or in a helper evaluated inline,
// where the ranged parameter is bound to the batch), or batch[i].
func (sc *scenario) isElem(e ast.Expr) bool {
	e = ast.Unparen(e)
	if ix, ok := e.(*ast.IndexExpr); ok {
		return sc.isBatch(ix.X)
	}
	o := sc.objOf(e)
	if o == nil {
		return false
	}
	if sc.elems[o] {
		return true
	}
	if rs := sc.rangeOfVar(o); rs != nil {
		return sc.isBatch(rs.X)
	}
	// pt := &batch[i] / pt := batch[i] (single definition)
	if def := sc.singleDef(o); def != nil {
		d := ast.Unparen(def)
		if u, ok := d.(*ast.UnaryExpr); ok && u.Op == token.AND {
			d = ast.Unparen(u.X)
		}
		if ix, ok := d.(*ast.IndexExpr); ok {
			return sc.isBatch(ix.X)
		}
	}
	return false
}

// singleDef returns the defining expression of a local variable that is assigned
// exactly once (anywhere in the package's functions).
func (sc *scenario) singleDef(o types.Object) ast.Expr {
	if sc.defs == nil {
		sc.defs = map[types.Object][]ast.Expr{}
		info := sc.f.Info()
		for _, f := range sc.c.P.Funcs(sc.f.PkgRel()) {
			if f.Body == nil || f.Lit != nil {
				continue
			}
			ast.Inspect(f.Body, func(n ast.Node) bool {
				if as, ok := n.(*ast.AssignStmt); ok && len(as.Lhs) == len(as.Rhs) {
					for i, l := range as.Lhs {
						if v := kit.ObjOf(info, l); v != nil {
							sc.defs[v] = append(sc.defs[v], as.Rhs[i])
						}
					}
				}
				return true
			})
		}
	}
	if d := sc.defs[o]; len(d) == 1 {
		return d[0]
	}
	return nil
}

// rangeOfVar finds the range statement (anywhere in the package) whose value
// variable is o.
func (sc *scenario) rangeOfVar(o types.Object) *ast.RangeStmt {
	if sc.ranges == nil {
		sc.ranges = map[types.Object]*ast.RangeStmt{}
		info := sc.f.Info()
		for _, f := range sc.c.P.Funcs(sc.f.PkgRel()) {
			if f.Body == nil || f.Lit != nil {
				continue
			}
			ast.Inspect(f.Body, func(n ast.Node) bool {
				if rs, ok := n.(*ast.RangeStmt); ok && rs.Value != nil {
					if v := kit.ObjOf(info, rs.Value); v != nil {
						sc.ranges[v] = rs
					}
				}
				return true
			})
		}
	}
	return sc.ranges[o]
}

// elemField matches `<elem>.<field>`.
func (sc *scenario) elemField(e ast.Expr, field string) bool {
	sel, ok := ast.Unparen(e).(*ast.SelectorExpr)
	return ok && sel.Sel.Name == field && sc.isElem(sel.X)
}

func (sc *scenario) prepare() {
	info := sc.f.Info()
	if sc.elems == nil {
		sc.elems = map[types.Object]bool{}
	}
	// aliases of the batch and range variables over it (fixpoint, two rounds)
	for round := 0; round < 2; round++ {
		ast.Inspect(sc.f.Body, func(n ast.Node) bool {
			switch x := n.(type) {
			case *ast.RangeStmt:
				if sc.isBatch(x.X) && x.Value != nil {
					if o := kit.ObjOf(info, x.Value); o != nil {
						sc.elems[o] = true
					}
				}
			case *ast.AssignStmt:
				if len(x.Lhs) == 1 && len(x.Rhs) == 1 && sc.isBatch(x.Rhs[0]) {
					if o := kit.ObjOf(info, x.Lhs[0]); o != nil {
						sc.batch[o] = true
					}
				}
			}
			return true
		})
	}
}

func (sc *scenario) run() *scenarioResult {
	sc.prepare()
	out := &scenarioResult{rets: map[string]int{}}
	g := sc.c.P.Graph(sc.f)
	st := &kit.Std{F: sc.f}
	sc.std = st
	st.Eval.Atom = func(e ast.Expr) (string, bool, bool) {
		if sc.atom == nil {
			return "", false, false
		}
		return sc.atom(sc, e)
	}
	st.Fold = func(e ast.Expr, s kit.S) (bool, bool) {
		// `i < len(batch)` with i known to be 0: the scenario's batch is non-empty
		if a, b, op, ok := kit.CmpAtom(e); ok {
			lenOfBatch := func(x ast.Expr) bool {
				call, ok := ast.Unparen(x).(*ast.CallExpr)
				if !ok || len(call.Args) != 1 {
					return false
				}
				bi, ok := kit.Callee(sc.f.Info(), call).(*types.Builtin)
				return ok && bi.Name() == "len" && sc.isBatch(call.Args[0])
			}
			isZero := func(x ast.Expr) bool {
				v, ok := st.FoldExpr(x, s)
				return ok && v.Kind() == constant.Int && constant.Sign(v) == 0
			}
			switch {
			case lenOfBatch(b) && isZero(a) && (op == token.LSS || op == token.NEQ):
				return true, true
			case lenOfBatch(a) && isZero(b) && (op == token.GTR || op == token.NEQ):
				return true, true
			case lenOfBatch(b) && isZero(a) && (op == token.GEQ || op == token.EQL):
				return false, true
			case lenOfBatch(a) && isZero(b) && (op == token.LEQ || op == token.EQL):
				return false, true
			}
		}
		if sc.fold == nil {
			return false, false
		}
		return sc.fold(sc, e, s)
	}
	seenHit := map[*ast.CallExpr]bool{}
	st.OnCall = func(call *ast.CallExpr, n ast.Node, s kit.S) []kit.S {
		if sc.forbidden != nil {
			if w := sc.forbidden(sc, call); w != "" && !seenHit[call] {
				seenHit[call] = true
				out.hits = append(out.hits, scenarioHit{call, w, s})
			}
		}
		return nil
	}
	// helpers of the same package are evaluated inline under the same scenario, so a
	// guard or predicate moved into a helper is still seen
	st.ShouldInline = func(cf *kit.Func, call *ast.CallExpr) bool { return !sc.noInline[cf] }
	st.OnBranch = func(br kit.Branch, s kit.S) (t, f []kit.S, handled bool) {
		if br.Kind == kit.BrRange && sc.isBatch(br.Range.X) {
			k := fmt.Sprintf("it:%d", br.Range.Pos())
			if !s.Has(k) {
				// the scenario's batch is non-empty: first decision enters the body
				return []kit.S{s.Set(k, "1")}, nil, true
			}
		}
		return nil, nil, false
	}
	init := sc.init
	res := g.Run(init, st.Client())
	if res.Overflow {
		sc.c.Fatalf("scenario %s on %s: state space overflow", sc.name, sc.f.Name)
	}
	out.res = res
	out.exits = res.Exits
	for _, e := range res.Exits {
		if e.Return == nil {
			continue // panic / no-return call
		}
		out.rets[st.ReturnsNil(e.Return, e.State)]++
	}
	// exits without return statement are not counted in rets; make the
	// totals comparable
	n := 0
	for _, e := range res.Exits {
		if e.Return != nil {
			n++
		}
	}
	if n != len(res.Exits) {
		var ex []kit.Exit
		for _, e := range res.Exits {
			if e.Return != nil {
				ex = append(ex, e)
			}
		}
		out.exits = ex
	}
	return out
}

// eqAtom matches `a == b` / `a != b` where pa(a)&&pb(b) or pa(b)&&pb(a).
func eqAtom(e ast.Expr, pa, pb func(ast.Expr) bool) (neg, ok bool) {
	a, b, op, isCmp := kit.CmpAtom(e)
	if !isCmp || (op != token.EQL && op != token.NEQ) {
		return false, false
	}
	if (pa(a) && pb(b)) || (pa(b) && pb(a)) {
		return op == token.NEQ, true
	}
	return false, false
}

// constStringIs matches an expression whose constant string value is v.
func constStringIs(info *types.Info, v string) func(ast.Expr) bool {
	return func(e ast.Expr) bool {
		s, ok := kit.ConstString(info, e)
		return ok && s == v
	}
}

// dataConst returns the string value of a constant declared in package data.
func dataConst(c *kit.Ctx, name string) string {
	pk := c.P.MustPkg("data")
	o := pk.Types.Scope().Lookup(name)
	k, ok := o.(*types.Const)
	if !ok || k.Val().Kind() != constant.String {
		c.Fatalf("constant data.%s not found", name)
	}
	return constant.StringVal(k.Val())
}

// foldWithValue evaluates a comparison leaf in which every occurrence of
// `<elem>.Value` is replaced by the given number; math.Mod and the repo's
// FloatToBool are understood.
func foldWithValue(sc *scenario, e ast.Expr, val float64) (bool, bool) {
	uses := false
	var ev func(x ast.Expr) (constant.Value, bool)
	info := sc.f.Info()
	ev = func(x ast.Expr) (constant.Value, bool) {
		x = ast.Unparen(x)
		if sc.elemField(x, "Value") {
			uses = true
			return constant.MakeFloat64(val), true
		}
		if tv, ok := info.Types[x]; ok && tv.Value != nil {
			return tv.Value, true
		}
		if x == ast.Expr(kit.EmptyStringLit) {
			return constant.MakeString(""), true
		}
		switch y := x.(type) {
		case *ast.BinaryExpr:
			a, ok1 := ev(y.X)
			b, ok2 := ev(y.Y)
			if !ok1 || !ok2 {
				return nil, false
			}
			switch y.Op {
			case token.EQL, token.NEQ, token.LSS, token.LEQ, token.GTR, token.GEQ:
				if a.Kind() == constant.Bool || b.Kind() == constant.Bool || a.Kind() == constant.String || b.Kind() == constant.String {
					return nil, false
				}
				return constant.MakeBool(constant.Compare(a, y.Op, b)), true
			case token.ADD, token.SUB, token.MUL:
				return constant.BinaryOp(a, y.Op, b), true
			}
		case *ast.UnaryExpr:
			if y.Op == token.NOT {
				if a, ok := ev(y.X); ok && a.Kind() == constant.Bool {
					return constant.MakeBool(!constant.BoolVal(a)), true
				}
			}
		case *ast.CallExpr:
			q := kit.QualName(kit.Callee(info, y))
			switch {
			case q == "math.Mod" && len(y.Args) == 2:
				a, ok1 := ev(y.Args[0])
				b, ok2 := ev(y.Args[1])
				if ok1 && ok2 {
					af, _ := constant.Float64Val(a)
					bf, _ := constant.Float64Val(b)
					if bf != 0 {
						r := af - bf*float64(int64(af/bf))
						return constant.MakeFloat64(r), true
					}
				}
			case len(y.Args) == 1 && sc.c.P.FuncOf(kit.Callee(info, y)) != nil:
				// a module helper of one parameter whose body is a single return: inline it
				if a, ok := ev(y.Args[0]); ok {
					if v, ok := inlineSimpleFunc(sc.c.P.FuncOf(kit.Callee(info, y)), a); ok {
						return v, true
					}
				}
			case len(y.Args) == 1: // conversion like int(p.Value)
				if tv, ok := info.Types[y.Fun]; ok && tv.IsType() {
					return ev(y.Args[0])
				}
			}
		}
		return nil, false
	}
	v, ok := ev(e)
	if !ok || !uses || v.Kind() != constant.Bool {
		return false, false
	}
	return constant.BoolVal(v), true
}

// inlineSimpleFunc evaluates a module function of one parameter whose body is a
// single `return <expr>` over comparisons/arithmetic of that parameter and
// constants (data.FloatToBool and friends) at a constant argument.
func inlineSimpleFunc(fn *kit.Func, arg constant.Value) (constant.Value, bool) {
	if fn == nil || fn.Body == nil || len(fn.Body.List) != 1 || len(fn.Params()) != 1 {
		return nil, false
	}
	ret, ok := fn.Body.List[0].(*ast.ReturnStmt)
	if !ok || len(ret.Results) != 1 {
		return nil, false
	}
	info := fn.Info()
	param := fn.Params()[0]
	var ev func(x ast.Expr) (constant.Value, bool)
	ev = func(x ast.Expr) (constant.Value, bool) {
		x = ast.Unparen(x)
		if kit.ObjOf(info, x) == types.Object(param) {
			return arg, true
		}
		if tv, ok := info.Types[x]; ok && tv.Value != nil {
			return tv.Value, true
		}
		if x == ast.Expr(kit.EmptyStringLit) {
			return constant.MakeString(""), true
		}
		switch y := x.(type) {
		case *ast.BinaryExpr:
			a, ok1 := ev(y.X)
			b, ok2 := ev(y.Y)
			if !ok1 || !ok2 {
				return nil, false
			}
			num := func(v constant.Value) bool { return v.Kind() == constant.Int || v.Kind() == constant.Float }
			switch y.Op {
			case token.EQL, token.NEQ, token.LSS, token.LEQ, token.GTR, token.GEQ:
				if num(a) && num(b) {
					return constant.MakeBool(constant.Compare(a, y.Op, b)), true
				}
			case token.ADD, token.SUB, token.MUL:
				if num(a) && num(b) {
					return constant.BinaryOp(a, y.Op, b), true
				}
			case token.LAND, token.LOR:
				if a.Kind() == constant.Bool && b.Kind() == constant.Bool {
					if y.Op == token.LAND {
						return constant.MakeBool(constant.BoolVal(a) && constant.BoolVal(b)), true
					}
					return constant.MakeBool(constant.BoolVal(a) || constant.BoolVal(b)), true
				}
			}
		case *ast.UnaryExpr:
			if y.Op == token.NOT {
				if a, ok := ev(y.X); ok && a.Kind() == constant.Bool {
					return constant.MakeBool(!constant.BoolVal(a)), true
				}
			}
		case *ast.CallExpr:
			if kit.QualName(kit.Callee(info, y)) == "math.Mod" && len(y.Args) == 2 {
				a, ok1 := ev(y.Args[0])
				b, ok2 := ev(y.Args[1])
				if ok1 && ok2 {
					af, _ := constant.Float64Val(a)
					bf, _ := constant.Float64Val(b)
					if bf != 0 {
						return constant.MakeFloat64(af - bf*float64(int64(af/bf))), true
					}
				}
			}
		}
		return nil, false
	}
	return ev(ret.Results[0])
}
