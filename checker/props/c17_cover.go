package props

import (
	"fmt"
	"go/ast"
	"go/constant"
	"go/token"
	"go/types"

	"siotcheck/kit"
)

// C17/R1 "checksum covers every input byte".  The detection clause needs every
// byte of d[:l-2] to enter the checksum.  A tabled library checksum is
// trusted; a checksum written in the module must be shown to read every index
// 0..len-1 of its argument: proved for the two whole-slice loop shapes,
// refuted by running the function's length-only control flow for concrete
// lengths (a read set that misses an index is a witness), undecided otherwise.

var c17TrustedSums = map[string]bool{
	"github.com/kjx98/crc16.ChecksumCCITT":  true,
	"github.com/kjx98/crc16.ChecksumIBM":    true,
	"github.com/kjx98/crc16.ChecksumMBus":   true,
	"github.com/kjx98/crc16.ChecksumSCSI":   true,
	"hash/crc32.ChecksumIEEE":               true,
	"github.com/sigurn/crc16.Checksum":      true,
	"github.com/howeyc/crc16.ChecksumCCITT": true,
}

func c17Coverage(c *kit.Ctx, r *kit.Rule, dec *c17Decoder, dm *c17DecModel) {
	o := r.Ob(dec.f, dec.computed, "checksum covers every input byte", "the checksum function is a trusted library checksum, or a module function that reads every byte of its argument on every path")
	q := kit.QualName(dec.sumFn)
	if c17TrustedSums[q] {
		o.OK("%s is a library checksum over its whole argument", q)
		return
	}
	fn := c.P.FuncOf(dec.sumFn)
	if fn == nil || fn.Body == nil || fn.Decl == nil {
		o.Undecided("%s is neither a tabled library checksum nor a function of the module", q)
		return
	}
	c.Analysed(fn)
	var d types.Object
	for _, p := range fn.Params() {
		if c17IsByteSlice(p.Type()) {
			if d != nil {
				o.Undecided("%s has several []byte parameters", fn.Name)
				return
			}
			d = p
		}
	}
	if d == nil {
		o.Undecided("%s has no []byte parameter", fn.Name)
		return
	}
	if why := c17CoverProved(fn, d); why != "" {
		o.OK("%s: %s", fn.Name, why)
		return
	}
	// the shortest input the decoder hands to the checksum
	minLen := int64(0)
	if se := dec.computedSlice; se != nil && dm != nil && dm.lf != nil {
		first := true
		flow := dm.lf
		if dec.viaHelper() && dm.flowOf(dec.vf) != nil {
			flow = dm.flowOf(dec.vf)
		}
		for _, st := range flow.Sites {
			if st.Expr != ast.Expr(se) {
				continue
			}
			for _, b := range st.Bounds {
				if set, _, _, _, ok := flow.ResultLen(se, b.State); ok {
					var lo int64
					if _, err := fmt.Sscanf(set, "%d:", &lo); err == nil && (first || lo < minLen) {
						minLen, first = lo, false
					}
				}
			}
		}
	}
	// refutation by concrete lengths
	for l := minLen; l <= minLen+40; l++ {
		sim := &c17Sim{f: fn, d: d, l: l, env: map[types.Object]int64{}, read: map[int64]bool{}}
		if !sim.block(fn.Body.List) && sim.fail != "" {
			o.Undecided("%s is a local checksum whose coverage of its input is not proved (%s)", fn.Name, sim.fail)
			return
		}
		for i := int64(0); i < l; i++ {
			if !sim.read[i] {
				o.Violation("the local checksum %s never reads byte %d of an input of length %d (bytes read: %s): a corruption confined to that byte leaves the checksum unchanged, so the altered packet is accepted; the decoder applies it to d[:l-2], i.e. the last byte before the trailer of a %d-byte packet is unprotected",
					fn.Name, i, l, sim.readSet(), l+2)
				return
			}
		}
	}
	o.Undecided("%s is a local checksum: it reads every byte for the 41 shortest input lengths the decoder can pass, but coverage for every length is not proved (only whole-slice loops are)", fn.Name)
}

// c17CoverProved recognises, as an unconditional top-level statement that no
// return precedes, `for _, b := range d { …b… }`, `for i := range d { …d[i]… }`
// or `for i := 0; i < len(d); i++ { …d[i]… }` whose body has no break /
// continue / return and uses the element in a statement directly in the body.
func c17CoverProved(fn *kit.Func, d types.Object) string {
	info := fn.Info()
	isD := func(e ast.Expr) bool {
		id, ok := ast.Unparen(e).(*ast.Ident)
		return ok && kit.ObjOf(info, id) == d
	}
	// d must not be reassigned
	reassigned := false
	ast.Inspect(fn.Body, func(x ast.Node) bool {
		if as, ok := x.(*ast.AssignStmt); ok {
			for _, l := range as.Lhs {
				if isD(l) {
					reassigned = true
				}
			}
		}
		return true
	})
	if reassigned {
		return ""
	}
	clean := func(body *ast.BlockStmt) bool {
		ok := true
		ast.Inspect(body, func(x ast.Node) bool {
			switch x.(type) {
			case *ast.FuncLit:
				return false
			case *ast.BranchStmt, *ast.ReturnStmt:
				ok = false
			}
			return ok
		})
		return ok
	}
	usesDirect := func(body *ast.BlockStmt, pred func(ast.Node) bool) bool {
		for _, st := range body.List {
			switch st.(type) {
			case *ast.AssignStmt, *ast.ExprStmt, *ast.IncDecStmt:
				hit := false
				ast.Inspect(st, func(x ast.Node) bool {
					if _, isLit := x.(*ast.FuncLit); isLit {
						return false
					}
					if x != nil && pred(x) {
						hit = true
					}
					return !hit
				})
				if hit {
					return true
				}
			}
		}
		return false
	}
	for _, st := range fn.Body.List {
		// a return before the loop ends the proof
		hasRet := false
		switch y := st.(type) {
		case *ast.RangeStmt:
			if isD(y.X) && clean(y.Body) {
				if y.Value != nil {
					if v := kit.ObjOf(info, y.Value); v != nil {
						if usesDirect(y.Body, func(n ast.Node) bool {
							id, ok := n.(*ast.Ident)
							return ok && info.Uses[id] == v
						}) {
							return "ranges over the whole argument and uses every element"
						}
					}
				}
				if y.Key != nil {
					if k := kit.ObjOf(info, y.Key); k != nil {
						if usesDirect(y.Body, func(n ast.Node) bool {
							ix, ok := n.(*ast.IndexExpr)
							return ok && isD(ix.X) && kit.ObjOf(info, ix.Index) == k
						}) {
							return "ranges over the whole argument and reads d[i] for every index"
						}
					}
				}
			}
		case *ast.ForStmt:
			init, ok1 := y.Init.(*ast.AssignStmt)
			post, ok2 := y.Post.(*ast.IncDecStmt)
			if ok1 && ok2 && init.Tok == token.DEFINE && len(init.Lhs) == 1 && len(init.Rhs) == 1 && post.Tok == token.INC && clean(y.Body) {
				iv := kit.ObjOf(info, init.Lhs[0])
				z, isZero := kit.ConstInt(info, init.Rhs[0])
				a, b, op, isCmp := kit.CmpAtom(y.Cond)
				if isCmp && op == token.GTR {
					a, b, op = b, a, token.LSS
				}
				lenOfD := func(e ast.Expr) bool {
					cl, ok := ast.Unparen(e).(*ast.CallExpr)
					if !ok || len(cl.Args) != 1 {
						return false
					}
					bi, ok := kit.Callee(info, cl).(*types.Builtin)
					return ok && bi.Name() == "len" && isD(cl.Args[0])
				}
				assigned := false
				ast.Inspect(y.Body, func(x ast.Node) bool {
					switch s := x.(type) {
					case *ast.AssignStmt:
						for _, l := range s.Lhs {
							if kit.ObjOf(info, l) == iv {
								assigned = true
							}
						}
					case *ast.IncDecStmt:
						if kit.ObjOf(info, s.X) == iv {
							assigned = true
						}
					}
					return true
				})
				if iv != nil && isZero && z == 0 && isCmp && op == token.LSS && kit.ObjOf(info, a) == iv && lenOfD(b) && kit.ObjOf(info, post.X) == iv && !assigned {
					if usesDirect(y.Body, func(n ast.Node) bool {
						ix, ok := n.(*ast.IndexExpr)
						return ok && isD(ix.X) && kit.ObjOf(info, ix.Index) == iv
					}) {
						return "loops i = 0 … len-1 and reads d[i] in every iteration"
					}
				}
			}
		}
		ast.Inspect(st, func(x ast.Node) bool {
			switch x.(type) {
			case *ast.FuncLit:
				return false
			case *ast.ReturnStmt:
				hasRet = true
			}
			return true
		})
		if hasRet {
			return ""
		}
	}
	return ""
}

// c17Sim runs the length-only control flow of a function for one concrete
// length of d and records which indices of d are read.  Anything whose
// control flow depends on content makes it give up (fail != "").
type c17Sim struct {
	f     *kit.Func
	d     types.Object
	l     int64
	env   map[types.Object]int64
	read  map[int64]bool
	fail  string
	steps int
}

func (sm *c17Sim) readSet() string {
	out := ""
	for i := int64(0); i < sm.l; i++ {
		if sm.read[i] {
			if out != "" {
				out += ","
			}
			out += fmt.Sprint(i)
		}
	}
	return "{" + out + "}"
}

func (sm *c17Sim) isD(e ast.Expr) bool {
	id, ok := ast.Unparen(e).(*ast.Ident)
	return ok && kit.ObjOf(sm.f.Info(), id) == sm.d
}

// eval evaluates an integer expression that depends on the length only.
func (sm *c17Sim) eval(e ast.Expr) (int64, bool) {
	info := sm.f.Info()
	e = ast.Unparen(e)
	if v, ok := kit.ConstInt(info, e); ok {
		return v, true
	}
	switch x := e.(type) {
	case *ast.Ident:
		if o := kit.ObjOf(info, x); o != nil {
			v, ok := sm.env[o]
			return v, ok
		}
	case *ast.CallExpr:
		if b, ok := kit.Callee(info, x).(*types.Builtin); ok && b.Name() == "len" && len(x.Args) == 1 && sm.isD(x.Args[0]) {
			return sm.l, true
		}
		if tv, ok := info.Types[x.Fun]; ok && tv.IsType() && len(x.Args) == 1 {
			if bt, ok := tv.Type.Underlying().(*types.Basic); ok {
				switch bt.Kind() {
				case types.Int, types.Int64, types.Uint, types.Uint64:
					return sm.eval(x.Args[0])
				}
			}
		}
	case *ast.BinaryExpr:
		a, ok1 := sm.eval(x.X)
		b, ok2 := sm.eval(x.Y)
		if !ok1 || !ok2 {
			return 0, false
		}
		switch x.Op {
		case token.ADD:
			return a + b, true
		case token.SUB:
			return a - b, true
		case token.MUL:
			return a * b, true
		case token.QUO:
			if b != 0 {
				return a / b, true
			}
		case token.REM:
			if b != 0 {
				return a % b, true
			}
		case token.AND:
			return a & b, true
		case token.OR:
			return a | b, true
		case token.XOR:
			return a ^ b, true
		case token.AND_NOT:
			return a &^ b, true
		case token.SHL:
			if b >= 0 && b < 62 {
				return a << uint(b), true
			}
		case token.SHR:
			if b >= 0 && b < 63 {
				return a >> uint(b), true
			}
		}
	case *ast.UnaryExpr:
		if v, ok := sm.eval(x.X); ok {
			switch x.Op {
			case token.SUB:
				return -v, true
			case token.XOR:
				return ^v, true
			case token.ADD:
				return v, true
			}
		}
	}
	return 0, false
}

func (sm *c17Sim) cond(e ast.Expr) (val, ok bool) {
	info := sm.f.Info()
	e = ast.Unparen(e)
	if tv, has := info.Types[e]; has && tv.Value != nil && tv.Value.Kind() == constant.Bool {
		return constant.BoolVal(tv.Value), true
	}
	switch x := e.(type) {
	case *ast.UnaryExpr:
		if x.Op == token.NOT {
			v, ok := sm.cond(x.X)
			return !v, ok
		}
	case *ast.BinaryExpr:
		switch x.Op {
		case token.LAND, token.LOR:
			a, ok1 := sm.cond(x.X)
			if !ok1 {
				return false, false
			}
			if a == (x.Op == token.LOR) {
				return a, true
			}
			return sm.cond(x.Y)
		case token.EQL, token.NEQ, token.LSS, token.LEQ, token.GTR, token.GEQ:
			a, ok1 := sm.eval(x.X)
			b, ok2 := sm.eval(x.Y)
			if !ok1 || !ok2 {
				return false, false
			}
			switch x.Op {
			case token.EQL:
				return a == b, true
			case token.NEQ:
				return a != b, true
			case token.LSS:
				return a < b, true
			case token.LEQ:
				return a <= b, true
			case token.GTR:
				return a > b, true
			default:
				return a >= b, true
			}
		}
	}
	return false, false
}

// reads records the indices of d read inside n; false when one is not
// computable or d is used in another way.
func (sm *c17Sim) reads(n ast.Node) bool {
	if n == nil {
		return true
	}
	ok := true
	ast.Inspect(n, func(x ast.Node) bool {
		if !ok {
			return false
		}
		switch y := x.(type) {
		case *ast.FuncLit:
			ok, sm.fail = false, "function literal"
			return false
		case *ast.IndexExpr:
			if sm.isD(y.X) {
				i, k := sm.eval(y.Index)
				if !k {
					ok, sm.fail = false, fmt.Sprintf("index %s depends on more than the length", sm.f.Str(y.Index))
					return false
				}
				if i < 0 || i >= sm.l {
					ok, sm.fail = false, fmt.Sprintf("index %d out of range for length %d", i, sm.l)
					return false
				}
				sm.read[i] = true
				return false
			}
		case *ast.SliceExpr:
			if sm.isD(y.X) {
				ok, sm.fail = false, "a sub-slice of the input is taken"
				return false
			}
		case *ast.CallExpr:
			if b, isB := kit.Callee(sm.f.Info(), y).(*types.Builtin); isB && b.Name() == "len" && len(y.Args) == 1 && sm.isD(y.Args[0]) {
				return false
			}
			for _, a := range y.Args {
				if sm.isD(a) {
					ok, sm.fail = false, "the input is passed to "+sm.f.Str(y.Fun)
					return false
				}
			}
		}
		return true
	})
	return ok
}

func (sm *c17Sim) touchesInput(n ast.Node) bool {
	hit := false
	ast.Inspect(n, func(x ast.Node) bool {
		if id, ok := x.(*ast.Ident); ok && kit.ObjOf(sm.f.Info(), id) == sm.d {
			hit = true
		}
		return !hit
	})
	return hit
}

// forget drops every integer variable assigned inside n.
func (sm *c17Sim) forget(n ast.Node) {
	info := sm.f.Info()
	ast.Inspect(n, func(x ast.Node) bool {
		switch y := x.(type) {
		case *ast.AssignStmt:
			for _, l := range y.Lhs {
				if o := kit.ObjOf(info, l); o != nil {
					delete(sm.env, o)
				}
			}
		case *ast.IncDecStmt:
			if o := kit.ObjOf(info, y.X); o != nil {
				delete(sm.env, o)
			}
		}
		return true
	})
}

// block executes statements; it returns false when execution stopped
// (return reached, or failure: fail != "").
func (sm *c17Sim) block(list []ast.Stmt) bool {
	for _, st := range list {
		if !sm.stmt(st) {
			return false
		}
	}
	return true
}

func (sm *c17Sim) assign(lhs ast.Expr, rhs ast.Expr, tok token.Token) {
	info := sm.f.Info()
	o := kit.ObjOf(info, lhs)
	if o == nil {
		return
	}
	if _, isIdent := ast.Unparen(lhs).(*ast.Ident); !isIdent {
		return
	}
	if rhs == nil {
		delete(sm.env, o)
		return
	}
	v, ok := sm.eval(rhs)
	cur, had := sm.env[o]
	switch tok {
	case token.ASSIGN, token.DEFINE:
	case token.ADD_ASSIGN:
		v, ok = cur+v, ok && had
	case token.SUB_ASSIGN:
		v, ok = cur-v, ok && had
	default:
		ok = false
	}
	if ok {
		sm.env[o] = v
	} else {
		delete(sm.env, o)
	}
}

func (sm *c17Sim) stmt(st ast.Stmt) bool {
	sm.steps++
	if sm.steps > 200000 {
		sm.fail = "simulation budget exceeded"
		return false
	}
	info := sm.f.Info()
	switch y := st.(type) {
	case nil:
		return true
	case *ast.EmptyStmt:
		return true
	case *ast.DeclStmt:
		if !sm.reads(y) {
			return false
		}
		if gd, ok := y.Decl.(*ast.GenDecl); ok {
			for _, sp := range gd.Specs {
				if vs, ok := sp.(*ast.ValueSpec); ok {
					for i, nm := range vs.Names {
						if i < len(vs.Values) && len(vs.Values) == len(vs.Names) {
							sm.assign(nm, vs.Values[i], token.DEFINE)
						} else if len(vs.Values) == 0 {
							if o := info.Defs[nm]; o != nil {
								if b, ok := o.Type().Underlying().(*types.Basic); ok && b.Info()&types.IsInteger != 0 {
									sm.env[o] = 0
								}
							}
						}
					}
				}
			}
		}
		return true
	case *ast.AssignStmt:
		if !sm.reads(y) {
			return false
		}
		if len(y.Lhs) == len(y.Rhs) {
			vals := make([]ast.Expr, len(y.Rhs))
			copy(vals, y.Rhs)
			for i, l := range y.Lhs {
				sm.assign(l, vals[i], y.Tok)
			}
		} else {
			for _, l := range y.Lhs {
				sm.assign(l, nil, y.Tok)
			}
		}
		return true
	case *ast.IncDecStmt:
		if o := kit.ObjOf(info, y.X); o != nil {
			if v, ok := sm.env[o]; ok {
				if y.Tok == token.INC {
					sm.env[o] = v + 1
				} else {
					sm.env[o] = v - 1
				}
			}
		}
		return true
	case *ast.ExprStmt:
		return sm.reads(y)
	case *ast.ReturnStmt:
		sm.reads(y)
		return false
	case *ast.BlockStmt:
		return sm.block(y.List)
	case *ast.IfStmt:
		if y.Init != nil && !sm.stmt(y.Init) {
			return false
		}
		if !sm.reads(y.Cond) {
			return false
		}
		v, ok := sm.cond(y.Cond)
		if !ok {
			// content-dependent: harmless only if neither arm touches the input or returns
			bad := sm.touchesInput(y.Body) || (y.Else != nil && sm.touchesInput(y.Else))
			ast.Inspect(y, func(x ast.Node) bool {
				switch x.(type) {
				case *ast.ReturnStmt, *ast.BranchStmt:
					bad = true
				}
				return !bad
			})
			if bad {
				sm.fail = fmt.Sprintf("the condition %s depends on more than the length and guards reads or exits", sm.f.Str(y.Cond))
				return false
			}
			sm.forget(y)
			return true
		}
		if v {
			return sm.block(y.Body.List)
		}
		if y.Else != nil {
			return sm.stmt(y.Else)
		}
		return true
	case *ast.ForStmt:
		if y.Init != nil && !sm.stmt(y.Init) {
			return false
		}
		for {
			if y.Cond != nil {
				if !sm.reads(y.Cond) {
					return false
				}
				v, ok := sm.cond(y.Cond)
				if !ok {
					sm.fail = fmt.Sprintf("the loop condition %s depends on more than the length", sm.f.Str(y.Cond))
					return false
				}
				if !v {
					return true
				}
			}
			hasBranch := false
			ast.Inspect(y.Body, func(x ast.Node) bool {
				if _, ok := x.(*ast.BranchStmt); ok {
					hasBranch = true
				}
				return !hasBranch
			})
			if hasBranch {
				sm.fail = "break/continue inside a loop"
				return false
			}
			if !sm.block(y.Body.List) {
				return false
			}
			if y.Post != nil && !sm.stmt(y.Post) {
				return false
			}
			sm.steps++
			if sm.steps > 200000 {
				sm.fail = "simulation budget exceeded"
				return false
			}
			if y.Cond == nil {
				sm.fail = "loop without condition"
				return false
			}
		}
	case *ast.RangeStmt:
		if !sm.isD(y.X) {
			if sm.touchesInput(y) {
				sm.fail = "a range loop over something else touches the input"
				return false
			}
			sm.forget(y)
			return true
		}
		hasBranch := false
		ast.Inspect(y.Body, func(x ast.Node) bool {
			switch x.(type) {
			case *ast.BranchStmt, *ast.ReturnStmt:
				hasBranch = true
			}
			return !hasBranch
		})
		if hasBranch {
			sm.fail = "break/continue/return inside a range loop"
			return false
		}
		var vobj, kobj types.Object
		if y.Value != nil {
			vobj = kit.ObjOf(info, y.Value)
		}
		if y.Key != nil {
			kobj = kit.ObjOf(info, y.Key)
		}
		valueUsed := false
		if vobj != nil {
			ast.Inspect(y.Body, func(x ast.Node) bool {
				if id, ok := x.(*ast.Ident); ok && info.Uses[id] == vobj {
					valueUsed = true
				}
				return !valueUsed
			})
		}
		for i := int64(0); i < sm.l; i++ {
			if kobj != nil {
				sm.env[kobj] = i
			}
			if valueUsed {
				sm.read[i] = true
			}
			if !sm.block(y.Body.List) {
				return false
			}
		}
		return true
	}
	if sm.touchesInput(st) {
		sm.fail = fmt.Sprintf("statement %T touches the input", st)
		return false
	}
	sm.forget(st)
	return true
}
