package props

import (
	"fmt"
	"go/ast"
	"go/token"
	"go/types"
	"sort"
	"strings"

	"golang.org/x/tools/go/cfg"

	"siotcheck/kit"
)

// C13/R8 — every batch received from the parent's subtree reaches the
// evaluator.
//
// Anchors (by effect): the bus subscription whose callback sends on a channel
// field of the client; the select case of the same function that receives
// from that channel and calls a caller of the evaluator.
//
//   - forwarding: the subscription subject is "up.<rule parent>.*"; the
//     callback decodes the message data and sends {chunk at the wildcard's
//     position of the dot-split subject, decoded points}; the case hands the
//     two received fields to the evaluator's caller, which passes them on to
//     the evaluator's (node id, points) parameters;
//   - no stale drop: a branch of the callback (or of the receiving case) that
//     decides whether the batch goes on may read the message, values computed
//     from it, and the client's CURRENT state (anything read through the
//     receiver at that moment).  A captured variable of the enclosing function
//     is a snapshot taken before the subscription; if it derives from the
//     client's configuration and is not assigned again in every select case
//     that merges points into the configuration, batches are judged by a
//     configuration that may no longer be the current one: violation.
const c13NatsSubscribe = "github.com/nats-io/nats.go.(*Conn).Subscribe"

type c13Sub struct {
	f      *kit.Func // function that subscribes and runs the select loop
	call   *ast.CallExpr
	cb     *kit.Func
	send   *ast.SendStmt
	ch     *types.Var
	clause *ast.CommClause
	rcvVar types.Object
	kcall  *ast.CallExpr
	k      *kit.Func
}

func c13R8(c *kit.Ctx, m *ruModel, e *kit.Func, r8 *kit.Rule) {
	// callers of the evaluator
	callers := map[*kit.Func]bool{}
	for _, f := range c.P.Funcs(ruClientPkg) {
		if f.Body == nil || f == e {
			continue
		}
		ruInspectOwn(f, func(x ast.Node) bool {
			if call, ok := x.(*ast.CallExpr); ok && f.CalleeFunc(call) == e {
				callers[f] = true
			}
			return true
		})
	}
	var subs []*c13Sub
	for _, f := range c.P.Funcs(ruClientPkg) {
		if f.Body == nil || f.Outer != nil {
			continue
		}
		info := f.Info()
		ruInspectOwn(f, func(x ast.Node) bool {
			call, ok := x.(*ast.CallExpr)
			if !ok || !kit.CallIs(info, call, c13NatsSubscribe) || len(call.Args) != 2 {
				return true
			}
			var cb *kit.Func
			if lit, isLit := ast.Unparen(call.Args[1]).(*ast.FuncLit); isLit {
				cb = c.P.LitFunc(ruClientPkg, lit)
			} else if o := kit.ObjOf(info, call.Args[1]); o != nil {
				cb = f.LocalClosure(o)
			}
			if cb == nil {
				return true
			}
			// sends on a channel field inside the callback
			ruInspectOwn(cb, func(y ast.Node) bool {
				snd, ok := y.(*ast.SendStmt)
				if !ok {
					return true
				}
				_, chf, ok := kit.FieldSel(info, snd.Chan)
				if !ok {
					return true
				}
				// the select case receiving from the same field and calling a caller of the evaluator
				ruInspectOwn(f, func(z ast.Node) bool {
					cc, ok := z.(*ast.CommClause)
					if !ok || cc.Comm == nil {
						return true
					}
					var rx ast.Expr
					var rv types.Object
					switch s := cc.Comm.(type) {
					case *ast.AssignStmt:
						if len(s.Rhs) == 1 && len(s.Lhs) >= 1 {
							rx = s.Rhs[0]
							rv = kit.ObjOf(info, s.Lhs[0])
						}
					case *ast.ExprStmt:
						rx = s.X
					}
					u, isU := ast.Unparen(rx).(*ast.UnaryExpr)
					if !isU || u.Op != token.ARROW {
						return true
					}
					if _, rf, ok := kit.FieldSel(info, u.X); !ok || rf != chf {
						return true
					}
					for _, stmt := range cc.Body {
						ast.Inspect(stmt, func(w ast.Node) bool {
							if _, isLit := w.(*ast.FuncLit); isLit {
								return false
							}
							if kc, ok := w.(*ast.CallExpr); ok {
								if kf := f.CalleeFunc(kc); kf != nil && callers[kf] {
									subs = append(subs, &c13Sub{f: f, call: call, cb: cb, send: snd, ch: chf, clause: cc, rcvVar: rv, kcall: kc, k: kf})
								}
							}
							return true
						})
					}
					return true
				})
				return true
			})
			return true
		})
	}
	if len(subs) == 0 {
		c.Fatalf("no bus subscription whose callback feeds a select case that calls the evaluator's caller (points from the parent's subtree do not reach %s in a recognised way)", e.Name)
	}
	sort.Slice(subs, func(i, j int) bool { return subs[i].call.Pos() < subs[j].call.Pos() })
	for _, sb := range subs {
		c.Analysed(sb.f, sb.cb)
		c13Forwarding(c, m, e, sb, r8)
		c13NoStaleDrop(c, m, sb, r8)
	}
}

// ---------------------------------------------------------------------------

func c13SingleDef(f *kit.Func, o types.Object) (rhs ast.Expr, idx int, stmt *ast.AssignStmt, n int) {
	info := f.Info()
	ast.Inspect(f.Root().Body, func(x ast.Node) bool {
		switch s := x.(type) {
		case *ast.AssignStmt:
			for i, l := range s.Lhs {
				if id, ok := ast.Unparen(l).(*ast.Ident); ok && kit.ObjOf(info, id) == o {
					n++
					stmt = s
					if len(s.Lhs) == len(s.Rhs) {
						rhs, idx = s.Rhs[i], 0
					} else if len(s.Rhs) == 1 {
						rhs, idx = s.Rhs[0], i
					}
				}
			}
		case *ast.ValueSpec:
			for i, nm := range s.Names {
				if info.Defs[nm] == o && len(s.Values) > 0 {
					n++
					if len(s.Values) == len(s.Names) {
						rhs, idx = s.Values[i], 0
					} else {
						rhs, idx = s.Values[0], i
					}
				}
			}
		}
		return true
	})
	return
}

func c13Forwarding(c *kit.Ctx, m *ruModel, e *kit.Func, sb *c13Sub, r8 *kit.Rule) {
	f, cb := sb.f, sb.cb
	info := f.Info()
	o := r8.Ob(f, sb.call, "up-subscription forwarding", "subject up.<rule parent>.*; the callback sends {subject chunk at the wildcard's position, points decoded from the message data}; the receiving case hands both to the evaluator's (node id, points)")
	var bad, unk []string
	// ---- subject
	wild := -1
	subj := ast.Unparen(sb.call.Args[0])
	if id, ok := subj.(*ast.Ident); ok {
		if rhs, _, _, n := c13SingleDef(f, kit.ObjOf(info, id)); n == 1 && rhs != nil {
			subj = ast.Unparen(rhs)
		}
	}
	if call, ok := subj.(*ast.CallExpr); ok && kit.CallIs(info, call, "fmt.Sprintf") && len(call.Args) >= 2 {
		if format, isC := kit.ConstString(info, call.Args[0]); isC {
			toks := strings.Split(format, ".")
			verbs := 0
			parentAt := -1
			for i, t := range toks {
				switch {
				case t == "*":
					if wild >= 0 {
						wild = -2
					} else {
						wild = i
					}
				case t == ">":
					wild = -2
				case strings.HasPrefix(t, "%"):
					if verbs == 0 {
						parentAt = i
					}
					verbs++
				}
			}
			switch {
			case wild < 0:
				unk = append(unk, fmt.Sprintf("subject pattern %q has no single `*` token", format))
			case len(toks) == 0 || toks[0] != "up" || verbs != 1 || parentAt != 1:
				bad = append(bad, fmt.Sprintf("subject pattern %q is not up.<id>.* (points rebroadcast to ancestors travel on up.<ancestor>.<node>)", format))
			default:
				parentF := kit.FieldByTag(m.rule, "node", "parent")
				base, fv, isSel := kit.FieldSel(info, call.Args[1])
				switch {
				case isSel && parentF != nil && fv == parentF:
					// the rule's parent
				case isSel && types.Identical(ruDeref(info.TypeOf(base)), m.rule):
					bad = append(bad, fmt.Sprintf("the subscription watches up.<%s>.*, not the rule's parent (witness: a point of a sibling device under the rule's parent never reaches the rule)", fv.Name()))
				default:
					unk = append(unk, fmt.Sprintf("subject argument `%s` is not a field of the rule configuration", f.Str(call.Args[1])))
				}
			}
		} else {
			unk = append(unk, "subject format is not a constant")
		}
	} else {
		unk = append(unk, fmt.Sprintf("subject `%s` is not built by fmt.Sprintf", f.Str(sb.call.Args[0])))
	}
	// ---- what the callback sends
	var msg *types.Var
	if ps := cb.Params(); len(ps) == 1 {
		msg = ps[0]
	}
	msgField := func(x ast.Expr, name string) bool {
		base, fv, ok := kit.FieldSel(info, x)
		return ok && msg != nil && kit.ObjOf(info, base) == types.Object(msg) && fv.Name() == name
	}
	idField, ptsField := -1, -1
	var np *types.Struct
	if cl, ok := ast.Unparen(sb.send.Value).(*ast.CompositeLit); ok && msg != nil {
		np, _ = info.TypeOf(cl).Underlying().(*types.Struct)
		for i, el := range cl.Elts {
			fi := i
			val := el
			if kv, isKV := el.(*ast.KeyValueExpr); isKV {
				val = kv.Value
				fi = -1
				if kid, isId := kv.Key.(*ast.Ident); isId && np != nil {
					for j := 0; j < np.NumFields(); j++ {
						if info.Uses[kid] == types.Object(np.Field(j)) {
							fi = j
						}
					}
				}
			}
			val = ast.Unparen(val)
			// chunk of the split subject
			if ix, isIx := val.(*ast.IndexExpr); isIx {
				if co := kit.ObjOf(info, ix.X); co != nil {
					if rhs, _, _, n := c13SingleDef(cb, co); n == 1 && rhs != nil {
						if sp, isCall := ast.Unparen(rhs).(*ast.CallExpr); isCall && kit.CallIs(info, sp, "strings.Split") && len(sp.Args) == 2 && msgField(sp.Args[0], "Subject") {
							if sep, isC := kit.ConstString(info, sp.Args[1]); isC && sep == "." {
								k, isK := kit.ConstInt(info, ix.Index)
								switch {
								case !isK:
									unk = append(unk, fmt.Sprintf("subject chunk index `%s` is not constant", f.Str(ix.Index)))
								case wild >= 0 && int(k) != wild:
									bad = append(bad, fmt.Sprintf("the callback takes chunk %d of the subject as node id, the node id is at position %d of the pattern (witness: every batch is attributed to the wrong node, node filters never match)", k, wild))
								}
								idField = fi
							}
						}
					}
				}
			}
			// decoded points
			if id, isId := val.(*ast.Ident); isId && !types.Identical(info.TypeOf(val), types.Typ[types.String]) {
				if rhs, ri, _, n := c13SingleDef(cb, kit.ObjOf(info, id)); n == 1 && rhs != nil && ri == 0 {
					if dc, isCall := ast.Unparen(rhs).(*ast.CallExpr); isCall && len(dc.Args) == 1 && msgField(dc.Args[0], "Data") {
						if df := f.CalleeFunc(dc); df != nil && df.PkgRel() == "data" {
							if el := ruSliceElem(info.TypeOf(val)); el != nil && types.Identical(el, m.point) {
								ptsField = fi
							}
						}
					}
				}
			}
		}
	}
	if idField < 0 || ptsField < 0 {
		unk = append(unk, fmt.Sprintf("the value sent at %s is not recognised as {chunk of strings.Split(msg.Subject, \".\"), points decoded from msg.Data}", f.At(sb.send)))
	}
	// ---- the receiving case → caller → evaluator
	if idField >= 0 && ptsField >= 0 && np != nil {
		k := sb.k
		kparams := k.Params()
		// which parameter of the caller reaches which parameter of the evaluator
		eparams := e.Params()
		toEval := map[*types.Var]int{} // caller param → evaluator param index
		nsites := 0
		ruInspectOwn(k, func(x ast.Node) bool {
			call, ok := x.(*ast.CallExpr)
			if !ok || k.CalleeFunc(call) != e {
				return true
			}
			allParams := true
			tmp := map[*types.Var]int{}
			for i, a := range call.Args {
				p, isVar := kit.ObjOf(k.Info(), a).(*types.Var)
				found := false
				for _, kp := range kparams {
					if isVar && kp == p {
						found = true
					}
				}
				if !found && isVar {
					// a local that is assigned the caller's parameter (`src := pts`,
					// possibly replaced on another path)
					ast.Inspect(k.Body, func(y ast.Node) bool {
						as, ok := y.(*ast.AssignStmt)
						if !ok || len(as.Lhs) != len(as.Rhs) {
							return true
						}
						for j, l := range as.Lhs {
							if kit.ObjOf(k.Info(), l) != types.Object(p) {
								continue
							}
							if _, isId := ast.Unparen(l).(*ast.Ident); !isId {
								continue
							}
							for _, kp := range kparams {
								if kit.ObjOf(k.Info(), as.Rhs[j]) == types.Object(kp) && !found {
									p, found = kp, true
								}
							}
						}
						return true
					})
				}
				if !found {
					allParams = false
					break
				}
				tmp[p] = i
			}
			if allParams && len(call.Args) == len(eparams) {
				nsites++
				for p, i := range tmp {
					toEval[p] = i
				}
			}
			return true
		})
		if nsites == 0 {
			unk = append(unk, fmt.Sprintf("no call of %s in %s passes on the caller's own parameters", e.Name, k.Name))
		} else {
			for ai, a := range sb.kcall.Args {
				if ai >= len(kparams) {
					break
				}
				ei, reaches := toEval[kparams[ai]]
				if !reaches || ei >= len(eparams) {
					continue
				}
				base, fv, ok := kit.FieldSel(info, a)
				if !ok || kit.ObjOf(info, base) != sb.rcvVar {
					unk = append(unk, fmt.Sprintf("argument `%s` of the evaluator's caller at %s is not a field of the received value", f.Str(a), f.At(sb.kcall)))
					continue
				}
				fi := -1
				for j := 0; j < np.NumFields(); j++ {
					if np.Field(j) == fv {
						fi = j
					}
				}
				isStr := types.Identical(eparams[ei].Type().Underlying(), types.Typ[types.String])
				switch {
				case isStr && fi != idField:
					bad = append(bad, fmt.Sprintf("the evaluator's node id receives field %s of the received value, the callback put the node id into field %s (witness: node filters compare with the wrong id)", fv.Name(), np.Field(idField).Name()))
				case !isStr && fi != ptsField:
					bad = append(bad, fmt.Sprintf("the evaluator's points receive field %s of the received value, not the decoded batch", fv.Name()))
				}
			}
		}
	}
	switch {
	case len(bad) > 0:
		o.Violation("%s", strings.Join(uniqStrings(bad), "; "))
	case len(unk) > 0:
		o.Undecided("%s", strings.Join(uniqStrings(unk), "; "))
	default:
		o.OK("subject up.<%s>.*, node id = chunk %d, points decoded from the message data, handed through %s to %s", kit.FieldByTag(m.rule, "node", "parent").Name(), wild, sb.ch.Name(), e.Name)
	}
}

func ruDeref(t types.Type) types.Type {
	if p, ok := t.(*types.Pointer); ok {
		return p.Elem()
	}
	return t
}

// ---------------------------------------------------------------------------

// c13Snapshots lists, for an expression evaluated inside fn (a callback or a
// case body of root), the variables of the enclosing function it depends on
// that are snapshots: locals of the root function defined outside `inside`,
// not the receiver and not pointers to the client (reading through them is a
// read of the current state).
type c13SnapCtx struct {
	root    *kit.Func
	recv    *types.Var
	inside  ast.Node // the callback literal / the case clause
	tainted map[types.Object][]types.Object
}

func (sc *c13SnapCtx) isSnapshotVar(o types.Object) bool {
	v, ok := o.(*types.Var)
	if !ok || v.IsField() || v == sc.recv {
		return false
	}
	if v.Pkg() == nil || v.Parent() == v.Pkg().Scope() {
		return false // package-level
	}
	// declared inside the root function but outside `inside`
	if v.Pos() < sc.root.Body.Pos() || v.Pos() > sc.root.Body.End() {
		// parameters of the root function are snapshots too, except pointers
		isParam := false
		for _, p := range sc.root.Params() {
			if p == v {
				isParam = true
			}
		}
		if !isParam {
			return false
		}
	}
	if sc.inside.Pos() <= v.Pos() && v.Pos() <= sc.inside.End() {
		return false
	}
	if _, isPtr := v.Type().Underlying().(*types.Pointer); isPtr {
		return false
	}
	if _, isChan := v.Type().Underlying().(*types.Chan); isChan {
		return false
	}
	if _, isFn := v.Type().Underlying().(*types.Signature); isFn {
		return false
	}
	return true
}

// snapshotsIn: snapshot variables e depends on, directly or through locals
// of `inside` assigned from them.
func (sc *c13SnapCtx) snapshotsIn(info *types.Info, e ast.Node, local map[types.Object][]types.Object) []types.Object {
	seen := map[types.Object]bool{}
	var out []types.Object
	ast.Inspect(e, func(n ast.Node) bool {
		if _, isLit := n.(*ast.FuncLit); isLit {
			return false
		}
		id, ok := n.(*ast.Ident)
		if !ok {
			return true
		}
		o := kit.ObjOf(info, id)
		if o == nil {
			return true
		}
		if sc.isSnapshotVar(o) && !seen[o] {
			seen[o] = true
			out = append(out, o)
		}
		for _, s := range local[o] {
			if !seen[s] {
				seen[s] = true
				out = append(out, s)
			}
		}
		return true
	})
	return out
}

// localDeps: for the locals assigned inside `body`, the snapshot variables
// their values derive from (flow-insensitive fixpoint).
func (sc *c13SnapCtx) localDeps(info *types.Info, body ast.Node) map[types.Object][]types.Object {
	deps := map[types.Object][]types.Object{}
	add := func(l ast.Expr, src []types.Object) bool {
		id, ok := ast.Unparen(l).(*ast.Ident)
		if !ok || len(src) == 0 {
			return false
		}
		o := kit.ObjOf(info, id)
		if o == nil || sc.isSnapshotVar(o) {
			return false
		}
		changed := false
		for _, s := range src {
			has := false
			for _, x := range deps[o] {
				if x == s {
					has = true
				}
			}
			if !has {
				deps[o] = append(deps[o], s)
				changed = true
			}
		}
		return changed
	}
	for changed := true; changed; {
		changed = false
		ast.Inspect(body, func(n ast.Node) bool {
			switch s := n.(type) {
			case *ast.AssignStmt:
				for i, l := range s.Lhs {
					var r ast.Node
					if len(s.Lhs) == len(s.Rhs) {
						r = s.Rhs[i]
					} else if len(s.Rhs) == 1 {
						r = s.Rhs[0]
					}
					if r != nil && add(l, sc.snapshotsIn(info, r, deps)) {
						changed = true
					}
				}
			case *ast.RangeStmt:
				src := sc.snapshotsIn(info, s.X, deps)
				if s.Key != nil && add(s.Key, src) {
					changed = true
				}
				if s.Value != nil && add(s.Value, src) {
					changed = true
				}
			}
			return true
		})
	}
	return deps
}

func c13NoStaleDrop(c *kit.Ctx, m *ruModel, sb *c13Sub, r8 *kit.Rule) {
	f, cb := sb.f, sb.cb
	info := f.Info()
	recv := c14RecvVar(f)
	// ---- decisions of the callback: branch blocks one of whose edges cannot reach the send
	g := c.P.Graph(cb)
	sendBlk, _ := g.BlockOf(sb.send)
	type decision struct {
		cond  ast.Expr
		where string
	}
	var decisions []decision
	if sendBlk != nil {
		reach := map[*cfg.Block]bool{sendBlk: true}
		for changed := true; changed; {
			changed = false
			for _, b := range g.G.Blocks {
				if !b.Live || reach[b] {
					continue
				}
				for _, s := range b.Succs {
					if reach[s] {
						reach[b] = true
						changed = true
					}
				}
			}
		}
		for _, b := range g.G.Blocks {
			if !b.Live || len(b.Succs) != 2 || !reach[b] || b == sendBlk && false {
				continue
			}
			if reach[b.Succs[0]] == reach[b.Succs[1]] {
				continue
			}
			br := g.BranchOf(b)
			switch {
			case br.Cond != nil:
				decisions = append(decisions, decision{br.Cond, "callback"})
			case br.Kind == kit.BrCase && br.Tag != nil:
				decisions = append(decisions, decision{br.Tag, "callback"})
				decisions = append(decisions, decision{br.Case, "callback"})
			}
		}
	}
	// ---- decisions of the receiving case: ifs enclosing the caller's call, and
	// earlier ifs of the case body that leave it
	var caseBody ast.Node = sb.clause
	for _, stmt := range sb.clause.Body {
		if stmt.End() <= sb.kcall.Pos() {
			ast.Inspect(stmt, func(n ast.Node) bool {
				if ifs, ok := n.(*ast.IfStmt); ok {
					leaves := false
					ast.Inspect(ifs, func(y ast.Node) bool {
						switch z := y.(type) {
						case *ast.BranchStmt:
							leaves = true
						case *ast.ReturnStmt:
							_ = z
							leaves = true
						}
						return true
					})
					if leaves {
						decisions = append(decisions, decision{ifs.Cond, "receiving case"})
					}
				}
				return true
			})
		}
		if stmt.Pos() <= sb.kcall.Pos() && sb.kcall.End() <= stmt.End() {
			for x := c.P.Parent(f.File, sb.kcall); x != nil && x != ast.Node(sb.clause); x = c.P.Parent(f.File, x) {
				if ifs, ok := x.(*ast.IfStmt); ok {
					decisions = append(decisions, decision{ifs.Cond, "receiving case"})
				}
			}
		}
	}
	o := r8.Ob(f, sb.cb.Node(), "no stale drop", "a decision that keeps a received batch from the evaluator reads only the message and the client's current state, never a value derived from the configuration before the subscription and not refreshed when the configuration changes")
	// ---- config-merging cases: bodies with a call taking the address of the rule configuration
	var mergeCases []*ast.CommClause
	ruInspectOwn(f, func(n ast.Node) bool {
		cc, ok := n.(*ast.CommClause)
		if !ok {
			return true
		}
		merges := false
		for _, stmt := range cc.Body {
			ast.Inspect(stmt, func(y ast.Node) bool {
				if u, ok := y.(*ast.UnaryExpr); ok && u.Op == token.AND {
					if t := info.TypeOf(u.X); t != nil && types.Identical(t, m.rule) {
						merges = true
					}
				}
				return true
			})
		}
		if merges {
			mergeCases = append(mergeCases, cc)
		}
		return true
	})
	var viol, undec []string
	for _, d := range decisions {
		var inside ast.Node = cb.Node()
		if d.where == "receiving case" {
			inside = caseBody
		}
		sc := &c13SnapCtx{root: f, recv: recv, inside: inside}
		deps := sc.localDeps(info, inside)
		for _, sv := range sc.snapshotsIn(info, d.cond, deps) {
			// where is the snapshot assigned?
			derived := false
			var defs []string
			assignedIn := map[*ast.CommClause]bool{}
			ast.Inspect(f.Body, func(n ast.Node) bool {
				as, ok := n.(*ast.AssignStmt)
				if !ok {
					return true
				}
				for i, l := range as.Lhs {
					if id, isId := ast.Unparen(l).(*ast.Ident); !isId || kit.ObjOf(info, id) != sv {
						continue
					}
					var r ast.Node
					if len(as.Lhs) == len(as.Rhs) {
						r = as.Rhs[i]
					} else if len(as.Rhs) == 1 {
						r = as.Rhs[0]
					}
					if r != nil && recv != nil && ruMentions(r, func(x ast.Expr) bool {
						id, ok := x.(*ast.Ident)
						return ok && kit.ObjOf(info, id) == types.Object(recv)
					}) {
						derived = true
						defs = append(defs, fmt.Sprintf("`%s` at %s", f.Str(as), f.At(as)))
					}
					for _, mc := range mergeCases {
						if mc.Pos() <= as.Pos() && as.End() <= mc.End() {
							assignedIn[mc] = true
						}
					}
				}
				return true
			})
			refreshed := len(mergeCases) > 0
			for _, mc := range mergeCases {
				if !assignedIn[mc] {
					refreshed = false
				}
			}
			switch {
			case refreshed:
				// assigned again wherever points are merged into the configuration
			case derived:
				viol = append(viol, fmt.Sprintf("the %s drops batches on `%s` (%s), which depends on `%s`, computed from the client's configuration by %s before the subscription and not assigned again in the %d select case(s) that merge points into the configuration",
					d.where, f.Str(d.cond), f.At(d.cond), sv.Name(), strings.Join(uniqStrings(defs), ", "), len(mergeCases)))
			default:
				undec = append(undec, fmt.Sprintf("the %s drops batches on `%s` (%s), which depends on the captured variable `%s` of %s", d.where, f.Str(d.cond), f.At(d.cond), sv.Name(), f.Name))
			}
		}
	}
	switch {
	case sendBlk == nil:
		o.Undecided("the send at %s is not in the callback's control-flow graph", f.At(sb.send))
	case len(viol) > 0:
		o.Violation("witness: rule running with its only condition tied to node A; the condition's nodeID point is changed to node B (merged into the running client's configuration); a satisfying batch arrives from B → %s; the batch never reaches %s and the rule does not become active", strings.Join(uniqStrings(viol), "; "), sb.k.Name)
	case len(undec) > 0:
		o.Undecided("%s", strings.Join(uniqStrings(undec), "; "))
	default:
		o.OK("%d drop decision(s) between the bus and the evaluator, all on the message or on state read at that moment", len(decisions))
	}
}
