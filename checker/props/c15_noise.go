package props

import (
	"go/ast"
	"go/token"
	"go/types"
	"sort"
	"strings"

	"siotcheck/kit"
)

// C15/R2 — the export's noise reduction, wherever it lives: in the recursive
// helper, in a function it calls on the node (*NodeEdgeChildren parameter), or
// in a function it calls on the node's Points / EdgePoints (data.Points
// parameter, the fields found at the call sites).

// c15Target is a slice of points a function of the exporter works on.
type c15Target struct {
	f      *kit.Func
	is     func(ast.Expr) bool // e denotes the slice
	fields []string            // "Points" / "EdgePoints" the slice stands for
	what   string
}

type c15Loop struct {
	rs      *ast.RangeStmt // a range statement, or a canonical counting loop presented as one
	t       *c15Target
	key     types.Object
	val     types.Object          // the variable that names the element (value variable or `p := xs[i]`)
	aliases map[types.Object]bool // every local that holds a copy of the element
}

func c15IsPointSlice(t types.Type) bool {
	if kit.IsNamedType(t, dataPkg, "Points") {
		if _, isPtr := t.(*types.Pointer); !isPtr {
			return true
		}
	}
	if sl, ok := t.Underlying().(*types.Slice); ok {
		if _, isPtr := sl.Elem().(*types.Pointer); !isPtr {
			return kit.IsNamedType(sl.Elem(), dataPkg, "Point")
		}
	}
	return false
}

// c15PointField classifies an expression `<NodeEdge(Children) value>.Points` / `.EdgePoints`.
func c15PointField(info *types.Info, e ast.Expr) string {
	for _, fld := range []string{"Points", "EdgePoints"} {
		if c15Field(info, e, fld, func(x ast.Expr) bool {
			t := info.TypeOf(x)
			return t != nil && (c15IsNEC(t) || kit.IsNamedType(t, dataPkg, "NodeEdge"))
		}) {
			return fld
		}
	}
	return ""
}

func c15Targets(a *c15Anchors) (out []*c15Target, undec []string) {
	for _, f := range a.exportSet {
		if f.Body == nil || f == a.list {
			continue
		}
		info := f.Info()
		// local slices defined once as a node's Points / EdgePoints
		defs := map[types.Object]int{}
		fieldOf := map[types.Object]string{}
		ast.Inspect(f.Body, func(n ast.Node) bool {
			as, ok := n.(*ast.AssignStmt)
			if !ok {
				return true
			}
			for i, l := range as.Lhs {
				o, ok := kit.ObjOf(info, l).(*types.Var)
				if !ok || o.IsField() || !c15IsPointSlice(o.Type()) {
					continue
				}
				defs[o]++
				if len(as.Lhs) == len(as.Rhs) {
					if fld := c15PointField(info, as.Rhs[i]); fld != "" {
						fieldOf[o] = fld
					}
				}
			}
			return true
		})
		for o, fld := range fieldOf {
			if defs[o] != 1 {
				continue
			}
			o, fld := o, fld
			out = append(out, &c15Target{f: f, fields: []string{fld}, what: fld,
				is: func(e ast.Expr) bool { return kit.ObjOf(info, ast.Unparen(e)) == o }})
		}
		// node-like parameters and named results: their Points / EdgePoints
		var nodes []*types.Var
		for _, p := range f.Params() {
			if c15IsNEC(p.Type()) || kit.IsNamedType(p.Type(), dataPkg, "NodeEdge") {
				nodes = append(nodes, p)
			}
		}
		if r := c15ResultNEC(f); r != nil {
			nodes = append(nodes, r)
		}
		for _, p := range nodes {
			isN := c15IsVar(info, p)
			for _, fld := range []string{"Points", "EdgePoints"} {
				fld := fld
				out = append(out, &c15Target{f: f, fields: []string{fld}, what: fld,
					is: func(e ast.Expr) bool { return c15Field(info, e, fld, isN) }})
			}
		}
		for pi, p := range f.Params() {
			p := p
			if !c15IsPointSlice(p.Type()) {
				continue
			}
			// which fields is it called with?
			fields := map[string]bool{}
			unknown := ""
			for _, g := range a.exportSet {
				if g.Body == nil {
					continue
				}
				for _, call := range g.AllCalls(false) {
					if g.CalleeFunc(call) != f || pi >= len(call.Args) {
						continue
					}
					if fld := c15PointField(g.Info(), call.Args[pi]); fld != "" {
						fields[fld] = true
					} else {
						unknown = g.Str(call)
					}
				}
			}
			var fl []string
			for k := range fields {
				fl = append(fl, k)
			}
			sort.Strings(fl)
			if unknown != "" {
				undec = append(undec, f.Name+" is applied to "+unknown+", which is not a node's Points / EdgePoints")
			}
			if len(fl) == 0 {
				continue
			}
			out = append(out, &c15Target{f: f, fields: fl, what: strings.Join(fl, "+"),
				is: func(e ast.Expr) bool { return kit.ObjOf(info, e) == p }})
		}
	}
	return out, undec
}

func c15Noise(c *kit.Ctx, a *c15Anchors, r2 *kit.Rule, writers map[string]*pointWriter) {
	targets, undec := c15Targets(a)
	for _, u := range undec {
		r2.Ob(a.exporter, a.marshal, "noise reduction target", "helpers of the exporter that take a slice of points are applied to a node's Points / EdgePoints").Undecided("%s", u)
	}
	tomb := dataConst(c, "PointTypeTombstone")
	byFunc := map[*kit.Func][]*c15Target{}
	var order []*kit.Func
	for _, t := range targets {
		if byFunc[t.f] == nil {
			order = append(order, t.f)
		}
		byFunc[t.f] = append(byFunc[t.f], t)
	}
	for _, f := range order {
		c15NoiseFunc(c, r2, writers, f, byFunc[f], tomb)
	}
}

func c15NoiseFunc(c *kit.Ctx, r2 *kit.Rule, writers map[string]*pointWriter, f *kit.Func, targets []*c15Target, tomb string) {
	info := f.Info()
	var loops []*c15Loop
	for _, rs := range f.SliceLoops(f.Body) {
		for _, t := range targets {
			if t.is(rs.X) {
				l := &c15Loop{rs: rs, t: t, aliases: kit.ElemAliases(info, rs)}
				if rs.Key != nil {
					l.key = kit.ObjOf(info, rs.Key)
				}
				l.val = kit.LoopElemVar(info, rs)
				loops = append(loops, l)
			}
		}
	}
	// inSlice: e is <slice>[<key of l>]; isElem: that or the value variable
	inSlice := func(l *c15Loop, e ast.Expr) bool {
		ix, ok := ast.Unparen(e).(*ast.IndexExpr)
		return ok && l.key != nil && kit.ObjOf(info, ix.Index) == l.key && l.t.is(ix.X)
	}
	isElem := func(l *c15Loop) func(ast.Expr) bool {
		return func(e ast.Expr) bool {
			e = ast.Unparen(e)
			if o := kit.ObjOf(info, e); o != nil && l.aliases[o] {
				return true
			}
			return inSlice(l, e)
		}
	}
	loopOf := func(n ast.Node) *c15Loop {
		var best *c15Loop
		for _, l := range loops {
			if l.rs.Body.Pos() <= n.Pos() && n.End() <= l.rs.Body.End() {
				if best == nil || l.rs.Pos() > best.rs.Pos() {
					best = l
				}
			}
		}
		return best
	}
	isPredicate := func(cf *kit.Func, call *ast.CallExpr) bool {
		if cf.Type.Results == nil || len(cf.Type.Results.List) != 1 {
			return false
		}
		b, ok := cf.Info().TypeOf(cf.Type.Results.List[0].Type).Underlying().(*types.Basic)
		return ok && b.Kind() == types.Bool
	}

	// keepsOf: the keep sites of a compaction loop,
	// <slice>[j] = <value var>   or   X = append(X, <value var>)
	type keepSite struct {
		as  *ast.AssignStmt
		val types.Object
	}
	keepsOf := func(l *c15Loop) []keepSite {
		var keeps []keepSite
		isVal := func(e ast.Expr) types.Object {
			if o := kit.ObjOf(info, e); o != nil && l.aliases[o] {
				return o
			}
			return nil
		}
		ast.Inspect(l.rs.Body, func(n ast.Node) bool {
			as, ok := n.(*ast.AssignStmt)
			if !ok || len(as.Lhs) != 1 || len(as.Rhs) != 1 {
				return true
			}
			if ix, ok := ast.Unparen(as.Lhs[0]).(*ast.IndexExpr); ok && l.t.is(ix.X) {
				if o := isVal(as.Rhs[0]); o != nil {
					keeps = append(keeps, keepSite{as, o})
				}
			}
			if call, ok := ast.Unparen(as.Rhs[0]).(*ast.CallExpr); ok {
				if bi, ok := kit.Callee(info, call).(*types.Builtin); ok && bi.Name() == "append" && len(call.Args) == 2 &&
					kit.SameExpr(info, as.Lhs[0], call.Args[0]) {
					if o := isVal(call.Args[1]); o != nil {
						keeps = append(keeps, keepSite{as, o})
					}
				}
			}
			return true
		})
		return keeps
	}

	// ---- (a) key rewrites
	ast.Inspect(f.Body, func(n ast.Node) bool {
		as, ok := n.(*ast.AssignStmt)
		if !ok || len(as.Lhs) != 1 || len(as.Rhs) != 1 {
			return true
		}
		sel, ok := ast.Unparen(as.Lhs[0]).(*ast.SelectorExpr)
		if !ok || sel.Sel.Name != "Key" || !kit.IsNamedType(info.TypeOf(sel.X), dataPkg, "Point") {
			return true
		}
		l := loopOf(as)
		viaCopy := false
		if o := kit.ObjOf(info, sel.X); l != nil && o != nil && l.aliases[o] {
			// assignment to the loop's copy: no effect on the export, unless the
			// copy is what the loop keeps afterwards (filter into a result slice)
			for _, k := range keepsOf(l) {
				if k.val == o && k.as.Pos() > as.End() {
					viaCopy = true
				}
			}
			if !viaCopy {
				return true
			}
		}
		if l == nil || !(viaCopy || inSlice(l, sel.X)) {
			r2.Ob(f, as, "key rewrite of ?", "the exported key is rewritten to B only when it equals A, and the store's writer maps B back to A").
				Undecided("%s is not a rewrite of the current element of a loop over a node's Points / EdgePoints", f.Str(as))
			return true
		}
		for _, fld := range l.t.fields {
			o := r2.Ob(f, as, "key rewrite of "+fld, "the exported key is rewritten to B only when it equals A, and the store's writer maps B back to A")
			to, isConst := kit.ConstString(info, as.Rhs[0])
			if as.Tok != token.ASSIGN || !isConst {
				o.Undecided("%s: the new key is not a string constant", f.Str(as))
				continue
			}
			w := writers[fld]
			var back []string
			norms := c15KeyRewrites(w.F)
			for _, nm := range norms {
				if nm.from == to {
					back = append(back, nm.to)
				}
			}
			back = uniqStrings(back)
			if len(norms) == 0 {
				o.Undecided("no key normalisation of the form `if p.Key == X { p.Key = Y }` found in the store's writer %s or the functions it calls", w.F.Name)
				continue
			}
			if len(back) == 0 {
				o.Violation("the export rewrites keys of %s to %q, but the store's writer %s does not map %q to anything: the imported point keeps key %q", fld, to, w.F.Name, to, to)
				continue
			}
			if len(back) > 1 {
				o.Undecided("%s maps %q in several ways: %v", w.F.Name, to, back)
				continue
			}
			A := back[0]
			// under "element key != A" the rewrite must be unreachable
			st := &kit.Std{F: f}
			st.ShouldInline = isPredicate
			elem := isElem(l)
			st.Eval.Atom = func(e ast.Expr) (string, bool, bool) {
				if neg, ok := eqAtom(e, func(x ast.Expr) bool {
					return c15Field(info, x, "Key", func(y ast.Expr) bool { return elem(st.Resolve(y)) })
				}, constStringIs(info, A)); ok {
					return "isA", neg, true
				}
				return "", false, false
			}
			hit := false
			st.OnNode = func(n ast.Node, s kit.S) []kit.S {
				if n == ast.Node(as) {
					hit = true
				}
				return []kit.S{s}
			}
			g := c.P.Graph(f)
			entry := c15BodyEntry(g, l.rs)
			if entry == nil {
				o.Undecided("loop body not found in the CFG")
				continue
			}
			res := g.RunFrom(entry, 0, kit.NewS().Set("a:isA", "F"), st.Client())
			c.AddValuations(1)
			if res.Overflow {
				c.Fatalf("C15/R2: state overflow in %s", f.Name)
			}
			if hit {
				o.Violation("%s is reachable for an element whose key is not %q: that key is exported as %q and comes back from the import as %q", f.Str(as), A, to, A)
				continue
			}
			o.OK("rewrite %q -> %q only under Key == %q; %s maps %q -> %q", A, to, A, w.F.Name, to, A)
		}
		return true
	})

	// ---- (b) compaction loops: an element is dropped only when tombstone && value == 0
	for _, l := range loops {
		l := l
		if len(l.aliases) == 0 {
			continue
		}
		elem := isElem(l)
		var keeps []ast.Node
		for _, k := range keepsOf(l) {
			keeps = append(keeps, k.as)
		}
		if len(keeps) == 0 {
			continue
		}
		o := r2.Ob(f, l.rs, "compaction of "+l.t.what, "an element is left out only when its type is tombstone and its value is 0 (valuations TF, FT, FF must keep it)")
		var m c15Msgs
		for _, val := range [][2]string{{"T", "F"}, {"F", "T"}, {"F", "F"}, {"T", "T"}} {
			mustKeep := !(val[0] == "T" && val[1] == "T")
			st := &kit.Std{F: f}
			st.ShouldInline = isPredicate
			rElem := func(y ast.Expr) bool { return elem(st.Resolve(y)) }
			unknown := ""
			st.Eval.Atom = func(e ast.Expr) (string, bool, bool) {
				if neg, ok := eqAtom(e, func(x ast.Expr) bool { return c15Field(info, x, "Type", rElem) }, constStringIs(info, tomb)); ok {
					return "tomb", neg, true
				}
				if neg, ok := eqAtom(e, func(x ast.Expr) bool { return c15Field(info, x, "Value", rElem) }, func(x ast.Expr) bool {
					tv := info.Types[x]
					return tv.Value != nil && tv.Value.String() == "0"
				}); ok {
					return "zero", neg, true
				}
				return "", false, false
			}
			st.Eval.OnUnknown = func(e ast.Expr) {
				// a call of a function the engine could not evaluate decides about dropping
				if call, ok := ast.Unparen(e).(*ast.CallExpr); ok {
					if _, isB := kit.Callee(info, call).(*types.Builtin); !isB {
						unknown = f.Str(e)
					}
				}
			}
			escaped := false
			st.OnNode = func(n ast.Node, s kit.S) []kit.S {
				if st.Cur() != f {
					return []kit.S{s}
				}
				if n.Pos() < l.rs.Pos() || n.Pos() >= l.rs.End() {
					// the body was left without passing the loop head
					escaped = true
					return nil
				}
				for _, k := range keeps {
					if n == k {
						return []kit.S{s.Set("kept", "1")}
					}
				}
				return []kit.S{s}
			}
			skipped := false
			st.OnBranch = func(br kit.Branch, s kit.S) (t, fs []kit.S, handled bool) {
				if br.Kind == kit.BrRange && br.Range == l.rs {
					// back at the loop head: one pass through the body is complete
					if s.Get("kept") != "1" {
						skipped = true
					}
					return nil, nil, true
				}
				return nil, nil, false
			}
			g := c.P.Graph(f)
			entry := c15BodyEntry(g, l.rs)
			if entry == nil {
				m.undec("loop body not found in the CFG")
				break
			}
			res := g.RunFrom(entry, 0, kit.NewS().Set("a:tomb", val[0]).Set("a:zero", val[1]), st.Client())
			c.AddValuations(1)
			if res.Overflow {
				c.Fatalf("C15/R2: state overflow in %s", f.Name)
			}
			for _, e := range res.Exits {
				if e.Return != nil && st.ReturnsNil(e.Return, e.State) != "nonnil" && e.State.Get("kept") != "1" {
					skipped = true
				}
			}
			if unknown != "" && (escaped || (skipped && mustKeep)) {
				m.undec("whether an element of %s is kept is decided by %s, which the rule cannot evaluate", l.t.what, unknown)
				continue
			}
			if escaped {
				m.viol("for an element of %s with (type is tombstone: %s, value is 0: %s) the loop at %s can be left before the remaining elements are visited: they are cut off by the compaction", l.t.what, val[0], val[1], f.At(l.rs))
			}
			if skipped && mustKeep {
				m.viol("an element of %s with (type is tombstone: %s, value is 0: %s) can pass the loop at %s without being kept: that edge point is missing from the export", l.t.what, val[0], val[1], f.At(l.rs))
			}
		}
		m.settle(o, "elements are kept under every valuation except tombstone && value == 0")
	}
}
