package props

import (
	"go/ast"
	"go/token"
	"go/types"
	"sync"

	"siotcheck/kit"
)

// A transaction opener is a same-package helper that starts a transaction on
// behalf of its caller: it calls db.Begin once, hands the *sql.Tx back on its
// success return (error result nil) and nowhere else, and neither commits nor
// executes SQL itself.  It may also hand back a function that rolls the
// transaction back.  For the transaction rules the call of an opener is the
// caller's Begin.
type txOpener struct {
	f     *kit.Func
	begin *ast.CallExpr
	txIdx int // result position of the *sql.Tx
	rbIdx int // result position of the rollback function, -1 if none
}

type openerCache struct {
	once sync.Once
	m    map[*kit.Func]*txOpener
}

func txOpeners(p *kit.Prog) map[*kit.Func]*txOpener {
	oc := p.Aux("props.txOpeners", func() any { return &openerCache{} }).(*openerCache)
	oc.once.Do(func() { oc.m = computeTxOpeners(p) })
	return oc.m
}

func computeTxOpeners(p *kit.Prog) map[*kit.Func]*txOpener {
	out := map[*kit.Func]*txOpener{}
	for _, f := range p.Funcs("store") {
		if f.Decl == nil || f.Body == nil || f.Type.Results == nil {
			continue
		}
		info := f.Info()
		var begin *ast.CallExpr
		nBegin, other := 0, false
		for _, call := range f.AllCalls(true) {
			switch {
			case kit.CallIs(info, call, qBegin):
				begin = call
				nBegin++
			case kit.CallIs(info, call, qCommit):
				other = true
			case kit.CallIs(info, call, "database/sql.(*Tx).Exec", "database/sql.(*Tx).Query", "database/sql.(*Tx).QueryRow", "database/sql.(*Tx).Prepare"):
				other = true
			}
		}
		if nBegin != 1 || other {
			continue
		}
		as, ok := p.Parent(f.File, begin).(*ast.AssignStmt)
		if !ok || len(as.Lhs) < 1 {
			continue
		}
		txVar := kit.ObjOf(info, as.Lhs[0])
		if txVar == nil {
			continue
		}
		rets := returnsOf(f)
		if len(rets) == 0 {
			continue
		}
		op := &txOpener{f: f, begin: begin, txIdx: -1, rbIdx: -1}
		okShape := true
		for _, rs := range rets {
			last := rs[len(rs)-1]
			if !isErrorType(info.TypeOf(last)) && !kit.IsNilIdent(info, last) {
				okShape = false
				break
			}
			pos := -1
			for i, r := range rs {
				if kit.ObjOf(info, r) == txVar {
					pos = i
				}
			}
			if pos < 0 {
				continue
			}
			if !kit.IsNilIdent(info, last) || (op.txIdx >= 0 && op.txIdx != pos) {
				okShape = false // the open transaction is handed back together with an error
				break
			}
			op.txIdx = pos
			// a rollback function handed back with it
			for i, r := range rs {
				var lf *kit.Func
				if lit, ok := ast.Unparen(r).(*ast.FuncLit); ok {
					lf = p.LitFunc("store", lit)
				} else if v, ok := kit.ObjOf(info, r).(*types.Var); ok {
					lf = f.LocalClosure(v)
				}
				if lf != nil && lf.Body != nil && alwaysCalls(lf, func(c *ast.CallExpr) bool { return kit.CallIs(lf.Info(), c, qRollback) }) {
					op.rbIdx = i
				}
			}
		}
		if okShape && op.txIdx >= 0 {
			out[f] = op
		}
	}
	return out
}

// beginCallOf returns the call with which f starts its own transaction:
// db.Begin, or the call of a transaction opener.  Openers themselves have none.
func beginCallOf(f *kit.Func) *ast.CallExpr {
	ops := txOpeners(f.Prog)
	if ops[f.Root()] != nil {
		return nil
	}
	var begin *ast.CallExpr
	for _, call := range f.AllCalls(false) {
		if isBeginCall(f, call) {
			begin = call
		}
	}
	return begin
}

// isBeginCall: db.Begin (outside an opener) or a call of an opener.
func isBeginCall(f *kit.Func, call *ast.CallExpr) bool {
	ops := txOpeners(f.Prog)
	if kit.CallIs(f.Info(), call, qBegin) {
		return ops[f.Root()] == nil
	}
	if cf := f.CalleeFunc(call); cf != nil && ops[cf] != nil {
		return true
	}
	return false
}

// openerRollbackVar reports whether v (a local of f) receives the rollback
// function of an opener call.
func openerRollbackVar(f *kit.Func, v types.Object) bool {
	ops := txOpeners(f.Prog)
	found := false
	ast.Inspect(f.Root().Body, func(n ast.Node) bool {
		as, ok := n.(*ast.AssignStmt)
		if !ok || len(as.Rhs) != 1 {
			return true
		}
		call, ok := ast.Unparen(as.Rhs[0]).(*ast.CallExpr)
		if !ok {
			return true
		}
		cf := f.CalleeFunc(call)
		if cf == nil || ops[cf] == nil || ops[cf].rbIdx < 0 || ops[cf].rbIdx >= len(as.Lhs) {
			return true
		}
		if kit.ObjOf(f.Info(), as.Lhs[ops[cf].rbIdx]) == v {
			found = true
		}
		return true
	})
	return found
}

// txVarOfBegin returns the variable that receives the transaction started by
// the begin call of f (db.Begin or an opener).
func txVarOfBegin(f *kit.Func, begin *ast.CallExpr) types.Object {
	as, ok := f.Prog.Parent(f.File, begin).(*ast.AssignStmt)
	if !ok || len(as.Lhs) == 0 {
		return nil
	}
	idx := 0
	if cf := f.CalleeFunc(begin); cf != nil {
		if op := txOpeners(f.Prog)[cf]; op != nil {
			idx = op.txIdx
		}
	}
	if idx >= len(as.Lhs) {
		return nil
	}
	return kit.ObjOf(f.Info(), as.Lhs[idx])
}

// holdsTx: e is a struct value (T{…}, &T{…}, or a local defined once as one) with a
// field holding the transaction — a small type wrapping the transaction
// (`&writeTx{Tx: tx, …}`).
func holdsTx(f *kit.Func, e ast.Expr, txVar types.Object, depth int) bool {
	info := f.Info()
	e = ast.Unparen(e)
	if u, ok := e.(*ast.UnaryExpr); ok && u.Op == token.AND {
		e = ast.Unparen(u.X)
	}
	if cl, ok := e.(*ast.CompositeLit); ok {
		for _, el := range cl.Elts {
			v := el
			if kv, ok := el.(*ast.KeyValueExpr); ok {
				v = kv.Value
			}
			if kit.ObjOf(info, v) == txVar {
				return true
			}
		}
		return false
	}
	if o := kit.ObjOf(info, e); o != nil && depth < 2 {
		var def ast.Expr
		n := 0
		ast.Inspect(f.Body, func(x ast.Node) bool {
			if as, ok := x.(*ast.AssignStmt); ok && len(as.Lhs) == len(as.Rhs) {
				for i, l := range as.Lhs {
					if kit.ObjOf(info, l) == o {
						n++
						def = as.Rhs[i]
					}
				}
			}
			return true
		})
		if n == 1 && def != nil {
			return holdsTx(f, def, txVar, depth+1)
		}
	}
	return false
}
