package props

import (
	"fmt"
	"go/ast"
	"go/types"
	"regexp"
	"sort"
	"strings"

	"siotcheck/kit"
)

// R6 — bus token wiring; R7 — roots and direction of the user's node listing.

// c09StructOf returns the named struct type that declares field v among the
// package-level types of pkg (nil if none).
func c09StructOf(pkg *types.Package, v *types.Var) *types.Named {
	sc := pkg.Scope()
	for _, name := range sc.Names() {
		tn, ok := sc.Lookup(name).(*types.TypeName)
		if !ok {
			continue
		}
		st, ok := tn.Type().Underlying().(*types.Struct)
		if !ok {
			continue
		}
		for i := 0; i < st.NumFields(); i++ {
			if st.Field(i) == v {
				n, _ := tn.Type().(*types.Named)
				return n
			}
		}
	}
	return nil
}

// c09LitField returns the expression a composite literal gives to field v
// (keyed or positional), or nil.
func c09LitField(info *types.Info, lit *ast.CompositeLit, v *types.Var) ast.Expr {
	t := info.TypeOf(lit)
	if p, ok := t.(*types.Pointer); ok {
		t = p.Elem()
	}
	st, ok := t.Underlying().(*types.Struct)
	if !ok {
		return nil
	}
	idx := -1
	for i := 0; i < st.NumFields(); i++ {
		if st.Field(i) == v {
			idx = i
		}
	}
	if idx < 0 {
		return nil
	}
	for i, el := range lit.Elts {
		if kv, ok := el.(*ast.KeyValueExpr); ok {
			if kit.ObjOf(info, kv.Key) == types.Object(v) {
				return kv.Value
			}
			continue
		}
		if i == idx {
			return el
		}
	}
	return nil
}

// c09Lits lists the composite literals of named struct type nt in package rel.
func c09Lits(c *kit.Ctx, rel string, nt *types.Named) (out []*ast.CompositeLit, in []*kit.Func) {
	for _, f := range c.P.Funcs(rel) {
		if f.Body == nil {
			continue
		}
		ast.Inspect(f.Body, func(n ast.Node) bool {
			if _, ok := n.(*ast.FuncLit); ok && n != ast.Node(f.Lit) {
				return false
			}
			lit, ok := n.(*ast.CompositeLit)
			if !ok {
				return true
			}
			if t, ok := types.Unalias(f.Info().TypeOf(lit)).(*types.Named); ok && t.Obj() == nt.Obj() {
				out = append(out, lit)
				in = append(in, f)
			}
			return true
		})
	}
	return
}

type c09Wire struct {
	c      *kit.Ctx
	optsT  *types.Named // configuration struct of package server
	isOpts map[*types.Var]bool
}

// source resolves an expression of package server to the configuration field
// it reads (through local variables and one level of intermediate option
// structs filled by composite literals); nil when it is anything else.
func (w *c09Wire) source(f *kit.Func, e ast.Expr, depth int) *types.Var {
	if e == nil || depth > 3 {
		return nil
	}
	info := f.Info()
	e = ast.Unparen(e)
	switch x := e.(type) {
	case *ast.Ident:
		if d := c09LocalDef(f, x); d != ast.Expr(x) {
			return w.source(f, d, depth+1)
		}
		return nil
	case *ast.SelectorExpr:
		fld, ok := kit.ObjOf(info, x).(*types.Var)
		if !ok || !fld.IsField() {
			return nil
		}
		if w.isOpts[fld] {
			return fld
		}
		// field of an intermediate struct of the same package
		pk := w.c.P.MustPkg("server")
		nt := c09StructOf(pk.Types, fld)
		if nt == nil {
			return nil
		}
		lits, fs := c09Lits(w.c, "server", nt)
		var res *types.Var
		for i, lit := range lits {
			v := w.source(fs[i], c09LitField(fs[i].Info(), lit, fld), depth+1)
			if v == nil || (res != nil && res != v) {
				return nil
			}
			res = v
		}
		return res
	}
	return nil
}

func c09Wiring(c *kit.Ctx, a *c09Anchors) {
	r6 := c.Rule("R6", "bus and HTTP tokens all come from the configured auth token", 4)
	w := &c09Wire{c: c, isOpts: map[*types.Var]bool{}}

	// ---- the instance's own client: nats.Connect(…, nats.Token(x), …)
	var connF *kit.Func
	var connCall *ast.CallExpr
	for _, f := range c.P.Funcs("server") {
		if f.Body == nil {
			continue
		}
		for _, call := range f.AllCalls(false) {
			if kit.CallIs(f.Info(), call, natsPkg+".Connect") {
				if connCall != nil {
					c.Fatalf("package server connects to the bus at two sites")
				}
				connF, connCall = f, call
			}
		}
	}
	if connCall == nil {
		c.Fatalf("package server never calls nats.Connect")
	}
	for _, p := range connF.Root().Params() {
		if nt, ok := types.Unalias(p.Type()).(*types.Named); ok {
			if st, ok := nt.Underlying().(*types.Struct); ok && nt.Obj().Pkg() != nil && nt.Obj().Pkg().Path() == kit.ModPath+"/server" {
				w.optsT = nt
				for i := 0; i < st.NumFields(); i++ {
					if c09IsString(st.Field(i).Type()) {
						w.isOpts[st.Field(i)] = true
					}
				}
			}
		}
	}
	if w.optsT == nil {
		c.Fatalf("%s has no configuration struct parameter", connF.Root().Name)
	}
	c.Analysed(connF)

	type sink struct {
		name string
		f    *kit.Func
		at   ast.Node
		expr ast.Expr
		src  *types.Var
		note string // non-empty: violation independent of the source
		ob   string
	}
	var sinks []*sink

	// own client token
	{
		s := &sink{name: "own client token", f: connF, at: connCall, ob: "the instance's own bus client presents the configured token"}
		for _, arg := range connCall.Args {
			if oc, ok := ast.Unparen(arg).(*ast.CallExpr); ok && kit.CallIs(connF.Info(), oc, natsPkg+".Token") && len(oc.Args) == 1 {
				s.expr, s.at = oc.Args[0], oc
			}
		}
		if s.expr == nil {
			s.note = "nats.Connect is called without a nats.Token option: the instance's own client is refused by a server that requires the token"
		}
		sinks = append(sinks, s)
	}

	// ---- NATS server options: Authorization and Websocket.Token
	isNatsd := func(t types.Type, name string) bool { return kit.IsNamedType(t, c09NatsD, name) }
	var optF *kit.Func
	var authExpr, wsTokExpr ast.Expr
	var authAt, wsTokAt, wsPortAt ast.Node
	var wsF *kit.Func
	for _, f := range c.P.Funcs("server") {
		if f.Body == nil {
			continue
		}
		info := f.Info()
		ast.Inspect(f.Body, func(n ast.Node) bool {
			switch x := n.(type) {
			case *ast.CompositeLit:
				t := info.TypeOf(x)
				switch {
				case isNatsd(t, "Options"):
					optF = f
					for _, el := range x.Elts {
						if kv, ok := el.(*ast.KeyValueExpr); ok {
							if v, ok := kit.ObjOf(info, kv.Key).(*types.Var); ok && v.Name() == "Authorization" {
								authExpr, authAt = kv.Value, kv
							}
						}
					}
				case isNatsd(t, "WebsocketOpts"):
					wsF = f
					for _, el := range x.Elts {
						if kv, ok := el.(*ast.KeyValueExpr); ok {
							if v, ok := kit.ObjOf(info, kv.Key).(*types.Var); ok {
								switch v.Name() {
								case "Token":
									wsTokExpr, wsTokAt = kv.Value, kv
								case "Port":
									wsPortAt = kv
								}
							}
						}
					}
				}
			case *ast.AssignStmt:
				if len(x.Lhs) != len(x.Rhs) {
					return true
				}
				for i, l := range x.Lhs {
					sel, ok := ast.Unparen(l).(*ast.SelectorExpr)
					if !ok {
						continue
					}
					v, ok := kit.ObjOf(info, sel).(*types.Var)
					if !ok || !v.IsField() {
						continue
					}
					switch {
					case isNatsd(info.TypeOf(sel.X), "Options") && v.Name() == "Authorization":
						optF = f
						authExpr, authAt = x.Rhs[i], x
					case isNatsd(info.TypeOf(sel.X), "WebsocketOpts") && v.Name() == "Token":
						wsF = f
						wsTokExpr, wsTokAt = x.Rhs[i], x
					case isNatsd(info.TypeOf(sel.X), "WebsocketOpts") && v.Name() == "Port":
						wsF = f
						wsPortAt = x
					}
				}
			}
			return true
		})
	}
	if optF == nil {
		c.Fatalf("package server builds no nats-server Options value")
	}
	c.Analysed(optF)
	{
		s := &sink{name: "server Authorization", f: optF, at: authAt, expr: authExpr, ob: "the embedded NATS server requires the configured token from every connection"}
		if authExpr == nil {
			s.at = nil
			s.note = "the NATS server options never set Authorization: bus connections without the token are accepted"
		}
		sinks = append(sinks, s)
	}
	{
		s := &sink{name: "websocket token", f: wsF, at: wsTokAt, expr: wsTokExpr, ob: "the NATS websocket listener requires the configured token whenever it is enabled"}
		switch {
		case wsPortAt == nil && wsTokAt == nil:
			s.f = optF
			s.note = ""
			s.expr = nil
			s.name = "websocket token (listener never enabled)"
		case wsTokAt == nil:
			s.at = wsPortAt
			s.note = "the websocket listener is enabled (Websocket.Port is set) but Websocket.Token never is: websocket bus connections without the token are accepted"
		case wsPortAt != nil:
			// the token must be set wherever the port is
			pp, tp := c.P.Parent(wsF.File, wsPortAt), c.P.Parent(wsF.File, wsTokAt)
			if pp != tp {
				g := c.P.Graph(wsF)
				if !g.NodeDominates(wsTokAt, wsPortAt) && !g.NodeDominates(wsPortAt, wsTokAt) {
					s.note = "Websocket.Port and Websocket.Token are set on different paths: the listener can be enabled without the token"
				}
			}
		}
		sinks = append(sinks, s)
	}

	// ---- HTTP gate token: handler field ← constructor parameter ← api args field ← server literal
	{
		s := &sink{name: "HTTP gate token", ob: "the token the HTTP gate compares the Authorization header with is the configured token, not a constant"}
		apiArgsField, why := c09GateTokenOrigin(c, a)
		if apiArgsField == nil {
			s.f = nil
			s.note = why
		} else {
			pk := c.P.MustPkg("api")
			nt := c09StructOf(pk.Types, apiArgsField)
			if nt == nil {
				c.Fatalf("struct declaring api field %s not found", apiArgsField.Name())
			}
			lits, fs := c09Lits(c, "server", nt)
			if len(lits) == 0 {
				c.Fatalf("package server never builds api.%s", nt.Obj().Name())
			}
			for i, lit := range lits {
				s.f, s.at = fs[i], lit
				s.expr = c09LitField(fs[i].Info(), lit, apiArgsField)
				if s.expr == nil {
					s.note = fmt.Sprintf("api.%s is built without %s: the HTTP gate compares the Authorization header with the empty string, so a request without the header is served", nt.Obj().Name(), apiArgsField.Name())
				}
			}
		}
		sinks = append(sinks, s)
	}

	// ---- resolve sources and compare
	count := map[*types.Var]int{}
	for _, s := range sinks {
		if s.note == "" && s.expr != nil {
			s.src = w.source(s.f, s.expr, 0)
			if s.src != nil {
				count[s.src]++
			}
		}
	}
	// the configured token is the field the HTTP gate is fed from (R1's
	// "configured token"); failing that the own client's; failing that the majority
	var t0 *types.Var
	tie := false
	for _, name := range []string{"HTTP gate token", "own client token"} {
		for _, s := range sinks {
			if t0 == nil && s.name == name && s.src != nil {
				t0 = s.src
			}
		}
	}
	if t0 == nil {
		best := 0
		for v, n := range count {
			if n > best {
				t0, best = v, n
			}
		}
		for v, n := range count {
			if v != t0 && n == best {
				tie = true
			}
		}
	}
	for _, s := range sinks {
		o := r6.Ob(s.f, s.at, s.name, s.ob)
		switch {
		case s.note != "":
			o.Violation("%s", s.note)
		case s.expr == nil:
			o.OK("not applicable")
		case s.src == nil:
			o.Violation("%s is fed from `%s`, which is not a field of the configuration struct %s", s.name, s.f.Str(s.expr), w.optsT.Obj().Name())
		case tie:
			o.Undecided("the token sinks are fed from different configuration fields and there is no majority")
		case s.src != t0:
			o.Violation("%s is fed from configuration field %s while the other token sinks use %s: clients holding the configured token are refused, or another secret opens the bus", s.name, s.src.Name(), t0.Name())
		default:
			o.OK("← %s.%s", w.optsT.Obj().Name(), t0.Name())
		}
	}
}

// c09GateTokenOrigin follows the handler's token field back to a field of an
// argument struct of package api: handler literal element ← constructor
// parameter ← argument `args.F` at the constructor's call site.
func c09GateTokenOrigin(c *kit.Ctx, a *c09Anchors) (*types.Var, string) {
	pk := c.P.MustPkg("api")
	nt := c09StructOf(pk.Types, a.tokenField)
	if nt == nil {
		return nil, "struct declaring the handler's token field not found"
	}
	lits, fs := c09Lits(c, "api", nt)
	if len(lits) == 0 {
		return nil, fmt.Sprintf("api.%s is never constructed by a composite literal", nt.Obj().Name())
	}
	var res *types.Var
	for i, lit := range lits {
		f := fs[i]
		e := c09LitField(f.Info(), lit, a.tokenField)
		if e == nil {
			return nil, fmt.Sprintf("api.%s is built at %s without its token field %s: the gate compares the Authorization header with the empty string", nt.Obj().Name(), f.At(lit), a.tokenField.Name())
		}
		po := kit.ObjOf(f.Info(), e)
		pidx := -1
		for k, p := range f.Params() {
			if types.Object(p) == po {
				pidx = k
			}
		}
		if pidx < 0 {
			return nil, fmt.Sprintf("the handler's token field %s is set to `%s` at %s, not to a constructor parameter", a.tokenField.Name(), f.Str(e), f.At(lit))
		}
		// call sites of the constructor inside api
		n := 0
		for _, g := range c.P.Funcs("api") {
			if g.Body == nil {
				continue
			}
			for _, call := range g.AllCalls(false) {
				if g.CalleeFunc(call) != f || pidx >= len(call.Args) {
					continue
				}
				n++
				sel, ok := ast.Unparen(call.Args[pidx]).(*ast.SelectorExpr)
				if !ok {
					return nil, fmt.Sprintf("%s is called at %s with token `%s`, not with a field of the server arguments", f.Name, g.At(call), g.Str(call.Args[pidx]))
				}
				v, ok := kit.ObjOf(g.Info(), sel).(*types.Var)
				if !ok || !v.IsField() || c09StructOf(pk.Types, v) == nil {
					return nil, fmt.Sprintf("%s is called at %s with token `%s`, not with a field of the server arguments", f.Name, g.At(call), g.Str(call.Args[pidx]))
				}
				if res != nil && res != v {
					return nil, "the gate token comes from different argument fields"
				}
				res = v
			}
		}
		if n == 0 {
			return nil, fmt.Sprintf("constructor %s is never called inside package api", f.Name)
		}
	}
	return res, ""
}

// ---------------------------------------------------------------------------
// R7

var c09NodesSubject = regexp.MustCompile(`^nodes\.%[vs]\.%[vs]$`)

// c09ListAnchors finds, in package client, the node fetch function (request
// on subject nodes.<parent>.<id>) and the user listing function (a
// func(*nats.Conn, string) with a self-recursive local closure that fetches).
func c09ListAnchors(c *kit.Ctx, a *c09Anchors) {
	a.parentIdx, a.idIdx, a.delIdx = -1, -1, -1
	for _, f := range c.P.Funcs("client") {
		if f.Decl == nil || f.Body == nil {
			continue
		}
		info := f.Info()
		for _, call := range f.AllCalls(false) {
			if !kit.CallIs(info, call, "fmt.Sprintf") || len(call.Args) != 3 {
				continue
			}
			format, ok := kit.ConstString(info, call.Args[0])
			if !ok || !c09NodesSubject.MatchString(format) {
				continue
			}
			if a.fetchFn != nil && a.fetchFn != f {
				c.Fatalf("two functions of package client build a nodes.<parent>.<id> subject: %s and %s", a.fetchFn.Name, f.Name)
			}
			a.fetchFn = f
			for k, p := range f.Params() {
				switch {
				case kit.ObjOf(info, call.Args[1]) == types.Object(p):
					a.parentIdx = k
				case kit.ObjOf(info, call.Args[2]) == types.Object(p):
					a.idIdx = k
				case c09IsBool(p.Type()):
					a.delIdx = k
				}
			}
		}
	}
	if a.fetchFn == nil || a.parentIdx < 0 || a.idIdx < 0 || a.delIdx < 0 {
		c.Fatalf("node fetch function of package client (subject nodes.<parent>.<id>, bool include-deleted parameter) not found")
	}
	for _, f := range c.P.Funcs("client") {
		if f.Lit == nil || f.Outer == nil || f.Outer.Decl == nil {
			continue
		}
		rec, fetches := false, false
		for _, call := range f.AllCalls(false) {
			cf := f.CalleeFunc(call)
			if cf == f {
				rec = true
			}
			if cf == a.fetchFn {
				fetches = true
			}
		}
		if !rec || !fetches {
			continue
		}
		ps := f.Outer.Params()
		if len(ps) != 2 || !kit.IsNamedType(ps[0].Type(), natsPkg, "Conn") || !c09IsString(ps[1].Type()) {
			continue
		}
		if a.listFn != nil {
			c.Fatalf("two listing functions found in package client: %s and %s", a.listFn.Name, f.Outer.Name)
		}
		a.listFn, a.walkFn = f.Outer, f
	}
	if a.listFn == nil {
		c.Fatalf("user listing function (func(*nats.Conn, string) with a recursive fetching closure) not found in package client")
	}
}

func c09Listing(c *kit.Ctx, a *c09Anchors) {
	r7 := c.Rule("R7", "user listing: the validated user, live instances as roots, walk stays in the subtree", 4)
	fetch, list, walk := a.fetchFn, a.listFn, a.walkFn
	parentIdx, idIdx, delIdx := a.parentIdx, a.idIdx, a.delIdx
	c.Analysed(list, walk, fetch)
	info := list.Info()
	userParam := list.Params()[1]

	// ---- (0) whose listing: recorded by the typestate run over the gated handlers
	{
		var f0 *kit.Func
		var at ast.Node
		if len(a.listCalls) > 0 {
			f0, at = a.listCalls[0].f, a.listCalls[0].call
		}
		o := r7.Ob(f0, at, "listing subject", "the listing is asked for the user id the JWT validator returned for this request")
		switch {
		case len(a.listCalls) == 0:
			o.Violation("no gated handler calls the user listing %s", list.Name)
		default:
			bad := ""
			for _, lc := range a.listCalls {
				if lc.bad != "" && bad == "" {
					bad = lc.bad
				}
			}
			if bad != "" {
				o.Violation("%s", bad)
			} else {
				o.OK("%d call site(s), user id = second result of the validator", len(a.listCalls))
			}
		}
	}

	// wire names of the node struct
	var idField, parentField *types.Var
	if sl, ok := list.Obj.Type().(*types.Signature).Results().At(0).Type().Underlying().(*types.Slice); ok {
		if st, ok := sl.Elem().Underlying().(*types.Struct); ok {
			for i := 0; i < st.NumFields(); i++ {
				switch c09JSONName(st, i) {
				case "id":
					idField = st.Field(i)
				case "parent":
					parentField = st.Field(i)
				}
			}
		}
	}
	if idField == nil || parentField == nil {
		c.Fatalf("%s does not return a slice of structs with JSON fields id and parent", list.Name)
	}

	fieldOfRange := func(f *kit.Func, e ast.Expr) (rangeOver types.Object, fld *types.Var) {
		sel, ok := ast.Unparen(e).(*ast.SelectorExpr)
		if !ok {
			return nil, nil
		}
		fld, _ = kit.ObjOf(f.Info(), sel).(*types.Var)
		vo := kit.ObjOf(f.Info(), sel.X)
		if vo == nil || fld == nil {
			return nil, nil
		}
		// a plain copy of the range variable (`un := inst`)
		if d := c09LocalDef(f, sel.X); d != sel.X {
			if o := kit.ObjOf(f.Info(), d); o != nil {
				if _, isId := ast.Unparen(d).(*ast.Ident); isId {
					vo = o
				}
			}
		}
		ast.Inspect(f.Root().Body, func(n ast.Node) bool {
			if r, ok := n.(*ast.RangeStmt); ok && r.Value != nil && kit.ObjOf(f.Info(), r.Value) == vo {
				rangeOver = kit.ObjOf(f.Info(), r.X)
			}
			return true
		})
		return rangeOver, fld
	}
	assignedFrom := func(f *kit.Func, call *ast.CallExpr) types.Object {
		if as, ok := c.P.Parent(f.File, call).(*ast.AssignStmt); ok && len(as.Lhs) > 0 {
			return kit.ObjOf(f.Info(), as.Lhs[0])
		}
		return nil
	}

	// ---- (a) the user's instances: fetched by the user id, without deleted ones
	var rootCall *ast.CallExpr
	for _, call := range list.AllCalls(false) {
		if list.CalleeFunc(call) == fetch && idIdx < len(call.Args) && kit.ObjOf(info, call.Args[idIdx]) == types.Object(userParam) {
			rootCall = call
		}
	}
	oA := r7.Ob(list, rootCall, "user instances", "the instances of the user node are fetched by the user id and without deleted nodes")
	var users types.Object
	switch {
	case rootCall == nil:
		oA.Violation("%s never fetches the nodes of its user id parameter", list.Name)
	default:
		users = assignedFrom(list, rootCall)
		dv, dok := false, false
		if delIdx < len(rootCall.Args) {
			if tv := info.Types[rootCall.Args[delIdx]]; tv.Value != nil {
				dv, dok = tv.Value.String() == "true", true
			}
		}
		switch {
		case !dok || dv:
			oA.Violation("the user's instances are fetched with include-deleted = `%s`: a user removed from a group still lists that group's subtree", list.Str(rootCall.Args[delIdx]))
		case users == nil:
			oA.Undecided("result of the fetch is not assigned to a variable")
		default:
			oA.OK("%s", list.Str(rootCall))
		}
	}

	// ---- (b) every other fetch / traversal of the listing starts inside the
	// subtree of an attach point: at the parent (or id) field of a user instance
	oB := r7.Ob(list, nil, "listing roots", "every traversal and every top-level fetch starts at the parent (or id) field of one of the user's live instances")
	var bbad []string
	starts := 0
	for _, call := range list.AllCalls(false) {
		var args []ast.Expr
		switch list.CalleeFunc(call) {
		case walk:
			args = call.Args
		case fetch:
			if call == rootCall {
				continue
			}
			// one of parent / id must pin the fetch to the subtree
			if parentIdx < len(call.Args) && idIdx < len(call.Args) {
				args = []ast.Expr{call.Args[parentIdx], call.Args[idIdx]}
			}
		default:
			continue
		}
		starts++
		pinned := false
		for _, arg := range args {
			over, fld := fieldOfRange(list, arg)
			if fld != nil && users != nil && over == users && (fld == parentField || fld == idField) {
				pinned = true
			}
		}
		if !pinned {
			bbad = append(bbad, fmt.Sprintf("`%s` at %s does not start at the %s/%s field of one of the user's instances: nodes outside the user's subtrees are listed",
				list.Str(call), list.At(call), parentField.Name(), idField.Name()))
		}
	}
	switch {
	case len(bbad) > 0:
		oB.Violation("%s", strings.Join(bbad, "; "))
	case starts == 0:
		oB.Violation("%s never starts a traversal", list.Name)
	default:
		oB.OK("%d start(s), all at a field of a user instance", starts)
	}

	// ---- (c) the walk stays below its argument
	oC := r7.Ob(walk, nil, "walk stays in the subtree", "the recursive closure fetches under (or exactly) its argument and recurses only on a field of a fetched node")
	var cbad []string
	wparams := walk.Params()
	fetched := map[types.Object]bool{}
	nf := 0
	for _, call := range walk.AllCalls(false) {
		if walk.CalleeFunc(call) != fetch {
			continue
		}
		nf++
		pinned := false
		for _, idx := range []int{parentIdx, idIdx} {
			if len(wparams) == 1 && idx < len(call.Args) && kit.ObjOf(walk.Info(), call.Args[idx]) == types.Object(wparams[0]) {
				pinned = true
			}
		}
		if !pinned {
			cbad = append(cbad, fmt.Sprintf("`%s` fetches neither under nor exactly the closure's argument: the walk leaves the subtree", walk.Str(call)))
		}
		if o := assignedFrom(walk, call); o != nil {
			fetched[o] = true
		}
	}
	for _, call := range walk.AllCalls(false) {
		if walk.CalleeFunc(call) != walk {
			continue
		}
		ok := false
		if len(call.Args) == 1 {
			over, fld := fieldOfRange(walk, call.Args[0])
			ok = fld != nil && over != nil && fetched[over] && (fld == idField || fld == parentField)
		}
		if !ok {
			cbad = append(cbad, fmt.Sprintf("the recursion `%s` does not continue at a node fetched under the current one", walk.Str(call)))
		}
	}
	sort.Strings(cbad)
	switch {
	case len(cbad) > 0:
		oC.Violation("%s", strings.Join(uniqStrings(cbad), "; "))
	case nf == 0:
		oC.Undecided("the closure never fetches")
	default:
		oC.OK("%d fetch(es) pinned to the argument; recursion on a fetched node", nf)
	}
}
