package props

import (
	"fmt"
	"go/ast"
	"go/constant"
	"go/types"
	"regexp"
	"sort"
	"strings"

	"siotcheck/kit"
)

// R6 — bus token wiring; R7 — roots and direction of the user's node listing.

// c09StructOf returns the named struct type that declares field v among the
// package-level types of pkg (nil if none).
func c09StructOf(pkg *types.Package, v *types.Var) *types.Named {
	sc := pkg.Scope()
	for _, name := range sc.Names() {
		tn, ok := sc.Lookup(name).(*types.TypeName)
		if !ok {
			continue
		}
		st, ok := tn.Type().Underlying().(*types.Struct)
		if !ok {
			continue
		}
		for i := 0; i < st.NumFields(); i++ {
			if st.Field(i) == v {
				n, _ := tn.Type().(*types.Named)
				return n
			}
		}
	}
	return nil
}

// c09LitField returns the expression a composite literal gives to field v
// (keyed or positional), or nil.
func c09LitField(info *types.Info, lit *ast.CompositeLit, v *types.Var) ast.Expr {
	t := info.TypeOf(lit)
	if p, ok := t.(*types.Pointer); ok {
		t = p.Elem()
	}
	st, ok := t.Underlying().(*types.Struct)
	if !ok {
		return nil
	}
	idx := -1
	for i := 0; i < st.NumFields(); i++ {
		if st.Field(i) == v {
			idx = i
		}
	}
	if idx < 0 {
		return nil
	}
	for i, el := range lit.Elts {
		if kv, ok := el.(*ast.KeyValueExpr); ok {
			if kit.ObjOf(info, kv.Key) == types.Object(v) {
				return kv.Value
			}
			continue
		}
		if i == idx {
			return el
		}
	}
	return nil
}

// c09Lits lists the composite literals of named struct type nt in package rel.
func c09Lits(c *kit.Ctx, rel string, nt *types.Named) (out []*ast.CompositeLit, in []*kit.Func) {
	for _, f := range c.P.Funcs(rel) {
		if f.Body == nil {
			continue
		}
		ast.Inspect(f.Body, func(n ast.Node) bool {
			if _, ok := n.(*ast.FuncLit); ok && n != ast.Node(f.Lit) {
				return false
			}
			lit, ok := n.(*ast.CompositeLit)
			if !ok {
				return true
			}
			if t, ok := types.Unalias(f.Info().TypeOf(lit)).(*types.Named); ok && t.Obj() == nt.Obj() {
				out = append(out, lit)
				in = append(in, f)
			}
			return true
		})
	}
	return
}

type c09Wire struct {
	c      *kit.Ctx
	optsT  *types.Named // configuration struct of package server
	isOpts map[*types.Var]bool
}

// source resolves an expression of package server to the configuration field
// it reads (through local variables and one level of intermediate option
// structs filled by composite literals); nil when it is anything else.
func (w *c09Wire) source(f *kit.Func, e ast.Expr, depth int) *types.Var {
	if e == nil || depth > 3 {
		return nil
	}
	info := f.Info()
	e = ast.Unparen(e)
	switch x := e.(type) {
	case *ast.Ident:
		if d := c09LocalDef(f, x); d != ast.Expr(x) {
			return w.source(f, d, depth+1)
		}
		return nil
	case *ast.SelectorExpr:
		fld, ok := kit.ObjOf(info, x).(*types.Var)
		if !ok || !fld.IsField() {
			return nil
		}
		if w.isOpts[fld] {
			return fld
		}
		// field of an intermediate struct of the same package
		pk := w.c.P.MustPkg("server")
		nt := c09StructOf(pk.Types, fld)
		if nt == nil {
			return nil
		}
		lits, fs := c09Lits(w.c, "server", nt)
		var res *types.Var
		for i, lit := range lits {
			v := w.source(fs[i], c09LitField(fs[i].Info(), lit, fld), depth+1)
			if v == nil || (res != nil && res != v) {
				return nil
			}
			res = v
		}
		return res
	}
	return nil
}

// c09FieldWritten reports whether some package of the module other than
// `except` assigns or initialises the field `name` of a value of the named
// nats-server type.
func c09FieldWritten(c *kit.Ctx, except, typeName, name string) bool {
	found := false
	for _, pk := range c.P.Roots {
		if !strings.HasPrefix(pk.PkgPath, kit.ModPath) || pk.PkgPath == kit.ModPath+"/"+except {
			continue
		}
		for _, file := range pk.Syntax {
			ast.Inspect(file, func(n ast.Node) bool {
				switch x := n.(type) {
				case *ast.KeyValueExpr:
					if v, ok := kit.ObjOf(pk.TypesInfo, x.Key).(*types.Var); ok && v.IsField() && v.Name() == name && v.Pkg() != nil && v.Pkg().Path() == c09NatsD {
						found = true
					}
				case *ast.AssignStmt:
					for _, l := range x.Lhs {
						if sel, ok := ast.Unparen(l).(*ast.SelectorExpr); ok {
							if v, ok := kit.ObjOf(pk.TypesInfo, sel).(*types.Var); ok && v.IsField() && v.Name() == name && kit.IsNamedType(pk.TypesInfo.TypeOf(sel.X), c09NatsD, typeName) {
								found = true
							}
						}
					}
				}
				return !found
			})
		}
	}
	return found
}

func c09Wiring(c *kit.Ctx, a *c09Anchors) {
	r6 := c.Rule("R6", "bus and HTTP tokens all come from the configured auth token", 4)
	w := &c09Wire{c: c, isOpts: map[*types.Var]bool{}}

	// ---- the instance's own client: nats.Connect(…, nats.Token(x), …)
	var connF *kit.Func
	var connCall *ast.CallExpr
	for _, f := range c.P.Funcs("server") {
		if f.Body == nil {
			continue
		}
		for _, call := range f.AllCalls(false) {
			if kit.CallIs(f.Info(), call, natsPkg+".Connect") {
				if connCall != nil {
					c.Fatalf("package server connects to the bus at two sites")
				}
				connF, connCall = f, call
			}
		}
	}
	if connCall == nil {
		c.Fatalf("package server never calls nats.Connect")
	}
	for _, p := range connF.Root().Params() {
		if nt, ok := types.Unalias(p.Type()).(*types.Named); ok {
			if st, ok := nt.Underlying().(*types.Struct); ok && nt.Obj().Pkg() != nil && nt.Obj().Pkg().Path() == kit.ModPath+"/server" {
				w.optsT = nt
				for i := 0; i < st.NumFields(); i++ {
					if c09IsString(st.Field(i).Type()) {
						w.isOpts[st.Field(i)] = true
					}
				}
			}
		}
	}
	if w.optsT == nil {
		c.Fatalf("%s has no configuration struct parameter", connF.Root().Name)
	}
	c.Analysed(connF)

	type sink struct {
		name string
		f    *kit.Func
		at   ast.Node
		expr ast.Expr
		src  *types.Var
		note string // non-empty: finding independent of the source
		soft bool   // the finding is an absence / something not understood: undecided, not a violation
		ob   string
	}
	var sinks []*sink

	// own client token
	{
		s := &sink{name: "own client token", f: connF, at: connCall, ob: "the instance's own bus client presents the configured token"}
		for _, arg := range connCall.Args {
			if oc, ok := ast.Unparen(arg).(*ast.CallExpr); ok && kit.CallIs(connF.Info(), oc, natsPkg+".Token") && len(oc.Args) == 1 {
				s.expr, s.at = oc.Args[0], oc
			}
		}
		if s.expr == nil {
			s.note, s.soft = "no nats.Token option was recognised among the arguments of nats.Connect", true
		}
		sinks = append(sinks, s)
	}

	// ---- NATS server options: Authorization and Websocket.Token
	isNatsd := func(t types.Type, name string) bool { return kit.IsNamedType(t, c09NatsD, name) }
	var optF *kit.Func
	var authExpr, wsTokExpr ast.Expr
	var authAt, wsTokAt, wsPortAt ast.Node
	var wsF *kit.Func
	for _, f := range c.P.Funcs("server") {
		if f.Body == nil {
			continue
		}
		info := f.Info()
		ast.Inspect(f.Body, func(n ast.Node) bool {
			switch x := n.(type) {
			case *ast.CompositeLit:
				t := info.TypeOf(x)
				switch {
				case isNatsd(t, "Options"):
					optF = f
					for _, el := range x.Elts {
						if kv, ok := el.(*ast.KeyValueExpr); ok {
							if v, ok := kit.ObjOf(info, kv.Key).(*types.Var); ok && v.Name() == "Authorization" {
								authExpr, authAt = kv.Value, kv
							}
						}
					}
				case isNatsd(t, "WebsocketOpts"):
					wsF = f
					for _, el := range x.Elts {
						if kv, ok := el.(*ast.KeyValueExpr); ok {
							if v, ok := kit.ObjOf(info, kv.Key).(*types.Var); ok {
								switch v.Name() {
								case "Token":
									wsTokExpr, wsTokAt = kv.Value, kv
								case "Port":
									wsPortAt = kv
								}
							}
						}
					}
				}
			case *ast.AssignStmt:
				if len(x.Lhs) != len(x.Rhs) {
					return true
				}
				for i, l := range x.Lhs {
					sel, ok := ast.Unparen(l).(*ast.SelectorExpr)
					if !ok {
						continue
					}
					v, ok := kit.ObjOf(info, sel).(*types.Var)
					if !ok || !v.IsField() {
						continue
					}
					switch {
					case isNatsd(info.TypeOf(sel.X), "Options") && v.Name() == "Authorization":
						optF = f
						authExpr, authAt = x.Rhs[i], x
					case isNatsd(info.TypeOf(sel.X), "WebsocketOpts") && v.Name() == "Token":
						wsF = f
						wsTokExpr, wsTokAt = x.Rhs[i], x
					case isNatsd(info.TypeOf(sel.X), "WebsocketOpts") && v.Name() == "Port":
						wsF = f
						wsPortAt = x
					}
				}
			}
			return true
		})
	}
	if optF == nil {
		c.Fatalf("package server builds no nats-server Options value")
	}
	c.Analysed(optF)
	{
		s := &sink{name: "server Authorization", f: optF, at: authAt, expr: authExpr, ob: "the embedded NATS server requires the configured token from every connection"}
		if authExpr == nil {
			s.at = nil
			s.note = "the NATS server options never set Authorization: bus connections without the token are accepted"
			s.soft = c09FieldWritten(c, "server", "Options", "Authorization")
		}
		sinks = append(sinks, s)
	}
	{
		s := &sink{name: "websocket token", f: wsF, at: wsTokAt, expr: wsTokExpr, ob: "the NATS websocket listener requires the configured token whenever it is enabled"}
		switch {
		case wsPortAt == nil && wsTokAt == nil:
			s.f = optF
			s.note = ""
			s.expr = nil
			s.name = "websocket token (listener never enabled)"
		case wsTokAt == nil:
			s.at = wsPortAt
			s.note = "the websocket listener is enabled (Websocket.Port is set) but Websocket.Token never is: websocket bus connections without the token are accepted"
			s.soft = c09FieldWritten(c, "server", "WebsocketOpts", "Token")
		case wsPortAt != nil:
			// the token must be set wherever the port is
			pp, tp := c.P.Parent(wsF.File, wsPortAt), c.P.Parent(wsF.File, wsTokAt)
			if pp != tp {
				g := c.P.Graph(wsF)
				if !g.NodeDominates(wsTokAt, wsPortAt) && !g.NodeDominates(wsPortAt, wsTokAt) {
					// a path witness: some exit is reached with the port set and the token not
					st := &kit.Std{F: wsF}
					st.OnNode = func(n ast.Node, x kit.S) []kit.S {
						if n == wsPortAt {
							x = x.Set("port", "1")
						}
						if n == wsTokAt {
							x = x.Set("tok", "1")
						}
						return []kit.S{x}
					}
					witness := false
					for _, e := range g.Run(kit.NewS(), st.Client()).Exits {
						if e.State.Get("port") == "1" && e.State.Get("tok") != "1" && e.Return != nil && st.ReturnsNil(e.Return, e.State) != "nonnil" {
							witness = true
						}
					}
					if witness {
						s.note = "a path sets Websocket.Port without setting Websocket.Token: the listener can be enabled without the token"
					}
				}
			}
		}
		sinks = append(sinks, s)
	}

	// ---- HTTP gate token: handler field ← constructor parameter ← api args field ← server literal
	{
		s := &sink{name: "HTTP gate token", ob: "the token the HTTP gate compares the Authorization header with is the configured token, not a constant"}
		apiArgsField, why, hard := c09GateTokenOrigin(c, a)
		if apiArgsField == nil {
			s.f = nil
			s.note, s.soft = why, !hard
		} else {
			pk := c.P.MustPkg("api")
			nt := c09StructOf(pk.Types, apiArgsField)
			if nt == nil {
				c.Fatalf("struct declaring api field %s not found", apiArgsField.Name())
			}
			lits, fs := c09Lits(c, "server", nt)
			if len(lits) == 0 {
				c.Fatalf("package server never builds api.%s", nt.Obj().Name())
			}
			for i, lit := range lits {
				s.f, s.at = fs[i], lit
				s.expr = c09LitField(fs[i].Info(), lit, apiArgsField)
				if s.expr == nil {
					s.note = fmt.Sprintf("api.%s is built without %s: the HTTP gate compares the Authorization header with the empty string, so a request without the header is served", nt.Obj().Name(), apiArgsField.Name())
					s.soft = c09FieldAssigned(c, "server", apiArgsField)
				}
			}
		}
		sinks = append(sinks, s)
	}

	// ---- resolve sources and compare
	count := map[*types.Var]int{}
	for _, s := range sinks {
		if s.note == "" && s.expr != nil {
			s.src = w.source(s.f, s.expr, 0)
			if s.src != nil {
				count[s.src]++
			}
		}
	}
	// the configured token is the field the HTTP gate is fed from (R1's
	// "configured token"); failing that the own client's; failing that the majority
	var t0 *types.Var
	tie := false
	for _, name := range []string{"HTTP gate token", "own client token"} {
		for _, s := range sinks {
			if t0 == nil && s.name == name && s.src != nil {
				t0 = s.src
			}
		}
	}
	if t0 == nil {
		best := 0
		for v, n := range count {
			if n > best {
				t0, best = v, n
			}
		}
		for v, n := range count {
			if v != t0 && n == best {
				tie = true
			}
		}
	}
	for _, s := range sinks {
		o := r6.Ob(s.f, s.at, s.name, s.ob)
		switch {
		case s.note != "" && s.soft:
			o.Undecided("%s", s.note)
		case s.note != "":
			o.Violation("%s", s.note)
		case s.expr == nil:
			o.OK("not applicable")
		case s.src == nil && c09IsLiteralValue(s.f.Info(), s.expr):
			o.Violation("%s is fed from the constant `%s`, not from the configuration struct %s", s.name, s.f.Str(s.expr), w.optsT.Obj().Name())
		case s.src == nil:
			o.Undecided("cannot relate `%s` (%s) to a field of the configuration struct %s", s.f.Str(s.expr), s.name, w.optsT.Obj().Name())
		case tie:
			o.Undecided("the token sinks are fed from different configuration fields and there is no majority")
		case s.src != t0:
			o.Violation("%s is fed from configuration field %s while the other token sinks use %s: clients holding the configured token are refused, or another secret opens the bus", s.name, s.src.Name(), t0.Name())
		default:
			o.OK("← %s.%s", w.optsT.Obj().Name(), t0.Name())
		}
	}
}

// c09GateTokenOrigin follows the handler's token field back to a field of an
// argument struct of package api: handler literal element ← constructor
// parameter ← argument `args.F` at the constructor's call site.
func c09GateTokenOrigin(c *kit.Ctx, a *c09Anchors) (*types.Var, string, bool) {
	pk := c.P.MustPkg("api")
	nt := c09StructOf(pk.Types, a.tokenField)
	if nt == nil {
		return nil, "struct declaring the handler's token field not found", false
	}
	lits, fs := c09Lits(c, "api", nt)
	if len(lits) == 0 {
		return nil, fmt.Sprintf("api.%s is never constructed by a composite literal", nt.Obj().Name()), false
	}
	var res *types.Var
	for i, lit := range lits {
		f := fs[i]
		e := c09LitField(f.Info(), lit, a.tokenField)
		if e == nil {
			return nil, fmt.Sprintf("api.%s is built at %s without its token field %s: the gate compares the Authorization header with the empty string", nt.Obj().Name(), f.At(lit), a.tokenField.Name()), !c09FieldAssigned(c, "api", a.tokenField)
		}
		po := kit.ObjOf(f.Info(), e)
		pidx := -1
		for k, p := range f.Params() {
			if types.Object(p) == po {
				pidx = k
			}
		}
		if pidx < 0 {
			return nil, fmt.Sprintf("the handler's token field %s is set to `%s` at %s, not to a constructor parameter", a.tokenField.Name(), f.Str(e), f.At(lit)), c09IsLiteralValue(f.Info(), e)
		}
		// call sites of the constructor inside api
		n := 0
		for _, g := range c.P.Funcs("api") {
			if g.Body == nil {
				continue
			}
			for _, call := range g.AllCalls(false) {
				if g.CalleeFunc(call) != f || pidx >= len(call.Args) {
					continue
				}
				n++
				sel, ok := ast.Unparen(call.Args[pidx]).(*ast.SelectorExpr)
				if !ok {
					return nil, fmt.Sprintf("%s is called at %s with token `%s`, not with a field of the server arguments", f.Name, g.At(call), g.Str(call.Args[pidx])), c09IsLiteralValue(g.Info(), call.Args[pidx])
				}
				v, ok := kit.ObjOf(g.Info(), sel).(*types.Var)
				if !ok || !v.IsField() || c09StructOf(pk.Types, v) == nil {
					return nil, fmt.Sprintf("%s is called at %s with token `%s`, not with a field of the server arguments", f.Name, g.At(call), g.Str(call.Args[pidx])), c09IsLiteralValue(g.Info(), call.Args[pidx])
				}
				if res != nil && res != v {
					return nil, "the gate token comes from different argument fields", false
				}
				res = v
			}
		}
		if n == 0 {
			return nil, fmt.Sprintf("constructor %s is never called inside package api", f.Name), false
		}
	}
	return res, "", false
}

// c09FieldAssigned reports whether package rel assigns to the struct field v
// outside composite literals (`x.f = …`).
func c09FieldAssigned(c *kit.Ctx, rel string, v *types.Var) bool {
	found := false
	pk := c.P.MustPkg(rel)
	for _, file := range pk.Syntax {
		ast.Inspect(file, func(n ast.Node) bool {
			if as, ok := n.(*ast.AssignStmt); ok {
				for _, l := range as.Lhs {
					if sel, ok := ast.Unparen(l).(*ast.SelectorExpr); ok && kit.ObjOf(pk.TypesInfo, sel) == types.Object(v) {
						found = true
					}
				}
			}
			return !found
		})
	}
	return found
}

// ---------------------------------------------------------------------------
// R7

var c09NodesSubject = regexp.MustCompile(`^nodes\.%[vs]\.%[vs]$`)

// c09ListAnchors finds, in package client, the node fetch function (request
// on subject nodes.<parent>.<id>), the user listing function (the
// func(*nats.Conn, string) called from package api from which a recursive
// fetching function is reachable) and that recursive function (closure, method
// or package-level function).
func c09ListAnchors(c *kit.Ctx, a *c09Anchors) {
	a.parentIdx, a.idIdx, a.delIdx = -1, -1, -1
	for _, f := range c.P.Funcs("client") {
		if f.Decl == nil || f.Body == nil {
			continue
		}
		info := f.Info()
		for _, call := range f.AllCalls(false) {
			if !kit.CallIs(info, call, "fmt.Sprintf") || len(call.Args) != 3 {
				continue
			}
			format, ok := kit.ConstString(info, call.Args[0])
			if !ok || !c09NodesSubject.MatchString(format) {
				continue
			}
			if a.fetchFn != nil && a.fetchFn != f {
				c.Fatalf("two functions of package client build a nodes.<parent>.<id> subject: %s and %s", a.fetchFn.Name, f.Name)
			}
			a.fetchFn = f
			for k, p := range f.Params() {
				switch {
				case kit.ObjOf(info, call.Args[1]) == types.Object(p):
					a.parentIdx = k
				case kit.ObjOf(info, call.Args[2]) == types.Object(p):
					a.idIdx = k
				case c09IsBool(p.Type()):
					a.delIdx = k
				}
			}
		}
	}
	if a.fetchFn == nil || a.parentIdx < 0 || a.idIdx < 0 || a.delIdx < 0 {
		c.Fatalf("node fetch function of package client (subject nodes.<parent>.<id>, bool include-deleted parameter) not found")
	}
	// client functions called from package api
	fromAPI := map[*kit.Func]bool{}
	for _, g := range c.P.Funcs("api") {
		if g.Body == nil {
			continue
		}
		for _, call := range g.AllCalls(true) {
			if cf := g.CalleeFunc(call); cf != nil && cf.PkgRel() == "client" {
				fromAPI[cf] = true
			}
		}
	}
	for _, f := range c.P.Funcs("client") {
		if f.Decl == nil || f.Body == nil || !fromAPI[f] {
			continue
		}
		ps := f.Params()
		if len(ps) != 2 || !kit.IsNamedType(ps[0].Type(), natsPkg, "Conn") || !c09IsString(ps[1].Type()) {
			continue
		}
		var walk *kit.Func
		for _, g := range c09Closure(f) {
			if g.Body == nil || g == f {
				continue
			}
			rec, fetches := false, false
			for _, call := range g.AllCalls(false) {
				switch g.CalleeFunc(call) {
				case g:
					rec = true
				case a.fetchFn:
					fetches = true
				}
			}
			if rec && fetches {
				walk = g
			}
		}
		if walk == nil {
			continue
		}
		if a.listFn != nil {
			c.Fatalf("two listing functions found in package client: %s and %s", a.listFn.Name, f.Name)
		}
		a.listFn, a.walkFn = f, walk
	}
	if a.listFn == nil {
		c.Fatalf("user listing function (func(*nats.Conn, string) called from package api that reaches a recursive fetching function) not found in package client")
	}
}

func c09Listing(c *kit.Ctx, a *c09Anchors) {
	r7 := c.Rule("R7", "user listing: the validated user, live instances as roots, walk stays in the subtree", 4)
	fetch, list, walk := a.fetchFn, a.listFn, a.walkFn
	parentIdx, idIdx, delIdx := a.parentIdx, a.idIdx, a.delIdx
	c.Analysed(list, walk, fetch)
	info := list.Info()
	userParam := list.Params()[1]

	// ---- (0) whose listing: recorded by the typestate run over the gated handlers
	{
		var f0 *kit.Func
		var at ast.Node
		if len(a.listCalls) > 0 {
			f0, at = a.listCalls[0].f, a.listCalls[0].call
		}
		o := r7.Ob(f0, at, "listing subject", "the listing is asked for the user id the JWT validator returned for this request")
		switch {
		case len(a.listCalls) == 0:
			o.Undecided("no interpreted path of a gated handler calls the user listing %s", list.Name)
		default:
			bad, murky := "", ""
			for _, lc := range a.listCalls {
				switch {
				case lc.bad != "" && lc.murky && murky == "":
					murky = lc.bad
				case lc.bad != "" && !lc.murky && bad == "":
					bad = lc.bad
				}
			}
			switch {
			case bad != "":
				o.Violation("%s", bad)
			case murky != "":
				o.Undecided("%s — but the user id went through code that was not interpreted", murky)
			default:
				o.OK("%d call site(s), user id = second result of the validator", len(a.listCalls))
			}
		}
	}

	// wire names of the node struct
	var idField, parentField *types.Var
	if sl, ok := list.Obj.Type().(*types.Signature).Results().At(0).Type().Underlying().(*types.Slice); ok {
		if st, ok := sl.Elem().Underlying().(*types.Struct); ok {
			for i := 0; i < st.NumFields(); i++ {
				switch c09JSONName(st, i) {
				case "id":
					idField = st.Field(i)
				case "parent":
					parentField = st.Field(i)
				}
			}
		}
	}
	if idField == nil || parentField == nil {
		c.Fatalf("%s does not return a slice of structs with JSON fields id and parent", list.Name)
	}

	// range statements of package client by their value variable
	rangeOf := map[types.Object]*ast.RangeStmt{}
	funcOfRange := map[*ast.RangeStmt]*kit.Func{}
	for _, g := range c.P.Funcs("client") {
		if g.Body == nil {
			continue
		}
		for _, r := range g.SliceLoops(g.Node()) {
			for o := range kit.ElemAliases(info, r) {
				rangeOf[o] = r
				if funcOfRange[r] == nil || g.Lit != nil {
					funcOfRange[r] = g
				}
			}
		}
	}

	fl := newC09Flow(list)
	fl.inline = c09SamePkg(fetch)
	fl.roles = func(call *ast.CallExpr) []string {
		if fl.cur().CalleeFunc(call) == fetch && idIdx < len(call.Args) && fl.obj(call.Args[idIdx]) == types.Object(userParam) {
			return []string{"users"}
		}
		return nil
	}
	// classify: where does a start / fetch argument come from?
	//   "inst"  — the parent or id field of one of the user's instances
	//   "const" — a constant (e.g. "root", "all")
	//   "field" — another field of an instance
	//   ""      — unknown
	classify := func(e ast.Expr, s kit.S) string {
		e = ast.Unparen(fl.st.Resolve(e))
		if _, ok := kit.ConstString(info, e); ok {
			return "const"
		}
		sel, ok := e.(*ast.SelectorExpr)
		if !ok {
			return ""
		}
		fld, _ := kit.ObjOf(info, sel).(*types.Var)
		vo := kit.ObjOf(info, fl.st.Resolve(sel.X))
		if fld == nil || vo == nil {
			return ""
		}
		r := rangeOf[vo]
		if r == nil {
			// a plain copy of a range variable (`un := inst`)
			for g := range map[*kit.Func]bool{fl.cur(): true, list: true} {
				if d := c09LocalDef(g, sel.X); d != sel.X {
					if o := kit.ObjOf(info, d); o != nil && rangeOf[o] != nil {
						r = rangeOf[o]
					}
				}
			}
		}
		if r == nil || fl.roleOf(r.X, s) != "users" {
			return ""
		}
		if fld == parentField || fld == idField {
			return "inst"
		}
		return "field"
	}
	inWalk := func() bool {
		if fl.cur() == walk {
			return true
		}
		for _, g := range fl.stack {
			if g == walk {
				return true
			}
		}
		return false
	}
	var rootCalls []*ast.CallExpr
	rootBad, rootMurky := "", ""
	starts := 0
	var startBad, startMurky []string
	fl.onCall = func(call *ast.CallExpr, n ast.Node, s kit.S) []kit.S {
		cur := fl.cur()
		cf := cur.CalleeFunc(call)
		switch {
		case cf == fetch && idIdx < len(call.Args) && fl.obj(call.Args[idIdx]) == types.Object(userParam):
			rootCalls = append(rootCalls, call)
			if delIdx < len(call.Args) {
				v, ok := fl.st.FoldExpr(fl.st.Resolve(call.Args[delIdx]), s)
				switch {
				case ok && v.Kind() == constant.Bool && !constant.BoolVal(v):
				case ok && v.Kind() == constant.Bool:
					rootBad = fmt.Sprintf("the user's instances are fetched with include-deleted = true at %s: a user removed from a group still lists that group's subtree", cur.At(call))
				default:
					rootMurky = fmt.Sprintf("include-deleted argument `%s` of %s is not a known constant", cur.Str(call.Args[delIdx]), cur.Str(call))
				}
			}
		case cf == fetch && !inWalk():
			starts++
			kinds := []string{}
			for _, idx := range []int{parentIdx, idIdx} {
				if idx < len(call.Args) {
					kinds = append(kinds, classify(call.Args[idx], s))
				}
			}
			switch {
			case contains(kinds, "inst"):
			case contains(kinds, ""):
				startMurky = append(startMurky, fmt.Sprintf("cannot relate `%s` at %s to the user's instances", cur.Str(call), cur.At(call)))
			default:
				startBad = append(startBad, fmt.Sprintf("`%s` at %s is pinned neither to the %s nor to the %s field of one of the user's instances: nodes outside the user's subtrees are listed",
					cur.Str(call), cur.At(call), parentField.Name(), idField.Name()))
			}
		case cf == walk && !inWalk():
			starts++
			kind := "?"
			for i, p := range walk.Params() {
				if c09IsString(p.Type()) && i < len(call.Args) {
					kind = classify(call.Args[i], s)
				}
			}
			switch kind {
			case "inst":
			case "", "?":
				startMurky = append(startMurky, fmt.Sprintf("cannot relate the start `%s` at %s to the user's instances", cur.Str(call), cur.At(call)))
			default:
				startBad = append(startBad, fmt.Sprintf("the traversal `%s` at %s does not start at the %s/%s field of one of the user's instances: nodes outside the user's subtrees are listed",
					cur.Str(call), cur.At(call), parentField.Name(), idField.Name()))
			}
		}
		return nil
	}
	fl.run(c, kit.NewS())

	var at0 ast.Node
	if len(rootCalls) > 0 {
		at0 = rootCalls[0]
	}
	oA := r7.Ob(list, at0, "user instances", "the instances of the user node are fetched by the user id and without deleted nodes")
	switch {
	case rootBad != "":
		oA.Violation("%s", rootBad)
	case rootMurky != "":
		oA.Undecided("%s", rootMurky)
	case len(rootCalls) == 0:
		oA.Undecided("no interpreted path of %s fetches the nodes of its user id parameter", list.Name)
	default:
		oA.OK("%s", list.Str(rootCalls[0]))
	}

	oB := r7.Ob(list, nil, "listing roots", "every traversal and every top-level fetch starts at the parent (or id) field of one of the user's live instances")
	switch {
	case len(startBad) > 0:
		oB.Violation("%s", strings.Join(uniqStrings(startBad), "; "))
	case len(startMurky) > 0:
		oB.Undecided("%s", strings.Join(uniqStrings(startMurky), "; "))
	case starts == 0:
		oB.Undecided("no interpreted path of %s starts a traversal", list.Name)
	default:
		oB.OK("every start is pinned to a field of a user instance")
	}

	// ---- (c) the walk stays below its argument (decided on the recursive function itself)
	oC := r7.Ob(walk, nil, "walk stays in the subtree", "the recursive function fetches under (or exactly) its argument and recurses only on a field of a fetched node")
	var cbad, cmurky []string
	var wparam types.Object
	for _, p := range walk.Params() {
		if c09IsString(p.Type()) {
			wparam = p
		}
	}
	winfo := walk.Info()
	fetched := map[types.Object]bool{}
	nf := 0
	for _, call := range walk.AllCalls(false) {
		if walk.CalleeFunc(call) != fetch {
			continue
		}
		nf++
		pinned, allConst := false, true
		for _, idx := range []int{parentIdx, idIdx} {
			if idx >= len(call.Args) {
				continue
			}
			if wparam != nil && kit.ObjOf(winfo, call.Args[idx]) == wparam {
				pinned = true
			}
			if _, ok := kit.ConstString(winfo, call.Args[idx]); !ok {
				allConst = false
			}
		}
		switch {
		case pinned:
		case allConst:
			cbad = append(cbad, fmt.Sprintf("`%s` fetches neither under nor exactly the walk's argument: the walk leaves the subtree", walk.Str(call)))
		default:
			cmurky = append(cmurky, fmt.Sprintf("cannot relate `%s` to the walk's argument", walk.Str(call)))
		}
		if as, ok := c.P.Parent(walk.File, call).(*ast.AssignStmt); ok && len(as.Lhs) > 0 {
			if o := kit.ObjOf(winfo, as.Lhs[0]); o != nil {
				fetched[o] = true
			}
		}
	}
	for _, call := range walk.AllCalls(false) {
		if walk.CalleeFunc(call) != walk {
			continue
		}
		var arg ast.Expr
		for i, p := range walk.Params() {
			if types.Object(p) == wparam && i < len(call.Args) {
				arg = call.Args[i]
			}
		}
		ok := false
		isConst := false
		if arg != nil {
			_, isConst = kit.ConstString(winfo, arg)
			if sel, isSel := ast.Unparen(arg).(*ast.SelectorExpr); isSel {
				fld, _ := kit.ObjOf(winfo, sel).(*types.Var)
				if r := rangeOf[kit.ObjOf(winfo, sel.X)]; r != nil && fetched[kit.ObjOf(winfo, r.X)] && (fld == idField || fld == parentField) {
					ok = true
				}
			}
		}
		switch {
		case ok:
		case isConst:
			cbad = append(cbad, fmt.Sprintf("the recursion `%s` restarts at a constant instead of a node fetched under the current one", walk.Str(call)))
		default:
			cmurky = append(cmurky, fmt.Sprintf("cannot relate the recursion `%s` to a node fetched under the current one", walk.Str(call)))
		}
	}
	sort.Strings(cbad)
	switch {
	case len(cbad) > 0:
		oC.Violation("%s", strings.Join(uniqStrings(cbad), "; "))
	case len(cmurky) > 0:
		oC.Undecided("%s", strings.Join(uniqStrings(cmurky), "; "))
	case nf == 0:
		oC.Undecided("the recursive function never fetches")
	default:
		oC.OK("%d fetch(es) pinned to the argument; recursion on a fetched node", nf)
	}
}
